// ---- prelude/map_json_models.rs: the part of the pinned serde_json (1.0.x, see Cargo.lock) that
// src/convert/json.rs builds values with (inside verus!) ----
// needs: prelude/map_json_data.rs
pub mod serde_json {
    use vstd::prelude::*;
    use super::*;

    // ---------- Number ----------
    // serde_json/src/number.rs: `struct Number { n: N }`, `enum N { PosInt(u64), NegInt(i64), Float(f64) }`
    // ("NegInt: always less than zero", "Float: always finite").  Seen from an i64/f64 producer that is:
    pub enum NumV { Int(i64), Float(f64) }

    #[verifier::external_body]
    pub struct Number { _p: u8 }

    impl Number {
        pub uninterp spec fn view(&self) -> NumV;

        // number.rs `pub fn from_f64(f: f64) -> Option<Number>`:
        //   `if f.is_finite() { Some(Number { n: N::Float(f) }) } else { None }`
        // ("Converts a finite f64 to a Number. Infinite or NaN values are not JSON numbers.")
        #[verifier::external_body]
        pub fn from_f64(f: f64) -> (r: Option<Number>)
            ensures
                f64_is_finite(f) ==> r is Some && r->Some_0@ == NumV::Float(f),
                !f64_is_finite(f) ==> r is None,
        { unimplemented!() }
    }

    // number.rs `impl_from_signed!(i8, i16, i32, i64, isize)`:
    //   `fn from(i: i64) -> Self { Number { n: if i < 0 { N::NegInt(i as i64) } else { N::PosInt(i as u64) } } }`
    // i.e. the integer itself, exactly.
    impl From<i64> for Number {
        #[verifier::external_body]
        fn from(i: i64) -> (r: Number)
            ensures r@ == NumV::Int(i)
        { unimplemented!() }
    }

    // ---------- Map ----------
    // serde_json/src/map.rs: `pub struct Map<K, V> { map: MapImpl<K, V> }` with
    // `#[cfg(not(feature = "preserve_order"))] type MapImpl<K, V> = BTreeMap<K, V>;`  ucg does not enable
    // `preserve_order` (Cargo.lock: serde_json depends on itoa, memchr, serde, serde_core, zmij - no indexmap),
    // so a Map is a BTreeMap<String, Value>: a finite map from key text to value, iterated in key order.
    // The view is that finite map.  (The struct is transparent only so that values inside a Map count as
    // structurally smaller than the Map - needed to define the recursive view of `Value`.)
    pub struct Map<K, V> { pub g: Ghost<vstd::map::Map<Seq<char>, V>>, pub k: Ghost<Option<K>> }

    impl<K, V> Map<K, V> {
        pub open spec fn view(&self) -> vstd::map::Map<Seq<char>, V> { self.g@ }
    }

    // map.rs `pub enum Entry<'a> { Vacant(VacantEntry<'a>), Occupied(OccupiedEntry<'a>) }`: a position in the
    // borrowed map for one key.
    pub struct Entry<'a> { pub map: &'a mut Map<String, Value>, pub key: Ghost<Seq<char>> }

    impl Map<String, Value> {
        // map.rs `pub fn new() -> Self { Map { map: MapImpl::new() } }`
        #[verifier::external_body]
        pub fn new() -> (r: Self)
            ensures r@ == vstd::map::Map::<Seq<char>, Value>::empty()
        { unimplemented!() }

        // map.rs `pub fn entry<S: Into<String>>(&mut self, key: S) -> Entry`: `self.map.entry(key.into())`;
        // the map is not changed, the entry remembers the key.  (R7: S is `&str` at json.rs's call sites.)
        #[verifier::external_body]
        pub fn entry<'a>(&'a mut self, key: &str) -> (e: Entry<'a>)
            ensures *e.map == *old(self), e.key@ == key@, *final(e.map) == *final(self)
        { unimplemented!() }
    }

    impl<'a> Entry<'a> {
        // map.rs `pub fn or_insert(self, default: Value) -> &'a mut Value`:
        //   `match self { Entry::Vacant(entry) => entry.insert(default), Entry::Occupied(entry) => entry.into_mut() }`
        // ("Ensures a value is in the entry by inserting the default if empty"): FIRST INSERT WINS - a key
        // that is already present keeps its value and `default` is dropped.
        // The returned `&mut Value` is not used by json.rs and is not modelled.
        #[verifier::external_body]
        pub fn or_insert(self, default: Value)
            ensures final(self.map)@ == (if old(self.map)@.dom().contains(self.key@) { old(self.map)@ } else { old(self.map)@.insert(self.key@, default) })
        { unimplemented!() }
    }

    // ---------- Value: the dependency's public enum, verbatim ----------
    //@ extract dep:serde_json/src/value/mod.rs :: enum Value
    //@   rule R0
    //@ end
}

// ---------- what a decoder sees in a serde_json::Value ----------
// ASSUMPTION (DESIGN §5 C03): `serde_json::to_writer_pretty` prints this view faithfully and independent
// decoders agree on it.
pub open spec fn jview(j: serde_json::Value) -> D
    decreases j, 0int
{
    match j {
        serde_json::Value::Null => D::Null,
        serde_json::Value::Bool(b) => D::Bool(b),
        serde_json::Value::Number(n) => match n@ {
            serde_json::NumV::Int(i) => D::Int(i),
            serde_json::NumV::Float(f) => D::Float(f),
        },
        serde_json::Value::String(s) => D::Str(s@),
        serde_json::Value::Array(a) => D::List(jlist(a@)),
        serde_json::Value::Object(m) => D::Obj(jobj(m@)),
    }
}

// an array: element-wise, same order
pub open spec fn jlist(a: Seq<serde_json::Value>) -> Seq<D>
    decreases a, 1int
{
    Seq::new(a.len(), |i: int| if 0 <= i < a.len() { jview(a[i]) } else { D::Null })
}

// an object: same keys, value-wise
pub open spec fn jobj(m: vstd::map::Map<Seq<char>, serde_json::Value>) -> Map<Seq<char>, D>
    decreases m, 1int
{
    Map::new(m.dom(), |k: Seq<char>| if m.dom().contains(k) { jview(m[k]) } else { D::Null })
}

// the shape of every contract below: Ok(j) exactly when the oracle has a tree, and then j's view IS that
// tree; Err exactly when the oracle says "must be an error"
pub open spec fn json_agrees(want: Option<D>, r: std::io::Result<serde_json::Value>) -> bool {
    match r {
        Ok(j) => want == Some(jview(j)),
        Err(_) => want is None,
    }
}
