// ---- prelude/unmap_toml_models.rs: the toml crate's value types as `convert_toml_val` sees them (inside verus!) ----
// needs prelude/unmap_json_data.rs.
// Pinned toml 0.5.11 is built with features ["default"] (target/debug/.fingerprint/toml-*/lib-toml.json;
// Cargo.lock lists only serde as its dependency): `preserve_order` is OFF -> `toml::value::Table =
// Map<String, Value>` wraps a std BTreeMap: iteration is in ASCENDING KEY ORDER, not in document order.
// `enum Value`, `type Array`, `type Table` are EXTRACTED from the pinned dependency source; `Map` is a hand-written
// model (same as serde_json's), `Datetime` is opaque.
pub mod toml {
    use super::*;

    // toml::value::Datetime (datetime.rs): only formatted (`format!("{}", d)`) by the mapper - opaque.
    #[verifier::external_body]
    pub struct Datetime { _p: u8 }

    // MODEL of toml::map::Map<K, V> (map.rs: `struct Map<K, V> { map: BTreeMap<K, V> }`): the entries in the
    // order the map's iterator yields them. `len` is the number of entries; `for (k, v) in &map`
    // (map.rs `impl IntoIterator for &Map`: `self.map.iter()`) yields every entry once, in that order.
    pub struct Map<K, V> { pub entries: Vec<(K, V)> }
    impl<K, V> View for Map<K, V> {
        type V = Seq<(K, V)>;
        open spec fn view(&self) -> Seq<(K, V)> { self.entries@ }
    }
    impl<K, V> Map<K, V> {
        pub fn len(&self) -> (r: usize)
            ensures r == self@.len()
        { self.entries.len() }
    }
    impl<'a, K, V> IntoIterator for &'a Map<K, V> {
        type Item = &'a (K, V);     // toml: (&'a K, &'a V) — the pattern `(key, value)` binds the same references
        type IntoIter = std::slice::Iter<'a, (K, V)>;
        fn into_iter(self) -> (r: std::slice::Iter<'a, (K, V)>)
            ensures
                r.obeys_prophetic_iter_laws(), r.decrease() is Some,
                r.remaining().len() == self@.len(),
                forall|k: int| 0 <= k < self@.len() ==> *(#[trigger] r.remaining()[k]) == self@[k],
        { self.entries.iter() }
    }

//@ extract dep:toml/src/value.rs :: enum Value
//@   rule R0
//@ end
//@ extract dep:toml/src/value.rs :: type Array
//@   rule R0
//@ end
//@ extract dep:toml/src/value.rs :: type Table
//@   rule R0
//@ end

    // toml::de::Error / `toml::from_slice::<Value>`: the dependency's PARSER. ASSUMED to be a deterministic function
    // of the bytes, `toml_parse`: Some(value) or None (malformed document).
    #[verifier::external_body]
    pub struct Error { _p: u8 }
    #[verifier::external_body]
    pub fn from_slice(bytes: &[u8]) -> (r: Result<Value, Error>)
        ensures match toml_parse(bytes@) { Some(v) => r == Ok::<Value, Error>(v), None => r is Err }
    { unimplemented!() }
}
pub uninterp spec fn toml_parse(bytes: Seq<u8>) -> Option<toml::Value>;
// `?` on the parser's error: std `impl<E: Error> From<E> for Box<dyn Error>`.
impl From<toml::Error> for VBoxDynError {
    #[verifier::external_body]
    fn from(e: toml::Error) -> (r: VBoxDynError) { unimplemented!() }
}

// `impl Display for toml::value::Datetime` (the crate's RFC 3339 rendering): an uninterpreted function of the value.
pub uninterp spec fn toml_datetime_text(d: toml::Datetime) -> Seq<char>;
// `format!("{}", d).into()` at the Datetime arm (R1, dedicated stub: the content matters here)
#[verifier::external_body]
pub fn verif_fmt_toml_datetime(d: &toml::Datetime) -> (r: Rc<str>)
    ensures r@ == toml_datetime_text(*d)
{ unimplemented!() }
