// ---- prelude/lsp_loop_server.rs: crossbeam_channel + lsp_server as far as the LSP message loop touches them ----
// (outside verus!)
//
// crossbeam_channel (version pinned by Cargo.lock): the two ends of an unbounded channel, as GHOST-LOGGED ends.
//  * Sender<T>: `log` is the sequence of messages delivered so far.  R11: the real `send(&self, ..)` works through
//    interior mutability; here it takes `&mut self`.  ASSUMED (crossbeam-channel/src/channel.rs, `Sender::send` on an
//    unbounded channel): never blocks, never panics; returns Err exactly when the channel is disconnected, and a
//    disconnected channel stays disconnected (`closed`).  WHEN the other side disconnects is not determined by
//    anything the loop can see: a send on a channel not known to be closed may fail, and then closes it.
//  * Receiver<T>: `input` is the whole sequence of messages that will ever be taken from this end, `pos` how many
//    have been taken.  `for m in &receiver` is `loop { match receiver.recv().ok() { Some(m) => .., None => break } }`
//    (crossbeam-channel/src/channel.rs `impl Iterator for Iter`): `verif_iter_next` is that `next()`; it blocks until
//    a message arrives and yields None once the channel is disconnected and drained (= the input is exhausted).
//    `recv_timeout` may in addition give up (timeout) although a message would still have come.
pub mod crossbeam_channel {
    use vstd::prelude::*;
    verus! {
    pub struct Sender<T> { pub log: Ghost<Seq<T>>, pub closed: Ghost<bool> }
    pub struct Receiver<T> { pub input: Ghost<Seq<T>>, pub pos: Ghost<nat> }
    // crossbeam-channel/src/err.rs
    pub struct SendError<T>(pub T);
    pub enum RecvTimeoutError { Timeout, Disconnected }

    impl<T> Sender<T> {
        #[verifier::external_body]
        pub fn send(&mut self, msg: T) -> (r: Result<(), SendError<T>>)
            ensures
                old(self).closed@ ==> r is Err,
                r is Ok ==> final(self).log@ == old(self).log@.push(msg) && final(self).closed@ == old(self).closed@,
                r is Err ==> final(self).log@ == old(self).log@ && final(self).closed@,
        { unimplemented!() }
    }
    impl<T> Receiver<T> {
        pub open spec fn exhausted(&self) -> bool { self.pos@ >= self.input@.len() }
        #[verifier::external_body]
        pub fn verif_iter_next(&mut self) -> (r: Option<T>)
            ensures
                final(self).input@ == old(self).input@,
                old(self).exhausted() ==> r is None && final(self).pos@ == old(self).pos@,
                !old(self).exhausted() ==> r == Some(old(self).input@[old(self).pos@ as int]) && final(self).pos@ == old(self).pos@ + 1,
        { unimplemented!() }
        #[verifier::external_body]
        pub fn recv_timeout(&mut self, timeout: std::time::Duration) -> (r: Result<T, RecvTimeoutError>)
            ensures
                final(self).input@ == old(self).input@,
                old(self).exhausted() ==> r is Err,
                r is Err ==> final(self).pos@ == old(self).pos@,
                r matches Ok(m) ==> !old(self).exhausted() && m == old(self).input@[old(self).pos@ as int] && final(self).pos@ == old(self).pos@ + 1,
        { unimplemented!() }
    }
    }
}

// lsp_server (version pinned by Cargo.lock): the message types and their constructors / accessors are the REAL text
// (R0: attributes and derives dropped; RV: private fields made visible to the specification).
pub mod lsp_server {
    use vstd::prelude::*;
    use crate::serde;
    use crate::serde_json;
    use crate::serde::de::DeserializeOwned;
    use crate::crossbeam_channel::{Sender, Receiver, RecvTimeoutError};
    use crate::verif_msg;   // R1 (prelude/core.rs)
    verus! {
//@ extract dep:lsp-server/src/msg.rs :: enum Message
//@   rule R0
//@ end
//@ extract dep:lsp-server/src/msg.rs :: struct RequestId
//@   rule R0
//@   subst "pub struct RequestId(IdRepr);" => "pub struct RequestId(pub IdRepr);"
//@ end
//@ extract dep:lsp-server/src/msg.rs :: enum IdRepr
//@   rule R0
//@   subst "enum IdRepr" => "pub enum IdRepr"
//@ end
//@ extract dep:lsp-server/src/msg.rs :: impl From<i32> for RequestId
//@ end
    impl vstd::std_specs::convert::FromSpecImpl<i32> for RequestId {
        open spec fn obeys_from_spec() -> bool { true }
        open spec fn from_spec(id: i32) -> RequestId { RequestId(IdRepr::I32(id)) }
    }
    // `#[derive(Clone)]` on RequestId (an i32 or a String): structural
    impl Clone for RequestId {
        #[verifier::external_body]
        fn clone(&self) -> (r: Self) ensures r == *self { unimplemented!() }
    }
//@ extract dep:lsp-server/src/msg.rs :: struct Request
//@   rule R0
//@ end
//@ extract dep:lsp-server/src/msg.rs :: struct Response
//@   rule R0
//@ end
//@ extract dep:lsp-server/src/msg.rs :: struct ResponseError
//@   rule R0
//@ end
//@ extract dep:lsp-server/src/msg.rs :: enum ErrorCode
//@   rule R0
//@ end
//@ extract dep:lsp-server/src/msg.rs :: struct Notification
//@   rule R0
//@ end
//@ extract dep:lsp-server/src/error.rs :: enum ExtractError
//@   rule R0
//@ end
//@ extract dep:lsp-server/src/error.rs :: struct ProtocolError
//@   rule R0
//@ end
//@ extract dep:lsp-server/src/lib.rs :: struct Connection
//@   rule R0
//@ end

    // JSON-RPC: a response is a success iff it carries no `error` member
    pub open spec fn resp_ok(r: Response) -> bool { r.error is None && r.result is Some }

    // ---------- what the client sees: the abstraction of a sent message the contracts speak about ----------
    pub enum Sent {
        // a response to the request `id`: a result (`ok`) or an error
        Response { id: RequestId, ok: bool },
        // a notification: its method and its serialised parameters
        Notification { method: Seq<char>, params: serde_json::Value },
        // a server-to-client request (the code under contract never sends one)
        Request,
    }
    pub open spec fn abs(m: Message) -> Sent {
        match m {
            Message::Response(r) => Sent::Response { id: r.id, ok: resp_ok(r) },
            Message::Notification(n) => Sent::Notification { method: n.method@, params: n.params },
            Message::Request(_) => Sent::Request,
        }
    }
    pub open spec fn is_exit_msg(m: Message) -> bool { m matches Message::Notification(n) && n.method@ == "exit"@ }
    pub open spec fn is_shutdown_msg(m: Message) -> bool { m matches Message::Request(q) && q.method@ == "shutdown"@ }
    pub open spec fn sent_of(log: Seq<Message>) -> Seq<Sent> { log.map_values(|m: Message| abs(m)) }
    // PROVED: one more delivered message is one more entry
    pub broadcast proof fn lemma_sent_push(log: Seq<Message>, m: Message)
        ensures #[trigger] sent_of(log.push(m)) == sent_of(log).push(abs(m))
    { assert(sent_of(log.push(m)) =~= sent_of(log).push(abs(m))); }
    impl Connection {
        // everything delivered to the client so far
        pub open spec fn sent(&self) -> Seq<Sent> { sent_of(self.sender.log@) }
        pub open spec fn closed(&self) -> bool { self.sender.closed@ }
        pub open spec fn input(&self) -> Seq<Message> { self.receiver.input@ }
        pub open spec fn pos(&self) -> int { self.receiver.pos@ as int }
    }

//@ extract dep:lsp-server/src/msg.rs :: impl Response :: fn new_ok
//@   ret r
//@   sig <<<
        ensures r.id == id, resp_ok(r), r.result == Some(result.json()),
//@   >>>
//@ end
//@ extract dep:lsp-server/src/msg.rs :: impl Response :: fn new_err
//@   ret r
//@   sig <<<
        ensures r.id == id, !resp_ok(r), (r.error matches Some(e) && e.code == code),
//@   >>>
//@ end
//@ extract dep:lsp-server/src/msg.rs :: impl Request :: fn extract
//@   ret r
//@   sig <<<
        ensures
            self.method@ == method@ && serde_json::readable::<P>(self.params)
                ==> (r matches Ok((id, p)) && id == self.id && p == serde_json::decoded::<P>(self.params)),
            !(self.method@ == method@ && serde_json::readable::<P>(self.params)) ==> r is Err,
//@   >>>
//@ end
//@ extract dep:lsp-server/src/msg.rs :: impl Request :: fn is_shutdown
//@   ret r
//@   sig <<<
        ensures r == (self.method@ == "shutdown"@)
//@   >>>
//@ end
//@ extract dep:lsp-server/src/msg.rs :: impl Notification :: fn new
//@   ret r
//@   sig <<<
        ensures r.method == method, r.params == params.json(),
//@   >>>
//@ end
//@ extract dep:lsp-server/src/msg.rs :: impl Notification :: fn is_exit
//@   ret r
//@   sig <<<
        ensures r == (self.method@ == "exit"@)
//@   >>>
//@ end

    // lsp-server/src/error.rs `pub(crate) fn new(msg: impl Into<String>) -> Self`: message text, not part of the contract
    impl ProtocolError {
        #[verifier::external_body]
        pub fn new<S>(msg: S) -> ProtocolError { unimplemented!() }
    }
    // the length of the timeout is not modelled (see Receiver::recv_timeout)
    pub assume_specification [std::time::Duration::from_secs] (_0: u64) -> std::time::Duration;
//@ extract dep:lsp-server/src/msg.rs :: impl From<Response> for Message
//@ end
    // vstd ties `From::from` / `Into::into` to `FromSpec`: the spec-level reading of the impl above (proved against it)
    impl vstd::std_specs::convert::FromSpecImpl<Response> for Message {
        open spec fn obeys_from_spec() -> bool { true }
        open spec fn from_spec(response: Response) -> Message { Message::Response(response) }
    }
    // `Connection::handle_shutdown`, the REAL text.  Not a shutdown request: nothing happens.  A shutdown request: it is
    // answered here (a failing send is IGNORED: `let _ =`), then exactly one more message is awaited -- Ok(true) iff
    // that is the exit notification; any other message, or none within the timeout, is a ProtocolError.
//@ extract dep:lsp-server/src/lib.rs :: impl Connection :: fn handle_shutdown
//@   rule R1
// R11: channel ends are `&mut` here (see crossbeam_channel above)
//@   subst "(&self, req" => "(&mut self, req"
//@   ret r
//@   sig <<<
        ensures
            final(self).input() == old(self).input(),
            !(req.method@ == "shutdown"@) ==> (r matches Ok(b) && !b) && *final(self) == *old(self),
            req.method@ == "shutdown"@ ==> {
                &&& (final(self).sent() =~= old(self).sent().push(Sent::Response { id: req.id, ok: true }) && final(self).closed() == old(self).closed()
                     || final(self).sent() == old(self).sent() && final(self).closed())
                &&& match r {
                        Ok(b) => b && old(self).pos() < old(self).input().len() && is_exit_msg(old(self).input()[old(self).pos()])
                                 && final(self).pos() == old(self).pos() + 1,
                        Err(_) => final(self).pos() == old(self).pos()
                                  || (old(self).pos() < old(self).input().len() && !is_exit_msg(old(self).input()[old(self).pos()])
                                      && final(self).pos() == old(self).pos() + 1),
                    }
            },
//@   >>>
//@ end
    }
}
