// ---- prelude/build_cmd_env.rs: what `ucg build` (main.rs: build_command, visit_ucg_files, do_compile, build_file)
// sees of the shared Environment, of the file system and of the command line.  Everything in this file is a TRUSTED
// MODEL (R5/R7/R8/R11/R12); the modelling follows units test_cmd / verdict (prelude/collector_env.rs), with two changes:
// the import value cache is a FIELD of the stand-in (so `env.borrow_mut().val_cache.clear()` is verified verbatim,
// wherever the source puts it, and its effect is OBSERVABLE), and directory listings are a function of the path.
// needs: `use std::rc::Rc;` before verus!, prelude/core.rs

// `Box<dyn Error>` (R5: dyn Trait is outside Verus): an opaque error value.
#[verifier::external_body]
pub struct VBoxErr { _p: u8 }

// ---------- the import value cache ----------
// Stand-in for `BTreeMap<Rc<str>, Rc<Value>>` (Environment.val_cache): its view is the set of (normalised) import
// paths that currently have a cached value.  The one operation the driver uses is `clear()`.
pub struct VValCache { pub keys: Ghost<Set<Seq<char>>> }
impl View for VValCache { type V = Set<Seq<char>>; open spec fn view(&self) -> Set<Seq<char>> { self.keys@ } }
impl VValCache {
    // std `BTreeMap::clear`
    #[verifier::external_body]
    pub fn clear(&mut self) ensures final(self)@ == Set::<Seq<char>>::empty() { unimplemented!() }
}

// ---------- the shared environment (R11) and the history of the run (R12) ----------
// One record per run of `FileBuilder::build` against this environment: which file, whether it returned Ok, how the
// builder was configured, and WHICH IMPORT VALUES WERE CACHED WHEN THE BUILD STARTED (this is what makes the per-file
// reset observable: "a file builds as it does alone" needs the build to start from the state a fresh process has).
pub struct BuildRec {
    pub path: Seq<char>,
    pub ok: bool,
    pub strict: bool,
    pub validate: bool,
    pub vals_at_start: Set<Seq<char>>,
}
#[verifier::external_body]
pub struct VEnvRest { _p: u8 }
// `&RefCell<Environment<..>>` becomes `&mut VEnv`.  Of the real struct only `val_cache` is kept as a field; the other
// fields are folded into the opaque `rest`.  The ghost fields are HISTORY variables of the whole invocation, each
// written by exactly one kind of call site (stubs below), never reset:
//   announced    the files named by `println!("Building {}", file)` lines, in order          (do_compile)
//   errors       the number of `eprintln!("{}", err)` lines reporting a failed file          (do_compile)
//   list_errors  the number of failed directory listings / unreadable directory entries      (visit_ucg_files)
//   builds       one BuildRec per FileBuilder::build run                                      (build_file)
pub struct VEnv {
    pub val_cache: VValCache,
    pub rest: VEnvRest,
    pub announced: Ghost<Seq<Seq<char>>>,
    pub errors: Ghost<nat>,
    pub list_errors: Ghost<nat>,
    pub builds: Ghost<Seq<BuildRec>>,
}
// R11: `RefCell::borrow_mut` / `borrow` on the stand-in are the identity.  ASSUMPTION of R11: the dynamic borrows of
// the real RefCell never conflict (a conflict would be a panic, not a wrong status).
impl VEnv {
    pub fn borrow_mut(&mut self) -> (r: &mut VEnv)
        ensures *r == *old(self), *final(r) == *final(self)
    { self }
    pub fn borrow(&self) -> (r: &VEnv)
        ensures *r == *self
    { self }
}

// histories only grow
pub open spec fn extends<T>(a: Seq<T>, b: Seq<T>) -> bool {
    a.len() <= b.len() && forall|k: int| #![trigger a[k]] #![trigger b[k]] 0 <= k < a.len() ==> b[k] == a[k]
}
pub open spec fn grows(a: VEnv, b: VEnv) -> bool {
    &&& extends(a.announced@, b.announced@)
    &&& extends(a.builds@, b.builds@)
    &&& a.errors@ <= b.errors@
    &&& a.list_errors@ <= b.list_errors@
}
// nothing was reported as failed / no listing failed between two states
pub open spec fn no_new_errors(a: VEnv, b: VEnv) -> bool { b.errors@ == a.errors@ }
pub open spec fn no_new_list_errors(a: VEnv, b: VEnv) -> bool { b.list_errors@ == a.list_errors@ }
// the number of builds run between two states, and the k-th of them
pub open spec fn builds_run(a: VEnv, b: VEnv) -> int { b.builds@.len() - a.builds@.len() }
pub open spec fn build_no(a: VEnv, b: VEnv, k: int) -> BuildRec { b.builds@[a.builds@.len() + k] }
// every build run since `a` started with NO cached import value (like the single build of a fresh process), in build
// mode, with the strictness the command line asked for
pub open spec fn builds_fresh_since(a: VEnv, b: VEnv, strict: bool) -> bool {
    forall|k: int| a.builds@.len() <= k < b.builds@.len() ==> {
        &&& (#[trigger] b.builds@[k]).vals_at_start =~= Set::<Seq<char>>::empty()
        &&& b.builds@[k].strict == strict
        &&& !b.builds@[k].validate
    }
}

// `println!("Building {}", file)` (R1, content-keeping form): logs WHICH file was announced.
#[verifier::external_body]
pub fn vprint_building(env: &mut VEnv, file: &str)
    ensures
        final(env).announced@ == old(env).announced@.push(file@),
        final(env).val_cache == old(env).val_cache, final(env).rest == old(env).rest, final(env).errors == old(env).errors,
        final(env).list_errors == old(env).list_errors, final(env).builds == old(env).builds,
{ }
// `eprintln!("{}", err)` of do_compile: one more file reported as failed (message text dropped).
#[verifier::external_body]
pub fn veprint_err(env: &mut VEnv, err: VBoxErr)
    ensures
        final(env).errors@ == old(env).errors@ + 1,
        final(env).val_cache == old(env).val_cache, final(env).rest == old(env).rest, final(env).announced == old(env).announced,
        final(env).list_errors == old(env).list_errors, final(env).builds == old(env).builds,
{ }

// ---------- paths and the file system (R8) ----------
// A path is its text.  std's path algebra (`is_relative`, `join`) and the file system (`is_dir`, `read_dir`) are
// UNINTERPRETED functions of the text.  ASSUMPTIONS: (1) the directory structure does not change during the run
// (artifacts written by the builds do not end in `.ucg`); (2) the directory tree is well-founded (`spec_height`: an
// entry of a directory lies strictly below it - no symlink cycles) and a listing is a finite sequence; (3) paths are
// valid Unicode (`to_string_lossy` is lossless, `PathBuf::from(&str)` keeps the text).
pub struct PathBuf { pub text: Ghost<Seq<char>> }
pub type Path = PathBuf;
impl View for PathBuf { type V = Seq<char>; open spec fn view(&self) -> Seq<char> { self.text@ } }
pub uninterp spec fn spec_is_relative(p: Seq<char>) -> bool;
pub uninterp spec fn spec_join(a: Seq<char>, b: Seq<char>) -> Seq<char>;
pub uninterp spec fn spec_is_dir(p: Seq<char>) -> bool;
// the entries `read_dir(p)` yields (full paths), in the order it yields them
pub uninterp spec fn spec_entries(p: Seq<char>) -> Seq<Seq<char>>;
pub uninterp spec fn spec_height(p: Seq<char>) -> nat;
// the process's working directory (ucg never changes it)
pub uninterp spec fn spec_cwd() -> Seq<char>;
pub uninterp spec fn spec_ends_with(s: Seq<char>, suffix: Seq<char>) -> bool;
impl PathBuf {
    #[verifier::external_body]
    pub fn from(s: &str) -> (r: PathBuf) ensures r@ == s@ { unimplemented!() }
    #[verifier::external_body]
    pub fn as_path(&self) -> (r: &Path) ensures *r == *self { unimplemented!() }
    #[verifier::external_body]
    pub fn is_dir(&self) -> (r: bool) ensures r == spec_is_dir(self@) { unimplemented!() }
    #[verifier::external_body]
    pub fn is_relative(&self) -> (r: bool) ensures r == spec_is_relative(self@) { unimplemented!() }
    #[verifier::external_body]
    pub fn join(&self, p: PathBuf) -> (r: PathBuf) ensures r@ == spec_join(self@, p@) { unimplemented!() }
    // `String::from(p.to_string_lossy())`
    #[verifier::external_body]
    pub fn verif_to_string(&self) -> (r: String) ensures r@ == self@ { unimplemented!() }
}
// the file `ucg build` builds for the command-line argument `file`
pub open spec fn resolved(file: Seq<char>) -> Seq<char> {
    if spec_is_relative(file) { spec_join(spec_cwd(), file) } else { file }
}
// std::env::current_dir() with the io::Error -> Box<dyn Error> conversion of `?` folded in; may fail.
#[verifier::external_body]
pub fn verif_current_dir() -> (r: Result<PathBuf, VBoxErr>)
    ensures r matches Ok(p) ==> p@ == spec_cwd()
{ unimplemented!() }
// `std::env::current_dir().unwrap()`.  ASSUMPTION: the current directory exists (otherwise: panic, C04).
#[verifier::external_body]
pub fn verif_current_dir_unwrap() -> (r: PathBuf) ensures r@ == spec_cwd() { unimplemented!() }

pub struct VDirEntry { pub path: Ghost<Seq<char>> }
impl VDirEntry {
    #[verifier::external_body]
    pub fn path(&self) -> (r: PathBuf) ensures r@ == self.path@ { unimplemented!() }
}
// `std::fs::ReadDir` (peekable): walks spec_entries(dir) front to back; any single entry may turn out unreadable
// (Some(Err)), which is left open.
pub struct VDirIter { pub dir: Ghost<Seq<char>>, pub idx: Ghost<nat> }
impl VDirIter {
    #[verifier::external_body]
    pub fn next(&mut self) -> (r: Option<Result<VDirEntry, VBoxErr>>)
        ensures
            final(self).dir == old(self).dir,
            old(self).idx@ < spec_entries(old(self).dir@).len() ==> {
                &&& r is Some
                &&& final(self).idx@ == old(self).idx@ + 1
                &&& (r matches Some(Ok(e)) ==> e.path@ == spec_entries(old(self).dir@)[old(self).idx@ as int]
                        && spec_height(e.path@) < spec_height(old(self).dir@))
            },
            old(self).idx@ >= spec_entries(old(self).dir@).len() ==> r is None && final(self).idx == old(self).idx,
    { unimplemented!() }
}
// `std::fs::read_dir(path)?.peekable()`; a failed listing is counted in the history
#[verifier::external_body]
pub fn verif_read_dir(path: &Path, env: &mut VEnv) -> (r: Result<VDirIter, VBoxErr>)
    ensures
        final(env).val_cache == old(env).val_cache, final(env).rest == old(env).rest, final(env).announced == old(env).announced,
        final(env).errors == old(env).errors, final(env).builds == old(env).builds,
        r matches Ok(it) ==> it.dir@ == path@ && it.idx@ == 0 && final(env).list_errors == old(env).list_errors,
        r is Err ==> final(env).list_errors@ == old(env).list_errors@ + 1,
{ unimplemented!() }
// the `?` on one directory entry; an unreadable entry is counted in the history
#[verifier::external_body]
pub fn verif_entry(entry: Result<VDirEntry, VBoxErr>, env: &mut VEnv) -> (r: Result<VDirEntry, VBoxErr>)
    ensures
        final(env).val_cache == old(env).val_cache, final(env).rest == old(env).rest, final(env).announced == old(env).announced,
        final(env).errors == old(env).errors, final(env).builds == old(env).builds,
        entry matches Ok(e) ==> r == Ok::<VDirEntry, VBoxErr>(e) && final(env).list_errors == old(env).list_errors,
        entry is Err ==> r is Err && final(env).list_errors@ == old(env).list_errors@ + 1,
{ unimplemented!() }
// str::ends_with (no vstd model): an uninterpreted function of (text, suffix)
pub trait VStrExt { fn verif_ends_with(&self, suffix: &str) -> bool; }
impl VStrExt for String {
    #[verifier::external_body]
    fn verif_ends_with(&self, suffix: &str) -> (r: bool) ensures r == spec_ends_with(self@, suffix@) { self.as_str().ends_with(suffix) }
}

// ---------- which files a build of a path attempts ----------
// `ucg build [-r] p`: p itself if it is not a directory (whatever its name); otherwise, for every entry of p in listing
// order: the entry's targets if it is a directory and -r was given, the entry if its name ends in `.ucg`, nothing else.
pub open spec fn targets(p: Seq<char>, recurse: bool) -> Seq<Seq<char>>
    decreases spec_height(p), 2nat, 0nat
{
    if spec_is_dir(p) { entries_targets(p, spec_entries(p).len(), recurse) } else { seq![p] }
}
// ... of the first n entries of the directory d
pub open spec fn entries_targets(d: Seq<char>, n: nat, recurse: bool) -> Seq<Seq<char>>
    decreases spec_height(d), 1nat, n
{
    if n == 0 || n > spec_entries(d).len() {
        Seq::empty()
    } else {
        entries_targets(d, (n - 1) as nat, recurse) + entry_targets(d, spec_entries(d)[n - 1], recurse)
    }
}
pub open spec fn entry_targets(d: Seq<char>, e: Seq<char>, recurse: bool) -> Seq<Seq<char>>
    decreases spec_height(d), 0nat, 0nat
{
    if spec_is_dir(e) && recurse {
        if spec_height(e) < spec_height(d) { targets(e, recurse) } else { Seq::empty() }
    } else if spec_ends_with(e, ".ucg"@) {
        seq![e]
    } else {
        Seq::empty()
    }
}
// ... of the first n paths of a command line
pub open spec fn batch_targets(files: Seq<Seq<char>>, n: nat, recurse: bool) -> Seq<Seq<char>>
    decreases n
{
    if n == 0 || n > files.len() { Seq::empty() } else { batch_targets(files, (n - 1) as nat, recurse) + targets(files[n - 1], recurse) }
}

// ---------- the command line (R8) ----------
// clap: the parsed command line.  `values_of` yields the INPUT arguments (the real one returns an iterator over them;
// here: the vector of them), `is_present` a flag.  Nothing is assumed about their values.
pub open spec fn texts(v: Seq<&str>) -> Seq<Seq<char>> { Seq::new(v.len(), |k: int| v[k]@) }
pub mod clap {
    use super::*;
    #[verifier::external_body]
    pub struct ArgMatches { _p: u8 }
    impl ArgMatches {
        pub uninterp spec fn spec_values_of(&self, name: Seq<char>) -> Option<Seq<Seq<char>>>;
        pub uninterp spec fn spec_is_present(&self, name: Seq<char>) -> bool;
        #[verifier::external_body]
        pub fn values_of<'a>(&'a self, name: &str) -> (r: Option<Vec<&'a str>>)
            ensures match r { Some(v) => self.spec_values_of(name@) == Some(texts(v@)), None => self.spec_values_of(name@) is None }
        { unimplemented!() }
        #[verifier::external_body]
        pub fn is_present(&self, name: &str) -> (r: bool) ensures r == self.spec_is_present(name@) { unimplemented!() }
    }
}

// std `Result::unwrap_or` (no vstd spec; used by a seeded change)
#[verifier::allow(undeclared_external_trait)]
pub assume_specification<T, E> [std::result::Result::<T, E>::unwrap_or] (o: std::result::Result<T, E>, d: T) -> (r: T)
    where E: std::marker::Destruct, T: std::marker::Destruct,
    ensures r == (match o { Ok(t) => t, Err(_) => d });
