//@ unit env_lookup
//@ serves C18 C01 C04
//@ must_verify VEnv::get_env_vars_tuple VM::get_binding VM::op_deref VM::op_index VM::push VM::pop Stack::get
//@ include prelude/head.rs
use std::rc::Rc;

verus! {
//@ include prelude/core.rs
//@ opaque VPathBuf OpPointer Func Module ConstraintVal ReservedWords
//@ clone_spec Position

// Position: only constructed and copied here
#[verifier::external_body]
pub struct Position { _p: u8 }
impl Position {
    #[verifier::external_body]
    pub fn new(line: usize, column: usize, offset: usize) -> Self { unimplemented!() }
}

// opcode::Error with an information-flow label: does the message depend on the selector TARGET?
#[verifier::external_body]
pub struct Error { _p: u8 }
pub uninterp spec fn discloses_target(e: Error) -> bool;
pub uninterp spec fn msg_discloses_target(m: Seq<char>) -> bool;
impl Error {
    #[verifier::external_body]
    pub fn new(msg: String, pos: Position) -> (r: Self)
        ensures discloses_target(r) == msg_discloses_target(msg@)
    { unimplemented!() }
}
// R1T: a format!(..) that prints the target value (other than its type name) / one that does not
#[verifier::external_body]
pub fn verif_msg_tainted() -> (r: String) ensures msg_discloses_target(r@) { unimplemented!() }
#[verifier::external_body]
pub fn verif_msg_clean() -> (r: String) ensures !msg_discloses_target(r@) { unimplemented!() }

//@ extract src/build/opcode/mod.rs :: enum Primitive
//@   rule R0
//@ end
//@ extract src/build/opcode/mod.rs :: enum Composite
//@   rule R0
//@ end
//@ extract src/build/opcode/mod.rs :: enum Value
//@   rule R0
//@ end
use Primitive::{Bool, Empty, Float, Int, Str};
use Composite::{List, Tuple};
use Value::{C, F, K, M, P, S, T};
impl Value {
    #[verifier::external_body]
    fn type_name(&self) -> &'static str { unimplemented!() }
}

// Rc<str> == Rc<str> compares contents (std; R9' model)
#[verifier::external_body]
pub fn verif_rcstr_eq(a: &Rc<str>, b: &Rc<str>) -> (r: bool)
    ensures r == (a@ == b@)
{ a == b }

//@ include prelude/vmap.rs
//@ extract src/build/opcode/scope.rs :: struct Stack
//@   rule R0 RV
//@   subst "curr: BTreeMap<Rc<str>, (Rc<Value>, Position)>" => "curr: VMap"
//@ end
//@ extract src/build/opcode/scope.rs :: impl Stack :: fn get
//@   subst "self.curr.get(name).cloned()" => "self.curr.get_cloned(name)"
//@   ret r
//@   sig <<<
        ensures
            self.curr@.contains_key(name@) ==> r == Some(self.curr@[name@]),
            !self.curr@.contains_key(name@) ==> r is None,
//@   >>>
//@ end

// ---------- the captured process environment ----------
// BTreeMap<Rc<str>, Rc<str>> (trusted model): iteration yields every entry exactly once, in key order.
#[verifier::external_body]
pub struct VEnvVars { m: std::collections::BTreeMap<Rc<str>, Rc<str>> }
impl VEnvVars {
    pub uninterp spec fn entries(&self) -> Seq<(Rc<str>, Rc<str>)>;
    // stands in for `map.iter()`
    #[verifier::external_body]
    pub fn iter_entries(&self) -> (r: &[(Rc<str>, Rc<str>)])
        ensures r@ == self.entries()
    { unimplemented!() }
}
// R11: the fields of Environment<O, E> this unit touches
pub struct VEnv { pub env_vars: VEnvVars }

// one field per environment variable, named like it, holding its value as a string; nothing else
pub open spec fn is_env_tuple(v: Value, vars: Seq<(Rc<str>, Rc<str>)>) -> bool {
    v matches C(Tuple(fields, positions))
    && fields@.len() == vars.len() && positions@.len() == fields@.len()
    && forall|k: int| 0 <= k < fields@.len() ==>
        (#[trigger] fields@[k]).0@ == vars[k].0@ && (*fields@[k].1 matches P(Str(s)) && s@ == vars[k].1@)
}
pub struct Builtins { pub strict: bool }

//@ extract src/build/opcode/environment.rs :: impl * Environment<Stdout, Stderr> :: fn get_env_vars_tuple
//@   impl_header impl VEnv
//@   subst "for (key, val) in self.env_vars.iter()" => "for (key, val) in self.env_vars.iter_entries().iter()"
//@   subst "let mut fields = Vec::new();" => "let mut fields: Vec<(Rc<str>, Rc<Value>)> = Vec::new();"
//@   subst "let mut positions = Vec::new();" => "let mut positions: Vec<(Position, Position)> = Vec::new();"
//@   ret r
//@   sig <<<
        ensures is_env_tuple(r, self.env_vars.entries())
//@   >>>
//@   loop 1 iter it <<<
            invariant
                it.seq().len() == self.env_vars.entries().len(),
                forall|k: int| 0 <= k < it.seq().len() ==> *it.seq()[k] == self.env_vars.entries()[k],
                fields@.len() == it.index@, positions@.len() == it.index@,
                forall|k: int| 0 <= k < fields@.len() ==>
                    (#[trigger] fields@[k]).0@ == self.env_vars.entries()[k].0@
                    && (*fields@[k].1 matches P(Str(v)) && v@ == self.env_vars.entries()[k].1@),
//@   >>>
//@   mutant env_key_as_value "Value::P(Primitive::Str(val.clone()))" => "Value::P(Primitive::Str(key.clone()))" expect get_env_vars_tuple
//@ end

//@ extract src/build/opcode/vm.rs :: struct VM
//@   rule R0 RV
//@   subst "working_dir: PathBuf" => "working_dir: VPathBuf"
//@   subst "runtime: runtime::Builtins" => "runtime: Builtins"
//@   subst "reserved_words: &'static BTreeSet<&'static str>" => "reserved_words: ReservedWords"
//@ end

pub open spec fn frame(a: VM, b: VM) -> bool {
    a.symbols == b.symbols && a.self_stack == b.self_stack && a.ops == b.ops && a.import_stack == b.import_stack
    && a.working_dir == b.working_dir && a.runtime == b.runtime && a.reserved_words == b.reserved_words
}

//@ extract src/build/opcode/vm.rs :: impl VM :: fn push
//@   ret r
//@   sig <<<
        ensures r is Ok, final(self).stack@ == old(self).stack@.push((val, pos)), frame(*old(self), *final(self)),
//@   >>>
//@ end
//@ extract src/build/opcode/vm.rs :: impl VM :: fn pop
//@   subst "Some(v.clone())" => "Some((v.0.clone(), v.1.clone()))"
//@   ret r
//@   sig <<<
        requires old(self).stack@.len() > 0
        ensures r is Ok, r->Ok_0 == old(self).stack@.last(), final(self).stack@ == old(self).stack@.drop_last(),
            frame(*old(self), *final(self)),
//@   >>>
//@ end

// `env` names the process environment unless a local binding of that name exists
// (tuple fields and selectors named env are not bindings and never come through here).
//@ extract src/build/opcode/vm.rs :: impl VM :: fn get_binding
//@   rule R1
//@   subst "pub fn get_binding<O, E>(" => "pub fn get_binding("
//@   subst "env: &RefCell<Environment<O, E>>," => "env: &VEnv,"
//@   subst "where O: std::io::Write + Clone, E: std::io::Write + Clone," => ""
//@   subst "env.borrow().get_env_vars_tuple()" => "env.get_env_vars_tuple()"
//@   subst? "self.self_stack.last().cloned()" => "verif_last_cloned(&self.self_stack)"
//@   subst? "self.self_stack.first().cloned()" => "verif_first_cloned(&self.self_stack)"
//@   ret r
//@   sig <<<
        ensures
            // `self` is the base of the INNERMOST enclosing copy expression (the last one pushed), an error outside of one
            (name@ == "self"@ && self.self_stack@.len() > 0) ==> r == Ok::<(Rc<Value>, Position), Error>(self.self_stack@.last()),
            (name@ == "self"@ && self.self_stack@.len() == 0) ==> r is Err,
            (name@ == "env"@ && !self.symbols.curr@.contains_key(name@)) ==> (r matches Ok((v, _)) && is_env_tuple(*v, env.env_vars.entries())),
            (name@ != "self"@ && self.symbols.curr@.contains_key(name@)) ==> r == Ok::<(Rc<Value>, Position), Error>(self.symbols.curr@[name@]),
            (name@ != "self"@ && name@ != "env"@ && !self.symbols.curr@.contains_key(name@)) ==> r is Err,
//@   >>>
//@   body_start <<<
        proof { reveal_strlit("self"); reveal_strlit("env"); assert("self"@.len() == 4 && "env"@.len() == 3); }
//@   >>>
//@   mutant env_shadowing_ignored "if candidate.is_some() {" => "if false && candidate.is_some() {" expect get_binding
//@   mutant self_is_outermost_base "self.self_stack.last().cloned()" => "self.self_stack.first().cloned()" expect get_binding
//@ end

// Vec::last().cloned() on (Rc<Value>, Position) pairs (tuple clone; R9' model)
#[verifier::external_body]
pub fn verif_last_cloned(v: &Vec<(Rc<Value>, Position)>) -> (r: Option<(Rc<Value>, Position)>)
    ensures v@.len() > 0 ==> r == Some(v@.last()), v@.len() == 0 ==> r is None
{ v.last().cloned() }

#[verifier::external_body]
pub fn verif_first_cloned(v: &Vec<(Rc<Value>, Position)>) -> (r: Option<(Rc<Value>, Position)>)
    ensures v@.len() > 0 ==> r == Some(v@.first()), v@.len() == 0 ==> r is None
{ v.first().cloned() }

//@ extract src/build/opcode/vm.rs :: impl VM :: fn op_deref
//@   subst "fn op_deref<O, E>(" => "fn op_deref("
//@   subst "env: &RefCell<Environment<O, E>>," => "env: &VEnv,"
//@   subst "where O: std::io::Write + Clone, E: std::io::Write + Clone," => ""
//@   subst "let (val, _) = self.get_binding(&name, env, pos)?.clone();" => "let (val, _) = self.get_binding(&name, env, pos)?;"
//@   ret r
//@   sig <<<
        ensures frame(*old(self), *final(self)),
            (name@ != "self"@ && old(self).symbols.curr@.contains_key(name@)) ==> r is Ok
                && final(self).stack@ == old(self).stack@.push((old(self).symbols.curr@[name@].0, *pos)),
            (name@ != "self"@ && name@ != "env"@ && !old(self).symbols.curr@.contains_key(name@)) ==> r is Err && final(self).stack@ == old(self).stack@,
//@   >>>
//@ end

// ---------- selector lookup ----------
pub open spec fn first_field(flds: Seq<(Rc<str>, Rc<Value>)>, key: Seq<char>, k: int) -> bool {
    0 <= k < flds.len() && flds[k].0@ == key && forall|j: int| 0 <= j < k ==> (#[trigger] flds[j]).0@ != key
}
pub open spec fn has_field(flds: Seq<(Rc<str>, Rc<Value>)>, key: Seq<char>) -> bool {
    exists|k: int| 0 <= k < flds.len() && (#[trigger] flds[k]).0@ == key
}
// what `target.index` selects, if anything
pub open spec fn selects(target: Value, index: Value, out: Rc<Value>) -> bool {
    match (index, target) {
        (P(Int(i)), C(List(elems, _))) => 0 <= i < elems@.len() && out == elems@[i as int],
        (P(Str(s)), C(Tuple(flds, _))) => exists|k: int| first_field(flds@, s@, k) && out == flds@[k].1,
        _ => false,
    }
}
pub open spec fn selectable(target: Value, index: Value) -> bool {
    match (index, target) {
        (P(Int(i)), C(List(elems, _))) => 0 <= i < elems@.len(),
        (P(Str(s)), C(Tuple(flds, _))) => has_field(flds@, s@),
        _ => false,
    }
}

pub open spec fn idx_index(vm: VM) -> Value { *vm.stack@[vm.stack@.len() - 1].0 }
pub open spec fn idx_target(vm: VM) -> Value { *vm.stack@[vm.stack@.len() - 2].0 }
pub open spec fn popped_pushed(a: VM, b: VM) -> bool {
    let n = a.stack@.len() as int;
    b.stack@.len() == n - 1 && b.stack@.subrange(0, n - 2) =~= a.stack@.subrange(0, n - 2)
}
//@ extract src/build/opcode/vm.rs :: impl VM :: fn op_index
//@   rule R1T(left) R3
//@   subst "if key == s {" => "if verif_rcstr_eq(key, s) {"
//@   subst "match *right.as_ref() {" => "match right.as_ref() {"
//@   arm_rebind "P(Int(i)) =>" i
//@   ret r
//@   sig <<<
        requires old(self).stack@.len() >= 2
        ensures
            frame(*old(self), *final(self)),
            // found: the selected value replaces target and index
            selectable(idx_target(*old(self)), idx_index(*old(self))) ==> r is Ok && popped_pushed(*old(self), *final(self))
                    && selects(idx_target(*old(self)), idx_index(*old(self)), final(self).stack@[old(self).stack@.len() - 2].0),
            // missing, not strict: NULL
            !selectable(idx_target(*old(self)), idx_index(*old(self))) && safe ==> r is Ok && popped_pushed(*old(self), *final(self))
                    && *final(self).stack@[old(self).stack@.len() - 2].0 == P(Empty),
            // missing, strict: a build error whose message does not disclose the target's content
            // (for `env.NOPE` the target is the whole environment, values included)
            !selectable(idx_target(*old(self)), idx_index(*old(self))) && !safe ==> (r matches Err(e) && !discloses_target(e)),
//@   >>>
//@   loop 1 iter it <<<
                        invariant
                            it.seq().len() == flds@.len(),
                            forall|k: int| 0 <= k < flds@.len() ==> *it.seq()[k] == flds@[k],
                            forall|j: int| 0 <= j < it.index@ ==> (#[trigger] flds@[j]).0@ != s@,
                            self.stack@ =~= old(self).stack@.subrange(0, old(self).stack@.len() - 2),
                            frame(*old(self), *self), old(self).stack@.len() >= 2,
                            *right == idx_index(*old(self)), *left == idx_target(*old(self)),
                            *right matches P(Str(s2)) && s2 == *s, *left matches C(Tuple(f2, _)) && f2 == *flds,
//@   >>>
//@   before "if verif_rcstr_eq(key, s) {" <<<
                        assert(*key == flds@[it.index@].0 && *val == flds@[it.index@].1);
//@   >>>
//@   after "if verif_rcstr_eq(key, s) {" <<<
                            assert(first_field(flds@, s@, it.index@));
//@   >>>
//@   after "if let C(List(elems, _)) = left.as_ref() {" <<<
                    proof { axiom_vec_len_isize(elems); }
//@   >>>
//@   after_loop 1 <<<
                    assert(!has_field(flds@, s@));
//@   >>>
//@   mutant index_off_by_one "i < (elems.len() as i64)" => "i < (elems.len() as i64) + 1" expect op_index
//@   mutant index_negative_ok "&& i >= 0" => "" expect op_index
//@   mutant index_unsafe_null "if safe {" => "if !safe {" expect op_index
//@ end

} // verus!

fn main() {}
