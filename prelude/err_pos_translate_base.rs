// ---- prelude/err_pos_translate_base.rs: a COPY of prelude/translate_ops_base.rs in which `pos()` of an AST node has a NAME
// (value_pos / expr_pos) ---- original header: prelude/translate_ops_base.rs: what the translate_* units share: the op / AST types (extracted), OpsMap under
// contract, the ghost labels for opaque fragments and the assumed recursive call (inside verus!) ----
//@ opaque Position VPath VShapeMap VLinks Scope VBoxError Val
//@ clone_spec Position Expression

//@ extract src/build/opcode/mod.rs :: enum Primitive
//@   rule R0
//@ end
//@ extract src/ast/mod.rs :: enum CastType
//@   rule R0
//@ end
//@ extract src/build/opcode/mod.rs :: enum Hook
//@   rule R0
//@ end
//@ extract src/build/opcode/mod.rs :: enum ConstraintArmType
//@   rule R0
//@ end
//@ extract src/build/opcode/mod.rs :: enum Op
//@   rule R0
//@ end
//@ extract src/build/opcode/translate.rs :: struct OpsMap
//@   rule R0
//@   subst "shape_map: BTreeMap<Rc<str>, Shape>" => "shape_map: VShapeMap"
//@   subst "links: BTreeMap<Rc<str>, Position>" => "links: VLinks"
//@ end
//@ extract src/build/opcode/translate.rs :: impl OpsMap :: fn push
//@   sig <<<
        ensures final(self).ops@ == old(self).ops@.push(op), final(self).pos@ == old(self).pos@.push(pos),
            final(self).shape_map == old(self).shape_map, final(self).links == old(self).links,
//@   >>>
//@ end
//@ extract src/build/opcode/translate.rs :: impl OpsMap :: fn len
//@   ret r
//@   sig <<<
        ensures r == self.ops@.len()
//@   >>>
//@ end
//@ extract src/build/opcode/translate.rs :: impl OpsMap :: fn replace
//@   sig <<<
        requires idx < old(self).ops@.len()
        ensures final(self).ops@ == old(self).ops@.update(idx as int, op), final(self).pos == old(self).pos,
            final(self).shape_map == old(self).shape_map, final(self).links == old(self).links,
//@   >>>
//@ end

// ---------- the AST (real definitions) ----------
//@ extract src/ast/mod.rs :: enum TokenType
//@   rule R0
//@ end
//@ extract src/ast/mod.rs :: struct Token
//@   rule R0
//@ end
//@ extract src/ast/mod.rs :: struct PositionedItem
//@   rule R0
//@ end
//@ extract src/ast/mod.rs :: type FieldList
//@ end
//@ extract src/ast/mod.rs :: enum BinaryExprType
//@   rule R0
//@ end
//@ extract src/ast/mod.rs :: struct BinaryOpDef
//@   rule R0
//@ end
//@ extract src/ast/mod.rs :: struct NotDef
//@   rule R0
//@ end
//@ extract src/ast/mod.rs :: struct CastDef
//@   rule R0
//@ end
//@ extract src/ast/mod.rs :: struct FailDef
//@   rule R0
//@ end
//@ extract src/ast/mod.rs :: struct RangeDef
//@   rule R0
//@ end
//@ extract src/ast/mod.rs :: struct SelectDef
//@   rule R0
//@ end
//@ extract src/ast/mod.rs :: struct FuncDef
//@   rule R0
//@ end
//@ extract src/ast/mod.rs :: struct LetDef
//@   rule R0
//@ end
//@ extract src/ast/mod.rs :: struct ConstraintBindingDef
//@   rule R0
//@ end
//@ extract src/ast/mod.rs :: struct ConvertDef
//@   rule R0
//@ end
//@ extract src/ast/mod.rs :: struct MapFilterOpDef
//@   rule R0
//@ end
//@ extract src/ast/mod.rs :: struct ReduceOpDef
//@   rule R0
//@ end
//@ extract src/ast/mod.rs :: enum FormatArgs
//@   rule R0
//@ end
//@ extract src/ast/mod.rs :: struct FormatDef
//@   rule R0
//@ end
//@ extract src/ast/mod.rs :: enum TemplatePart
//@   rule R0
//@ end
//@ extract src/ast/mod.rs :: struct IncludeDef
//@   rule R0
//@ end
//@ extract src/ast/mod.rs :: struct ImportDef
//@   rule R0
//@ end
//@ extract src/ast/mod.rs :: struct ListDef
//@   rule R0
//@ end
//@ extract src/ast/mod.rs :: enum Value
//@   rule R0
//@ end
//@ extract src/ast/mod.rs :: struct CopyDef
//@   rule R0
//@ end
//@ extract src/ast/mod.rs :: struct CallDef
//@   rule R0
//@ end
//@ extract src/ast/mod.rs :: enum FuncOpDef
//@   rule R0
//@ end
//@ extract src/ast/mod.rs :: struct DebugDef
//@   rule R0
//@ end
//@ extract src/ast/mod.rs :: struct ConstraintRangeDef
//@   rule R0
//@ end
//@ extract src/ast/mod.rs :: enum ConstraintArm
//@   rule R0
//@ end
//@ extract src/ast/mod.rs :: struct ConstraintDef
//@   rule R0
//@ end
//@ extract src/ast/mod.rs :: struct ModuleDef
//@   rule R0
//@ end
//@ extract src/ast/mod.rs :: enum Expression
//@   rule R0
//@ end
//@ extract src/ast/mod.rs :: enum Statement
//@   rule R0
//@ end

// ast::Value::pos / ast::Expression::pos (R8): the position the parser gave the node - uninterpreted, but NAMED here
// (prelude/translate_ops_base.rs leaves the result unspecified): unit err_pos_translate says which op gets it
pub uninterp spec fn value_pos(v: Value) -> Position;
pub uninterp spec fn expr_pos(e: Expression) -> Position;
impl Value {
    #[verifier::external_body]
    pub fn pos(&self) -> (r: &Position) ensures *r == value_pos(*self) { unimplemented!() }
}
impl Expression {
    #[verifier::external_body]
    pub fn pos(&self) -> (r: &Position) ensures *r == expr_pos(*self) { unimplemented!() }
}

// `"literal".into()` (&str -> Rc<str>, std): the text is preserved.  (R9': vstd's spec of `Into::into` cannot be
// instantiated for the foreign pair (&str, Rc<str>); call sites become `.vinto()`.)
pub trait VIntoRcStr: Sized {
    spec fn vtext(&self) -> Seq<char>;
    fn vinto(self) -> (r: Rc<str>) ensures r@ == self.vtext();
}
impl VIntoRcStr for &str {
    open spec fn vtext(&self) -> Seq<char> { (**self)@ }
    #[verifier::external_body]
    fn vinto(self) -> (r: Rc<str>) { unimplemented!() }
}
impl VIntoRcStr for String {
    open spec fn vtext(&self) -> Seq<char> { (*self)@ }
    #[verifier::external_body]
    fn vinto(self) -> (r: Rc<str>) { unimplemented!() }
}

// ---------- ghost labels for the opaque fragments ----------
// `frag(e, a, b)`: "a call translate_expr(e, ..) appended exactly the ops at indices [a, b)".
// `op_at(e, a, b, k, op)`: "... and the op it left at index k was `op`".
// Both are UNINTERPRETED and occur only in the assumed contract of the recursive call: they assume nothing about
// WHAT is emitted (under the interpretation `true` both clauses are vacuous); they only let a contract say which
// operand's code sits where and that it is still intact.  A proof has to go through for every interpretation, so
// an arm that emits its operands in another order, or overwrites an op inside an operand's code, is rejected.
pub uninterp spec fn frag(e: Expression, a: int, b: int) -> bool;
pub uninterp spec fn op_at(e: Expression, a: int, b: int, k: int, op: Op) -> bool;

// the ops s[a..b) are the (intact, non-empty) code of e
pub open spec fn code_at(e: Expression, s: Seq<Op>, a: int, b: int) -> bool {
    &&& frag(e, a, b)
    &&& 0 <= a < b <= s.len()
    &&& forall|k: int| a <= k < b ==> op_at(e, a, b, k, #[trigger] s[k])
}

// nothing that was in `a` is modified or removed in `b`; ops and positions grow in step
pub open spec fn extends(a: OpsMap, b: OpsMap) -> bool {
    &&& b.ops@.len() >= a.ops@.len()
    &&& b.pos@.len() - a.pos@.len() == b.ops@.len() - a.ops@.len()
    &&& forall|k: int| 0 <= k < a.ops@.len() ==> (#[trigger] b.ops@[k]) == a.ops@[k]
    &&& forall|k: int| 0 <= k < a.pos@.len() ==> (#[trigger] b.pos@[k]) == a.pos@[k]
}
// ... and at least one op was appended
pub open spec fn appended(a: OpsMap, b: OpsMap) -> bool {
    extends(a, b) && b.ops@.len() > a.ops@.len()
}
// `appended` in the words of the task statement: the old op / position lists are prefixes of the new ones,
// and `pos.len() == ops.len()` is preserved.
proof fn lemma_appended_is_prefix(a: OpsMap, b: OpsMap)
    requires appended(a, b)
    ensures
        b.ops@.len() > a.ops@.len(), b.ops@.subrange(0, a.ops@.len() as int) == a.ops@,
        b.pos@.len() > a.pos@.len(), b.pos@.subrange(0, a.pos@.len() as int) == a.pos@,
        a.pos@.len() == a.ops@.len() ==> b.pos@.len() == b.ops@.len(),
{
    assert(b.ops@.subrange(0, a.ops@.len() as int) =~= a.ops@);
    assert(b.pos@.subrange(0, a.pos@.len() as int) =~= a.pos@);
}

// ---------- sequences of fragments (tuple fields, list elements, call arguments) ----------
// The boundaries between the items are ghost state: `bs[c]` is the index behind item c's last op; item c starts where
// item c-1 ended.  `case_no` / `ends` / `at` are always true: they are only the handles by which the prover picks a
// case index, a boundary list, an index (a trigger on `bs[c]` itself would loop through `seg_start`).
pub open spec fn case_no(c: int) -> bool { true }
pub open spec fn ends(bs: Seq<int>) -> bool { true }
pub open spec fn at(m: int) -> bool { true }
pub open spec fn seg_start(start: int, bs: Seq<int>, c: int) -> int { if c <= 0 { start } else { bs[c - 1] } }
// the first `done` fields `name = e`:  Sym(name) | code(e) | Field   (vm.rs `op_field` pops value, name, tuple)
pub open spec fn fields_at(flds: Seq<(Token, Option<Expression>, Expression)>, s: Seq<Op>, start: int, bs: Seq<int>, done: int) -> bool {
    &&& bs.len() == done && 0 <= done <= flds.len()
    &&& forall|c: int| 0 <= c < done && #[trigger] case_no(c) ==> {
            let st = seg_start(start, bs, c);
            &&& start <= st && st + 2 < bs[c] <= s.len()
            &&& s[st] == Op::Sym(flds[c].0.fragment)
            &&& code_at(flds[c].2, s, st + 1, bs[c] - 1)
            &&& s[bs[c] - 1] == Op::Field
        }
    &&& 0 <= start <= seg_start(start, bs, done) <= s.len()
}
// the first `done` expressions back to back, each followed by `Element` if `element` (vm.rs `op_element` pops value, list)
pub open spec fn exprs_at(es: Seq<Expression>, s: Seq<Op>, start: int, bs: Seq<int>, done: int, element: bool) -> bool {
    &&& bs.len() == done && 0 <= done <= es.len()
    &&& forall|c: int| 0 <= c < done && #[trigger] case_no(c) ==> {
            let st = seg_start(start, bs, c);
            let e = if element { bs[c] - 1 } else { bs[c] };
            &&& start <= st && e < bs[c] + 1 && bs[c] <= s.len()
            &&& code_at(es[c], s, st, e)
            &&& element ==> s[bs[c] - 1] == Op::Element
        }
    &&& 0 <= start <= seg_start(start, bs, done) <= s.len()
}

// AST::translate_expr, the recursive call (R8) - ASSUMED, and nothing else: it appends at least one op and never
// modifies or removes ops already present.  (Every arm below is proved to do the same: the induction hypothesis.)
#[verifier::external_body]
fn translate_expr(expr: Expression, ops: &mut OpsMap, root: &VPath)
    ensures
        appended(*old(ops), *final(ops)),
        code_at(expr, final(ops).ops@, old(ops).ops@.len() as int, final(ops).ops@.len() as int),
{ unimplemented!() }

// ---------- oracle ----------
// A relative jump `j` at index i: the VM sets the pointer to i + j (vm_ctrl: `jump_target`) and the run loop
// advances by one (`OpPointer::next`), so execution continues at i + j + 1.
pub open spec fn continues_at(i: int, j: i32, target: int) -> bool { i + j + 1 == target }
// Jump offsets are `i32`s computed with `as i32`: they are only meaningful for programs shorter than 2^31 ops
// (the same caller obligation as vm_ctrl's `jump_pre`).
pub open spec fn small(s: Seq<Op>) -> bool { s.len() <= i32::MAX }

// Binary operators.  VM convention (vm_arith / vm_ctrl): the LEFT operand is on top of the stack, the RIGHT one
// below it.  So: code of the RIGHT operand, code of the LEFT operand, then exactly the operator's op(s) `tail`.
pub open spec fn binary_emits(a: OpsMap, b: OpsMap, l: Expression, r: Expression, tail: Seq<Op>) -> bool {
    let n0 = a.ops@.len() as int;
    let n = b.ops@.len() as int;
    &&& appended(a, b)
    &&& exists|m: int| #[trigger] frag(r, n0, m) && code_at(r, b.ops@, n0, m) && code_at(l, b.ops@, m, n - tail.len())
    &&& b.ops@.subrange(n - tail.len(), n) =~= tail
}

// `&&` / `||` (reference: "Both of them short circuit"): the left operand is evaluated first; `And(j)` / `Or(j)`
// (vm_ctrl `short_circuit`) keeps it as the result and jumps when it is false / true, else drops it and falls
// into the right operand's code.  Layout: code(left), the op at index i, code(right), and the jump continues
// exactly behind the right operand's code, which is the end of the fragment.
pub open spec fn short_circuit_emits(a: OpsMap, b: OpsMap, l: Expression, r: Expression, is_and: bool) -> bool {
    let n0 = a.ops@.len() as int;
    let n = b.ops@.len() as int;
    &&& appended(a, b)
    &&& exists|i: int| #[trigger] frag(l, n0, i) && code_at(l, b.ops@, n0, i) && code_at(r, b.ops@, i + 1, n)
            && (if is_and { b.ops@[i] matches Op::And(j) && (small(b.ops@) ==> continues_at(i, j, n)) }
                else { b.ops@[i] matches Op::Or(j) && (small(b.ops@) ==> continues_at(i, j, n)) })
}

// One operand, then the ops `tail` (not, cast, grouping).
pub open spec fn unary_emits(a: OpsMap, b: OpsMap, e: Expression, tail: Seq<Op>) -> bool {
    let n0 = a.ops@.len() as int;
    let n = b.ops@.len() as int;
    &&& appended(a, b)
    &&& code_at(e, b.ops@, n0, n - tail.len())
    &&& b.ops@.subrange(n - tail.len(), n) =~= tail
}
// One op, one operand, one op (convert, out).
pub open spec fn bracketed_emits(a: OpsMap, b: OpsMap, first: Op, e: Expression, last: Op) -> bool {
    let n0 = a.ops@.len() as int;
    let n = b.ops@.len() as int;
    &&& appended(a, b)
    &&& b.ops@[n0] == first
    &&& code_at(e, b.ops@, n0 + 1, n - 1)
    &&& b.ops@[n - 1] == last
}

