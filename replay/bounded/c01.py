"""C01 bounded stand-in: a table of small programs, one per construct / interaction the property names, with the value the
language reference defines for each (reviewed by hand against docsite/site/content/reference; recorded in golden_c01.json).
Evaluated through the real FileBuilder::eval_string.  Bounded: exactly the listed programs."""
import json
import os
import re

import realcode as R

HERE = os.path.dirname(os.path.abspath(__file__))


def norm(out):
    o, ins, i = [], False, 0
    while i < len(out):
        ch = out[i]
        if ins:
            o.append(ch)
            if ch == '\\' and i + 1 < len(out):
                o.append(out[i + 1]); i += 1
            elif ch == '"':
                ins = False
        else:
            if ch == '"':
                ins = True; o.append(ch)
            elif not ch.isspace():
                o.append(ch)
        i += 1
    return re.sub(r',([\]\}])', r'\1', ''.join(o))


def standin_semantics_table(tier, seed):
    gold = json.load(open(os.path.join(HERE, 'golden_c01.json')))
    res = R.driver('eval', [g['program'] for g in gold])
    bound = '%d programs covering operators, short-circuit, select, closures, copy/self, modules, map/filter/reduce over lists/tuples/strings, format, range, casts, in/is, fail' % len(gold)
    for g, (st, out) in zip(gold, res):
        ok = st == g['status'] and (st != 'OK' or norm(out) == g['value'])
        if not ok:
            return dict(name='semantics_table', bound=bound, cases=len(gold), status='violation',
                        detail='`%s` evaluates to %s %s; the reference defines %s %s' % (g['program'].replace('\n', ' '), st, norm(out)[:200] if st == 'OK' else out[:200], g['status'], g['value'] or '(a build error)'),
                        input=dict(source=g['program'], expected='%s %s' % (g['status'], g['value'] or ''), observed='%s %s' % (st, out[:300]), how='replay driver `eval` (FileBuilder::eval_string)'))
    return dict(name='semantics_table', bound=bound, cases=len(gold), status='ok')


STANDINS = [standin_semantics_table]
