"""C04 bounded stand-ins: "No input makes the compiler crash or hang".

Oracle (from the property statement): every stage -- tokenizing, parsing, type checking, translating, evaluating, converting,
formatting -- ends with a result or a diagnostic.  Through the replay driver that means the status of every case is OK or ERR,
never PANIC (a Rust panic caught by catch_unwind), CRASH (the process died: abort, stack overflow, signal) or TIMEOUT (no answer
within a few seconds); through the real `ucg` binary it means exit status 0 or 1 (never 101, 134 or a signal) within a few
seconds.  Nothing else is checked here (what the result is belongs to other properties).

The driver runs all cases of a batch in one process.  `run_cases` below feeds a batch, reads the answers line by line and, when
the process dies or stays silent for PER_CASE seconds, blames the first case without an answer, records CRASH / TIMEOUT for it
and restarts the driver on the remaining cases -- so every offending input is named individually.
"""
import os
import random
import re
import select
import shutil
import subprocess
import tempfile
import time

import realcode as R

REPO = R.REPO
PER_CASE = 6.0          # seconds without an answer before a case counts as a hang
I64_MAX = 2 ** 63 - 1
SEP = '\n%%%%\n'


# ------------------------------------------------------------------ robust batch runner
def _unesc(b):
    out, i, n = bytearray(), 0, len(b)
    while i < n:
        c = b[i]
        if c == 0x5c and i + 1 < n:
            d = b[i + 1]
            out.append({0x6e: 0x0a, 0x74: 0x09}.get(d, d))
            i += 2
        else:
            out.append(c)
            i += 1
    return out.decode('utf-8', 'replace')


MAX_STALLS = 3          # after this many TIMEOUTs in one batch the rest of the batch is skipped (status SKIP): one hang is a violation already, and
                        # a build in which everything hangs must not keep the stand-in busy for hours


def run_cases(mode, cases, per_case=PER_CASE):
    """[(status, payload)] with status in OK / ERR / PANIC / CRASH / TIMEOUT (/ SKIP); one entry per case, offending cases named individually."""
    exe = R.driver_binary()
    res = [None] * len(cases)
    start = 0
    stalls = 0
    cwd = tempfile.mkdtemp(prefix='verif_c04_cwd_')
    try:
        while start < len(cases):
            chunk = cases[start:]
            data = SEP.join(chunk).encode('utf-8')
            errf = tempfile.TemporaryFile()
            p = subprocess.Popen([exe, mode], stdin=subprocess.PIPE, stdout=subprocess.PIPE, stderr=errf, cwd=cwd)
            try:
                p.stdin.write(data)
                p.stdin.close()
            except BrokenPipeError:
                pass
            fd = p.stdout.fileno()
            buf = b''
            got = 0
            last = time.time()
            verdict = None
            while got < len(chunk):
                r, _, _ = select.select([fd], [], [], 0.5)
                if r:
                    d = os.read(fd, 1 << 16)
                    if not d:
                        verdict = 'CRASH'
                        break
                    buf += d
                    while True:
                        k = buf.find(b'\n')
                        if k < 0:
                            break
                        line, buf = buf[:k], buf[k + 1:]
                        st, _, pl = line.partition(b'\t')
                        res[start + got] = (st.decode('utf-8', 'replace'), _unesc(pl))
                        got += 1
                        last = time.time()
                        if got >= len(chunk):
                            break
                elif time.time() - last > per_case * (3 if got == 0 else 1):   # the first answer includes start-up
                    verdict = 'TIMEOUT'
                    break
            if verdict == 'TIMEOUT':
                p.kill()
            try:
                p.wait(timeout=10)
            except subprocess.TimeoutExpired:
                p.kill()
                p.wait()
            p.stdout.close()
            if got < len(chunk):
                errf.seek(0)
                tail = errf.read()[-300:].decode('utf-8', 'replace').strip().replace('\n', ' | ')
                if verdict == 'TIMEOUT':
                    res[start + got] = ('TIMEOUT', 'no answer within %.0f s' % per_case)
                    stalls += 1
                else:
                    res[start + got] = ('CRASH', 'driver exited with %s: %s' % (p.returncode, tail))
                got += 1
            errf.close()
            start += got
            if stalls >= MAX_STALLS:
                for k in range(start, len(cases)):
                    res[k] = ('SKIP', '')
                break
    finally:
        shutil.rmtree(cwd, ignore_errors=True)
    return res


def run_ucg_batch(sub, files, cwd, per_file=PER_CASE, pre=()):
    """`ucg <pre> <sub> f1 f2 ...` on the real binary, one process for many files.  ucg prints a line naming each file before it
    works on it; when the process dies (exit status other than 0/1) or stays silent, the last file named is blamed and the run
    resumes after it.  Returns {file: (status, detail)} with status OK (process went past it) / CRASH / TIMEOUT."""
    exe = R.ucg_binary()
    out = {}
    todo = list(files)
    stalls = 0
    while todo:
        if stalls >= MAX_STALLS:
            for f in todo:
                out[f] = ('SKIP', '')
            break
        errf = tempfile.TemporaryFile()
        p = subprocess.Popen([exe] + list(pre) + [sub] + todo, stdout=subprocess.PIPE, stderr=errf, stdin=subprocess.DEVNULL, cwd=cwd, env=dict(os.environ, RUST_BACKTRACE='0'))
        fd = p.stdout.fileno()
        buf = b''
        last = time.time()
        timed_out = False
        while True:
            r, _, _ = select.select([fd], [], [], 0.5)
            if r:
                d = os.read(fd, 1 << 16)
                if not d:
                    break
                buf += d
                last = time.time()
            elif time.time() - last > per_file:
                timed_out = True
                p.kill()
                break
        try:
            p.wait(timeout=10)
        except subprocess.TimeoutExpired:
            p.kill()
            p.wait()
        p.stdout.close()
        rc = p.returncode
        text = buf.decode('utf-8', 'replace')
        if not timed_out and rc in (0, 1):
            for f in todo:
                out[f] = ('OK', '')
            errf.close()
            break
        # which file was it working on?  the last one announced on stdout
        idx = -1
        for i, f in enumerate(todo):
            if re.search(r'(^|[\s/])%s(\s|$)' % re.escape(f), text):
                idx = i
        idx = max(idx, 0)
        errf.seek(0)
        tail = errf.read()[-400:].decode('utf-8', 'replace').strip().replace('\n', ' | ')
        errf.close()
        for f in todo[:idx]:
            out[f] = ('OK', '')
        out[todo[idx]] = ('TIMEOUT', 'no output for %.0f s' % per_file) if timed_out else ('CRASH', 'exit status %s: %s' % (rc, tail))
        stalls += 1 if timed_out else 0
        todo = todo[idx + 1:]
    return out


# ------------------------------------------------------------------ corpus, tokens, mutations
TOKEN_RE = re.compile(r'"(?:\\.|[^"\\])*"|//[^\n]*|[A-Za-z_][A-Za-z0-9_-]*|\d+|\s+|==|=>|>=|<=|\.\.|::|&&|\|\||%%|!=|!~|.', re.S)


def lex(src):
    """(separator-before, token) pairs + trailing separator; separators are whitespace and comments.  Independent of ucg's tokenizer."""
    toks, sep = [], ''
    for m in TOKEN_RE.finditer(src):
        t = m.group(0)
        if t.isspace() or t.startswith('//'):
            sep += t
        else:
            toks.append((sep, t))
            sep = ''
    return toks, sep


def unlex(toks, tail):
    return ''.join(s + t for s, t in toks) + tail


KEYWORDS = {'let', 'import', 'include', 'as', 'func', 'select', 'map', 'filter', 'reduce', 'module', 'out', 'constraint', 'convert',
            'assert', 'fail', 'TRACE', 'not'}
BINOPS = {'+', '-', '*', '/', '%%', '==', '!=', '>=', '<=', '<', '>', '&&', '||', '~', '!~', 'in', 'is'}


def tok_class(t):
    """Coarse classes used by the class-preserving replacement (so that a good share of the mutants still parses)."""
    if t[0] == '"':
        return 'str'
    if t[0].isdigit():
        return 'num'
    if t in BINOPS:
        return 'binop'
    if t in KEYWORDS:
        return 'kw:' + t
    if t[0].isalpha() or t[0] == '_':
        return 'word'
    return 'punct:' + t


MUTATIONS = ['delete', 'duplicate', 'swap', 'replace', 'replace_same_class', 'replace_same_class', 'replace_atom', 'replace_atom']


def is_atom(t):
    return tok_class(t) in ('str', 'num', 'word')


def mutate(rnd, toks):
    """One token-level mutation: delete / duplicate / swap adjacent / replace by another token of the same file (any token, a token
    of the same lexical class, or -- for names and literals -- any other name or literal; the last two keep most mutants parseable
    so that the later stages are reached)."""
    toks = list(toks)
    n = len(toks)
    if n == 0:
        return toks, 'none'
    kind = rnd.choice(MUTATIONS)
    i = rnd.randrange(n)
    if kind == 'delete':
        del toks[i]
    elif kind == 'duplicate':
        toks.insert(i, (' ', toks[i][1]))
    elif kind == 'swap':
        if n > 1:
            i = rnd.randrange(n - 1)
            (s1, t1), (s2, t2) = toks[i], toks[i + 1]
            toks[i], toks[i + 1] = (s1, t2), (s2 or ' ', t1)
    elif kind == 'replace':
        toks[i] = (toks[i][0] or ' ', toks[rnd.randrange(n)][1])
    elif kind == 'replace_same_class':
        cls = tok_class(toks[i][1])
        pool = sorted(set(t for _, t in toks if tok_class(t) == cls and t != toks[i][1]))
        if pool:
            toks[i] = (toks[i][0] or ' ', rnd.choice(pool))
    else:
        idx = [j for j in range(n) if is_atom(toks[j][1])]
        if idx:
            i = rnd.choice(idx)
            pool = sorted(set(toks[j][1] for j in idx if toks[j][1] != toks[i][1]))
            if pool:
                toks[i] = (toks[i][0] or ' ', rnd.choice(pool))
    return toks, kind


def shipped_files():
    """Every .ucg file shipped in the repository (integration_tests, std, examples, example_errors, docsite, src fixtures), as (relative path, text)."""
    out = []
    for top in ['integration_tests', 'std', 'examples', 'example_errors', 'docsite', 'src']:
        for dp, dn, fn in os.walk(os.path.join(REPO, top)):
            dn.sort()
            for f in sorted(fn):
                if f.endswith('.ucg'):
                    p = os.path.join(dp, f)
                    try:
                        out.append((os.path.relpath(p, REPO), open(p, encoding='utf-8').read()))
                    except UnicodeDecodeError:
                        pass
    return out


def fuzz_corpus():
    """UTF-8 decodable files of /repo/fuzz/corpus (if present), as (relative path, text)."""
    out = []
    base = os.path.join(REPO, 'fuzz', 'corpus')
    for dp, dn, fn in os.walk(base):
        dn.sort()
        for f in sorted(fn):
            p = os.path.join(dp, f)
            try:
                t = open(p, 'rb').read().decode('utf-8')
            except (UnicodeDecodeError, OSError):
                continue
            if SEP not in t and '\n%%%%' not in t:
                out.append((os.path.relpath(p, REPO), t))
    return out


# ------------------------------------------------------------------ helpers: parallel shards, excuses, verdicts
import threading


def ensure_built():
    """Build (once, in the calling thread) before any worker thread asks for the binaries."""
    R.driver_binary()
    R.ucg_binary()


def par(thunks):
    """Run thunks in threads (each spawns its own subprocess); returns their results in order, re-raising the first exception."""
    out = [None] * len(thunks)
    err = []

    def run(i, f):
        try:
            out[i] = f()
        except BaseException as e:      # noqa
            err.append(e)
    ts = [threading.Thread(target=run, args=(i, f)) for i, f in enumerate(thunks)]
    for t in ts:
        t.start()
    for t in ts:
        t.join()
    if err:
        raise err[0]
    return out


def run_cases_sharded(mode, cases, shards=2, per_case=PER_CASE):
    if shards <= 1 or len(cases) < 4 * shards:
        return run_cases(mode, cases, per_case)
    k = (len(cases) + shards - 1) // shards
    parts = [cases[i:i + k] for i in range(0, len(cases), k)]
    res = par([(lambda p=p: run_cases(mode, p, per_case)) for p in parts])
    return [x for r in res for x in r]


def confirm_slow(mode, src):
    """A TIMEOUT seen in a batch only counts when the case, run alone, is again silent for 2 x PER_CASE (guards against load spikes)."""
    st, pl = run_cases(mode, [src], per_case=2 * PER_CASE / 3)[0]     # the first answer gets 3 x per_case: 2 x PER_CASE in total
    return st, pl


# KNOWN: genuine violations of C04 on the current HEAD, reported and excluded so that the stand-ins pass until they are fixed.
# Each entry is a dict(id, input, observed, clause, applies) -- `applies(src, status, payload)` is the (deliberately narrow) condition under
# which a failure seen in a *random* family (mutants, garbage, random programs) is attributed to the entry instead of being reported.
# History (fixed, now regression cases in REGRESSIONS / NEST_CAPS):
#   cast-of-composite                  `let x = int([]);` panicked at an unreachable! (any cast of a list / tuple / func / module / constraint); fixed by ade6507
#   parse-time-exponential-in-nesting  `let x = ((((((((((1))))))))));` took 45 s to parse, x4 per level; fixed by aa675cd
#   parse-time-exponential-open-parens-at-end-of-input  `let x = ((((((((((((((((((` (text ends after k nested `(`) took x2 per level, 18: 9 s; fixed by 2e14dd2
KNOWN = []


def max_nesting(src):
    d = m = 0
    for ch in src:
        if ch in '([{':
            d += 1
            m = max(m, d)
        elif ch in ')]}':
            d = max(0, d - 1)
    return m


# inputs outside the property's quantifier ("Excluded: nesting deeper than 64 levels, module self-recursion without a base case,
# ranges longer than 10^6"): a stack overflow / hang is attributed to them only under these conditions
RECURSION_RE = re.compile(r'\bthis\b|\bpkg\b|import\s+"std/')
BIG_NUM_RE = re.compile(r'\b\d{7,}\b')


def out_of_scope(src, st, pl):
    if st in ('CRASH', 'TIMEOUT') and ('overflowed its stack' in pl or st == 'TIMEOUT' or 'status -6' in pl or 'status 134' in pl) and RECURSION_RE.search(src):
        return 'module self-recursion (mod.this / mod.pkg / std library modules) possibly without a base case'
    if st in ('CRASH', 'TIMEOUT') and BIG_NUM_RE.search(src) and re.search(r'[^:]:[^:]', src):
        return 'a range that may be longer than 10^6'
    if max_nesting(src) > 64:
        return 'nesting deeper than 64 levels'
    return None


def excused(src, st, pl):
    for k in KNOWN:
        if k['applies'](src, st, pl):
            return 'KNOWN ' + k['id']
    return out_of_scope(src, st, pl)


def bad(st):
    return st not in ('OK', 'ERR', 'SKIP')


def violation(name, bound, n, src, mode, st, pl, extra=''):
    how = {'ucg build': 'real binary: `ucg build <file>` (type checker + VM + converter), file content = source',
           'ucg test': 'real binary: `ucg test <file>_test.ucg`, file content = source',
           'ucg fmt': 'real binary: `ucg fmt <file>`, file content = source'}.get(mode, 'replay driver `%s` under catch_unwind' % mode)
    return dict(name=name, bound=bound, cases=n, status='violation',
                detail='%s on %r: %s %s%s' % (mode, src[:120], st, pl[:160].replace('\n', ' '), extra),
                input=dict(source=src, expected='a result or a diagnostic (driver status OK / ERR; exit status 0 or 1) within %.0f s' % PER_CASE,
                           observed='%s %s' % (st, pl[:400]), how=how))


def judge(name, bound, n, runs):
    """runs: iterable of (mode, src, status, payload).  First genuine failure -> violation dict, else ok dict (with the excuses counted)."""
    exc = {}
    examples = []
    for mode, src, st, pl in runs:
        if not bad(st):
            continue
        why = excused(src, st, pl)
        if why:
            exc[why] = exc.get(why, 0) + 1
            if len(examples) < 3:
                examples.append(dict(why=why, mode=mode, status=st, source=src))
            continue
        if st == 'TIMEOUT' and mode in ('ucg build', 'ucg test'):
            # seen in a batch: only counts when the file, built alone, again does not finish (guards against load spikes; a file whose behaviour
            # depends on its neighbours -- imports -- may not reproduce alone: then it is not reported)
            tmp = tempfile.mkdtemp(prefix='verif_c04t_')
            try:
                with open(os.path.join(tmp, 'slow_test.ucg'), 'w', encoding='utf-8', newline='') as f:
                    f.write(src)
                try:
                    subprocess.run([R.ucg_binary(), mode.split()[1], 'slow_test.ucg'], cwd=tmp, capture_output=True, stdin=subprocess.DEVNULL, timeout=2 * PER_CASE)
                    continue
                except subprocess.TimeoutExpired:
                    pl = 'no output for %.0f s in the batch and no exit within %.0f s when built alone' % (PER_CASE, 2 * PER_CASE)
            finally:
                shutil.rmtree(tmp, ignore_errors=True)
        if st == 'TIMEOUT' and not mode.startswith('ucg'):
            st2, pl2 = confirm_slow(mode, src)
            if not bad(st2):
                continue
            st, pl = st2, 'no answer within %.0f s in the batch and again none within %.0f s when run alone' % (PER_CASE, 2 * PER_CASE)
        return violation(name, bound, n, src, mode, st, pl)
    d = dict(name=name, bound=bound, cases=n, status='ok')
    if exc:
        d['detail'] = 'excluded: ' + '; '.join('%d x %s' % (v, k) for k, v in sorted(exc.items()))
        d['excluded_examples'] = examples
    return d


def build_and_test(work, names, srcs, subs=('build', 'test'), shards=1):
    """Write srcs under `work` as names, run `ucg build` / `ucg test` batches; yields (mode, src, status, payload)."""
    for fn, s in zip(names, srcs):
        p = os.path.join(work, fn)
        os.makedirs(os.path.dirname(p), exist_ok=True)
        with open(p, 'w', encoding='utf-8', newline='') as f:
            f.write(s)
    jobs = []
    for sub in subs:
        k = (len(names) + shards - 1) // max(shards, 1)
        for i in range(0, len(names), max(k, 1)):
            jobs.append((sub, names[i:i + k]))
    res = par([(lambda sub=sub, part=part: run_ucg_batch(sub, part, work)) for sub, part in jobs])
    out = []
    by = dict(zip(names, srcs))
    for (sub, part), r in zip(jobs, res):
        for fn in part:
            st, pl = r[fn]
            out.append(('ucg ' + sub, by[fn], st, pl))
    return out


# ------------------------------------------------------------------ (a) token-level mutations of every shipped .ucg file and of the fuzz corpus
def standin_token_mutations(tier, seed):
    ensure_built()
    rnd = random.Random(seed)
    n_mut = 2000 if tier == 'thorough' else 100
    n_bf = 60 if tier == 'thorough' else 6
    shipped = [(p, t) for p, t in shipped_files()]
    fuzz = [(p, t) for p, t in fuzz_corpus() if 20 <= len(t.encode()) <= 4096 and '\x00' not in t]
    lexed = {}
    muts = []
    for i in range(n_mut):
        pool = fuzz if (fuzz and rnd.random() < 0.25) else shipped
        p, t = pool[rnd.randrange(len(pool))]
        if p not in lexed:
            lexed[p] = lex(t)
        tk, tail = lexed[p]
        kinds = []
        for _ in range(rnd.choice([1, 1, 1, 2, 3])):
            tk, kind = mutate(rnd, tk)
            kinds.append(kind)
        muts.append((p, kinds, unlex(tk, tail)))
    srcs = [m[2] for m in muts]
    bound = ('%d seeded mutants (1-3 token mutations: delete / duplicate / swap adjacent / replace by another token of the same file) of the %d shipped .ucg files '
             'and %d UTF-8 fuzz-corpus files, each through driver tokens, ast, eval and the real `ucg build` + `ucg test` (type checker + VM); %d of them also '
             'through driver buildfile' % (n_mut, len(shipped), len(fuzz), n_bf))
    work = tempfile.mkdtemp(prefix='verif_c04m_')
    try:
        for top in ['integration_tests', 'std', 'examples', 'example_errors']:
            if os.path.isdir(os.path.join(REPO, top)):
                shutil.copytree(os.path.join(REPO, top), os.path.join(work, top))
        names = []
        for i, (p, kinds, src) in enumerate(muts):
            d = os.path.dirname(p) if not p.startswith('fuzz') else 'fz'
            names.append(os.path.join(d, 'm%d_test.ucg' % i))
        sh = 4 if tier == 'thorough' else 2
        r_tok, r_ast, r_eval, r_bin, r_bf = par([
            lambda: run_cases('tokens', srcs),
            lambda: run_cases_sharded('ast', srcs, sh),
            lambda: run_cases_sharded('eval', srcs, sh),
            lambda: build_and_test(work, names, srcs, shards=sh),
            lambda: run_cases_sharded('buildfile', srcs[:n_bf], 2 if tier == 'thorough' else 1, per_case=PER_CASE + 2)])
    finally:
        shutil.rmtree(work, ignore_errors=True)
    runs = []
    for mode, res in (('tokens', r_tok), ('ast', r_ast), ('eval', r_eval)):
        runs += [(mode, s, st, pl) for s, (st, pl) in zip(srcs, res)]
    runs += [('buildfile', s, st, pl) for s, (st, pl) in zip(srcs[:n_bf], r_bf)]
    runs += r_bin
    n = 5 * n_mut + n_bf
    r = judge('token_mutations', bound, n, runs)
    if r['status'] == 'violation':
        src = r['input']['source']
        for p, kinds, s in muts:
            if s == src:
                r['input']['mutant_of'] = p
                r['input']['mutations'] = kinds
                break
    return r


# ------------------------------------------------------------------ (b) arbitrary UTF-8 garbage
GARBAGE_ALPHA = list(' \t\n\r"\\/@%{}[]()=<>!~|&.,:;+-*#$^?`\'_0123456789abcxyzNUL') + [
    '\x00', '\x0b', '\x0c', '\x7f', 'é', '✓', '日', ' ', '﻿', '\U0001F600', '́', '\xa0', '//', '/*', '*/', '"', '\\"', '\\\\', '\\',
    'let ', 'func', 'module', '=>', '::', '..', '%%', '&&', '||', '==', 'in ', 'is ', 'not ', 'select', 'import ', 'include ', 'assert ', 'out ',
    'convert ', 'constraint ', 'map(', 'filter(', 'reduce(', 'env', 'self', 'mod', 'TRACE ', 'fail ', 'true', 'false', '1.', '.5',
    '9223372036854775808', '99999999999999999999999999', '0.000000000000000000000001']
# hand-written fragments: unterminated strings / comments, lone backslashes, NULs, truncated statements of every kind
GARBAGE_FIXED = [
    '', '"', '"\\', '"abc', '"abc\\', '// c', '//', '/', '\\', '\x00', '"\x00"', 'let x = "\x00";', 'let x = "a\\', 'let x = "a\\"', 'let x = "\\\\\\"',
    'let x = 1; // end', 'let x = 1; /', 'let \\ = 1;', 'let x = \;', 'let x = "@" % (\\);', '﻿ let x = 1;', 'let x = 1;\x00', 'let\x00x = 1;',
    'let x = "\\x";', 'let x = "\\u1234";', 'let x = "\\0";', 'let x = 1 /* c */;', 'let x = 1\r;\r', 'let é = 1;', 'let x = é;', '{', '}', '(', ')', '[', ']',
    ';', ';;', 'let', 'let x', 'let x =', 'let x = ;', '=', 'let x = 1', 'let x = 1;;', '.', '..', '...', '1.', '.1', '1..2', '1.2.3', 'let x = 1.2.3;',
    'let x = 1 . 2;', 'let x = .;', 'let x = ..;', 'let x = ::;', 'let x :: = 1;', 'let x :: in = 1;', 'let x :: in .. = 1;', 'let x :: in 1.. = 1;',
    'let x :: | = 1;', 'let x :: 1 | = 1;', 'let x :: | 1 = 1;', '@', '%', '%%', 'let x = %;', 'let x = "a" %;', 'let x = "a" % ;', 'let x = "a" % ();',
    'let x = "@" % ();', 'let x = "@" % (,);', 'let x = [,];', 'let x = {,};', 'let x = {a};', 'let x = {a =};', 'let x = {= 1};', 'let x = {1 = 1};',
    'let x = {"" = 1};', 'let x = {"" = 1}."";', 'let x = func => 1;', 'let x = func() =>;', 'let x = func( => 1;', 'let x = func(1) => 1;',
    'let x = func(a, a) => a;', 'let x = module => {};', 'let x = module{} => ;', 'let x = module{} => {;};', 'let x = module{} => () {};',
    'let x = module{} => (1) {};', 'let x = module{} => (a) {};', 'let x = (module{} => (a) {}){};', 'let x = select;', 'let x = select () => {};',
    'let x = select (1) => {};', 'let x = select (,) => {};', 'let x = select ("a") => {};', 'let x = select ("a", 1) => {};',
    'let x = select ("a", 1) => {a};', 'let x = import;', 'let x = import "";', 'let x = import "\x00";', 'let x = include;', 'let x = include str;',
    'let x = include str "";', 'let x = include "" "";', 'let x = include str "\x00";', 'out;', 'out json;', 'out 1 1;', 'out "json" 1;', 'convert;',
    'let x = convert json;', 'assert;', 'assert ;', 'assert {};', 'assert {ok = true};', 'assert {desc = "d"};', 'constraint;', 'constraint c;',
    'constraint c =;', 'constraint c = |;', 'constraint c = in;', 'constraint c = in ..;', 'constraint 1 = 1;', 'constraint c = c;',
    'let x = 99999999999999999999;', 'let x = 9223372036854775808;', 'let x = 0 - 9223372036854775808;', 'let x = ' + '9' * 400 + '.0;',
    'let x = ' + '0' * 40 + '1;', 'let x = 1.' + '0' * 60 + '1;', 'let x = a.99999999999999999999;', 'let x = [1].99999999999999999999;',
    'let x = [1].9223372036854775807;', 'let x = [1].18446744073709551615;', 'let x = [1].18446744073709551616;', 'let x = [1].(0-1);',
    'let x = [1]."0";', 'let x = [1].0.0;', 'let x = [1].1.0;', 'let x = [[1]].0.0;', 'let x = {a = 1}.0;', 'let x = "abc".0;', 'let x = "abc".a;',
    'let x = 1.a;', 'let x = 1 .a;', 'let x = NULL.a;', 'let x = true.a;', 'let x = (func() => 1).a;', 'let x = env.;', 'let x = env."";', 'let x = env.0;',
    'let x = env.(1);', 'let x = self;', 'let x = self.a;', 'let x = mod;', 'let x = mod.this;', 'let x = mod.pkg;', 'let x = mod.pkg();', 'let x = item;',
    'let x = this;', 'let x = "' + 'é' * 300 + '";', 'let x = "' + '\\' * 301 + '";', '/' * 500, '"' * 501, '\\' * 400, '(' * 60, 'let x = ' + '(' * 60, '(' * 60 + ' // c', 'let x = 1 + ' + '(' * 60, 'let x = f' + '(' * 60, 'let x = [' + '(' * 60, '(' * 60 + '+', '(' * 30 + ' ', '[' * 60 + ';', '{' * 60,
    ')' * 60, 'let x = ' + '(' * 60 + '1;', 'let x = 1' + ')' * 60 + ';', '// ' + 'c' * 1000, '//\r', '//\r\n//\n//', 'let x = 1;//', '"\n\n\n', '"\r\n',
]


def gen_garbage(rnd):
    n = rnd.randint(0, 400)
    k = rnd.random()
    if k < 0.3:      # arbitrary code points of every UTF-8 length, controls included
        s = ''.join(chr(rnd.choice([rnd.randrange(0, 128), rnd.randrange(128, 0x800), rnd.randrange(0x800, 0xd800), rnd.randrange(0xe000, 0x10000),
                                    rnd.randrange(0x10000, 0x110000)])) for _ in range(n))
    elif k < 0.7:    # soup of ucg punctuation, quotes, backslashes, keywords, NUL and non-ASCII
        s = ''.join(rnd.choice(GARBAGE_ALPHA) for _ in range(n))
    else:            # a valid prefix followed by soup (reaches the parser / evaluator before the garbage)
        s = rnd.choice(['let a = 1;\n', 'let f = func(a) => a;\nlet x = f(', 'let t = {a = "', 'let s = "abc" + ', 'assert {ok = true, desc = "d"};\n']) + \
            ''.join(rnd.choice(GARBAGE_ALPHA) for _ in range(n // 2))
    s = s.encode('utf-8')[:1024].decode('utf-8', 'ignore')
    return s.replace('\n%%%%', '\n%%% %')


def standin_garbage(tier, seed):
    ensure_built()
    rnd = random.Random(seed)
    n_rand = 20000 if tier == 'thorough' else 1500
    n_bin = 1500 if tier == 'thorough' else 150
    srcs = list(GARBAGE_FIXED) + [gen_garbage(rnd) for _ in range(n_rand)]
    bin_srcs = list(GARBAGE_FIXED) + srcs[len(GARBAGE_FIXED):len(GARBAGE_FIXED) + n_bin]
    bound = ('%d hand-written fragments (unterminated strings/comments, lone backslashes, NULs, truncated statements, over-long literals) + %d seeded random '
             'UTF-8 texts <= 1 KiB (arbitrary code points / ucg-punctuation soup / valid prefix + soup) through driver tokens, ast, eval; %d of them also as files '
             'through the real `ucg build`, and 6 byte files that are not UTF-8' % (len(GARBAGE_FIXED), n_rand, len(bin_srcs)))
    work = tempfile.mkdtemp(prefix='verif_c04g_')
    try:
        names = ['g%d.ucg' % i for i in range(len(bin_srcs))]
        # files that are not valid UTF-8 at all (cannot go through the driver, whose input is a Rust String)
        raw = [b'\xff', b'\xc3', b'let x = "\xff";', b'\xf0\x9f\x98', b'\xed\xa0\x80', b'let x = 1;\n\xfe\xff']
        raw_names = []
        for i, b in enumerate(raw):
            with open(os.path.join(work, 'r%d.ucg' % i), 'wb') as f:
                f.write(b)
            raw_names.append('r%d.ucg' % i)
        sh = 2 if tier == 'thorough' else 1
        r_tok, r_ast, r_eval, r_bin, r_raw = par([
            lambda: run_cases('tokens', srcs),
            lambda: run_cases('ast', srcs),
            lambda: run_cases_sharded('eval', srcs, sh),
            lambda: build_and_test(work, names, bin_srcs, subs=('build',), shards=sh),
            lambda: run_ucg_batch('build', raw_names, work)])
    finally:
        shutil.rmtree(work, ignore_errors=True)
    runs = []
    for mode, res in (('tokens', r_tok), ('ast', r_ast), ('eval', r_eval)):
        runs += [(mode, s, st, pl) for s, (st, pl) in zip(srcs, res)]
    runs += r_bin
    runs += [('ucg build', 'bytes %r' % b, r_raw[fn][0], r_raw[fn][1]) for fn, b in zip(raw_names, raw)]
    return judge('garbage', bound, 3 * len(srcs) + len(bin_srcs) + len(raw), runs)


# ------------------------------------------------------------------ (c) generated programs hitting the edge cases the property names
IMAX = '9223372036854775807'
IMIN = '(0 - 9223372036854775807 - 1)'
# value snippets of every type
PRIMS = ['0', '1', '2', IMAX, IMIN, '(0 - 1)', '0.0', '1.5', '.5', '1.', '(1.0 / 0.0)', '(0.0 / 0.0)', '""', '"a"', '"@"', '"é"', '"\\\\"', '"1"', '" 1"',
         '"1.5"', '"abc"', '"99999999999999999999"', '"-1"', '"+1"', '"nan"', '"inf"', '"1e400"', '"0x10"', '"1_000"', '"true"', '"TRUE"', '"false"', '"yes"',
         'true', 'false', 'NULL', '(1 == 1)']
COMPOSITES = ['[]', '[1]', '[1, "a"]', '[[1]]', '[NULL]', '{}', '{a = 1}', '{"a b" = 1}', '{a = {b = [1]}}', 'func() => 1', 'func(a) => a',
              'func(a, b) => a + b', 'module{} => {}', 'module{a = 1} => (a) {let a = mod.a;}', 'env', '(0:3)', 'f', 'm', 'c']
ODD_NAMES = ['str', 'self', 'mod', 'item', 'undefined_name']
VALUES = PRIMS[:20] + PRIMS[-4:] + COMPOSITES + ODD_NAMES
PRE = 'let f = func(a, b) => a; let m = module{a = 1} => {let b = mod.a;}; constraint c = 1 | 2;\n'
OPS = ['+', '-', '*', '/', '%%', '==', '!=', '>=', '<=', '<', '>', '~', '!~', 'in', 'is', '&&', '||', '.']
EXPR_TEMPLATES = [
    'not %s', 'TRACE %s', 'fail %s', '%s.0', '%s.a', '%s."a b"', '%s.(1)', '%s.x.y', '%s.99999999999999999999', '%s{}', '%s{a = 2}', '%s{a = "s"}', '%s{z = self}',
    '%s()', '%s(1)', '%s(1, 2)', '%s(1, 2, 3)', '"@" %% %s', '"@" %% (%s)', '"@ @" %% (%s, %s)', '"@{item}" %% %s', '"@{item.a}" %% %s', '%s %% 1', '%s %% (1)',
    'select (%s) => {}', 'select (%s, 1) => {a = 1}', 'select ("a", %s) => {a = 1}', 'select (%s) => {true = 1, false = 2}',
    'map(%s, [1])', 'map(func(a) => a, %s)', 'filter(%s, [1])', 'filter(func(a) => a, %s)', 'reduce(%s, 0, [1])', 'reduce(func(a, b) => a, %s, [1])',
    'reduce(func(a, b) => a, 0, %s)', 'map(func(a, b) => [a, b], %s)', 'map(func(a, b) => %s, {a = 1})', 'filter(func(a, b) => %s, {a = 1})',
    'reduce(func(a, b, c) => %s, 0, {a = 1})', 'map(func(a) => %s, "ab")', 'map(func(a) => %s, [1, 2])', 'filter(func(a) => %s, "ab")',
    '%s:3', '0:%s', '0:%s:3', 'import %s', 'include str %s', 'convert json %s', 'convert yaml %s', 'convert toml %s', 'convert flags %s', 'convert env %s',
    'convert exec %s', 'convert xml %s', 'convert yamlmulti %s', 'convert bogus %s', '[%s]', '{a = %s}', '{a :: %s = 1}', '(%s)', '%s is "int"', '1 is %s',
    '1 in %s', '%s in [1]', '%s in {a = 1}', '"a" ~ %s', '%s ~ "a"', '"a" !~ %s']
STMT_TEMPLATES = [
    'let x :: %s = 1;', 'let x :: %s = %s;', 'let x :: in %s..3 = 1;', 'let x :: in 0..%s = 1;', 'let x :: 1 | %s = 1;', 'constraint d = %s; let x :: d = 1;',
    'constraint d = %s | d; let x :: d = 1;', 'constraint d = d | %s; let x :: d = 1;', 'constraint d = [d] | %s; let x :: d = [1];',
    'let g = func(a :: %s) => a; let x = g(1);', 'let g = func(a :: %s) => a; let x = g(%s);', 'let n = module{a :: %s = 1} => {}; let x = n{};',
    'let n = module{} => (r :: %s) {let r = 1;}; let x = n{};', 'let x = {a :: %s = %s};', 'assert %s;', 'assert {ok = %s, desc = "d"};',
    'assert {ok = true, desc = %s};', 'out json %s;', 'out flags %s;', 'out env %s;', 'out exec %s;', 'out xml %s;', 'out toml %s;', 'out yaml %s;', '%s;',
    'let %s = 1;']
BAD_PATTERNS = ['(', ')', '[', ']', '*', '+', '?', '{', 'a{1', 'a{2,1}', 'a{1000000000}', '(?P<', '(?P<n>a)(?P<n>b)', '\\\\', '\\\\1', '(?<=a)b', '(?!a)', '[z-a]',
                '[[:bogus:]]', '\\\\p{Bogus}', '(' * 40 + 'a' + ')' * 40, '(a*)*b', 'a' * 300, '\\\\x{110000}', '(?i', 'é', '']
EDGE_INTS = ['0', '1', '(0 - 1)', '2', IMAX, IMIN, '3037000500', '4294967296']
FMT_TEMPLATES = ['', '@', '@ @', 'a@b@c@', '\\\\@', '\\\\\\\\@', 'x', '@@', ' @ ', '@{', '@{}', '@{item', '@{item}', '@{item.a}', '@{1 +}', '@{item} @', '@{@}', '@{"@"}',
                 '@{item.0} @{item.1}', '@{fail "x"}', '@{1 / 0}', '@{' + '(' * 5 + 'item' + ')' * 5 + '}', '{item}', '}@{', '@' * 50]
# nesting: (name, builder(depth), cap) -- cap = the deepest level exercised: 60 (the property covers <= 64 levels), except where the VALUE itself grows
# exponentially with the depth (`convert json convert json ... 1` doubles its escaped text at every level: 2^d characters are inherent, capped at 12).
NEST_CAPS = [
    ('parens', lambda d: 'let x = ' + '(' * d + '1' + ')' * d + ';', 60),
    ('lists', lambda d: 'let x = ' + '[' * d + '1' + ']' * d + ';', 60),
    ('tuples', lambda d: 'let x = ' + '{a = ' * d + '1' + '}' * d + ';', 60),
    ('mixed', lambda d: 'let x = ' + '[{a = (' * (d // 3) + '1' + ')}]' * (d // 3) + ';', 60),
    ('selector_chain', lambda d: 'let t = ' + '{a = ' * d + '1' + '}' * d + '; let x = t' + '.a' * d + ';', 60),
    ('copies', lambda d: 'let t = ' + '{a = ' * d + '1' + '}' * d + '; let x = t' + '{a = self.a' * (d - 1) + '{a = 2}' + '}' * (d - 1) + ';', 60),
    ('shape_lists', lambda d: 'let x :: ' + '[' * d + '0' + ']' * d + ' = ' + '[' * d + '1' + ']' * d + ';', 60),
    ('shape_tuples', lambda d: 'let x :: ' + '{a = ' * d + '0' + '}' * d + ' = ' + '{a = ' * d + '1' + '}' * d + ';', 60),
    ('shape_fields', lambda d: 'let x = ' + '{a :: {a = 0} = ' * d + '{a = 0}' + '}' * d + ';', 60),
    ('recursive_constraint', lambda d: 'constraint t = "" | {k = [t]}; let x :: t = ' + '{k = [' * d + '"s"' + ']}' * d + ';', 60),
    ('funcs', lambda d: 'let x = ' + 'func() => ' * d + '1;', 60),
    ('func_args', lambda d: 'let x = ' + ''.join('func(a%d) => ' % i for i in range(d)) + 'a0;', 60),
    ('nots', lambda d: 'let x = ' + 'not ' * d + 'true;', 60),
    ('traces', lambda d: 'let x = ' + 'TRACE ' * d + '1;', 60),
    ('calls', lambda d: 'let f = func(a) => a; let x = ' + 'f(' * d + '1' + ')' * d + ';', 60),
    ('casts', lambda d: 'let x = ' + 'str(' * d + '1' + ')' * d + ';', 60),
    ('selects', lambda d: 'let x = ' + 'select (true, 0) => {true = ' * d + '1' + '}' * d + ';', 60),
    ('modules', lambda d: 'let x = ' + 'module{} => { let a = ' * d + '1' + '; }' * d + ';', 60),
    ('formats', lambda d: 'let x = ' + '"@" % (' * d + '1' + ')' * d + ';', 60),
    ('converts', lambda d: 'let x = ' + 'convert json ' * d + '1;', 12),
    ('fails', lambda d: 'let x = ' + 'fail ' * d + '"m";', 60),
    ('sum_chain', lambda d: 'let x = ' + '1 + ' * d + '1;', 60),
    ('mixed_chain', lambda d: 'let x = ' + '1 + 2 * ' * d + '1;', 60),
    ('compare_chain', lambda d: 'let x = ' + '1 == ' * d + '1;', 60),
    ('and_chain', lambda d: 'let x = ' + 'true && ' * d + 'true;', 60),
    ('missing_selector_chain', lambda d: 'let t = {a = 1}; let x = t' + '.a' * d + ';', 60),
    ('alternatives', lambda d: 'let x :: ' + '1 | ' * d + '2 = 1;', 60),
    ('range_alternatives', lambda d: 'let x :: ' + 'in 0..1 | ' * d + '2 = 1;', 60),
    ('constraint_chain', lambda d: ''.join('constraint c%d = %s;\n' % (i, 'c%d | %d' % (i - 1, i) if i else '0') for i in range(d)) + 'let x :: c%d = 3;' % (d - 1), 60),
    ('let_chain', lambda d: ''.join('let a%d = %s;\n' % (i, 'a%d + 1' % (i - 1) if i else '0') for i in range(d)), 60),
    ('func_chain', lambda d: ''.join('let f%d = func(a) => %s;\n' % (i, 'f%d(a) + 1' % (i - 1) if i else 'a') for i in range(d)) + 'let x = f%d(1);' % (d - 1), 60),
    ('in_chain', lambda d: 'let x = ' + '1 in ' * d + '[1];', 60),
    ('is_chain', lambda d: 'let x = 1' + ' is "int"' * d + ';', 60),
    ('unclosed_parens', lambda d: 'let x = ' + '(' * d + '1;', 60),
    ('unclosed_lists', lambda d: 'let x = ' + '[' * d + '1;', 60),
    ('unclosed_tuples', lambda d: 'let x = ' + '{a = ' * d + '1;', 60),
    ('closers', lambda d: 'let x = 1' + ')' * d + ';', 60),
    ('list_width', lambda d: 'let x = [' + ', '.join(['1'] * (d * 10)) + '];', 60),
    ('tuple_width', lambda d: 'let x = {' + ', '.join('f%d = %d' % (i, i) for i in range(d * 5)) + '};', 60),
    ('arg_width', lambda d: 'let f = func(' + ', '.join('a%d' % i for i in range(d)) + ') => a0; let x = f(' + ', '.join(['1'] * d) + ');', 60),
    ('recursive_module_with_base', lambda d: 'let r = module{n = 0, stop = %d} => (res) {let res = select (mod.n < mod.stop, [mod.n]) => {true = [mod.n] + mod.this{n = mod.n + 1}};}; let x = r{};' % d, 40),
    ('range_length', lambda d: 'let x = 0:%d;' % (d * 1000), 60),
    ('reduce_length', lambda d: 'let x = reduce(func(acc, i) => acc + i, 0, 0:%d);' % (d * 100), 60),
    ('string_map', lambda d: 'let x = map(func(ch) => ch + ch, "%s");' % ('é' * d * 5), 60),
]
# inputs that once crashed or hung (all fixed on HEAD; see known_findings.txt) -- kept as regression cases
REGRESSIONS = [
    'let x = int([]);', 'let x = str({a = 1});', 'let f = func(a) => a; let x = bool(f);', 'constraint c = 1 | 2; let x = float(c);', 'let x = int(0:3);', 'assert str({});',
    'out exec int(func() => 1);', 'let x = TRACE float(module{} => {});', 'let x = ((((((((((1))))))))));', 'let x = [[[[[[[[[[[[1]]]]]]]]]]]];', '(((((((((',
    'constraint t = "" | {k = [t]}; let x :: t = {k = [{k = [{k = [{k = ["s"]}]}]}]};',
    'let x = 1 / 0;', 'let x = 7 %% 0;', 'let x = 9223372036854775807 + 1;', 'let x = (0 - 9223372036854775807 - 1) / (0 - 1);', 'let x = (0 - 9223372036854775807 - 1) %% (0 - 1);',
    'let x = 9223372036854775807 * 2;', 'let x = 0 - 9223372036854775807 - 2;', 'let x = 9223372036854775806:9223372036854775807;', 'let x = 9223372036854775800:3:9223372036854775807;',
    'let x = "" % (1);', 'let x = "@ @" % (1);', 'let x = "@" % (1, 2);', 'let x = "" % ();',
    'let y = map(func(a, b) => a, [1]);', 'let y = filter(func(a, b) => a, [1]);', 'let y = reduce(func(a) => a, 0, [1]);', 'let y = map(func() => 1, [1]);',
    'let y = map(func(a) => a, {a = 1});', 'let y = reduce(func(a, b) => a, 0, {a = 1});', 'let y = map(func(a, b) => [a, b], [1, "a"]);', 'let y = map(func(a, b) => 1, {a = 1});',
    'let y = map(func(a, b) => [1, 2], {a = 1});', 'let y = map(func(a, b) => [a], {a = 1});', 'let y = map(func(a, b) => [a, b, 1], {a = 1});', 'let y = map(func(a) => a, env);',
    'constraint a = a | 1; let x :: a = 1;', 'constraint a = 1 | a; let x :: a = 1;', 'constraint a = a; let x :: a = 1;', 'constraint a = a | a; let x :: a = 1;',
    'constraint a = b | 1; constraint b = a | 2; let x :: a = 1;', 'constraint a = {child = a}; let x :: a = {child = 1};', 'constraint a = [a]; let x :: a = [[[]]];',
    'let x :: x = 1;', 'let x = env.VERIF_NOPE_NOT_SET;', 'out toml {a = NULL};', 'out json 1; out json 2;',
]


# grammar-based random programs (mostly ill-typed; a prelude defines one name of every type so that evaluation gets past name lookup)
R_ATOMS = ['0', '1', '2', '3', IMAX, '(0 - 1)', '0.0', '1.5', '""', '"a"', '"b"', '"@"', 'true', 'false', 'NULL', '[]', '{}', 'env']
R_NAMES = ['a', 'b', 'f', 'g', 'm', 't', 'l', 's', 'n', 'c', 'd', 'x0', 'x1', 'x2', 'self', 'mod', 'item']
R_PRE = ('let a = 1; let b = "s"; let f = func(a, b) => a; let g = func(a) => a; let m = module{a = 1} => {let b = mod.a;}; let t = {a = 1, b = "s"}; '
         'let l = [1, 2]; let s = "str"; let n = NULL; constraint c = 1 | 2; constraint d = "" | [d];\n')
R_FIELDS = ['a', 'b', 'c', '"k k"', 'ok', 'desc', 'name', 'children', 'text', 'root', 'command', 'args', 'env', 'attrs', 'ns']


def r_expr(r, d):
    if d <= 0 or r.random() < 0.25:
        return r.choice(R_ATOMS) if r.random() < 0.6 else r.choice(R_NAMES)
    k = r.randrange(24)

    def e():
        return r_expr(r, d - 1)
    if k == 0:
        return '(%s %s %s)' % (e(), r.choice(OPS), e())
    if k == 1:
        return '%s %s %s' % (e(), r.choice(OPS), e())
    if k == 2:
        return '[%s]' % ', '.join(e() for _ in range(r.randint(0, 3)))
    if k == 3:
        return '{%s}' % ', '.join('%s%s = %s' % (r.choice(R_FIELDS), (' :: ' + r_shape(r, d - 1)) if r.random() < 0.2 else '', e()) for _ in range(r.randint(0, 3)))
    if k == 4:
        return 'func(%s) => %s' % (', '.join(r.choice(['a', 'b', 'p', 'q']) + ((' :: ' + r_shape(r, d - 1)) if r.random() < 0.3 else '') for _ in range(r.randint(0, 3))), e())
    if k == 5:
        return '%s(%s)' % (r.choice(['f', 'g', 'a', 'm', 't']), ', '.join(e() for _ in range(r.randint(0, 3))))
    if k == 6:
        return '%s{%s}' % (r.choice(['t', 'm', 'a', 'f', 'self']), ', '.join('%s = %s' % (r.choice(['a', 'b', 'c']), e()) for _ in range(r.randint(0, 2))))
    if k == 7:
        return 'select (%s%s) => {%s}' % (e(), (', ' + e()) if r.random() < 0.6 else '', ', '.join('%s = %s' % (r.choice(['a', 'b', 'true', 'false', '"a"']), e()) for _ in range(r.randint(0, 3))))
    if k == 8:
        return '%s(%s, %s)' % (r.choice(['map', 'filter']), e(), e())
    if k == 9:
        return 'reduce(%s, %s, %s)' % (e(), e(), e())
    if k == 10:
        return '%s(%s)' % (r.choice(['int', 'float', 'str', 'bool']), e())
    if k == 11:
        return '"%s" %% (%s)' % (r.choice(['', '@', '@ @', 'x', '\\\\@', '@{item}', '@@@']), ', '.join(e() for _ in range(r.randint(0, 3))))
    if k == 12:
        return '"%s" %% %s' % (r.choice(['@{item}', '@{item.a}', '@{item + 1}', '@{', '@{}', '@{1 +}', '@{item.0} @{item.1}', '@']), e())
    if k == 13:
        return '%s:%s' % (r.choice(['0', '1', 'a', '(0 - 2)']), r.choice(['3', '0', 'b', 'n'])) if r.random() < 0.7 else '0:%s:%s' % (r.choice(['1', '2', '0', '(0 - 1)', 'a']), r.choice(['5', 'n']))
    if k == 14:
        return 'not %s' % e()
    if k == 15:
        return 'module{%s} => %s{%s}' % (', '.join('%s%s = %s' % (r.choice(['a', 'b']), (' :: ' + r_shape(r, d - 1)) if r.random() < 0.3 else '', e()) for _ in range(r.randint(0, 2))),
                                         r.choice(['', '(r) ', '(a) ', '(r :: %s) ' % r_shape(r, d - 1)]), ' '.join(r_stmt(r, d - 1, i + 50) for i in range(r.randint(0, 2))))
    if k == 16:
        return '%s.%s' % (e(), r.choice(['a', 'b', '0', '1', '"k k"', '(1)', 'x']))
    if k == 17:
        return 'convert %s %s' % (r.choice(['json', 'yaml', 'toml', 'flags', 'env', 'exec', 'xml', 'yamlmulti']), e())
    if k == 18:
        return 'TRACE %s' % e()
    if k == 19:
        return 'import "%s"' % r.choice(['std/lists.ucg', 'std/tuples.ucg', 'std/strings.ucg', 'std/schema.ucg', 'std/testing.ucg', 'std/functional.ucg', 'std/xml.ucg', 'nope.ucg', ''])
    if k == 20:
        return '(%s)' % e()
    if k == 21:
        return 'fail %s' % e()
    if k == 22:
        return '%s is "%s"' % (e(), r.choice(['int', 'str', 'float', 'list', 'tuple', 'func', 'module', 'null', 'bool', 'bogus']))
    return '%s in %s' % (e(), e())


def r_shape(r, d):
    k = r.randrange(14) if d > 0 else r.randrange(8)
    if k == 0:
        return r.choice(['0', '""', 'true', '0.0', 'NULL', '[]', '{}'])
    if k == 1:
        return r.choice(R_NAMES)
    if k == 2:
        return 'in %s..%s' % (r.choice(['', '0', '1', '0.0', '"a"', 'a']), r.choice(['', '3', '10', '1.0', 'b']))
    if k == 3:
        return ' | '.join(r.choice(['1', '2', '"a"', '"b"', 'true', 'c', 'd', 'NULL', '[]', 'in 0..3', '{a = 0}']) for _ in range(r.randint(2, 4)))
    if k == 4:
        return r.choice(['c', 'd', 'c | d', '[c]', '[d]', '{a = c}', '{a = d}', 'd | [d]'])
    if k == 5:
        return '[%s]' % r.choice(['0', '""', 'c', 'd', '[0]', '0, ""', '{a = 0}'])
    if k == 6:
        return '{%s}' % ', '.join('%s = %s' % (r.choice(['a', 'b', 'c']), r.choice(['0', '""', 'true', 'c', 'd', '[0]', '{a = 0}', 'NULL'])) for _ in range(r.randint(0, 3)))
    if k == 7:
        return r.choice(['func(a) => a', 'func(a :: 0) => a', 'module{} => {}', '1 + 1', '(0)', 'f', 'f(1)', 't.a', 'int("1")', '"@" % (1)', 'not true', '0:3'])
    if k == 8:
        return '[%s]' % r_shape(r, d - 1)
    if k == 9:
        return '{a = %s}' % r_shape(r, d - 1)
    if k == 10:
        return '%s | %s' % (r_shape(r, d - 1), r_shape(r, d - 1))
    if k == 11:
        return '{a :: %s = %s}' % (r_shape(r, d - 1), r_shape(r, d - 1))
    if k == 12:
        return '(%s)' % r_shape(r, d - 1)
    return r_expr(r, d - 1)


def r_stmt(r, d, i):
    k = r.randrange(12)
    if k <= 3:
        return 'let x%d = %s;' % (i, r_expr(r, d))
    if k <= 5:
        return 'let x%d :: %s = %s;' % (i, r_shape(r, d), r_expr(r, d))
    if k <= 7:
        return 'constraint %s = %s;' % (r.choice(['e', 'e2', 'e%d' % i]), r_shape(r, d))
    if k == 8:
        return 'assert %s;' % r_expr(r, d)
    if k == 9:
        return 'out %s %s;' % (r.choice(['json', 'yaml', 'toml', 'flags', 'env', 'exec', 'xml']), r_expr(r, d))
    if k == 10:
        return '%s;' % r_expr(r, d)
    return 'let h%d = func(%s) => %s;' % (i, ', '.join(['a', 'b'][:r.randint(0, 2)]), r_expr(r, d))


def r_program(r, d=3):
    return R_PRE + '\n'.join(r_stmt(r, d, i) for i in range(r.randint(1, 4)))


def no_huge_range(src):
    return '9223372036854775807' not in src and '99999999' not in src


def gen_edge_families():
    """{family: [program, ...]} -- every family is enumerated completely here; the tiers sample from it."""
    fam = {}
    fam['regressions'] = list(REGRESSIONS)
    fam['casts_of_garbage'] = [PRE + 'let x = %s(%s);' % (c, v) for c in ['int', 'float', 'str', 'bool'] for v in PRIMS + COMPOSITES + ODD_NAMES]
    fam['casts_of_garbage'] += [PRE + t % (c, v) for c in ['int', 'float', 'str', 'bool'] for v in ['[]', '{a = 1}', 'f', 'm', 'c', '(0:3)'] for t in ['assert %s(%s);', 'out json %s(%s);', 'let x = TRACE %s(%s);', 'let x = filter(func(a) => a, %s(%s));', 'let x = reduce(func(a, b) => a, 0, %s(%s));', 'let x = [%s(%s)];', 'let x = "@" %% (%s(%s));']]
    ex = []
    for t in EXPR_TEMPLATES:
        for v in VALUES:
            src = PRE + 'let x = ' + (t % ((v,) * t.count('%s'))) + ';'
            if ':' in t and not no_huge_range(v):
                continue        # a range over i64 extremes is longer than 10^6 (excluded by the property)
            ex.append(src)
    fam['expr_templates'] = ex
    fam['stmt_templates'] = [PRE + (t % ((v,) * t.count('%s'))) for t in STMT_TEMPLATES for v in VALUES]
    fam['binary_operators'] = [PRE + 'let x = %s %s %s;' % (a, op, b) for op in OPS for a in VALUES for b in VALUES]
    ar = []
    for p in range(0, 4):
        params = ', '.join('p%d' % i for i in range(p))
        cparams = ', '.join('p%d :: 0' % i for i in range(p))
        for a in range(0, 5):
            args = ', '.join(str(i) for i in range(a))
            ar.append('let g = func(%s) => %s; let x = g(%s);' % (params, 'p0' if p else '1', args))
            ar.append('let g = func(%s) => %s; let x = g(%s);' % (cparams, 'p0' if p else '1', args))
            ar.append('let x = (func(%s) => 1)(%s);' % (params, args))
        for coll in ['[]', '[1, 2]', '{}', '{a = 1, b = 2}', '""', '"ab"', 'NULL', '1', '0:3', 'func() => 1']:
            for op in ['map', 'filter']:
                ar.append('let x = %s(func(%s) => %s, %s);' % (op, params, 'p0' if p else '1', coll))
                ar.append('let h = func(%s) => [%s]; let x = %s(h, %s);' % (params, ', '.join('p%d' % i for i in range(p)), op, coll))
            ar.append('let x = reduce(func(%s) => %s, 0, %s);' % (params, 'p0' if p else '1', coll))
            ar.append('let x = reduce(func(%s) => %s, NULL, %s);' % (params, 'p%d' % (p - 1) if p else '1', coll))
    for op in ['map', 'filter']:
        ar += ['let x = %s(1, [1]);' % op, 'let x = %s("f", [1]);' % op, 'let x = %s(NULL, [1]);' % op, 'let x = %s([1], [1]);' % op, 'let x = %s(m, [1]);' % op,
               'let x = %s(func(a) => a);' % op, 'let x = %s(func(a) => a, [1], [2]);' % op, 'let x = %s();' % op]
    ar += ['let x = reduce(1, 0, [1]);', 'let x = reduce(func(a, b) => a, [1]);', 'let x = reduce(func(a, b) => a, 0, [1], 2);', 'let x = reduce();']
    # parameter lists that repeat a name, called with every number of arguments (directly, through a higher-order function, as callbacks)
    rp = []
    for plist in (['a', 'a'], ['a', 'b', 'a'], ['a', 'a', 'a'], ['a', 'b', 'b', 'a']):
        ps = ', '.join(plist)
        for a in range(0, len(plist) + 2):
            args = ', '.join(str(i + 1) for i in range(a))
            rp.append('let g = func(%s) => a; let x = g(%s);' % (ps, args))
            rp.append('let g = func(%s) => a; let ap = func(h) => h(%s); let x = ap(g);' % (ps, args))
            rp.append('let x = (func(%s) => a)(%s);' % (ps, args))
        for op in ['map', 'filter']:
            rp.append('let x = %s(func(%s) => a, [1, 2]);' % (op, ps))
            rp.append('let x = %s(func(%s) => a, {k = 1});' % (op, ps))
        rp.append('let x = reduce(func(%s) => a, 0, [1, 2]);' % ps)
        rp.append('let m = module {%s} => (r) { let r = 1; }; let x = m{};' % ', '.join('%s = %d' % (n, i) for i, n in enumerate(plist)))
    fam['repeated_params'] = [PRE + s for s in rp]
    fam['wrong_arity'] = [PRE + s for s in ar]
    fam['regex_patterns'] = [PRE + 'let x = %s %s "%s";' % (lhs, op, pat) for pat in BAD_PATTERNS for op in ['~', '!~'] for lhs in ['"a"', '""', '1']]
    fm = []
    for t in FMT_TEMPLATES:
        for n in range(0, 4):
            fm.append('let x = "%s" %% (%s);' % (t, ', '.join(str(i + 1) for i in range(n))))
        for arg in ['1', '{a = 1}', '[1, 2]', 'NULL', '"s"', '(1)', 'func() => 1', '{}']:
            fm.append('let x = "%s" %% %s;' % (t, arg))
        fm.append('let x = fail "%s" %% (1);' % t)
        fm.append('let t = "%s"; let x = t %% (1);' % t)
    fam['format_templates'] = fm
    ctx = ['let x = [%s];', 'let x = {a = %s}.a;', 'let x = "@" %% (%s);', 'let x = select (%s == 0, 1) => {true = 2};', 'let x = str(%s);', 'let x :: 0 = %s;', 'assert {ok = %s == 0, desc = "d"};']
    ae = []
    for op in ['+', '-', '*', '/', '%%']:
        for a in EDGE_INTS:
            for b in EDGE_INTS:
                e = '%s %s %s' % (a, op, b)
                for c in ctx:
                    ae.append(c % e)
                ae.append('let g = func(p, q) => p %s q; let x = g(%s, %s);' % (op, a, b))
                ae.append('let n = module{p = %s, q = %s} => (r) {let r = mod.p %s mod.q;}; let x = n{};' % (a, b, op))
                ae.append('let x = map(func(i) => i %s %s, [%s]);' % (op, b, a))
                ae.append('let x = reduce(func(acc, i) => acc %s i, %s, [%s, %s]);' % (op, a, b, b))
        for a in ['0.0', '1.5', '(0.0 - 1.5)', '(1.0 / 0.0)', '(0.0 / 0.0)', '1' + '0' * 308 + '.0', '0.' + '0' * 323 + '1']:
            for b in ['0.0', '1.5', '(1.0 / 0.0)', '(0.0 / 0.0)', '0', '1', IMAX]:
                ae.append('let x = %s %s %s;' % (a, op, b))
                ae.append('let x = int(%s %s %s);' % (a, op, b))
                ae.append('let x = str(%s %s %s);' % (a, op, b))
    for a in EDGE_INTS + ['0.0', '1.5', '(1.0 / 0.0)', '(0.0 / 0.0)', '(0.0 - 1.0 / 0.0)', '9223372036854775807.0', '9223372036854775808.0', '1' + '0' * 30 + '.0']:
        ae += ['let x = int(%s);' % a, 'let x = float(%s);' % a, 'let x = str(%s);' % a, 'let x = bool(%s);' % a, 'let x = [1, 2].(%s);' % a, 'let x = "@" %% (%s);' % a,
               'let x :: in %s.. = 1;' % a, 'let x :: in ..%s = 1;' % a, 'let x :: in %s..%s = %s;' % (a, a, a), 'out json %s;' % a, 'out toml {a = %s};' % a, 'out yaml %s;' % a,
               'out flags {a = %s};' % a, 'out env {a = %s};' % a, 'let x = convert json %s;' % a]
    for (s, st, e) in [('0', '0', '3'), ('0', '(0 - 1)', '3'), ('3', '1', '0'), ('0', IMAX, '3'), ('0', '3', '1'), ('(0 - 5)', '2', '5'), ('"a"', '1', '3'), ('0', '"a"', '3'), ('0', '1', '"a"'),
                       ('0.0', '1', '3'), ('0', '1.5', '3'), ('0', '1', '3.5'), ('NULL', '1', '3'), ('9223372036854775800', '1', IMAX), ('9223372036854775800', '5', IMAX),
                       (IMAX, '1', IMAX), (IMAX, IMAX, IMAX), ('(0 - 9223372036854775807 - 1)', IMAX, IMAX), ('(0 - 9223372036854775807 - 1)', '1', '(0 - 9223372036854775807)')]:
        ae.append('let x = %s:%s:%s;' % (s, st, e))
    fam['arithmetic_edges'] = ae
    ne = []
    for name, build, cap in NEST_CAPS:
        for d in sorted(set([1, 2, 3, max(1, cap // 2), max(1, cap - 1), cap])):
            if d <= cap:
                ne.append(build(d))
    fam['nesting'] = ne
    return fam


def standin_generated_edges(tier, seed):
    ensure_built()
    rnd = random.Random(seed)
    fam = gen_edge_families()
    thorough = tier == 'thorough'
    quota = dict(regressions=None, casts_of_garbage=None if thorough else 40, expr_templates=None if thorough else 150, stmt_templates=None if thorough else 80,
                 binary_operators=12000 if thorough else 150, wrong_arity=None if thorough else 80, repeated_params=None, regex_patterns=None if thorough else 30,
                 format_templates=None if thorough else 60, arithmetic_edges=None if thorough else 150, nesting=None)
    srcs, counts = [], {}
    for name in sorted(fam):
        items = fam[name]
        q = quota.get(name)
        pick = items if q is None or q >= len(items) else rnd.sample(items, q)
        counts[name] = (len(pick), len(items))
        srcs += pick
    n_rand = 6000 if thorough else 150
    srcs += [r_program(rnd, rnd.choice([2, 3, 3, 4])) for _ in range(n_rand)]
    # the real binary (type checker first) on all of them in quick, on every second one (all regressions / nesting) in thorough
    keep = set(fam['regressions']) | set(fam['nesting'])
    bin_srcs = [s for i, s in enumerate(srcs) if (not thorough) or i % 2 == 0 or s in keep]
    test_srcs = [s for s in bin_srcs if 'assert' in s]
    bound = ('generated programs: ' + ', '.join('%s %d/%d' % (k, a, b) for k, (a, b) in sorted(counts.items())) + ', %d seeded grammar-random programs (depth <= 4); '
             'all through driver eval, %d through the real `ucg build` (type checker + VM), %d with asserts through `ucg test`; every bracket / prefix / '
             'chain form nested up to 60 levels (depths 1, 2, 3, 30, 59, 60)'
             % (n_rand, len(bin_srcs), len(test_srcs)))
    work = tempfile.mkdtemp(prefix='verif_c04e_')
    try:
        sh = 4 if thorough else 2
        os.makedirs(os.path.join(work, 'b'))
        os.makedirs(os.path.join(work, 't'))
        r_eval, r_build, r_test = par([
            lambda: run_cases_sharded('eval', srcs, sh),
            lambda: build_and_test(os.path.join(work, 'b'), ['e%d.ucg' % i for i in range(len(bin_srcs))], bin_srcs, subs=('build',), shards=sh),
            lambda: build_and_test(os.path.join(work, 't'), ['e%d_test.ucg' % i for i in range(len(test_srcs))], test_srcs, subs=('test',), shards=1)])
    finally:
        shutil.rmtree(work, ignore_errors=True)
    runs = [('eval', s, st, pl) for s, (st, pl) in zip(srcs, r_eval)] + r_build + r_test
    return judge('generated_edges', bound, len(srcs) + len(bin_srcs) + len(test_srcs), runs)


# ------------------------------------------------------------------ (d) `ucg fmt`, every converter and every importer on odd values, through the real binary
CONVERTERS = ['json', 'yaml', 'yamlmulti', 'toml', 'flags', 'env', 'exec', 'xml']
IMPORTERS = ['json', 'yaml', 'toml', 'b64', 'b64urlsafe', 'str', 'bogus']
ODD_STRINGS = ['', ' ', 'a b', "it's", '\\"q\\"', '\\\\', '\\n', 'l1\\nl2\\n', '\\t', '\\r', 'é✓日', '<a>&amp;]]>', '--', '#c', ': ', '- x', '%', '$(x) `y` $Z', '@', '\x00', '\x7f\x1b[0m',
               '{}', '[]', 'null', 'true', '1', '1.5', '=', 'a=b', '--flag', "'", 'x' * 3000]
ODD_VALUES = (
    ['0', '1', '(0 - 1)', IMAX, IMIN, '0.0', '1.5', '(0.0 - 1.5)', '(1.0 / 0.0)', '(0.0 - 1.0 / 0.0)', '(0.0 / 0.0)', '1' + '0' * 308 + '.0', 'true', 'false', 'NULL',
     '[]', '{}', '[NULL]', '[[]]', '[{}]', '[[1, [2, [3, [4]]]]]', '[1, "a", 1.5, true, NULL, {}, []]', '[1, 1.5]', '[[1], ["a"]]', '[{a = 1}, {b = "x"}]', '{a = NULL}', '{a = {}}', '{a = []}',
     '{a = {b = {c = {d = {e = 1}}}}}', '{a = 1, a = 2}', '{"" = 1}', '{"a b" = 1}', '{"-" = 1}', '{"1" = 1}', '{"a=b" = 1}', '{"\\n" = 1}', '{"é" = 1}', '{"<x>" = 1}', '{"a.b" = {c = 1}}',
     '{a = [1, 2], b = [[1], [2]], c = [{d = 1}]}', '{a = func() => 1}', '[func(a) => a]', '{a = module{} => {}}', '[m]', '{a = c}', '[c]', 'c', 'f', 'm', 'env', '{a = env}', '0:3', '{a = 0:3}',
     '{x = true, y = false, z = NULL, s = "str", i = 1, f = 1.5, l = [1], t = {u = 1}}'] +
    ['"%s"' % t for t in ODD_STRINGS] + ['{a = "%s"}' % t for t in ODD_STRINGS[:24]] + ['{"%s" = 1}' % t for t in ODD_STRINGS[1:24]] + ['["%s"]' % t for t in ODD_STRINGS[:12]] +
    # near misses of the exec DSL
    ['{command = "x"}', '{command = 1}', '{command = NULL}', '{command = ""}', '{command = "x", args = 1}', '{command = "x", args = [1]}', '{command = "x", args = [NULL]}',
     '{command = "x", args = [{a = 1}, "b", [1]]}', '{command = "x", args = [{a = [1, 2], b = {c = 1}, d = NULL}]}', '{command = "x", env = 1}', '{command = "x", env = []}',
     '{command = "x", env = {A = 1, B = [1], C = {d = 1}, D = NULL, E = true, F = 1.5}}', '{command = "x", env = {"a b" = "c"}}', '{command = "x", command = "y"}',
     '{command = "x", args = [], args = []}', '{command = "x", env = {}, env = {}}', '{args = []}', '{env = {}}', '{command = "x", extra = 1}', '{command = "a b; rm -rf /", args = ["$(x)", "\'"]}'] +
    # near misses of the xml DSL
    ['{root = {name = "a"}}', '{root = 1}', '{root = NULL}', '{root = {}}', '{root = []}', '{root = "text"}', '{root = {text = "t"}}', '{root = {text = 1}}', '{root = {name = 1}}', '{root = {name = NULL}}',
     '{root = {name = ""}}', '{root = {name = ":"}}', '{root = {name = "a:"}}', '{root = {name = ":a"}}', '{root = {name = "a:b:c"}}', '{root = {name = "a b<>"}}', '{root = {name = "a", attrs = 1}}',
     '{root = {name = "a", attrs = NULL}}', '{root = {name = "a", attrs = {a = 1}}}', '{root = {name = "a", attrs = {a = NULL, b = "v", "c d" = "e"}}}', '{root = {name = "a", attrs = {a = [1]}}}',
     '{root = {name = "a", children = 1}}', '{root = {name = "a", children = NULL}}', '{root = {name = "a", children = [1]}}', '{root = {name = "a", children = [NULL]}}',
     '{root = {name = "a", children = [{}]}}', '{root = {name = "a", children = [{text = 1}]}}', '{root = {name = "a", children = [[]]}}', '{root = {name = "a", children = ["]]>", "<", "&", "\x00"]}}',
     '{root = {name = "a", children = [{name = "b", children = [{name = "c", children = [{name = "d"}]}]}]}}', '{root = {name = "a", ns = 1}}', '{root = {name = "a", ns = NULL}}',
     '{root = {name = "a", ns = ""}}', '{root = {name = "a", ns = {}}}', '{root = {name = "a", ns = {prefix = 1, uri = 2}}}', '{root = {name = "a", ns = {prefix = "p"}}}',
     '{root = {name = "a", ns = {uri = "u"}}}', '{root = {name = "p:a", ns = {prefix = "p", uri = ""}}}', '{root = {name = "q:a", ns = {prefix = "p", uri = "u"}}}', '{version = 1, root = {name = "a"}}',
     '{version = "9.9", encoding = "bogus", standalone = "x", root = {name = "a"}}', '{version = NULL, encoding = NULL, standalone = NULL, root = {name = "a"}}', '{root = {name = "a"}, root = {name = "b"}}',
     '{notroot = 1}', '{root = {name = "a", name = "b"}}', '{root = {name = "a", text = "t"}}', '{root = {name = "a", bogus = 1}}'])
# always exercised, also in the quick tier
ODD_CORE = ['NULL', '[]', '{}', '{a = NULL}', '{"" = 1}', '{a = 1, a = 2}', '[1, "a", 1.5, true, NULL, {}, []]', '(1.0 / 0.0)', '(0.0 / 0.0)', IMIN, '{a = func() => 1}', 'c', 'env',
            '"\x00"', '""', '{command = "x", args = [NULL]}', '{command = 1}', '{root = 1}', '{root = {name = ""}}', '{root = {name = "a", children = [1]}}', '{root = {name = "a", attrs = {a = 1}}}']
assert all(v in ODD_VALUES for v in ODD_CORE)
ODD_DATA = [
    b'', b' ', b'\n', b'null', b'~', b'{}', b'[]', b'1', b'-1', b'1.5', b'1e400', b'-1e400', b'NaN', b'.nan', b'.inf', b'-.inf', b'inf', b'nan', b'true', b'"s"', b'{"a": null}', b'{"": 1}',
    b'{"a": {"b": [1, 2.5, "x", null, true]}}', b'[' * 200 + b']' * 200, b'{"a":' * 150 + b'1' + b'}' * 150, b'[' * 5000, b'{"a": 1, "a": 2}', b'{"a b": 1, "a.b": 2, "\\u0000": 3}', b'"\\ud800"',
    b'\xff\xfe', b'\x00', b'{"a": 18446744073709551616}', b'{"a": -9223372036854775809}', b'{"a": 1e-400}', b'? [1, 2]\n: 3\n', b'{1: 2}', b'{null: 2}', b'{true: 2}', b'{[1]: 2}', b'{1.5: 2}',
    b'&a [*a]', b'a: &x [1]\nb: *x\n', b'a: &a\n  b: *a\n', b'*undefined', b'a: !!binary aGk=\n', b'a: !custom 1\n', b'--- 1\n--- 2\n', b'---\n', b'...\n', b'a: |\n  x\n', b'a: >\n  x\n',
    b'a: 0x10\nb: 0o7\nc: 1_000\nd: +1\ne: .5\nf: 1.\n', b'a: 2001-12-14t21:59:43.10-05:00\n', b'a: yes\nb: No\nc: on\n', b'a: 9223372036854775808\n', b'a: -9223372036854775809\n',
    b'- - - - - - - - - - - - 1\n', b'a:\n' + b''.join(b' ' * (2 * i) + b'a:\n' for i in range(1, 100)), b'%YAML 1.2\n---\na: 1\n', b'a: b: c\n', b'\t a: 1\n', b'"unterminated', b"'x", b'[1, 2', b'{a: 1',
    b'a: &a [&b [&c [&d [1, 1], *d], *c], *b]\n', b'a = 1\n', b'a = \n', b'[a]\nb = 1\n[a]\nc = 2\n', b'a = 1979-05-27T07:32:00Z\n', b'a = 1979-05-27\n', b'a = 07:32:00\n', b'a = inf\nb = nan\nc = -inf\n',
    b'a = 9223372036854775808\n', b'a = [1, "x"]\n', b'a = {b = {c = {d = 1}}}\n', b'[[a]]\nb = 1\n[[a]]\nb = 2\n', b'"" = 1\n', b'a.b.c = 1\n', b'a = """\nx"""\n', b'a = 0x7fffffffffffffff\n', b'a = 1_000\n',
    b'[' * 300 + b'\n', b'a = ' + b'[' * 200 + b']' * 200 + b'\n', b'aGVsbG8=', b'aGVsbG8', b'!!!!', b'aGVs bG8=', b'aGVsbG8=\n', b'====', b'-_-_', b'+/+/', b'\xc3\xa9', b'a' * 100000]
FMT_ODD = [
    '', '\n', '// only a comment', '// only a comment\n', '// c1\n// c2\n\nlet x = 1; // trailing\n// end', 'let x = 1;\r\nlet y = 2;\r\n', 'let   x=1;let y=2;', 'let x = {a = 1, // c\n b = 2};',
    'let x = [1, // c\n 2];', 'let x = func(a, // c\n b) => a;', 'let x = // c\n 1;', 'let // c\n x = 1;', 'let x = "é✓日" + "\\n\\"";', 'let x = "multi\nline\nstring";', 'let x = {"a b" = 1, "_x" = 2, "1a" = 3, "" = 4};',
    'let x = ' + ' + '.join(['"%s"' % ('s' * 40)] * 30) + ';', 'let x = [' + ', '.join(['1'] * 500) + '];', 'let x = select ("a", 1) => {a = 1, // c\n};', 'let m = module{a = 1, // c\n} => (r) { // c\n let r = 1; // c\n};',
    'assert {ok = true, desc = "d"}; // c', 'out json {a = 1}; // c', 'constraint c = in 1..3 | 5 | "x"; // c', 'let x :: in 0.. = 1;', 'let x :: {a :: 0 = 0} = {a = 1};', 'let x = 1:2:10;', 'let x = not not true;',
    'let x = "@" % (1);', 'let x = "@{item.a}" % {a = 1};', 'let x = t{a = self.a{b = 1}};', 'let x = import "std/lists.ucg";', 'let x = include str "f";', 'let x = convert json 1;', 'let x = TRACE 1;', 'let x = fail "m";',
    'let x = (1 + 2) * 3 - 4 / 5 %% 6;', 'let x = a.b."c d".0.(1);', 'let x = 1 in [1] && "a" in {a = 1} || 1 is "int";', 'let x = "a" ~ "b" && "a" !~ "c";', '\t\tlet\tx\t=\t1\t;\t', 'let x = 1;' + '\n' * 200 + 'let y = 2;',
    '/' * 3 + ' c\n' * 100, 'let x = 1; //' + 'c' * 5000, 'let x = {\n' + ''.join('  f%d = %d, // c%d\n' % (i, i, i) for i in range(100)) + '};']


def _fmt_batch(work, names):
    """`ucg fmt f1 f2 ...`; fmt stops at the first file it cannot format, so a batch that does not exit 0 is re-run file by file.  -> {name: (status, detail)}"""
    exe = R.ucg_binary()

    def one(files):
        try:
            p = subprocess.run([exe, 'fmt'] + files, cwd=work, capture_output=True, stdin=subprocess.DEVNULL, timeout=PER_CASE * (1 + len(files) / 20.0), env=dict(os.environ, RUST_BACKTRACE='0'))
            return p.returncode, p.stderr[-300:].decode('utf-8', 'replace').replace('\n', ' | ')
        except subprocess.TimeoutExpired:
            return 'timeout', ''
    out = {}
    rc, err = one(names)
    if rc == 0:
        return {n: ('OK', '') for n in names}
    if len(names) == 1:
        if rc == 1:
            return {names[0]: ('ERR', err)}
        return {names[0]: ('TIMEOUT', 'no exit within %.0f s' % PER_CASE) if rc == 'timeout' else ('CRASH', 'exit status %s: %s' % (rc, err))}
    half = len(names) // 2
    a, b = par([lambda: _fmt_batch(work, names[:half]), lambda: _fmt_batch(work, names[half:])])
    out.update(a)
    out.update(b)
    return out


def standin_cli_fmt_converters(tier, seed):
    ensure_built()
    rnd = random.Random(seed)
    thorough = tier == 'thorough'
    work = tempfile.mkdtemp(prefix='verif_c04d_')
    runs = []
    try:
        # --- ucg fmt: shipped files, odd layouts, generated programs and token mutants that still parse (+ a few that do not)
        shipped = shipped_files()
        cand = [t for _, t in (shipped if thorough else rnd.sample(shipped, 25))] + FMT_ODD
        fam = gen_edge_families()
        pool = fam['expr_templates'] + fam['stmt_templates'] + fam['format_templates'] + fam['nesting'] + fam['wrong_arity']
        cand += rnd.sample(pool, 200 if thorough else 50)
        cand += [r_program(rnd, 3) for _ in range(150 if thorough else 30)]
        lexed = [lex(t) for _, t in shipped]
        for _ in range(250 if thorough else 60):
            tk, tail = lexed[rnd.randrange(len(lexed))]
            tk, _k = mutate(rnd, tk)
            cand.append(unlex(tk, tail))
        parses = run_cases_sharded('ast', cand, 2)
        good = [s for s, (st, _) in zip(cand, parses) if st == 'OK']
        notparse = [s for s, (st, _) in zip(cand, parses) if st == 'ERR']
        notparse = rnd.sample(notparse, min(len(notparse), 24 if thorough else 6))
        fmt_srcs = good + notparse
        os.makedirs(os.path.join(work, 'fmt'))
        fnames = []
        for i, s in enumerate(fmt_srcs):
            with open(os.path.join(work, 'fmt', 'f%d.ucg' % i), 'w', encoding='utf-8', newline='') as f:
                f.write(s)
            fnames.append('f%d.ucg' % i)
        # --- converters: `out <converter> <value>;` and `convert <converter> <value>`
        vals = ODD_VALUES if thorough else (ODD_CORE + rnd.sample([v for v in ODD_VALUES if v not in ODD_CORE], 20))
        conv_srcs = [PRE + 'out %s %s;' % (cv, v) for cv in CONVERTERS for v in vals]
        conv_eval = [PRE + 'let x = convert %s %s;' % (cv, v) for cv in CONVERTERS for v in vals]
        os.makedirs(os.path.join(work, 'conv'))
        # --- importers on odd data files
        data = list(enumerate(ODD_DATA)) if thorough else rnd.sample(list(enumerate(ODD_DATA)), 25)
        os.makedirs(os.path.join(work, 'inc'))
        inc_names, inc_srcs = [], []
        for i, d in data:
            with open(os.path.join(work, 'inc', 'd%d.dat' % i), 'wb') as f:
                f.write(d)
            for imp in IMPORTERS:
                inc_names.append('i%d_%s.ucg' % (i, imp))
                inc_srcs.append('let x = include %s "d%d.dat";\nout json x;\n' % (imp, i))
        # files that parse go in batches of 40 (one process each); the few that do not parse make fmt stop, so each of them gets a process of its own
        chunks = [fnames[:len(good)][i:i + 40] for i in range(0, len(good), 40)] + [[fn] for fn in fnames[len(good):]]
        jobs = [lambda: build_and_test(os.path.join(work, 'conv'), ['c%d.ucg' % i for i in range(len(conv_srcs))], conv_srcs, subs=('build',), shards=2),
                lambda: build_and_test(os.path.join(work, 'inc'), inc_names, inc_srcs, subs=('build',), shards=1),
                lambda: run_cases_sharded('eval', conv_eval, 2)]
        fmt_res = {}

        def fmt_all():
            for i in range(0, len(chunks), 6):
                for r in par([(lambda ch=ch: _fmt_batch(os.path.join(work, 'fmt'), ch)) for ch in chunks[i:i + 6]]):
                    fmt_res.update(r)
        jobs.append(fmt_all)
        # --- odd invocations: exit status must still be 0 or 1
        os.makedirs(os.path.join(work, 'cli', 'sub'))
        with open(os.path.join(work, 'cli', 'ok.ucg'), 'w') as f:
            f.write('let x = 1;\n')
        with open(os.path.join(work, 'cli', 'sub', 'bad_test.ucg'), 'w') as f:
            f.write('let x = ;\n')
        with open(os.path.join(work, 'cli', 'empty.ucg'), 'w') as f:
            pass
        exe = R.ucg_binary()
        invocations = [['build', 'nonexistent.ucg'], ['build', 'empty.ucg'], ['build', 'sub'], ['build', '-r', 'sub'], ['build', '-r', '.'], ['build', 'ok.ucg', 'ok.ucg'], ['test', 'sub'],
                       ['test', '-r', '.'], ['test', 'nonexistent_test.ucg'], ['fmt', 'nonexistent.ucg'], ['fmt', 'empty.ucg'], ['fmt', 'sub'], ['fmt', '-r', '.'], ['fmt', '-w', 'ok.ucg'],
                       ['fmt', '-i', 'ok.ucg'], ['--no-strict', 'build', 'ok.ucg'], ['converters'], ['importers'], ['env']]

        def invoke(args):
            try:
                p = subprocess.run([exe] + args, cwd=os.path.join(work, 'cli'), capture_output=True, stdin=subprocess.DEVNULL, timeout=PER_CASE * 2, env=dict(os.environ, RUST_BACKTRACE='0'))
                return ('OK', '') if p.returncode in (0, 1) else ('CRASH', 'exit status %s: %s' % (p.returncode, p.stderr[-300:].decode('utf-8', 'replace')))
            except subprocess.TimeoutExpired:
                return 'TIMEOUT', 'no exit within %.0f s' % (PER_CASE * 2)

        def invoke_all():
            out = []
            for i in range(0, len(invocations), 7):
                out += par([(lambda a=a: invoke(a)) for a in invocations[i:i + 7]])
            return out
        jobs.append(invoke_all)
        r_conv, r_inc, r_ceval, _, r_cli = par(jobs)
        runs += r_conv
        runs += [(m, 'data file d.dat = %r; program: %s' % (ODD_DATA[int(re.match(r'i(\d+)_', fn).group(1))][:200], s), st, pl)
                 for fn, (m, s, st, pl) in zip(inc_names, r_inc)]
        runs += [('eval', s, st, pl) for s, (st, pl) in zip(conv_eval, r_ceval)]
        runs += [('ucg fmt', s, fmt_res[fn][0], fmt_res[fn][1]) for fn, s in zip(fnames, fmt_srcs)]
        runs += [('ucg ' + ' '.join(a), 'files: ok.ucg = `let x = 1;`, sub/bad_test.ucg = `let x = ;`, empty.ucg empty', st, pl) for a, (st, pl) in zip(invocations, r_cli)]
    finally:
        shutil.rmtree(work, ignore_errors=True)
    bound = ('real binary: `ucg fmt` on %d files (%d shipped files, %d odd layouts, generated programs, random programs and 1-token mutants that parse, + %d that do not); '
             '%d converters x %d odd values as `out` files through `ucg build` and as `convert` expressions through driver eval; %d importers x %d odd data files through `ucg build`; '
             '19 odd invocations (missing / empty files, directories, -r, -w)' % (len(fmt_srcs), len(shipped) if thorough else 25, len(FMT_ODD), len(notparse), len(CONVERTERS), len(vals), len(IMPORTERS), len(data)))
    return judge('cli_fmt_converters', bound, len(runs), runs)


# ------------------------------------------------------------------ (e) `ucg fmt` with a comment at EVERY token boundary
# "formatting ... finishes with either a result or a diagnostic": the formatter re-attaches comments to the syntax tree, so where a comment sits is an
# input dimension of its own.  Family: programs that parse, with a comment (line of its own / group of 2 / two groups / trailing on the previous line / ...)
# inserted at each token boundary in turn -- including before the first and after the last token --, at pairs of boundaries and at all boundaries at once.
# One small program per construct of the language reference (grammar.md), at top level and nested (indent > 0):
FMT_TOUR = [
    'let x = 1;', 'let x = 1.5 + 2 * 3 - 4 / 5 %% 6;', 'let x = "s" + "t";', 'let x = NULL;\nlet y = true;', 'let l = [1, 2, 3];', 'let l = [[1], [2, [3]]];', 'let l = [];',
    'let t = {a = 1, b = "two"};', 'let t = {"quoted key" = 1, inner = {c = [1, 2]}};', 'let t = {};', 'let t = {a :: 0 = 1, b :: "" | NULL = "s"};', 'let x :: 0 = 1;',
    'let x :: in 1..3 | 5 = 2;', 'constraint c = in 1..1024 | "a" | NULL;', 'constraint c = {a = 0, b = [""]};', 'let g = (1 + 2) * 3;',
    'let s = select ("a", 1) => {a = 1, b = 2};', 'let s = select (true) => {true = "y", false = "n"};', 'let f = func(a, b) => a + b;', 'let f = func() => 1;',
    'let f = func(a :: 0, b :: "") => {x = a, y = b};', 'let m = module{a = 1, b = "s"} => {let c = mod.a;};', 'let m = module{a = 1} => (res) {let res = mod.a + 1;};',
    'let m = module{a = 1} => (res :: 0) {let res = mod.a; let other = [res];};', 'let t = {a = 1};\nlet c = t{a = 2, b = 3};', 'let f = func(a) => a;\nlet r = f(1);\nlet r2 = f(f(2), 3);',
    'let s = "@ and @" % (1, "two");', 'let s = "@{item.a} x" % {a = 1};', 'let d = func(x) => x * 2;\nlet r = map(d, [1, 2, 3]);\nlet total = 1 + 2;', 'let r = map(func(x) => x * 2, [1, 2, 3]);',
    'let r = filter(func(x) => x > 1, [1, 2, 3]);\nlet n = 1;', 'let r = reduce(func(acc, x) => acc + x, 0, [1, 2, 3]);\nlet n = 1;', 'let r = map(func(k, v) => [k, v], {a = 1});',
    'let d = func(x) => x;\nlet r = filter(d, [1]);\nlet q = reduce(func(a, b) => a, 0, [1]);\nlet n = 1;', 'let r = 0:5;\nlet r2 = 0:2:10;', 'let i = import "std/lists.ucg";',
    'let i = include str "file.txt";', 'let x = fail "message";', 'let x = fail "m @" % (1);', 'let x = not true;', 'let x = TRACE (1 + 2);', 'let x = a.b.c;\nlet y = l.0;\nlet z = t."quoted key";\nlet w = l.(1 + 1);',
    'let x = 1 == 1 && 2 != 3 || 1 < 2;\nlet y = 1 >= 1;\nlet z = 1 <= 2;', 'let x = 1 in [1];\nlet y = "a" in {a = 1};\nlet z = 1 is "int";', 'let x = "a" ~ "b";\nlet y = "a" !~ "b";',
    'let x = convert json {a = 1};', 'out json {a = 1};', 'assert {ok = true, desc = "d"};', '1 + 1;', 'let x = env.HOME;', 'let x = int("1") + float(1) + str(1) + bool("true");',
    'let m = module{} => {\n    let f = func(a) => map(func(x) => x, a);\n    let t = {l = [select (a, 1) => {a = 1}]};\n};',
    'let t = {\n    f = func(a) => {g = map(func(x) => x + 1, a)},\n    m = module{} => {let x = [1, {y = 2}];},\n};',
    'let f = func(l) => reduce(func(acc, x) => acc + x, 0, filter(func(x) => x > 0, map(func(x) => x, l)));',
    'let m = module{l = []} => (r) {\n    let r = map(func(x) => x,\n        mod.l);\n};\nlet u = m{l = [1]};', 'let t = {a = map(func(x) => x, [1]), b = filter(func(x) => x, [2])};\nlet n = 2;',
    'let s = select (x, {}) => {\n    a = map(f, [1]),\n    b = {c = filter(f, [2])},\n};\nlet n = 1;', '// leading\nlet x = 1; // trailing\n\n// own group\nlet y = [1, // inner\n    2];\n// last',
]
CMT_FORMS_QUICK = ['line', 'group2', 'two_groups', 'trailing']
CMT_FORMS_ALL = CMT_FORMS_QUICK + ['indented', 'crlf', 'empty']


def commented_sep(sep, first, form, tag='c'):
    """The separator `sep` (blanks / comments between two tokens; first=True: the text before the first token) with one more comment in it."""
    at_line_start = sep.endswith('\n') or (sep == '' and first)
    nl = sep if at_line_start else sep + '\n'
    if form == 'line':              # a comment line of its own in front of the next token
        return nl + '// %s\n' % tag
    if form == 'group2':            # a group of two comment lines
        return nl + '// %s1\n// %s2\n' % (tag, tag)
    if form == 'two_groups':        # two comment groups separated by a blank line
        return nl + '// %s1\n\n// %s2\n' % (tag, tag)
    if form == 'trailing':          # at the end of the line of the previous token
        return ' // %s\n' % tag + sep
    if form == 'indented':
        return nl + '        // %s\n        ' % tag
    if form == 'crlf':
        return (sep if at_line_start else sep + '\r\n') + '// %s\r\n' % tag
    if form == 'empty':
        return nl + '//\n'
    if form == 'no_newline':        # only after the last token: the text ends inside the comment
        return nl + '// %s' % tag
    raise ValueError(form)


def with_comments(toks, tail, places):
    """The program with comments inserted at token boundaries: places = [(boundary, form)]; boundary 0 = before the first token, len(toks) = after the last."""
    toks = list(toks)
    for i, form in places:
        tag = 'c' if len(places) == 1 else 'c%d' % i
        if i < len(toks):
            toks[i] = (commented_sep(toks[i][0], i == 0, form, tag), toks[i][1])
        else:
            tail = commented_sep(tail, not toks, form, tag)
    return unlex(toks, tail)


def with_comment(toks, tail, i, form):
    return with_comments(toks, tail, [(i, form)])


def split_statements(src):
    """Top-level statements of a program (token level: a `;` outside every bracket ends one), each with the blanks / comments in front of it."""
    toks, tail = lex(src)
    out, cur, depth = [], [], 0
    for s_, t_ in toks:
        cur.append((s_, t_))
        if t_ in '([{' and len(t_) == 1:
            depth += 1
        elif t_ in ')]}' and len(t_) == 1:
            depth = max(0, depth - 1)
        elif t_ == ';' and depth == 0:
            out.append(unlex(cur, ''))
            cur = []
    if cur:
        out.append(unlex(cur, tail))
    return out


FMT_STATS = dict(processes=0, refused=0)


def fmt_find_crash(work, names, stop, per_file=PER_CASE):
    """`ucg fmt` over the files (one process); -> None, or (name, status, detail) of the first file on which fmt does not end with exit status 0 / 1.
    fmt stops at the first file it cannot format (exit 1), hiding the files after it, so a batch that does not exit 0 is split and re-run."""
    if stop.is_set() or not names:
        return None
    exe = R.ucg_binary()
    try:
        p = subprocess.run([exe, 'fmt'] + names, cwd=work, stdout=subprocess.DEVNULL, stderr=subprocess.PIPE, stdin=subprocess.DEVNULL, timeout=per_file * (1 + len(names) / 20.0),
                           env=dict(os.environ, RUST_BACKTRACE='0'))
        rc, err = p.returncode, p.stderr[-400:].decode('utf-8', 'replace').strip().replace('\n', ' | ')
    except subprocess.TimeoutExpired:
        rc, err = 'timeout', ''
    FMT_STATS['processes'] += 1
    if rc == 0 and 'panicked at' not in err:
        return None
    if len(names) == 1:
        if rc == 1 and 'panicked at' not in err:
            FMT_STATS['refused'] += 1
            return None
        if rc == 'timeout':
            # guards against load spikes: the file alone gets a second run with twice the time
            try:
                subprocess.run([exe, 'fmt'] + names, cwd=work, stdout=subprocess.DEVNULL, stderr=subprocess.DEVNULL, stdin=subprocess.DEVNULL, timeout=2 * per_file)
                return None
            except subprocess.TimeoutExpired:
                pass
        stop.set()
        return (names[0], 'TIMEOUT', 'no exit within %.0f s, twice' % per_file) if rc == 'timeout' else (names[0], 'CRASH', 'exit status %s: %s' % (rc, err))
    half = len(names) // 2
    return fmt_find_crash(work, names[:half], stop, per_file) or fmt_find_crash(work, names[half:], stop, per_file)


def standin_fmt_comments_everywhere(tier, seed):
    ensure_built()
    rnd = random.Random(seed)
    thorough = tier == 'thorough'
    budget = 75.0 if thorough else 12.0
    t0 = time.time()
    FMT_STATS.update(processes=0, refused=0)
    forms = CMT_FORMS_ALL if thorough else CMT_FORMS_QUICK
    cases = []          # (source, origin, boundary description)  in priority order

    def singles(src, origin, boundaries=None, fs=None):
        toks, tail = lex(src)
        for i in (range(len(toks) + 1) if boundaries is None else boundaries):
            for f in (fs or forms) + (['no_newline'] if i == len(toks) else []):
                cases.append((with_comment(toks, tail, i, f), origin, 'boundary %d of %d, form %s' % (i, len(toks), f)))
    # -- 1. the tour: every boundary x every form; all boundaries at once; pairs of boundaries
    for k, src in enumerate(FMT_TOUR):
        singles(src, 'the one-construct program: ' + src, fs=CMT_FORMS_ALL)
    n_tour1 = len(cases)
    for k, src in enumerate(FMT_TOUR):
        toks, tail = lex(src)
        n = len(toks) + 1
        for f in ('line', 'trailing', 'group2'):
            cases.append((with_comments(toks, tail, [(i, f) for i in range(n)]), 'the one-construct program: ' + src, 'all %d boundaries, form %s' % (n, f)))
        pairs = [(i, j) for i in range(n) for j in range(i + 1, n)]
        if len(pairs) > (120 if thorough else 12):
            pairs = rnd.sample(pairs, 120 if thorough else 12)
        for i, j in pairs:
            fi, fj = rnd.choice(['line', 'trailing', 'group2']), rnd.choice(['line', 'trailing', 'group2'])
            cases.append((with_comments(toks, tail, [(i, fi), (j, fj)]), 'the one-construct program: ' + src, 'boundaries %d (%s) and %d (%s) of %d' % (i, fi, j, fj, n - 1)))
    n_tour = len(cases)
    # -- 2. every top-level statement of every shipped file that parses (and of generated programs), as a program of its own
    shipped = shipped_files()
    fam = gen_edge_families()
    gen = rnd.sample(fam['expr_templates'] + fam['stmt_templates'] + fam['format_templates'] + fam['wrong_arity'], 120 if thorough else 30) + [r_program(rnd, 3) for _ in range(60 if thorough else 15)]
    parses = run_cases_sharded('ast', [t for _, t in shipped] + gen, 2)
    good_files = [(p, t) for (p, t), (st, _) in zip(shipped, parses) if st == 'OK']
    good_gen = [g for g, (st, _) in zip(gen, parses[len(shipped):]) if st == 'OK']
    stmts, seen = [], set()
    for p, t in good_files:
        for k, st_ in enumerate(split_statements(t)):
            if st_.strip() and st_ not in seen:
                seen.add(st_)
                stmts.append(('%s statement %d' % (p, k + 1), st_))
    n_ship_stmts = len(stmts)
    for g in good_gen:
        for st_ in split_statements(g):
            if st_.strip() and st_ not in seen:
                seen.add(st_)
                stmts.append(('generated program, statement', st_))
    n_bound_stmts = sum(len(lex(s_)[0]) + 1 for _, s_ in stmts)
    # -- 2. whole shipped files (the statements in their context): a seeded sample of boundaries
    flat = [(k, i) for k, (_, t) in enumerate(good_files) for i in range(len(lex(t)[0]) + 1)]
    for k, i in rnd.sample(flat, min(len(flat), 3000 if thorough else 120)):
        singles(good_files[k][1], good_files[k][0] + ' (whole file)', boundaries=[i], fs=[rnd.choice(forms)])
    n_file = len(cases) - n_tour
    # -- 3. the statements
    if thorough:
        # EVERY boundary x the four main forms, the three other forms on a seeded third of the boundaries; statements in seeded order (the time budget cuts the tail)
        order = list(range(len(stmts)))
        rnd.shuffle(order)
        for k in order:
            singles(stmts[k][1], stmts[k][0], fs=CMT_FORMS_QUICK)
            nb = len(lex(stmts[k][1])[0]) + 1
            singles(stmts[k][1], stmts[k][0], boundaries=[i for i in range(nb) if rnd.random() < 1 / 3.0], fs=CMT_FORMS_ALL[len(CMT_FORMS_QUICK):])
    else:
        # a seeded sample of (statement, boundary, form) triples
        flat = [(k, i) for k, (_, s_) in enumerate(stmts) for i in range(len(lex(s_)[0]) + 1)]
        for k, i in rnd.sample(flat, min(len(flat), 1200)):
            singles(stmts[k][1], stmts[k][0], boundaries=[i], fs=[rnd.choice(forms)])
    n_stmt = len(cases) - n_tour - n_file

    work = tempfile.mkdtemp(prefix='verif_c04c_')
    stop = threading.Event()
    found = []
    done = [0]
    try:
        # batches: small programs 200 per process, whole files 25 per process
        batches, i = [], 0
        while i < len(cases):
            whole = n_tour <= i < n_tour + n_file
            size = 25 if whole else 200
            end = min(len(cases), i + size, n_tour + n_file if whole else len(cases), n_tour if i < n_tour else len(cases))
            batches.append((i, end))
            i = end
        lock = threading.Lock()
        it = iter(batches)

        def worker():
            while not stop.is_set() and time.time() - t0 < budget:
                with lock:
                    b = next(it, None)
                if b is None:
                    return
                d = os.path.join(work, 'b%d' % b[0])
                os.makedirs(d)
                names = []
                for k in range(b[0], b[1]):
                    with open(os.path.join(d, 'f%d.ucg' % k), 'w', encoding='utf-8', newline='') as f:
                        f.write(cases[k][0])
                    names.append('f%d.ucg' % k)
                r = fmt_find_crash(d, names, stop)
                shutil.rmtree(d, ignore_errors=True)
                with lock:
                    if r:
                        found.append((int(r[0][1:-4]),) + r[1:])
                    else:
                        done[0] += b[1] - b[0]
        par([worker] * 12)
    finally:
        shutil.rmtree(work, ignore_errors=True)
    n_run = done[0]
    bound = ('real binary `ucg fmt` on programs with a `// c` comment inserted at a token boundary (forms: %s; after the last token also a comment without line end): '
             '(1) %d one-construct programs written from the language reference: EVERY boundary x each of the 7 forms line / group2 / two_groups / trailing / indented / crlf / empty (%d texts) + all boundaries at once x 3 forms + %s pairs of boundaries per program; '
             '(2) %d whole shipped files with a comment at a seeded sample of boundaries (%d texts); '
             '(3) the %d distinct top-level statements of the %d shipped .ucg files that parse + %d distinct statements of %d generated programs, each as a program of its own (%d boundaries): %s (%d texts); '
             '%d of the %d texts were run within the time budget of %.0f s (in this order): exit status 0 or 1, no panic message'
             % (', '.join(forms), len(FMT_TOUR), n_tour1, 'up to 120 seeded' if thorough else '12 seeded', len(good_files), n_file, n_ship_stmts, len(good_files), len(stmts) - n_ship_stmts, len(good_gen), n_bound_stmts,
                'EVERY boundary x {line, group2, two_groups, trailing} + the other forms on a seeded third of the boundaries, statements in seeded order' if thorough else 'a seeded sample of 1200 (statement, boundary, form) triples',
                n_stmt, n_run, len(cases), budget))
    runs = []
    for k, st, pl in sorted(found):
        runs.append(('ucg fmt', cases[k][0], st, pl))
    r = judge('fmt_comments_everywhere', bound, n_run + len(found), runs)
    if r['status'] == 'ok' and FMT_STATS['refused']:
        r['detail'] = (r.get('detail', '') + ' %d texts refused by fmt with exit status 1 (a diagnostic)' % FMT_STATS['refused']).strip()
    if r['status'] == 'violation':
        for k, st, pl in sorted(found):
            if cases[k][0] == r['input']['source']:
                r['input']['comment_inserted_into'] = cases[k][1]
                r['input']['comment_inserted_at'] = cases[k][2]
                break
    return r


def standin_import_cycles_no_crash(tier, seed):
    """C04 half of the import-cycle family of bounded/c09.py: a project with an import cycle (at every expression position, incl. the
    argument and the template of a format expression) must END - no stack overflow, no abort, no hang.  Whether the diagnostic names the
    cycle is C09's business and not reported here."""
    try:
        from bounded import c09
    except Exception as e:       # noqa
        return dict(name='import_cycles_no_crash', bound='-', cases=0, status='error', detail='bounded/c09.py cannot be imported: %r' % e)
    r = dict(c09.standin_cycles('quick', seed))
    r['name'] = 'import_cycles_no_crash'
    r['bound'] = 'the cyclic projects of bounded/c09.py (quick family): every build ends without a crash or a hang'
    if r.get('status') == 'violation':
        d = (r.get('detail') or '').lower()
        if not any(w in d for w in ('crash', 'no result', 'status -', 'overflow', 'signal')):
            r['status'] = 'ok'       # a missing / wrong diagnostic is C09's
            r.pop('input', None)
            r['detail'] = ''
    return r


STANDINS = [standin_token_mutations, standin_garbage, standin_generated_edges, standin_cli_fmt_converters, standin_fmt_comments_everywhere, standin_import_cycles_no_crash]
