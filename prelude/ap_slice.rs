// ---- prelude/ap_slice.rs: abortable_parser (version pinned by Cargo.lock) pieces over SliceIter ----
// Error<C> is only constructed and moved by the extracted code (R5): opaque.
#[verifier::external_body]
#[verifier::accept_recursive_types(C)]
pub struct Error<C> { _c: core::marker::PhantomData<C> }

impl<C> Error<C> {
    #[verifier::external_body]
    pub fn new<D>(msg: D, ctx: Box<C>) -> Self { unimplemented!() }
}

//@ extract dep:abortable_parser/src/iter.rs :: struct SliceIter
//@   rule R0 RV
//@   subst "T: Debug + 'a" => "T"
//@ end

//@ extract dep:abortable_parser/src/iter.rs :: impl * Iterator for SliceIter<'a, T> :: fn next
//@   impl_header impl<'a, T> SliceIter<'a, T>
//@   subst "Option<Self::Item>" => "Option<&'a T>"
//@   ret r
//@   sig <<<
        ensures
            old(self).offset < old(self).source@.len() ==> r == Some(&old(self).source@[old(self).offset as int]) && final(self).offset == old(self).offset + 1 && final(self).source == old(self).source,
            old(self).offset >= old(self).source@.len() ==> r.is_none() && *final(self) == *old(self),
//@   >>>
//@   before "self.offset += 1;" <<<
                proof { axiom_slice_len_bound(self.source); }
//@   >>>
//@ end

//@ extract dep:abortable_parser/src/iter.rs :: impl * Clone for SliceIter<'a, T> :: fn clone
//@   impl_header impl<'a, T> Clone for SliceIter<'a, T>
//@   ret r
//@   sig <<<
        ensures r == *self
//@   >>>
//@ end

//@ extract dep:abortable_parser/src/iter.rs :: impl * Peekable<&'a O> for SliceIter<'a, O> :: fn peek_next
//@   impl_header impl<'a, O> SliceIter<'a, O>
//@   ret r
//@   sig <<<
        ensures
            self.offset < self.source@.len() ==> r == Some(&self.source@[self.offset as int]),
            self.offset >= self.source@.len() ==> r.is_none(),
//@   >>>
//@ end

//@ extract dep:abortable_parser/src/lib.rs :: enum Result
//@   rule R0
//@   subst "I: InputIter" => "I"
//@ end

//@ extract dep:abortable_parser/src/lib.rs :: impl * Result<I, O> :: fn is_complete
//@   impl_header impl<I, O> Result<I, O>
//@   rule R3
//@   ret r
//@   sig <<<
        ensures r == (*self is Complete)
//@   >>>
//@ end

//@ extract dep:abortable_parser/src/combinators.rs :: fn eoi
//@   subst "eoi<I: InputIter>(i: I) -> Result<I, ()>" => "eoi<'a, T>(i: SliceIter<'a, T>) -> Result<SliceIter<'a, T>, ()>"
//@   subst "\"Expected End Of Input\".to_string()" => "verif_msg()"
//@   ret r
//@   sig <<<
        ensures (r is Complete) == (i.offset >= i.source@.len()),
//@   >>>
//@ end
