"""Obligation-directed concrete search on the REAL code (DESIGN §2.5) and the bounded stand-ins of the
thorough tier.  Each generator enumerates a stated, finite family of inputs, runs them through the real
`ucg` binary / ucglib (rebuilt from /repo's current tree) and compares with an executable oracle written
from the property statement.  Results are labelled *bounded*; they are never counted as proved.

A generator returns dict(name, bound, cases, status in {'ok','violation','error'}, detail, input).
"""
import html
import itertools
import os
import random
import re
import shutil
import tempfile

import realcode as R

REPO = R.REPO
I64_MAX = 2 ** 63 - 1
I64_MIN = -2 ** 63


def lit(n):
    """UCG source for the integer n (there are no negative literals)."""
    if n >= 0:
        return str(n)
    if n == I64_MIN:
        return '(0 - %d - 1)' % I64_MAX
    return '(0 - %d)' % (-n)


# ------------------------------------------------------------------ C02: operator chains
DOC_OP = {'==': 'Equal', '!=': 'NotEqual', '>=': 'GTEqual', '<=': 'LTEqual', '<': 'LT', '>': 'GT',
          '=~': 'REMatch', '!~': 'NotREMatch', 'in': 'IN', 'is': 'IS', '+': 'Add', '-': 'Sub',
          '*': 'Mul', '/': 'Div', '%%': 'Mod', '&&': 'AND', '||': 'OR', '.': 'DOT'}
SRC_OP = dict(DOC_OP)
SRC_OP['~'] = SRC_OP.pop('=~')   # the token is `~`, the table's row is `=~`


def doc_levels():
    txt = open(os.path.join(REPO, 'docsite/site/content/reference/expressions.md')).read()
    lv = {}
    for op, n in re.findall(r'<tr><td>(.*?)</td><td>(\d+)</td>', txt):
        lv[DOC_OP[html.unescape(op).strip()]] = int(n)
    return lv


def expected_shape(operands, ops, lv):
    """The reference grouping: root = right-most operator of minimal level."""
    if not ops:
        return operands[0]
    k = 0
    for i, o in enumerate(ops):
        if lv[o] <= lv[ops[k]]:
            k = i
    return '(%s %s %s)' % (expected_shape(operands[:k + 1], ops[:k], lv), ops[k], expected_shape(operands[k + 1:], ops[k + 1:], lv))


def standin_prec_chains(tier, seed, maxlen=None):
    lv = doc_levels()
    toks = sorted(SRC_OP)
    maxlen = maxlen or (4 if tier == 'thorough' else 3)
    names = ['a', 'b', 'c', 'd', 'e', 'f', 'g', 'h', 'i']
    cases, meta = [], []
    for n in range(1, maxlen + 1):
        for combo in itertools.product(toks, repeat=n):
            src = names[0]
            for i, t in enumerate(combo):
                src += ' %s %s' % (t, names[i + 1])
            cases.append(src + ';')
            meta.append(combo)
    rnd = random.Random(seed)
    # longer chains (up to 8 operators), seeded samples
    nlong = 6000 if tier == 'thorough' else 1500
    for _ in range(nlong):
        combo = tuple(rnd.choice(toks) for _ in range(rnd.randint(maxlen + 1, 8)))
        src = names[0]
        for i, t in enumerate(combo):
            src += ' %s %s' % (t, names[i + 1])
        cases.append(src + ';')
        meta.append(combo)
    # parenthesised sub-chains override: (x op y) is one operand
    for _ in range(200 if tier == 'thorough' else 40):
        combo = tuple(rnd.choice(toks) for _ in range(3))
        cases.append('a %s (b %s c) %s d;' % combo)
        meta.append(('paren',) + combo)
    res = R.driver('shape', cases)
    for src, combo, (st, out) in zip(cases, meta, res):
        if combo[0] == 'paren':
            inner = '[(b %s c)]' % SRC_OP[combo[2]]
            exp = expected_shape(['a', inner, 'd'], [SRC_OP[combo[1]], SRC_OP[combo[3]]], lv)
        else:
            exp = expected_shape(names[:len(combo) + 1], [SRC_OP[t] for t in combo], lv)
        if st != 'OK' or out != exp:
            return dict(name='prec_chains', bound='all chains of 1..%d operators over the 18 binary operators + %d seeded chains of up to 8 operators + parenthesised samples' % (maxlen, nlong),
                        cases=len(cases), status='violation',
                        detail='`%s` parses as %s %s, the published table demands %s' % (src, st, out, exp),
                        input=dict(source=src, expected=exp, observed=out, how='replay driver `shape` (ucglib::parse::parse)'))
    return dict(name='prec_chains', bound='all chains of 1..%d operators over the 18 binary operators + %d seeded chains of up to 8 operators + parenthesised samples' % (maxlen, nlong),
                cases=len(cases), status='ok')


def standin_prec_operand_kinds(tier, seed):
    """C02: "operands (incl. parenthesised ones) are opaque leaves, so grouping depends on operators only": the same chains with the
    operands varied over bare symbols, parenthesised symbols, string and integer literals and parenthesised sub-chains, plus explicit
    parentheses against the default grouping for EVERY ordered operator pair."""
    lv = doc_levels()
    toks = sorted(SRC_OP)
    rnd = random.Random(seed * 31 + 5)
    DOT = [t for t in toks if SRC_OP[t] == 'DOT'][0]

    def operand(kind, i):
        nm = 'abcdefgh'[i]
        if kind == 'sym':
            return nm, nm
        if kind == 'gsym':
            return '(%s)' % nm, '[%s]' % nm
        if kind == 'str':
            return '"s%d"' % i, '"s%d"' % i
        if kind == 'int':
            return str(i + 2), str(i + 2)
        o = toks[(i * 7 + 3) % len(toks)]
        if o == DOT:
            o = toks[(i * 7 + 4) % len(toks)]
        return '(%s %s %s)' % (nm, o, nm.upper()), '[(%s %s %s)]' % (nm, SRC_OP[o], nm.upper())

    def kinds_for(pos, combo):
        """operand kinds allowed at position pos of the chain: next to a `.` only what the selector grammar takes"""
        left_dot = pos > 0 and combo[pos - 1] == DOT          # this operand is the right side of a `.`
        right_dot = pos < len(combo) and combo[pos] == DOT     # ... the left side of a `.`
        if left_dot and right_dot:
            return ['sym', 'str']
        if left_dot:
            return ['sym', 'str']
        if right_dot:
            return ['sym', 'gsym', 'gchain']
        return ['sym', 'gsym', 'str', 'int', 'gchain']

    cases, exps = [], []

    def add(combo, kinds):
        srcs, leaves = zip(*[operand(k, i) for i, k in enumerate(kinds)])
        src = srcs[0]
        for i, t in enumerate(combo):
            src += ' %s %s' % (t, srcs[i + 1])
        cases.append(src + ';')
        exps.append(expected_shape(list(leaves), [SRC_OP[t] for t in combo], lv))

    # every operator with every admissible pair of operand kinds
    for t in toks:
        for ka in kinds_for(0, (t,)):
            for kb in kinds_for(1, (t,)):
                add((t,), (ka, kb))
    # every ordered operator pair: a few operand-kind assignments each, and explicit parentheses both ways
    per_pair = 10 if tier == 'thorough' else 3
    for t1 in toks:
        for t2 in toks:
            combo = (t1, t2)
            for _ in range(per_pair):
                add(combo, [rnd.choice(kinds_for(i, combo)) for i in range(3)])
            if t1 != DOT:                                   # a op1 (b op2 c): the parenthesised chain is ONE operand of op1
                cases.append('a %s (b %s c);' % (t1, t2))
                exps.append('(a %s [(b %s c)])' % (SRC_OP[t1], SRC_OP[t2]))
            cases.append('(a %s b) %s c;' % (t1, t2))     # (a op1 b) op2 c
            exps.append('([(a %s b)] %s c)' % (SRC_OP[t1], SRC_OP[t2]))
    # longer chains with random operand kinds
    for _ in range(6000 if tier == 'thorough' else 1200):
        combo = tuple(rnd.choice(toks) for _ in range(rnd.randint(3, 6)))
        add(combo, [rnd.choice(kinds_for(i, combo)) for i in range(len(combo) + 1)])
    bound = ('%d chains: every operator x every admissible pair of operand kinds (symbol, parenthesised symbol, string literal, integer literal, parenthesised '
             'sub-chain; next to `.` only what a selector takes); every ordered operator pair with %d seeded operand-kind assignments and with explicit parentheses '
             'both ways; seeded chains of 3..6 operators with random operand kinds' % (len(cases), per_pair))
    res = R.driver('shape', cases)
    for src, exp, (st, out) in zip(cases, exps, res):
        if st != 'OK' or out != exp:
            return dict(name='prec_operand_kinds', bound=bound, cases=len(cases), status='violation',
                        detail='`%s` parses as %s %s, the published table (operands are opaque leaves) demands %s' % (src, st, out, exp),
                        input=dict(source=src, expected=exp, observed=out, how='replay driver `shape` (ucglib::parse::parse)'))
    return dict(name='prec_operand_kinds', bound=bound, cases=len(cases), status='ok')


# ------------------------------------------------------------------ C01/C04: integer arithmetic
EDGE = [0, 1, -1, 2, -2, 3, 7, -7, 10, 3037000499, 3037000500, -3037000500, 2 ** 31, 2 ** 32, 2 ** 62,
        I64_MAX, I64_MAX - 1, I64_MIN, I64_MIN + 1]


def trunc_div(a, b):
    q = abs(a) // abs(b)
    return q if (a >= 0) == (b >= 0) else -q


def arith_expected(op, a, b):
    if op == '+':
        r = a + b
    elif op == '-':
        r = a - b
    elif op == '*':
        r = a * b
    elif op == '/':
        if b == 0:
            return None
        r = trunc_div(a, b)
    else:
        if b == 0:
            return None
        r = a - b * trunc_div(a, b)
    return r if I64_MIN <= r <= I64_MAX else None


def standin_arith_edges(tier, seed):
    cases, meta = [], []
    for op in ['+', '-', '*', '/', '%%']:
        for a in EDGE:
            for b in EDGE:
                cases.append('let x = %s %s %s;' % (lit(a), op, lit(b)))
                meta.append((op, a, b))
    res = R.driver('eval', cases)
    for src, (op, a, b), (st, out) in zip(cases, meta, res):
        exp = arith_expected(op, a, b)
        ok = (st == 'ERR') if exp is None else (st == 'OK' and re.search(r'x = (-?\d+),', out) and int(re.search(r'x = (-?\d+),', out).group(1)) == exp)
        if not ok:
            return dict(name='arith_edges', bound='5 operators x %d x %d edge operands' % (len(EDGE), len(EDGE)), cases=len(cases), status='violation',
                        detail='`%s`: expected %s, observed %s %s' % (src, 'a build error' if exp is None else exp, st, out[:200]),
                        input=dict(source=src, expected='build error' if exp is None else exp, observed='%s %s' % (st, out[:300]), how='replay driver `eval` (FileBuilder::eval_string)'))
    return dict(name='arith_edges', bound='5 operators x %d x %d edge operands' % (len(EDGE), len(EDGE)), cases=len(cases), status='ok')


def standin_range_edges(tier, seed):
    triples = [(0, 1, 3), (1, 2, 10), (5, 1, 4), (0, 3, 0), (-3, 2, 4), (0, 0, 3), (0, -1, 3)]
    ends = [I64_MIN, I64_MIN + 1, -I64_MAX, -3, 0, 1, 5, I64_MAX - 2, I64_MAX - 1, I64_MAX]
    steps = [1, 2, 5, 2 ** 62, I64_MAX]
    for s0 in ends:
        for e0 in ends:
            for st0 in steps:
                n = 0 if s0 > e0 else (e0 - s0) // st0 + 1
                if n <= 40:
                    triples.append((s0, st0, e0))
    cases, meta = [], []
    for (s, st_, e) in triples:
        src = 'let x = %s:%s:%s;' % (lit(s), lit(st_), lit(e)) if st_ != 1 else 'let x = %s:%s;' % (lit(s), lit(e))
        cases.append(src)
        meta.append((s, st_, e))
    res = R.driver('eval', cases)
    bound = '%d ranges: start/end over 10 edge values incl. i64 extremes x 5 steps (expected length <= 40) + degenerate steps' % len(cases)
    for src, (s, st_, e), (st, out) in zip(cases, meta, res):
        if st_ <= 0:
            ok = st == 'ERR'
            exp = 'build error'
        else:
            exp = list(range(s, e + 1, st_))
            got = [int(x) for x in re.findall(r'-?\d+', out.split('=', 1)[1])] if st == 'OK' and '=' in out else None
            ok = st == 'OK' and got == exp
        if not ok:
            return dict(name='range_edges', bound=bound, cases=len(cases), status='violation',
                        detail='`%s`: expected %s, observed %s %s' % (src, exp, st, out[:200]),
                        input=dict(source=src, expected=str(exp), observed='%s %s' % (st, out[:300]), how='replay driver `eval`'))
    return dict(name='range_edges', bound=bound, cases=len(cases), status='ok')


# ------------------------------------------------------------------ C04: format strings
def standin_fmt_edges(tier, seed):
    templates = ['', '@', '@ @', 'a@b@c@', '\\\\@', 'x', '@@', ' @ ']
    cases = []
    for t in templates:
        for n in range(0, 4):
            args = ', '.join(str(i + 1) for i in range(n))
            cases.append('let x = "%s" %% (%s);' % (t, args))
        cases.append('let x = "%s" %% {a = 1};' % t.replace('@', '@{item.a}'))
    res = R.driver('eval', cases)
    for src, (st, out) in zip(cases, res):
        if st not in ('OK', 'ERR'):
            return dict(name='fmt_edges', bound='%d template/argument-count combinations' % len(cases), cases=len(cases), status='violation',
                        detail='`%s`: %s %s' % (src, st, out[:200]),
                        input=dict(source=src, expected='a value or a diagnostic', observed='%s %s' % (st, out[:300]), how='replay driver `eval` under catch_unwind'))
    return dict(name='fmt_edges', bound='%d template/argument-count combinations' % len(cases), cases=len(cases), status='ok')


# ------------------------------------------------------------------ C10: reserved words
def doc_reserved():
    doc = open(os.path.join(REPO, 'docsite/site/content/reference/_index.md')).read()
    m = re.search(r'reserved in UCG.*?\n((?:\s*\n|\* .*\n)+)', doc)
    return re.findall(r'^\* (\S+)\s*$', m.group(1), re.M)


def standin_reserved_let(tier, seed):
    words = doc_reserved()
    cases = ['let %s = 1;' % w for w in words] + ['let x = 1;\nlet x = 2;']
    res = R.driver('eval', cases)
    for src, (st, out) in zip(cases, res):
        if st != 'ERR':
            return dict(name='reserved_let', bound='every published reserved word as a let name (%d) + one rebinding' % len(words), cases=len(cases), status='violation',
                        detail='`%s` must be a build error, observed %s %s' % (src.replace('\n', ' '), st, out[:120]),
                        input=dict(source=src, expected='build error', observed='%s %s' % (st, out[:300]), how='replay driver `eval`'))
    return dict(name='reserved_let', bound='every published reserved word as a let name (%d) + one rebinding' % len(words), cases=len(cases), status='ok', exhaustive=True)


# ------------------------------------------------------------------ C11: literals and positions
def standin_literals(tier, seed):
    strs = ['é', 'naïve ✓', '日本語', 'a\\nb', 'q\\"q', 'back\\\\slash', 'tab\\tx', 'mixé\\n✓', '', ' ']
    cases = ['let x = "%s";' % s for s in strs]
    res = R.driver('eval', cases)

    def decode(s):
        out, i = [], 0
        while i < len(s):
            if s[i] == '\\' and i + 1 < len(s):
                out.append({'n': '\n', 'r': '\r', 't': '\t'}.get(s[i + 1], s[i + 1]))
                i += 2
            else:
                out.append(s[i])
                i += 1
        return ''.join(out)
    for s, src, (st, out) in zip(strs, cases, res):
        exp = decode(s)
        m = re.search(r'x = "(.*)",\n\}$', out, re.S)
        got = m.group(1).replace('\\"', '"').replace('\\\\', '\\') if m else None
        # Val's Display escapes quotes and backslashes; compare after undoing that
        if st != 'OK' or got != exp:
            return dict(name='literals', bound='%d string literals incl. non-ASCII and every escape' % len(cases), cases=len(cases), status='violation',
                        detail='literal %r evaluates to %r, expected %r' % (s, got if got is not None else out[:80], exp),
                        input=dict(source=src, expected=exp, observed=got if got is not None else '%s %s' % (st, out[:200]), how='replay driver `eval`'))
    return dict(name='literals', bound='%d string literals incl. non-ASCII and every escape' % len(cases), cases=len(cases), status='ok')


VOCAB = ['let', 'x', 'foo_bar', '1', '42', '=', ';', '==', '=>', '>=', '<=', '<', '>', '..', '::', '&&', '||', '%%', '!=', '!~', '~',
         '+', '-', '*', '/', '.', ',', ':', '(', ')', '{', '}', '[', ']', '|', '"s t"', '"é"', 'NULL', 'true', 'in', 'is', 'not']
SEPS = [' ', '  ', '\n', '\r\n', '\t', ' // c\n', '\n\n']


def standin_token_positions(tier, seed):
    """Every token reports the line / column / byte offset at which it really starts."""
    rnd = random.Random(seed)
    cases, metas = [], []
    for _ in range(300 if tier == 'thorough' else 60):
        n = rnd.randint(1, 12)
        toks = [rnd.choice(VOCAB) for _ in range(n)]
        src, starts = '', []
        for t in toks:
            src += rnd.choice(SEPS)
            starts.append(len(src.encode()))
            src += t
        cases.append(src)
        metas.append((toks, starts))
    res = R.driver('tokens', cases)
    for src, (toks, starts), (st, out) in zip(cases, metas, res):
        if st != 'OK':
            continue    # some random sequences do not tokenise (e.g. an unterminated construct): not this stand-in's business
        b = src.encode()
        got = [x.split('\x1e') for x in out.split('\x1f')]
        got = [g for g in got if g[0] not in ('END',)]
        if len(got) != len(toks):
            continue    # adjacent pieces merged into other tokens (e.g. `=` `=`): positions below would not line up
        for t, s0, g in zip(toks, starts, got):
            off = int(g[4]); line = int(g[2]); col = int(g[3])
            true_line = b[:s0].count(b'\n') + 1
            true_col = s0 - (b[:s0].rfind(b'\n') + 1) + 1
            if (off, line, col) != (s0, true_line, true_col):
                return dict(name='token_positions', bound='%d random token sequences (<= 12 tokens) with random layout' % len(cases), cases=len(cases), status='violation',
                            detail='token %r in %r reported at line %d col %d offset %d, really at line %d col %d offset %d' % (t, src, line, col, off, true_line, true_col, s0),
                            input=dict(source=src, expected=dict(line=true_line, column=true_col, offset=s0), observed=dict(line=line, column=col, offset=off), how='replay driver `tokens`'))
    return dict(name='token_positions', bound='%d random token sequences (<= 12 tokens) with random layout' % len(cases), cases=len(cases), status='ok')


def standin_longest_operator(tier, seed):
    ops = ['==', '=>', '>=', '<=', '..', '::', '&&', '||', '%%', '!=', '!~']
    cases = ['a %s b' % o for o in ops] + ['a%sb' % o for o in ops]
    res = R.driver('tokens', cases)
    for src, o, (st, out) in zip(cases, ops + ops, res):
        frags = [x.split('\x1e')[1] for x in out.split('\x1f')] if st == 'OK' else []
        if o not in frags:
            return dict(name='longest_operator', bound='the %d two-character operators, with and without blanks' % len(ops), cases=len(cases), status='violation',
                        detail='`%s` does not yield the single token `%s`: %s %s' % (src, o, st, frags),
                        input=dict(source=src, expected=o, observed=str(frags), how='replay driver `tokens`'))
    return dict(name='longest_operator', bound='the %d two-character operators, with and without blanks' % len(ops), cases=len(cases), status='ok', exhaustive=True)


# ------------------------------------------------------------------ C08: env converter field order
def sh_quote_expected(s):
    return "'" + s.replace("'", "'\\''") + "'"


def standin_env_fields(tier, seed):
    kinds = {'s': ('"v%d"', lambda i: "f%d='v%d'\n" % (i, i)), 'i': ('%d', lambda i: 'f%d=%d\n' % (i, i)),
             'n': ('NULL', lambda i: ''), 'l': ('[1, 2]', lambda i: ''), 't': ('{a = 1}', lambda i: '')}
    work = tempfile.mkdtemp(prefix='verif_env_')
    n = 0
    try:
        maxf = 3 if tier == 'thorough' else 2
        for k in range(1, maxf + 1):
            for combo in itertools.product('sinlt', repeat=k):
                flds, exp = [], ''
                for i, c in enumerate(combo):
                    tmpl, line = kinds[c]
                    flds.append('f%d = %s' % (i, tmpl % i if '%d' in tmpl else tmpl))
                    exp += line(i)
                src = 'out env {%s};\n' % ', '.join(flds)
                open(os.path.join(work, 'e.ucg'), 'w').write(src)
                if os.path.exists(os.path.join(work, 'e.env')):
                    os.remove(os.path.join(work, 'e.env'))
                rc, so, se = R.run_ucg(['build', 'e.ucg'], work)
                got = open(os.path.join(work, 'e.env')).read() if os.path.exists(os.path.join(work, 'e.env')) else None
                n += 1
                if rc != 0 or got != exp:
                    return dict(name='env_fields', bound='tuples of 1..%d fields over {string, int, NULL, list, tuple} in every order' % maxf, cases=n, status='violation',
                                detail='%s -> %r, expected %r' % (src.strip(), got, exp),
                                input=dict(source=src, expected=exp, observed=got if got is not None else 'rc=%d %s' % (rc, se[-200:]), how='`ucg build e.ucg`, artifact e.env'))
        # hostile values through a real shell
        import subprocess
        for v in ["a'b", 'x $HOME `id` "q" \\ * ', 'line1\nline2', "'", '$(echo hi)', "it's a \\'test\\'"]:
            ucg_lit = v.replace('\\', '\\\\').replace('"', '\\"').replace('\n', '\\n')
            src = 'out env {V = "%s"};\n' % ucg_lit
            open(os.path.join(work, 'e.ucg'), 'w').write(src)
            rc, so, se = R.run_ucg(['build', 'e.ucg'], work)
            p = subprocess.run(['/bin/sh', '-c', '. ./e.env; printf %s "$V"'], cwd=work, capture_output=True, text=True)
            n += 1
            if rc != 0 or p.stdout != v:
                return dict(name='env_fields', bound='...', cases=n, status='violation', detail='value %r arrives in /bin/sh as %r' % (v, p.stdout),
                            input=dict(source=src, expected=v, observed=p.stdout, how='`ucg build`, then `. ./e.env` in /bin/sh'))
    finally:
        shutil.rmtree(work, ignore_errors=True)
    return dict(name='env_fields', bound='tuples of 1..%d fields over {string, int, NULL, list, tuple} in every order + 5 hostile values through /bin/sh' % maxf, cases=n, status='ok')


# ------------------------------------------------------------------ C18 / C14 / C13 scenarios on the real binary
def standin_env_leak(tier, seed):
    work = tempfile.mkdtemp(prefix='verif_leak_')
    try:
        open(os.path.join(work, 'e.ucg'), 'w').write('let x = env.VERIF_NOPE_NOT_SET;\n')
        env = dict(os.environ, VERIF_SECRET='hunter2-verif-secret')
        rc, so, se = R.run_ucg(['build', 'e.ucg'], work, env=env)
        if rc == 0 or 'hunter2-verif-secret' in so + se or 'VERIF_NOPE_NOT_SET' not in so + se:
            return dict(name='env_leak', bound='1 scenario', cases=1, status='violation',
                        detail='strict `env.VERIF_NOPE_NOT_SET` with a secret planted: rc=%d, secret disclosed=%s, variable named=%s' % (rc, 'hunter2-verif-secret' in so + se, 'VERIF_NOPE_NOT_SET' in so + se),
                        input=dict(source='let x = env.VERIF_NOPE_NOT_SET;', env='VERIF_SECRET=hunter2-verif-secret', expected='exit 1, message names the variable, no other value', observed=(so + se)[:300], how='`ucg build e.ucg`'))
        open(os.path.join(work, 'g.ucg'), 'w').write('let x = env.VERIF_SECRET;\nout json x;\n')
        rc, so, se = R.run_ucg(['build', 'g.ucg'], work, env=env)
        got = open(os.path.join(work, 'g.json')).read() if os.path.exists(os.path.join(work, 'g.json')) else ''
        if rc != 0 or 'hunter2-verif-secret' not in got:
            return dict(name='env_leak', bound='2 scenarios', cases=2, status='violation', detail='env.VERIF_SECRET did not evaluate to the variable\'s value: rc=%d %r' % (rc, got),
                        input=dict(source='let x = env.VERIF_SECRET; out json x;', expected='"hunter2-verif-secret"', observed=got or se[-200:], how='`ucg build g.ucg`'))
        rc, so, se = R.run_ucg(['--no-strict', 'build', 'e.ucg'], work, env=env)
        if rc != 0:
            return dict(name='env_leak', bound='3 scenarios', cases=3, status='violation', detail='--no-strict: unset variable must evaluate to NULL, build failed: %s' % (so + se)[-200:],
                        input=dict(source='let x = env.VERIF_NOPE_NOT_SET;', expected='builds (NULL)', observed=(so + se)[-300:], how='`ucg --no-strict build e.ucg`'))
    finally:
        shutil.rmtree(work, ignore_errors=True)
    return dict(name='env_leak', bound='3 scenarios (strict miss with planted secret, hit, --no-strict miss)', cases=3, status='ok')


def standin_out_all_or_nothing(tier, seed):
    work = tempfile.mkdtemp(prefix='verif_out_')
    n = 0
    try:
        for fmt, val, ext in [('toml', '{a = NULL}', 'toml'), ('flags', '1', 'txt'), ('exec', '1', 'sh'), ('xml', '1', 'xml')]:
            src = 'out %s %s;\n' % (fmt, val)
            open(os.path.join(work, 'h.ucg'), 'w').write(src)
            art = os.path.join(work, 'h.' + ext)
            for pre in (None, 'previous artifact\n'):
                if os.path.exists(art):
                    os.remove(art)
                if pre:
                    open(art, 'w').write(pre)
                rc, so, se = R.run_ucg(['build', 'h.ucg'], work)
                now = open(art).read() if os.path.exists(art) else None
                n += 1
                if rc == 0 or now != pre:
                    return dict(name='out_all_or_nothing', bound='4 inconvertible values x {no artifact, existing artifact}', cases=n, status='violation',
                                detail='`%s` (artifact before: %r): rc=%d, artifact after: %r' % (src.strip(), pre, rc, now),
                                input=dict(source=src, precondition='h.%s contains %r' % (ext, pre), expected='exit 1, artifact unchanged', observed='rc=%d, artifact %r' % (rc, now), how='`ucg build h.ucg`'))
        open(os.path.join(work, 'k.ucg'), 'w').write('out json {a = 1};\nout json {b = 2};\n')
        rc, so, se = R.run_ucg(['build', 'k.ucg'], work)
        n += 1
        if rc == 0:
            return dict(name='out_all_or_nothing', bound='...', cases=n, status='violation', detail='two out statements in one file built successfully',
                        input=dict(source='out json {a = 1}; out json {b = 2};', expected='exit 1', observed='rc=0', how='`ucg build k.ucg`'))
    finally:
        shutil.rmtree(work, ignore_errors=True)
    return dict(name='out_all_or_nothing', bound='4 inconvertible values x {no artifact, existing artifact} + double out', cases=n, status='ok')


def standin_verdict_order(tier, seed):
    work = tempfile.mkdtemp(prefix='verif_test_')
    n = 0
    try:
        files = {'a_test.ucg': ('assert {ok = 1 == 2, desc = "a: one equals two"};\n', False),
                 'b_test.ucg': ('assert {ok = 1 == 1, desc = "b: one equals one"};\n', True),
                 'm_test.ucg': ('assert {ok = "yes", desc = "m: malformed ok"};\n', False),
                 'z_test.ucg': ('let z = 1;\n', True)}
        for f, (src, _) in files.items():
            open(os.path.join(work, f), 'w').write(src)
        names = sorted(files)
        for k in (1, 2, 3):
            for combo in itertools.permutations(names, k):
                rc, so, se = R.run_ucg(['test'] + list(combo), work)
                n += 1
                want_rc = 0 if all(files[f][1] for f in combo) else 1
                problems = []
                if (rc != 0) != (want_rc != 0):
                    problems.append('exit status %d, expected %s' % (rc, 'non-zero' if want_rc else '0'))
                for f in combo:
                    verdict = 'PASS' if files[f][1] else 'FAIL'
                    if not re.search(r'%s - %s' % (re.escape(f), verdict), so + se):
                        problems.append('%s not reported %s' % (f, verdict))
                if problems:
                    return dict(name='verdict_order', bound='all ordered selections of 1..3 of 4 test files', cases=n, status='violation',
                                detail='`ucg test %s`: %s' % (' '.join(combo), '; '.join(problems)),
                                input=dict(files={f: files[f][0] for f in combo}, command='ucg test ' + ' '.join(combo), expected='per-file verdicts independent of order', observed=(so + se)[-600:], how='real binary'))
    finally:
        shutil.rmtree(work, ignore_errors=True)
    return dict(name='verdict_order', bound='all ordered selections of 1..3 of 4 test files (pass, fail, malformed, no asserts)', cases=n, status='ok')


