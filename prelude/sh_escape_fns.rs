// ---- prelude/sh_escape_fns.rs: the two real escaping helpers of src/convert/mod.rs under contract ----
// (needs prelude/sh_escape_models.rs and prelude/sh_escape_posix.rs; verified again in every unit that includes it;
//  units/sh_escape.unit.rs carries the same two blocks plus their seeded mutants)
// R9': `X.replace(c, t)` -> `verif_replace_char(X, c, t)`; assumption: std's str::replace::<char> behaves like
// the verified loop model (left to right, every occurrence).

//@ extract src/convert/mod.rs :: fn shell_escape_single_quoted
//@   subst "s.replace(" => "verif_replace_char(s, "
//@   ret r
//@   sig <<<
    ensures sq_contract(s@, r@)
//@   >>>
//@   body_start <<<
    proof {
        reveal_strlit("'\\''");
        assert("'\\''"@ =~= sq_to());
        lemma_sq_contract(s@);
    }
//@   >>>
//@ end

//@ extract src/convert/mod.rs :: fn shell_escape_double_quoted
//@   subst <<<
s.replace('\\', "\\\\")
        .replace('"', "\\\"")
        .replace('$', "\\$")
        .replace('`', "\\`")
//@ ===
    verif_replace_char(verif_replace_char(verif_replace_char(verif_replace_char(s, '\\', "\\\\").as_str(),
        '"', "\\\"").as_str(),
        '$', "\\$").as_str(),
        '`', "\\`")
//@   >>>
//@   ret r
//@   sig <<<
    ensures dq_contract(s@, r@)
//@   >>>
//@   body_start <<<
    proof {
        reveal_strlit("\\\\");
        reveal_strlit("\\\"");
        reveal_strlit("\\$");
        reveal_strlit("\\`");
        assert("\\\\"@ =~= seq!['\\', '\\']);
        assert("\\\""@ =~= seq!['\\', '"']);
        assert("\\$"@ =~= seq!['\\', '$']);
        assert("\\`"@ =~= seq!['\\', '`']);
        lemma_dq_contract(s@);
    }
//@   >>>
//@ end
