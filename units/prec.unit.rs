//@ unit prec
//@ serves C02 C04
//@ must_verify op_expression precedence_level parse_expression parse_bool_operator parse_dot_operator parse_sum_operator parse_product_operator parse_compare_operator parse_operator_element parse_op parse_precedence SliceIter::next eoi Result::is_complete lemma_split_is lemma_split_range
//@ include prelude/head.rs
use std::rc::Rc;

//@ extract dep:abortable_parser/src/combinators.rs :: macro run
//@ end
//@ extract dep:abortable_parser/src/combinators.rs :: macro either
//@ end

verus! {
//@ include prelude/core.rs
//@ include prelude/ap_slice.rs

// ---------- types the extracted code only moves around (R5) ----------
//@ opaque Value Position NotDef CopyDef RangeDef FormatDef IncludeDef ImportDef CallDef CastDef FuncDef SelectDef FuncOpDef ModuleDef FailDef DebugDef ConvertDef ConstraintDef

//@ extract src/ast/mod.rs :: enum BinaryExprType
//@   rule R0
//@ end
//@ extract src/ast/mod.rs :: struct BinaryOpDef
//@   rule R0
//@ end
//@ extract src/ast/mod.rs :: enum Expression
//@   rule R0
//@ end
//@ extract src/parse/precedence.rs :: enum Element
//@   rule R0
//@ end
//@ clone_spec BinaryExprType Expression Position
//@ include prelude/prec_tokens_spec.rs

pub uninterp spec fn expr_pos(e: Expression) -> Position;

impl Expression {
    // Expression::pos is a field projection on 19 payload types that are opaque here (R5/R8):
    // assumed to be a deterministic function of the expression.
    #[verifier::external_body]
    pub fn pos(&self) -> (r: &Position)
        ensures *r == expr_pos(*self)
    { unimplemented!() }
}

// ---------- oracle: the published table ----------
//@ hook doc_level

//@ extract src/ast/mod.rs :: impl BinaryExprType :: fn precedence_level
//@   ret r
//@   sig <<<
        ensures r == doc_level(*self)
//@   >>>
//@   mutant in_level "BinaryExprType::IN => 2" => "BinaryExprType::IN => 3" expect precedence_level
//@   mutant and_level "BinaryExprType::AND => 5" => "BinaryExprType::AND => 4" expect precedence_level
//@ end

//@ extract src/parse/precedence.rs :: macro abort_on_end
//@   rule R1
//@ end

pub open spec fn at_op(i: SliceIter<Element>) -> bool {
    i.offset < i.source@.len() && i.source@[i.offset as int] is Op
}
pub open spec fn cur_op(i: SliceIter<Element>) -> BinaryExprType {
    i.source@[i.offset as int]->Op_0
}
pub open spec fn takes_op<'a>(i: SliceIter<'a, Element>, r: Result<SliceIter<'a, Element>, BinaryExprType>) -> bool {
    r matches Result::Complete(rest, op) && rest.source == i.source && rest.offset == i.offset + 1 && op == cur_op(i)
}

//@ extract src/parse/precedence.rs :: fn parse_expression
//@   rule R1
//@   ret r
//@   sig <<<
    ensures
        (i.offset < i.source@.len() && i.source@[i.offset as int] is Expr) ==> (
            r matches Result::Complete(rest, e)
            && rest.source == i.source && rest.offset == i.offset + 1
            && e == *i.source@[i.offset as int]->Expr_0),
//@   >>>
//@ end

pub open spec fn is_bool_op(o: BinaryExprType) -> bool { o is AND || o is OR }
pub open spec fn is_dot_op(o: BinaryExprType) -> bool { o is DOT }
pub open spec fn is_sum_op(o: BinaryExprType) -> bool { o is Add || o is Sub }
pub open spec fn is_product_op(o: BinaryExprType) -> bool { o is Mul || o is Div || o is Mod }
pub open spec fn is_compare_op(o: BinaryExprType) -> bool { !is_bool_op(o) && !is_dot_op(o) && !is_sum_op(o) && !is_product_op(o) }

//@ extract src/parse/precedence.rs :: fn parse_bool_operator
//@   rule R1 R3
//@   ret r
//@   sig <<<
    ensures (at_op(i) && is_bool_op(cur_op(i))) ==> takes_op(i, r),
            (i.offset < i.source@.len() && !(at_op(i) && is_bool_op(cur_op(i)))) ==> r is Fail
//@   >>>
//@ end
//@ extract src/parse/precedence.rs :: fn parse_dot_operator
//@   rule R1 R3
//@   ret r
//@   sig <<<
    ensures (at_op(i) && is_dot_op(cur_op(i))) ==> takes_op(i, r),
            (i.offset < i.source@.len() && !(at_op(i) && is_dot_op(cur_op(i)))) ==> r is Fail
//@   >>>
//@ end
//@ extract src/parse/precedence.rs :: fn parse_sum_operator
//@   rule R1 R3
//@   ret r
//@   sig <<<
    ensures (at_op(i) && is_sum_op(cur_op(i))) ==> takes_op(i, r),
            (i.offset < i.source@.len() && !(at_op(i) && is_sum_op(cur_op(i)))) ==> r is Fail
//@   >>>
//@ end
//@ extract src/parse/precedence.rs :: fn parse_product_operator
//@   rule R1 R3
//@   ret r
//@   sig <<<
    ensures (at_op(i) && is_product_op(cur_op(i))) ==> takes_op(i, r),
            (i.offset < i.source@.len() && !(at_op(i) && is_product_op(cur_op(i)))) ==> r is Fail
//@   >>>
//@ end
//@ extract src/parse/precedence.rs :: fn parse_compare_operator
//@   rule R1 R3
//@   ret r
//@   sig <<<
    ensures (at_op(i) && is_compare_op(cur_op(i))) ==> takes_op(i, r),
            (i.offset < i.source@.len() && !(at_op(i) && is_compare_op(cur_op(i)))) ==> r is Fail
//@   >>>
//@   mutant cmp_drop_is "| &BinaryExprType::IS" => "" expect parse_compare_operator,parse_operator_element
//@ end

// make_fn!(parse_operator_element<..>, either!(..)) expanded one layer (R10)
//@ extract src/parse/precedence.rs :: make_fn parse_operator_element
//@   ret r
//@   sig <<<
    ensures at_op(i) ==> takes_op(i, r),
//@   >>>
//@ end

// ---------- spec: the grouping demanded by the property ----------
pub open spec fn wf(s: Seq<Element>) -> bool {
    s.len() % 2 == 1
    && (forall|k: int| 0 <= k < s.len() && k % 2 == 0 ==> s[k] is Expr)
    && (forall|k: int| 0 <= k < s.len() && k % 2 == 1 ==> s[k] is Op)
}

pub open spec fn lvl(s: Seq<Element>, k: int) -> u32 {
    doc_level(s[k]->Op_0)
}

// index of the root operator for operands lo..hi (even indices, lo < hi):
// the right-most operator of minimal level.
pub open spec fn split(s: Seq<Element>, lo: int, hi: int) -> int
    decreases hi - lo
{
    if hi - lo <= 2 {
        lo + 1
    } else {
        let k = split(s, lo, hi - 2);
        if lvl(s, hi - 1) <= lvl(s, k) { hi - 1 } else { k }
    }
}

pub open spec fn expected(s: Seq<Element>, lo: int, hi: int) -> Expression
    decreases hi - lo, 1int
    when lo % 2 == 0 && hi % 2 == 0
{
    if lo >= hi {
        *s[lo]->Expr_0
    } else {
        let k = split(s, lo, hi);
        if lo < k < hi && k % 2 == 1 {
            let l = expected(s, lo, k - 1);
            Expression::Binary(BinaryOpDef {
                kind: s[k]->Op_0,
                left: Box::new(l),
                right: Box::new(expected(s, k + 1, hi)),
                pos: expr_pos(l),
            })
        } else {
            arbitrary()
        }
    }
}

proof fn lemma_split_range(s: Seq<Element>, lo: int, hi: int)
    requires lo % 2 == 0, hi % 2 == 0, lo < hi
    ensures lo < split(s, lo, hi) < hi, split(s, lo, hi) % 2 == 1
    decreases hi - lo
{
    if hi - lo > 2 { lemma_split_range(s, lo, hi - 2); }
}

// characterisation: k is the root iff every operator to its left has level >= lvl(k)
// and every operator to its right has level > lvl(k)  ("higher binds tighter, equal
// levels group left to right")
proof fn lemma_split_is(s: Seq<Element>, lo: int, hi: int, k: int)
    requires
        lo % 2 == 0, hi % 2 == 0, lo < k < hi, k % 2 == 1,
        forall|j: int| lo < j < k && j % 2 == 1 ==> #[trigger] lvl(s, j) >= lvl(s, k),
        forall|j: int| k < j < hi && j % 2 == 1 ==> #[trigger] lvl(s, j) > lvl(s, k),
    ensures split(s, lo, hi) == k
    decreases hi - lo
{
    if hi - lo <= 2 {
    } else if k == hi - 1 {
        lemma_split_range(s, lo, hi - 2);
    } else {
        lemma_split_is(s, lo, hi - 2, k);
    }
}

// and conversely the root returned by split has that property (uniqueness of the grouping)
proof fn lemma_split_props(s: Seq<Element>, lo: int, hi: int)
    requires lo % 2 == 0, hi % 2 == 0, lo < hi
    ensures
        forall|j: int| lo < j < split(s, lo, hi) && j % 2 == 1 ==> #[trigger] lvl(s, j) >= lvl(s, split(s, lo, hi)),
        forall|j: int| split(s, lo, hi) < j < hi && j % 2 == 1 ==> #[trigger] lvl(s, j) > lvl(s, split(s, lo, hi)),
    decreases hi - lo
{
    if hi - lo > 2 {
        lemma_split_props(s, lo, hi - 2);
        lemma_split_range(s, lo, hi - 2);
    }
}

//@ extract src/parse/precedence.rs :: macro try_parse
//@ end

pub open spec fn pre_parse_op(s: Seq<Element>, lhs: Expression, o: int, a: int) -> bool {
    &&& 0 <= a < o && a % 2 == 0
    &&& lhs == expected(s, a, o - 1)
    &&& (o < s.len() ==> forall|j: int| a < j < o && j % 2 == 1 ==> #[trigger] lvl(s, j) >= lvl(s, o))
}

//@ extract src/parse/precedence.rs :: fn parse_op
//@   rule R4
//@   ret r
//@   sig <<<
    requires
        wf(i__in.source@),
        i__in.offset % 2 == 1, i__in.offset <= i__in.source@.len(),
        exists|a: int| pre_parse_op(i__in.source@, lhs__in, i__in.offset as int, a),
    ensures
        r matches Result::Complete(rest, t) && ({
            let s = i__in.source@; let o = i__in.offset as int; let e = rest.offset as int;
            &&& rest.source == i__in.source
            &&& o <= e <= s.len() && e % 2 == 1
            &&& (forall|a: int| pre_parse_op(s, lhs__in, o, a) ==> t == expected(s, a, e - 1))
            &&& (forall|j: int| o <= j < e && j % 2 == 1 ==> #[trigger] lvl(s, j) >= min_precedence)
            &&& (e < s.len() ==> lvl(s, e) < min_precedence)
            &&& (o < s.len() && lvl(s, o) >= min_precedence ==> e >= o + 2)
        }),
    decreases i__in.source@.len() - i__in.offset
//@   >>>
//@   before "if eoi(i.clone()).is_complete() { return Result::Complete(i, lhs); }" <<<
    let ghost s = i.source@;
    let ghost o = i.offset as int;
    let ghost lhs0 = lhs;
    let ghost src0 = i.source;
//@   >>>
//@   loop 1 <<<
        invariant
            wf(s), i.source@ == s, i.source == src0,
            s == i__in.source@, o == i__in.offset, 1 <= o,
            o <= i.offset <= s.len(), i.offset % 2 == 1,
            i.offset < s.len() ==> lookahead_op == s[i.offset as int]->Op_0,
            forall|a: int| pre_parse_op(s, lhs0, o, a) ==> pre_parse_op(s, lhs, i.offset as int, a),
            forall|j: int| o <= j < i.offset && j % 2 == 1 ==> #[trigger] lvl(s, j) >= min_precedence,
            i.offset > o ==> (o < s.len() && lvl(s, o) >= min_precedence),
        decreases s.len() - i.offset
//@   >>>
//@   before "let op = lookahead_op.clone();" <<<
        let ghost p = i.offset as int;
        let ghost lhs_prev = lhs;
//@   >>>
//@   loop 2 <<<
            invariant
                wf(s), i.source@ == s, i.source == src0,
                s == i__in.source@, o == i__in.offset, 1 <= o,
                op == s[p]->Op_0, o <= p, p % 2 == 1, p < s.len(),
                p + 2 <= i.offset <= s.len(), i.offset % 2 == 1,
                rhs == expected(s, p + 1, i.offset - 1),
                forall|j: int| p + 1 < j < i.offset && j % 2 == 1 ==> #[trigger] lvl(s, j) > lvl(s, p),
                i.offset < s.len() ==> lookahead_op == s[i.offset as int]->Op_0,
                i.offset < s.len() ==> forall|j: int| p + 1 < j < i.offset && j % 2 == 1 ==> #[trigger] lvl(s, j) >= lvl(s, i.offset as int),
            ensures
                i.offset < s.len() ==> lvl(s, i.offset as int) <= lvl(s, p),
            decreases s.len() - i.offset
//@   >>>
//@   before "let (rest, inner_rhs) =" <<<
            let ghost o2 = i.offset as int;
            assert(pre_parse_op(s, rhs, o2, p + 1));
//@   >>>
//@   after "pos, });" <<<
        proof {
            let e = i.offset as int;
            assert forall|a: int| pre_parse_op(s, lhs0, o, a) implies pre_parse_op(s, lhs, e, a) by {
                assert(pre_parse_op(s, lhs_prev, p, a));
                lemma_split_is(s, a, e - 1, p);
            }
        }
//@   >>>
//@   mutant inner_ge "precedence_level() > op.precedence_level()" => "precedence_level() >= op.precedence_level()" expect parse_op
//@   mutant outer_gt "precedence_level() >= min_precedence" => "precedence_level() > min_precedence" expect parse_op
//@   mutant swap_lr "left: Box::new(lhs.clone()), right: Box::new(rhs)," => "left: Box::new(rhs), right: Box::new(lhs.clone())," expect parse_op
//@ end

//@ extract src/parse/precedence.rs :: fn parse_precedence
//@   ret r
//@   sig <<<
    requires wf(i.source@), i.offset == 0
    ensures
        r matches Result::Complete(rest, t)
        && rest.source == i.source && rest.offset == i.source@.len()
        && t == expected(i.source@, 0, i.source@.len() - 1),
//@   >>>
//@   before "parse_op(expr, rest, 0)" <<<
 { assert(pre_parse_op(i.source@, expr, 1, 0));
//@   >>>
//@   after "parse_op(expr, rest, 0)" <<<
 }
//@   >>>
//@ end


// ---------- link to units/prec_tokens.unit.rs ----------
impl<C> Error<C> {
    #[verifier::external_body]
    pub fn get_msg<'a>(&'a self) -> &'a str { unimplemented!() }
}
//@ extract dep:abortable_parser/src/iter.rs :: impl * SliceIter<'a, T> :: fn new
//@   impl_header impl<'a, T> SliceIter<'a, T>
//@   ret r
//@   sig <<<
        ensures r.source == source, r.offset == 0
//@   >>>
//@ end
//@ extract src/parse/mod.rs :: type ParseResult
//@ end

// PROVED in units/prec_tokens.unit.rs (same ensures text), assumed here
//@ extract src/parse/precedence.rs :: fn parse_operand_list
//@   opaque_body
//@   ret r
//@   sig <<<
    ensures
        r matches Result::Complete(rest, list) ==> ({
            let src = i.source@;
            &&& wf(list@)
            &&& rest.source == i.source && i.offset < rest.offset <= src.len()
            &&& exists|st: Seq<int>| layout(src, list@, st, i.offset as int, rest.offset as int)
            &&& cur_tok_op(rest) is None
        }),
        r is Fail ==> operand_fails(i.source@, i.offset as int),
//@   >>>
//@ end

//@ extract src/parse/precedence.rs :: fn op_expression
//@   ret r
//@   sig <<<
    ensures
        r matches Result::Complete(rest, e) ==> ({
            let src = i.source@;
            &&& rest.source == i.source && i.offset < rest.offset <= src.len()
            &&& cur_tok_op(rest) is None
            &&& exists|list: Seq<Element>, st: Seq<int>| wf(list)
                    && #[trigger] layout(src, list, st, i.offset as int, rest.offset as int)
                    && e == expected(list, 0, list.len() - 1)
        }),
        r is Fail ==> operand_fails(i.source@, i.offset as int),
//@   >>>
//@ end

} // verus!

fn main() {}
