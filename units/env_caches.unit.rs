//@ unit env_caches
//@ serves C16 C13
//@ must_verify OpPointer::new OpPointer::set_path Ops::new Ops::entry Entry::get_pointer_or_else Checker::new Checker::with_working_dir Checker::with_shape_cache Checker::result Environment::get_ops_for_path Environment::add_ops_for_path_and_content Environment::get_cached_path_val Environment::update_path_val Environment::get_out_lock_for_path Environment::set_out_lock_for_path Environment::reset_out_lock_for_path lemma_lookup_is_a_fresh_computation lemma_stdlib_entry_is_fresh lemma_order_independent lemma_idempotent lemma_failure_leaves_no_trace lemma_value_cache_and_locks_are_exact
// C16 (narrow kernel) - cache coherence of the shared Environment: opcode cache, import value cache, output locks.
// The property itself ("a file builds the same alone, in any batch, in any order, any number of times") is a
// hyperproperty over process runs; what contracts CAN state is what every such argument needs from the caches:
// every lookup returns exactly what a fresh computation for the SAME key returns, an entry is never served for another
// key, a failed computation leaves no entry behind, nothing but the one slot changes.
//
// Verified text (all extracted): opcode/cache.rs whole file (Ops, Entry, Ops::new, Ops::entry, Entry::get_pointer_or_else),
// OpPointer::{new, set_path}, Environment::{get_ops_for_path, add_ops_for_path_and_content, get_cached_path_val,
// update_path_val, get_out_lock_for_path, set_out_lock_for_path, reset_out_lock_for_path}, Checker::{new,
// with_working_dir, with_shape_cache, result} (the checker as get_ops_for_path sets it up).
//
// Model (prelude/env_caches_world.rs, prelude/env_caches_front.rs, all trusted):
//   * BTreeMap<K, V> = Map<view of K, V>; `btree_map::Entry` HOLDS the `&mut` borrow of the map (Verus' prophetic
//     mutable references: `cur()` the map while the entry is held, `fin()` the map when the borrow ends), so the
//     entry API of cache.rs is verified verbatim.
//   * The FnOnce parameter of get_pointer_or_else is specified through `f.requires(())` / `f.ensures((), res)`:
//     "the closure is NOT called on a hit" is the precondition `Vacant ==> f.requires(())` (on a hit nothing is known
//     about the closure's precondition, so a call does not verify); "called once on a miss" is the link
//     `f.ensures((), result)` of the stored / returned value.
//   * PathBuf = the path std compares; `parent` is an uninterpreted function of it.
//   * File system: a FIXED function for the run (fs_opens / fs_read). Parser, type-checker walk, translator:
//     UNINTERPRETED functions of their arguments (spec_parse, spec_walk, spec_translate). `compile(cell, path)` is
//     their composition exactly as the closure of get_ops_for_path composes them (which path is read, labelled,
//     checked in which directory, order, error propagation).
//   * The shared shape cache `Rc<RefCell<..>>` is an opaque cell here: that the type checker's outcome does not depend
//     on what the cell holds is ASSUMED in this unit; its one-step kernel is units/env_caches_shapes.unit.rs.
//
// Lemmas (what C16 needs): L0 lookup == fresh computation + invariant kept; L1 order independence (p then q == q then
// p: outcomes and cache); L2 idempotence (second lookup: the stored ops again, nothing changes); L3 a failed lookup leaves no trace.
// NOT extracted: Environment::populate_stdlib (a `for` over `HashMap::drain()`); its callee
// add_ops_for_path_and_content is (key = the library's `std/..` name, the embedded text, no file read, no type check).
//@ include prelude/head.rs
use std::rc::Rc;

verus! {
//@ include prelude/core.rs
//@ opaque Value Shape OpsMap ConverterRegistry ImporterRegistry AssertCollector Stdout Stderr Statement CommentMap ErrorType Position
//@ clone_spec Position
impl Position {
    #[verifier::external_body]
    pub fn new(line: usize, column: usize, offset: usize) -> Self { unimplemented!() }
}

//@ include prelude/env_caches_world.rs

//@ include prelude/env_caches_front.rs

// ---------- opcode/pointer.rs: the handle handed out for a compiled file ----------
//@ extract src/build/opcode/pointer.rs :: struct OpPointer
//@   rule R0
//@ end
//@ extract src/build/opcode/pointer.rs :: impl OpPointer :: fn new
//@   ret r
//@   sig <<<
        ensures r.pos_map == ops, r.ptr is None, r.path is None
//@   >>>
//@ end
//@ extract src/build/opcode/pointer.rs :: impl OpPointer :: fn set_path
//@   sig <<<
        ensures final(self).path == Some(path), final(self).pos_map == old(self).pos_map, final(self).ptr == old(self).ptr
//@   >>>
//@ end

// A pointer to the start of the compiled file `ops`, labelled with the path `tag`
pub open spec fn fresh_pointer(p: OpPointer, ops: Rc<OpsMap>, tag: Seq<char>) -> bool {
    p.pos_map == ops && p.ptr is None && (p.path matches Some(q) && q@ == tag)
}

// THE CACHE CONTRACT (whole map, both directions). `m0`/`m1`: the cache before/after; `key`: the slot looked up;
// `load(res)`: "res is what the computation for this key yields" (the closure's postcondition).
//   hit  => the STORED ops are handed out (Verus identifies an Rc with its content: the stored value), the cache is unchanged (and, by the precondition of
//           get_pointer_or_else, the computation cannot have been run: nothing is known about its precondition);
//   miss => the computation ran: on Ok(o) the cache gains exactly key |-> o and the pointer handed out is to that very
//           entry; on Err(e) the very error is returned and the cache is unchanged - no entry is left behind.
pub open spec fn cache_post(
    key: Seq<char>, m0: Map<Seq<char>, Rc<OpsMap>>, m1: Map<Seq<char>, Rc<OpsMap>>,
    load: spec_fn(Result<OpsMap, Error>) -> bool, tag: Seq<char>, r: Result<OpPointer, Error>,
) -> bool {
    if m0.contains_key(key) {
        &&& m1 =~= m0
        &&& r matches Ok(p) && fresh_pointer(p, m0[key], tag)
    } else {
        match r {
            Ok(p) => load(Ok(*p.pos_map)) && m1 =~= m0.insert(key, p.pos_map) && fresh_pointer(p, p.pos_map, tag),
            Err(e) => load(Err(e)) && m1 =~= m0,
        }
    }
}

// ---------- opcode/cache.rs: the whole file ----------
pub mod cache {
    use super::*;
//@ extract src/build/opcode/cache.rs :: struct Ops
//@   rule R0 RV
//@ end
//@ extract src/build/opcode/cache.rs :: struct Entry
//@   rule R0
//@   subst "Entry<'a>(btree_map::Entry" => "Entry<'a>(pub btree_map::Entry"
//@ end
//@ extract src/build/opcode/cache.rs :: impl Ops :: fn new
//@   ret r
//@   sig <<<
        ensures r.ops@ == Map::<Seq<char>, Rc<OpsMap>>::empty()
//@   >>>
//@ end
//@ extract src/build/opcode/cache.rs :: impl Ops :: fn entry
//@   subst "P: Into<PathBuf>>" => "P: vinto::VIntoPathBuf>"
//@   ret r
//@   sig <<<
        ensures
            r.0.wf(), r.0.key() == path.pview(),
            r.0.cur() == old(self).ops@, r.0.fin() == final(self).ops@,
//@   >>>
//@   mutant entry_for_another_key "self.ops.entry(path.into())" => "self.ops.entry(PathBuf::from(\"\"))" expect entry
//@ end
//@ extract src/build/opcode/cache.rs :: impl * Entry<'a> :: fn get_pointer_or_else
//@   subst "P: Into<PathBuf>>" => "P: vinto::VIntoPathBuf>"
//@   ret r
//@   sig <<<
        requires
            self.0.wf(),
            // only on a miss may the computation be started
            self.0 is Vacant ==> f.requires(()),
        ensures
            cache_post(self.0.key(), self.0.cur(), self.0.fin(), |res: Result<OpsMap, Error>| f.ensures((), res), path.pview(), r),
//@   >>>
//@   mutant closure_called_on_hit "btree_map::Entry::Occupied(e) => e.get().clone()," => "btree_map::Entry::Occupied(e) => { let fresh = f(); match fresh { Ok(o) => Rc::new(o), Err(_) => e.get().clone() } }" expect get_pointer_or_else
//@   mutant error_leaves_empty_entry "let v = Rc::new(f()?);" => "let v = match f() { Ok(o) => Rc::new(o), Err(err) => { e.insert(Rc::new(OpsMap::new())); return Err(err); } };" expect get_pointer_or_else
//@   mutant miss_not_stored "e.insert(v.clone());" => "" expect get_pointer_or_else
//@   mutant pointer_to_a_copy_not_the_entry "e.insert(v.clone()); v" => "e.insert(v.clone()); Rc::new(OpsMap::new())" expect get_pointer_or_else
//@ end
}

// ---------- the front end behind a cache miss: parser, type checker, translator (R8: outside the unit) ----------
// Each stage is an UNINTERPRETED function of what it is handed; what is verified is how the code under contract
// composes them (which path is read, in which order, how failures propagate) - `compile` below.
// opcode/translate.rs AST::translate: a function of (statements, directory of the file)
pub uninterp spec fn spec_translate(stmts: Seq<Statement>, root: Seq<char>) -> OpsMap;
pub mod translate {
    use super::*;
    pub struct AST();
    impl AST {
        #[verifier::external_body]
        pub fn translate<Q: VAsRefPath>(stmts: Vec<Statement>, root: &Q) -> (r: OpsMap)
            ensures r == spec_translate(stmts@, root.pview())
        { unimplemented!() }
    }
}
impl OpsMap {
    #[verifier::external_body]
    pub fn new() -> Self { unimplemented!() }
}

// Walker::walk_statement_list (ast/walk.rs) driving the Checker's visitor over a file (R8: the whole type checker).
// ASSUMED: a function of (the checker's state, the statements); it may rewrite the statements.
// NOT MODELLED HERE: that the checker reads and fills the shared shape cache behind `cache` (interior mutability).
// The outcome is assumed not to depend on what the cell holds - that is the coherence of the shape cache, whose
// one-step kernel is the contract of Checker::resolve_import below; the induction over the import graph is not done.
impl Checker {
    #[verifier::external_body]
    pub fn walk_statement_list(&mut self, stmts: &mut Vec<Statement>)
        ensures (final(self).st(), final(stmts)@) == spec_walk(old(self).st(), old(stmts)@)
    { unimplemented!() }
}
pub mod ast {
    pub use super::Position;
    pub mod typecheck { pub use super::super::Checker; }
}

// ---------- what a cache miss computes ----------
// get_ops_for_path's closure: read, parse, type check, translate the file `path` names
pub open spec fn compile(cache: ShapeCache, path: Seq<char>) -> Option<OpsMap> {
    match spec_parent(path) {
        None => None,
        Some(root) => match fs_text(path) {
            None => None,
            Some(text) => match spec_parse(text, Some(path)) {
                None => None,
                Some(stmts) => {
                    let checked = spec_walk(root_checker(root, cache), stmts);
                    if checked.0.errs.len() == 0 { Some(spec_translate(checked.1, root)) } else { None }
                },
            },
        },
    }
}
// add_ops_for_path_and_content's closure: parse and translate the given text under the name `path` (no type check)
pub open spec fn compile_text(path: Seq<char>, text: Seq<char>) -> Option<OpsMap> {
    match spec_parent(path) {
        None => None,
        Some(root) => match spec_parse(text, Some(path)) {
            None => None,
            Some(stmts) => Some(spec_translate(stmts, root)),
        },
    }
}
pub open spec fn yields(want: Option<OpsMap>, res: Result<OpsMap, Error>) -> bool {
    match want { Some(o) => res matches Ok(got) && got == o, None => res is Err }
}

// ---------- the shared environment ----------
pub mod environment {
    use super::*;
//@ extract src/build/opcode/environment.rs :: struct Environment
//@   rule R0
//@   subst "Environment<Stdout, Stderr> where Stdout: Write + Clone, Stderr: Write + Clone," => "Environment"
//@ end

// everything but the three caches and the lock set
pub open spec fn rest_frame(a: Environment, b: Environment) -> bool {
    a.converter_registry == b.converter_registry && a.importer_registry == b.importer_registry
    && a.assert_results == b.assert_results && a.stdout == b.stdout && a.stderr == b.stderr && a.env_vars == b.env_vars
}

//@ extract src/build/opcode/environment.rs :: impl * Environment<Stdout, Stderr> :: fn get_cached_path_val
//@   impl_header impl Environment
//@   ret r
//@   sig <<<
        ensures match r {
            Some(v) => self.val_cache@.contains_key(path@) && v == self.val_cache@[path@],
            None => !self.val_cache@.contains_key(path@),
        }
//@   >>>
//@   body_start <<<
        broadcast use clax::group_clone_axioms;
//@   >>>
//@   mutant value_lookup_ignores_the_key "self.val_cache.get(&path).cloned()" => "match self.val_cache.first_key_value() { Some(kv) => Some(kv.1.clone()), None => None }" expect get_cached_path_val
//@ end
//@ extract src/build/opcode/environment.rs :: impl * Environment<Stdout, Stderr> :: fn update_path_val
//@   impl_header impl Environment
//@   sig <<<
        ensures
            final(self).val_cache@ == old(self).val_cache@.insert(path@, val),
            final(self).op_cache == old(self).op_cache, final(self).shape_cache == old(self).shape_cache,
            final(self).out_lock == old(self).out_lock, rest_frame(*old(self), *final(self)),
//@   >>>
//@   body_start <<<
        broadcast use clax::group_clone_axioms;
//@   >>>
//@   mutant value_not_overwritten "self.val_cache.insert(path.clone(), val);" => "if self.val_cache.get(&path).is_none() { self.val_cache.insert(path.clone(), val); }" expect update_path_val
//@ end
//@ extract src/build/opcode/environment.rs :: impl * Environment<Stdout, Stderr> :: fn get_out_lock_for_path
//@   impl_header impl Environment
//@   subst "<P: AsRef<Path>>" => "<P: VAsRefPath>"
//@   ret r
//@   sig <<<
        ensures r == self.out_lock@.contains(path.pview())
//@   >>>
//@   mutant lock_never_seen "self.out_lock.contains(path.as_ref())" => "{ let _ = path.as_ref(); false }" expect get_out_lock_for_path
//@ end
//@ extract src/build/opcode/environment.rs :: impl * Environment<Stdout, Stderr> :: fn set_out_lock_for_path
//@   impl_header impl Environment
//@   subst "<P: Into<PathBuf>>" => "<P: vinto::VIntoPathBuf>"
//@   sig <<<
        ensures
            final(self).out_lock@ == old(self).out_lock@.insert(path.pview()),
            final(self).op_cache == old(self).op_cache, final(self).shape_cache == old(self).shape_cache,
            final(self).val_cache == old(self).val_cache, rest_frame(*old(self), *final(self)),
//@   >>>
//@   mutant lock_taken_under_another_path "self.out_lock.insert(path.into());" => "let _ = path.into(); self.out_lock.insert(PathBuf::from(\"/dev/stdout\"));" expect set_out_lock_for_path
//@ end
//@ extract src/build/opcode/environment.rs :: impl * Environment<Stdout, Stderr> :: fn reset_out_lock_for_path
//@   impl_header impl Environment
//@   subst "<P: AsRef<Path>>" => "<P: VAsRefPath>"
//@   sig <<<
        ensures
            final(self).out_lock@ == old(self).out_lock@.remove(path.pview()),
            final(self).op_cache == old(self).op_cache, final(self).shape_cache == old(self).shape_cache,
            final(self).val_cache == old(self).val_cache, rest_frame(*old(self), *final(self)),
//@   >>>
//@   mutant reset_releases_every_lock "self.out_lock.remove(path.as_ref());" => "let _ = path.as_ref(); self.out_lock.clear();" expect reset_out_lock_for_path
//@ end

// THE CONTRACT of a lookup in the opcode cache through the environment: the cache contract for the slot `path`, the
// computation being the compilation of THE SAME path; nothing else in the environment is touched.
pub open spec fn ops_post(e0: Environment, e1: Environment, path: Seq<char>, r: Result<OpPointer, Error>) -> bool {
    &&& cache_post(path, e0.op_cache.ops@, e1.op_cache.ops@,
            |res: Result<OpsMap, Error>| yields(compile(e0.shape_cache, path), res), path, r)
    &&& e1.val_cache == e0.val_cache && e1.shape_cache == e0.shape_cache && e1.out_lock == e0.out_lock
    &&& rest_frame(e0, e1)
}

//@ extract src/build/opcode/environment.rs :: impl * Environment<Stdout, Stderr> :: fn get_ops_for_path
//@   impl_header impl Environment
//@   rule R1
//@   subst "P: Into<PathBuf> + Clone," => "P: vinto::VIntoPathBuf + Clone,"
//@   subst "checker.walk_statement_list(stmts.iter_mut().collect())" => "checker.walk_statement_list(&mut stmts)"
//@   ret r
//@   sig <<<
        ensures ops_post(*old(self), *final(self), path.pview(), r)
//@   >>>
//@   body_start <<<
        broadcast use vinto::axiom_cloned_pview;
        let ghost key = path.pview();
        let ghost sc0 = self.shape_cache;
//@   >>>
//@   after "get_pointer_or_else( ||" <<<
            -> (res: Result<OpsMap, Error>) ensures yields(compile(sc0, key), res)
//@   >>>
//@   mutant one_slot_for_all_files "self.op_cache.entry(path.clone())" => "self.op_cache.entry(PathBuf::from(\"main.ucg\"))" expect get_ops_for_path
//@   mutant reads_another_file "File::open(&p)" => "File::open(&root.to_path_buf())" expect get_ops_for_path
//@   mutant positions_unlabelled "OffsetStrIter::new(&contents).with_src_file(&p)" => "OffsetStrIter::new(&contents)" expect get_ops_for_path
//@   mutant checker_without_working_dir ".with_working_dir(root)" => "" expect get_ops_for_path
//@   mutant type_errors_ignored "return Err(Error::new( format!(\"Type error: {}\", type_err.msg).into(), pos, ));" => "" expect get_ops_for_path
//@ end

// the standard library is compiled from embedded text under its `std/...` NAME (no file is read, no type check)
pub open spec fn add_post(e0: Environment, e1: Environment, path: Seq<char>, text: Seq<char>, r: Result<(), Error>) -> bool {
    let m0 = e0.op_cache.ops@;
    let m1 = e1.op_cache.ops@;
    &&& if m0.contains_key(path) {
            // the name is taken: nothing is compiled, nothing changes
            r is Ok && m1 =~= m0
        } else {
            match compile_text(path, text) {
                Some(o) => r is Ok && m1.contains_key(path) && *m1[path] == o && m1 =~= m0.insert(path, m1[path]),
                None => r is Err && m1 =~= m0,
            }
        }
    &&& e1.val_cache == e0.val_cache && e1.shape_cache == e0.shape_cache && e1.out_lock == e0.out_lock
    &&& rest_frame(e0, e1)
}
//@ extract src/build/opcode/environment.rs :: impl * Environment<Stdout, Stderr> :: fn add_ops_for_path_and_content
//@   impl_header impl Environment
//@   rule R1
//@   subst "P: Into<PathBuf> + Clone," => "P: vinto::VIntoPathBuf + Clone,"
//@   ret r
//@   sig <<<
        ensures add_post(*old(self), *final(self), path.pview(), contents@, r)
//@   >>>
//@   body_start <<<
        broadcast use vinto::axiom_cloned_pview;
        let ghost key = path.pview();
//@   >>>
//@   after "get_pointer_or_else( ||" <<<
            -> (res: Result<OpsMap, Error>) ensures yields(compile_text(key, contents@), res)
//@   >>>
//@   mutant stdlib_positions_unlabelled "OffsetStrIter::new(contents).with_src_file(&p)" => "OffsetStrIter::new(contents)" expect add_ops_for_path_and_content
//@ end
}

// ---------- what C16 needs from these contracts ----------
use environment::*;

// the embedded standard library (build/stdlib.rs get_libs(), generated at build time): name -> source text
pub uninterp spec fn stdlib_src(name: Seq<char>) -> Option<Seq<char>>;

// what a FRESH computation for the key `p` yields in an environment whose shape-cache cell is `sc`
pub open spec fn fresh(sc: ShapeCache, p: Seq<char>) -> Option<OpsMap> {
    match stdlib_src(p) { Some(text) => compile_text(p, text), None => compile(sc, p) }
}
// cache coherence: every entry is what a fresh computation for ITS key yields
pub open spec fn entries_fresh(e: Environment) -> bool {
    forall|p: Seq<char>| #[trigger] e.op_cache.ops@.contains_key(p) ==> fresh(e.shape_cache, p) == Some(*e.op_cache.ops@[p])
}
// ... and the library names are taken (what populate_stdlib establishes in Environment::new_with_vars)
pub open spec fn coherent(e: Environment) -> bool {
    &&& entries_fresh(e)
    &&& forall|p: Seq<char>| #[trigger] stdlib_src(p) is Some ==> e.op_cache.ops@.contains_key(p)
}
pub open spec fn same_outcome(a: Result<OpPointer, Error>, b: Result<OpPointer, Error>) -> bool {
    match (a, b) {
        (Ok(x), Ok(y)) => *x.pos_map == *y.pos_map && x.ptr == y.ptr && x.path == y.path,
        (Err(_), Err(_)) => true,
        _ => false,
    }
}

// (L0) "every cache lookup returns exactly what a fresh computation for the same key would return", and the
// invariant is kept - hit or miss, success or failure.
pub proof fn lemma_lookup_is_a_fresh_computation(e0: Environment, e1: Environment, p: Seq<char>, r: Result<OpPointer, Error>)
    requires coherent(e0), ops_post(e0, e1, p, r),
    ensures
        coherent(e1),
        match fresh(e0.shape_cache, p) { Some(o) => r matches Ok(ptr) && *ptr.pos_map == o, None => r is Err },
{
    let m0 = e0.op_cache.ops@;
    let m1 = e1.op_cache.ops@;
    if stdlib_src(p) is Some { assert(m0.contains_key(p)); }
    assert forall|k: Seq<char>| #[trigger] m1.contains_key(k) implies fresh(e1.shape_cache, k) == Some(*m1[k]) by {
        if k != p || m0.contains_key(p) { assert(m0.contains_key(k)); }
    }
    assert forall|k: Seq<char>| #[trigger] stdlib_src(k) is Some implies m1.contains_key(k) by {
        assert(m0.contains_key(k));
    }
}

// a library module registered under its name keeps the entries fresh
pub proof fn lemma_stdlib_entry_is_fresh(e0: Environment, e1: Environment, name: Seq<char>, text: Seq<char>, r: Result<(), Error>)
    requires entries_fresh(e0), stdlib_src(name) == Some(text), add_post(e0, e1, name, text, r),
    ensures entries_fresh(e1), r is Ok ==> e1.op_cache.ops@.contains_key(name),
{
    let m0 = e0.op_cache.ops@;
    let m1 = e1.op_cache.ops@;
    assert forall|k: Seq<char>| #[trigger] m1.contains_key(k) implies fresh(e1.shape_cache, k) == Some(*m1[k]) by {
        if k != name || m0.contains_key(name) { assert(m0.contains_key(k)); }
    }
}

// (L1) order independence: two different files looked up in either order - the same outcomes, the same cache.
pub proof fn lemma_order_independent(
    e0: Environment, p: Seq<char>, q: Seq<char>,
    ea: Environment, eab: Environment, rp1: Result<OpPointer, Error>, rq1: Result<OpPointer, Error>,
    eb: Environment, eba: Environment, rq2: Result<OpPointer, Error>, rp2: Result<OpPointer, Error>,
)
    requires
        p != q,
        ops_post(e0, ea, p, rp1), ops_post(ea, eab, q, rq1),     // p then q
        ops_post(e0, eb, q, rq2), ops_post(eb, eba, p, rp2),     // q then p
    ensures
        same_outcome(rp1, rp2), same_outcome(rq1, rq2),
        eab.op_cache.ops@.dom() =~= eba.op_cache.ops@.dom(),
        forall|k: Seq<char>| #[trigger] eab.op_cache.ops@.contains_key(k) ==> *eab.op_cache.ops@[k] == *eba.op_cache.ops@[k],
        eab.val_cache == eba.val_cache && eab.shape_cache == eba.shape_cache && eab.out_lock == eba.out_lock,
{
    let m0 = e0.op_cache.ops@;
    assert(ea.op_cache.ops@.contains_key(q) <==> m0.contains_key(q));
    assert(eb.op_cache.ops@.contains_key(p) <==> m0.contains_key(p));
}

// (L2) idempotence: a second lookup of the same file hands out the very same compiled file and changes nothing.
pub proof fn lemma_idempotent(
    e0: Environment, e1: Environment, e2: Environment, p: Seq<char>, r1: Result<OpPointer, Error>, r2: Result<OpPointer, Error>,
)
    requires ops_post(e0, e1, p, r1), r1 is Ok, ops_post(e1, e2, p, r2),
    ensures
        r2 matches Ok(b) && b.pos_map == r1->Ok_0.pos_map && b.ptr == r1->Ok_0.ptr && b.path == r1->Ok_0.path,
        e2.op_cache.ops@ =~= e1.op_cache.ops@,
{
    assert(e1.op_cache.ops@.contains_key(p));
}

// (L3) a failed lookup leaves no trace: whatever is looked up next behaves as if the failing file had never been tried.
pub proof fn lemma_failure_leaves_no_trace(
    e0: Environment, e1: Environment, p: Seq<char>, r1: Result<OpPointer, Error>,
    q: Seq<char>, e2: Environment, r2: Result<OpPointer, Error>,
)
    requires ops_post(e0, e1, p, r1), r1 is Err,
    ensures
        e1.op_cache.ops@ =~= e0.op_cache.ops@,
        !e1.op_cache.ops@.contains_key(p),
        ops_post(e1, e2, q, r2) <==> ops_post(e0, e2, q, r2),
{
}

// the value cache and the output locks are plain maps/sets: what was stored under a key is what is found under it,
// and under it only
pub proof fn lemma_value_cache_and_locks_are_exact(
    vals: Map<Seq<char>, Rc<Value>>, p: Seq<char>, q: Seq<char>, v: Rc<Value>, locks: Set<Seq<char>>,
)
    requires p != q,
    ensures
        vals.insert(p, v).contains_key(p) && vals.insert(p, v)[p] == v,
        vals.insert(p, v).contains_key(q) == vals.contains_key(q),
        vals.contains_key(q) ==> vals.insert(p, v)[q] == vals[q],
        locks.insert(p).contains(p), locks.insert(p).contains(q) == locks.contains(q),
        !locks.remove(p).contains(p), locks.remove(p).contains(q) == locks.contains(q),
{
}

} // verus!

fn main() {}
