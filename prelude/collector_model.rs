// ---- prelude/collector_model.rs: the assertion collector of `ucg test` (build/mod.rs), extracted, with its
// abstract view.  Included (inside verus!) by the units collector, assert_hook and verdict; every including
// unit re-verifies the two extracted functions against the same contract (nothing about them is assumed).

//@ extract src/build/mod.rs :: struct AssertCollector
//@   rule R0
//@ end

// Specification vocabulary and its lemmas live in a module of their own: the crate-level `broadcast use` below
// must not apply to the termination/proof obligations of the very definitions the broadcast lemma is about.
pub mod collector_spec {
use super::*;

// One recorded assertion: (message, ok).
pub type Entry = (Seq<char>, bool);

pub open spec fn all_ok(e: Seq<Entry>) -> bool {
    forall|k: int| 0 <= k < e.len() ==> (#[trigger] e[k]).1
}

// R1, content-keeping form: the two `format!` call sites of record_assert_result become stubs whose result
// is an uninterpreted function of exactly the arguments of the `format!` (counter, msg); the literal pieces
// (" - OK: ", " - NOT OK: ", "\n") are part of the stub.  The stub bodies are the original `format!` calls.
pub uninterp spec fn spec_fmt_ok(counter: i32, msg: Seq<char>) -> Seq<char>;
pub uninterp spec fn spec_fmt_not_ok(counter: i32, msg: Seq<char>) -> Seq<char>;

// The log line of the k-th recorded assertion (k counts from 0).
pub open spec fn line_of(k: int, x: Entry) -> Seq<char> {
    if x.1 { spec_fmt_ok(k as i32, x.0) } else { spec_fmt_not_ok(k as i32, x.0) }
}

// The summary is one line per entry, in recording order; the failures text is the NOT OK lines among them.
pub open spec fn summary_of(e: Seq<Entry>) -> Seq<char>
    decreases e.len()
{
    if e.len() == 0 { Seq::empty() } else { summary_of(e.drop_last()) + line_of(e.len() - 1, e.last()) }
}

pub open spec fn failures_of(e: Seq<Entry>) -> Seq<char>
    decreases e.len()
{
    if e.len() == 0 {
        Seq::empty()
    } else if e.last().1 {
        failures_of(e.drop_last())
    } else {
        failures_of(e.drop_last()) + line_of(e.len() - 1, e.last())
    }
}

pub broadcast proof fn lemma_entries_push(e: Seq<Entry>, x: Entry)
    ensures
        #![trigger e.push(x)]
        summary_of(e.push(x)) == summary_of(e) + line_of(e.len() as int, x),
        failures_of(e.push(x)) == (if x.1 { failures_of(e) } else { failures_of(e) + line_of(e.len() as int, x) }),
        all_ok(e.push(x)) == (all_ok(e) && x.1),
{
    let p = e.push(x);
    assert(p.drop_last() =~= e);
    assert(p.last() == x);
    if all_ok(e) && x.1 {
        assert forall|k: int| 0 <= k < p.len() implies (#[trigger] p[k]).1 by {
            if k < e.len() { assert(p[k] == e[k]); }
        }
    }
    if all_ok(p) {
        assert(p[e.len() as int].1);
        assert forall|k: int| 0 <= k < e.len() implies (#[trigger] e[k]).1 by {
            assert(p[k] == e[k]);
        }
    }
}

// If no recorded assertion failed, the failures text is empty.
pub proof fn lemma_failures_all_ok(e: Seq<Entry>)
    requires all_ok(e)
    ensures failures_of(e) =~= Seq::<char>::empty()
    decreases e.len()
{
    if e.len() > 0 {
        let d = e.drop_last();
        assert forall|k: int| 0 <= k < d.len() implies (#[trigger] d[k]).1 by { assert(d[k] == e[k]); }
        lemma_failures_all_ok(d);
        assert(e.last() == e[e.len() - 1]);
    }
}
} // mod collector_spec
pub use collector_spec::*;

#[verifier::external_body]
pub fn verif_fmt_ok(counter: i32, msg: &str) -> (r: String)
    ensures r@ == spec_fmt_ok(counter, msg@)
{ format!("{} - OK: {}\n", counter, msg) }

#[verifier::external_body]
pub fn verif_fmt_not_ok(counter: i32, msg: &str) -> (r: String)
    ensures r@ == spec_fmt_not_ok(counter, msg@)
{ format!("{} - NOT OK: {}\n", counter, msg) }

// Representation relation: collector `c` holds exactly the entries `e`.
pub open spec fn repr(c: AssertCollector, e: Seq<Entry>) -> bool {
    &&& c.counter == e.len()
    &&& c.success == all_ok(e)
    &&& c.summary@ =~= summary_of(e)
    &&& c.failures@ =~= failures_of(e)
}

// used by every contract below that appends an entry (keeps the extracted bodies free of proof hints)
broadcast use collector_spec::lemma_entries_push;

//@ extract src/build/mod.rs :: impl AssertCollector :: fn new
//@   ret r
//@   sig <<<
        ensures
            r.counter == 0, r.success, r.summary@ == Seq::<char>::empty(), r.failures@ == Seq::<char>::empty(),
            repr(r, Seq::<Entry>::empty()),
//@   >>>
//@   mutant new_success_false "success: true" => "success: false" expect new
//@   mutant new_counter_one "counter: 0" => "counter: 1" expect new
//@ end

//@ extract src/build/mod.rs :: impl AssertCollector :: fn record_assert_result
//@   subst "format!(\"{} - NOT OK: {}\\n\", self.counter, msg)" => "verif_fmt_not_ok(self.counter, msg)"
//@   subst "format!(\"{} - OK: {}\\n\", self.counter, msg)" => "verif_fmt_ok(self.counter, msg)"
//@   sig <<<
        requires
            // i32 counter: fewer than 2^31 - 1 assertions recorded so far (assumption; `counter += 1` would overflow)
            old(self).counter < i32::MAX,
        ensures
            // concrete, whole-view
            final(self).counter == old(self).counter + 1,
            final(self).success == (old(self).success && is_success),
            final(self).summary@ == old(self).summary@ + line_of(old(self).counter as int, (msg@, is_success)),
            final(self).failures@ == (if is_success { old(self).failures@ } else { old(self).failures@ + line_of(old(self).counter as int, (msg@, is_success)) }),
            // abstract: exactly one entry (msg, is_success) is appended, nothing recorded earlier changes
            forall|e: Seq<Entry>| #[trigger] repr(*old(self), e) ==> repr(*final(self), e.push((msg@, is_success))),
//@   >>>
//@   mutant rec_success_kept "self.success = false;" => "self.success = true;" expect record_assert_result
//@   mutant rec_counter_two "self.counter += 1;" => "self.counter += 2;" expect record_assert_result
//@   mutant rec_failures_dropped "self.failures.push_str(&msg);" => "" expect record_assert_result
//@   mutant rec_branch_swapped "if !is_success" => "if is_success" expect record_assert_result
//@   mutant rec_wrong_label "verif_fmt_not_ok(self.counter, msg)" => "verif_fmt_ok(self.counter, msg)" expect record_assert_result
//@ end
