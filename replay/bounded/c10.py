"""C10 bounded stand-ins: bindings are immutable and lexically scoped.

Oracle (property statement + docsite/site/content/reference/{_index,statements,expressions}.md): a tiny reference interpreter
for the generated programs -- top-level lets are evaluated in order into an immutable map; a function value closes over a COPY
of the map at its definition and is called with that copy plus its parameters; a format expression binds `item` only inside its
template; a module body starts from `mod` alone; nothing bound inside any of these is visible afterwards.  Programs are cut at
every statement boundary: the real result of every prefix must contain exactly the bindings the reference interpreter has at
that point, with exactly those values (hence every binding of a prefix has the same value in the whole program).  References to
names that the statement makes invisible (later bindings from inside a function, parameters / `item` / module locals / `mod` from
the caller, the file's bindings from inside a module), rebinding and reserved words as binding names must be build errors.
Run through FileBuilder::eval_string (`eval`) and through the type checker + VM on a file (`buildfile`, what `ucg build` does).
Bounded: exactly the enumerated programs; never counted as proved."""
import json
import os
import random
import re

import realcode as R

HERE = os.path.dirname(os.path.abspath(__file__))
HOW = {'eval': 'replay driver `eval` (FileBuilder::eval_string; payload = all top-level bindings)',
       'buildfile': 'replay driver `buildfile` (FileBuilder::build on a temp file: type checker + VM, strict) == `ucg build`'}

# Genuine defects of the real code inside these families (reported; excluded so that the stand-ins pass on HEAD).
# `ucg build` only (the type checker; eval_string is right): the type checker binds a function's parameters in the FILE scope.  Valid
# programs are refused; no invalid program is admitted (the VM still refuses a leaked name).  Excluded from the buildfile runs exactly:
# programs in which a parameter of a named function is also the name of a top-level binding of the file (earlier or later, including
# the function itself) that is not an integer -- all generated call arguments are integers, so an integer outer binding type-checks.
# map / filter / reduce with an inline function, module locals and `item` are not affected and stay in the families.
# (both repaired meanwhile: 7bf24ef parameters shadow outer bindings, 4cf3f2f parameter holes do not escape; the exclusions are gone
# and the families exercise these programs again)
KNOWN = [
]
KNOWN_BUILD = 'typed_shadow'

POOL = ['a', 'b', 'c', 'd', 'p', 'q', 'r', 'x', 'y', 'item', 'u', 'acc']


# ------------------------------------------------------------------ reading the driver's Display output
def norm(out):
    """drop whitespace outside strings and the trailing comma of tuples / lists"""
    o, ins, i = [], False, 0
    while i < len(out):
        ch = out[i]
        if ins:
            o.append(ch)
            if ch == '\\' and i + 1 < len(out):
                o.append(out[i + 1]); i += 1
            elif ch == '"':
                ins = False
        elif ch == '"':
            ins = True; o.append(ch)
        elif ch in ']}' and o and o[-1] == ',':
            o[-1] = ch
        elif not ch.isspace():
            o.append(ch)
        i += 1
    return ''.join(o)


def fields(out):
    """top-level `{name = value, ...}` -> {name: normalised value text}; None if it does not look like one"""
    s = norm(out)
    if len(s) < 2 or s[0] != '{' or s[-1] != '}':
        return None
    res, depth, ins, start, i, body = {}, 0, False, 0, 0, s[1:-1]
    parts = []
    while i < len(body):
        ch = body[i]
        if ins:
            if ch == '\\':
                i += 1
            elif ch == '"':
                ins = False
        elif ch == '"':
            ins = True
        elif ch in '{[(':
            depth += 1
        elif ch in '}])':
            depth -= 1
        elif ch == ',' and depth == 0:
            parts.append(body[start:i]); start = i + 1
        i += 1
    if body[start:]:
        parts.append(body[start:])
    for p in parts:
        n, eq, v = p.partition('=')
        if not eq:
            return None
        res[n] = v
    return res


# ------------------------------------------------------------------ the reference interpreter
class Func:
    def __init__(self, params, body, snap):
        self.params, self.body, self.snap = params, body, snap


class Mod:
    def __init__(self, params, lets):
        self.params, self.lets = params, lets     # [(name, default int)], [(name, ast)]


def ev(a, sc):
    k = a[0]
    if k == 'int':
        return a[1]
    if k == 'ref':
        return sc[a[1]]
    if k == 'add':
        return ev(a[1], sc) + ev(a[2], sc)
    if k == 'call':
        f = sc[a[1]]
        inner = dict(f.snap)                                  # the bindings that existed where it was defined ...
        inner.update(zip(f.params, [ev(x, sc) for x in a[2]]))  # ... plus its arguments
        return ev(f.body, inner)
    if k == 'inst':
        m = sc[a[1]]
        params = dict(m.params)
        params.update((n, ev(x, sc)) for n, x in a[2])
        inner = {'mod': params}                               # a module body sees only `mod` and its own lets
        for n, x in m.lets:
            inner[n] = ev(x, inner)
        return inner[a[3]]
    if k == 'fmt':
        return ev(a[2], sc) + ev(a[1], sc)                    # int("@{item.v + EXTRA}" % {v = ARG})
    if k == 'fld':
        return sc[a[1]][a[2]]
    if k == 'modp':
        return sc['mod'][a[1]]
    raise ValueError(k)


def src(a):
    k = a[0]
    if k == 'int':
        return str(a[1])
    if k == 'ref':
        return a[1]
    if k == 'add':
        return '(%s + %s)' % (src(a[1]), src(a[2]))
    if k == 'call':
        return '%s(%s)' % (a[1], ', '.join(src(x) for x in a[2]))
    if k == 'inst':
        return '%s{%s}.%s' % (a[1], ', '.join('%s = %s' % (n, src(x)) for n, x in a[2]), a[3])
    if k == 'fmt':
        return 'int("@{item.v + %s}" %% {v = %s})' % (src(a[1]), src(a[2]))
    if k == 'fld':
        return '%s.%s' % (a[1], a[2])
    if k == 'modp':
        return 'mod.%s' % a[1]
    raise ValueError(k)


def show(v):
    if isinstance(v, (Func, Mod)):
        return 'NULL'
    if isinstance(v, dict):
        return '{' + ','.join('%s=%s' % (n, show(x)) for n, x in v.items()) + '}'
    if isinstance(v, str):
        return '"%s"' % v
    return str(v)


def lit(v):
    if isinstance(v, dict):
        return '{' + ', '.join('%s = %s' % (n, lit(x)) for n, x in v.items()) + '}'
    return show(v)


class Gen:
    """random valid programs over a small pool of names, so that parameter names, module locals, tuple fields and `item` coincide
    with top-level bindings made before and after them"""

    def __init__(self, rnd, avoid_typed_shadow=False):
        self.rnd = rnd
        self.avoid_typed_shadow = avoid_typed_shadow
        self.scope = {}
        self.param_names = set()
        self.stmts, self.after = [], []

    def kinds(self, sc, hide=()):
        ints = [n for n, v in sc.items() if isinstance(v, int) and n not in hide]
        funcs = [n for n, v in sc.items() if isinstance(v, Func) and n not in hide]
        mods = [n for n, v in sc.items() if isinstance(v, Mod) and n not in hide]
        tups = [n for n, v in sc.items() if isinstance(v, dict) and n not in hide and n != 'mod']
        return ints, funcs, mods, tups

    def expr(self, sc, depth, locals_=(), simple=False, hide=()):
        """an int expression over the bindings of sc (a dict name -> value) and the extra int names locals_"""
        rnd = self.rnd
        ints, funcs, mods, tups = self.kinds(sc, hide)
        ints = [n for n in ints if n not in locals_] + list(locals_)
        if 'mod' in sc and 'mod' not in hide:
            modps = list(sc['mod'])
        else:
            modps = []
        choices = ['int'] + ['ref'] * 3 * bool(ints) + ['modp'] * 3 * bool(modps)
        if depth > 0:
            choices += ['add'] * 2 + ['call'] * 3 * bool(funcs)
            if not simple:
                choices += ['inst'] * 2 * bool(mods) + ['fmt'] + ['fld'] * bool(tups)
        c = rnd.choice(choices)
        if c == 'int':
            return ('int', rnd.randint(0, 9))
        if c == 'ref':
            return ('ref', rnd.choice(ints))
        if c == 'modp':
            return ('modp', rnd.choice(modps))
        if c == 'add':
            return ('add', self.expr(sc, depth - 1, locals_, simple, hide), self.expr(sc, depth - 1, locals_, simple, hide))
        if c == 'call':
            f = rnd.choice(funcs)
            return ('call', f, [self.expr(sc, depth - 1, locals_, simple, hide) for _ in sc[f].params])
        if c == 'inst':
            m = rnd.choice(mods)
            over = [(n, self.expr(sc, depth - 1, locals_, simple, hide)) for n, _ in sc[m].params if rnd.random() < 0.6]
            return ('inst', m, over, rnd.choice([n for n, _ in sc[m].lets]))
        if c == 'fmt':
            # the embedded expression must not mention a binding called `item` (the format's item shadows it) nor braces / quotes
            return ('fmt', self.expr(sc, depth - 1, locals_, True, tuple(hide) + ('item',)), self.expr(sc, depth - 1, locals_, simple, hide))
        t = rnd.choice(tups)
        return ('fld', t, rnd.choice(list(sc[t])))

    def fresh(self, integer):
        free = [n for n in POOL if n not in self.scope and (integer or not self.avoid_typed_shadow or n not in self.param_names)]
        return self.rnd.choice(free) if free else None

    def step(self):
        rnd = self.rnd
        sc = self.scope
        r = rnd.random()
        name = self.fresh(r < 0.34)
        if name is None:
            return False
        if r < 0.34:
            e = self.expr(sc, 2)
            self.stmts.append('let %s = %s;' % (name, src(e)))
            sc[name] = ev(e, sc)
        elif r < 0.58:
            pool = [n for n in POOL if isinstance(sc.get(n, 0), int) and n != name] if self.avoid_typed_shadow else POOL    # KNOWN_BUILD
            params = rnd.sample(pool, rnd.randint(1, 2))
            self.param_names.update(params)
            inner = dict(sc)
            inner.update((p, 0) for p in params)             # inside the body the parameters hide outer bindings of the same name
            body = self.expr(inner, 2)
            if rnd.random() < 0.7:                            # make sure the parameters matter
                body = ('add', ('ref', rnd.choice(params)), body)
            self.stmts.append('let %s = func(%s) => %s;' % (name, ', '.join(params), src(body)))
            sc[name] = Func(params, body, dict(sc))
        elif r < 0.70:
            params = [(p, rnd.randint(0, 9)) for p in rnd.sample(POOL, rnd.randint(1, 2))]
            inner = {'mod': dict(params)}
            lets = []
            for n in rnd.sample(POOL, rnd.randint(1, 3)):
                e = self.expr(inner, 2)
                lets.append((n, e))
                inner[n] = ev(e, inner)
            self.stmts.append('let %s = module {%s} => { %s };' % (name, ', '.join('%s = %d' % p for p in params), ' '.join('let %s = %s;' % (n, src(e)) for n, e in lets)))
            sc[name] = Mod(params, lets)
        elif r < 0.80:
            e = self.expr(sc, 2)
            k = rnd.randint(1, 9)
            self.stmts.append('let %s = "@{item + %d}:@{item}" %% %s;' % (name, k, src(e) if not src(e).startswith('(') else '1 * ' + src(e)))
            v = ev(e, sc)
            sc[name] = '%d:%d' % (v + k, v)
        elif r < 0.92:
            fs = rnd.sample(POOL, rnd.randint(1, 3))
            es = [self.expr(sc, 1) for _ in fs]
            self.stmts.append('let %s = {%s};' % (name, ', '.join('%s = %s' % (f, src(e)) for f, e in zip(fs, es))))
            sc[name] = dict((f, ev(e, sc)) for f, e in zip(fs, es))
        else:
            e = self.expr(sc, 2)
            self.stmts.append('%s;' % src(e))                 # an expression statement binds nothing
        self.after.append(dict((n, show(v)) for n, v in sc.items()))
        return True


def programs(rnd, n, length, avoid_typed_shadow=False):
    out = []
    for _ in range(n):
        g = Gen(rnd, avoid_typed_shadow)
        while len(g.stmts) < length and g.step():
            pass
        out.append(g)
    return out


def standin_prefix_values(tier, seed):
    rnd = random.Random(seed)
    progs = programs(rnd, 120 if tier == 'thorough' else 20, 10)
    cases, meta = [], []
    for g in progs:
        for k in range(1, len(g.stmts) + 1):
            cases.append('\n'.join(g.stmts[:k]))
            meta.append((g, k))
    res = R.driver('eval', cases)
    bound = ('%d seeded programs of <= 10 statements (lets of int expressions, functions, modules, format strings with `item`, tuples, expression statements; all '
             'names from a pool of %d so that parameters / module locals / `item` coincide with earlier and later top-level bindings), cut at every statement boundary' % (len(progs), len(POOL)))
    for src_, (g, k), (st, out) in zip(cases, meta, res):
        exp = g.after[k - 1]
        got = fields(out) if st == 'OK' else None
        if got != exp:
            whole = '\n'.join(g.stmts)
            why = 'status %s %s' % (st, out[:200]) if got is None else '; '.join(
                ['%s = %s, expected %s' % (n, got.get(n, '(unbound)'), exp.get(n, '(unbound)')) for n in sorted(set(got) | set(exp)) if got.get(n) != exp.get(n)])
            return dict(name='prefix_values', bound=bound, cases=len(cases), status='violation',
                        detail='after the first %d statement(s) of `%s`: %s' % (k, whole.replace('\n', ' '), why.replace('\n', ' ')),
                        input=dict(source=src_, whole_program=whole, expected=json.dumps(exp, sort_keys=True), observed='%s %s' % (st, out[:600]), how=HOW['eval']))
    return dict(name='prefix_values', bound=bound, cases=len(cases), status='ok')


def standin_prefix_values_build(tier, seed):
    """the same programs through the type checker + VM; values are pinned by `select (name == value) => {true = 1}` statements
    (no default: a different value is a build error) placed right after the binding AND at the end of the program"""
    rnd = random.Random(seed + 1000)
    progs = programs(rnd, 400 if tier == 'thorough' else 60, 10, avoid_typed_shadow=False)
    cases = []
    for g in progs:
        lines, tail, n = [], [], 0
        prev = {}
        for s, aft in zip(g.stmts, g.after):
            lines.append(s)
            new = [x for x in aft if x not in prev]
            for x in new:
                v = g.scope[x]
                if not isinstance(v, (Func, Mod)):
                    lines.append('let chk%d = select (%s == %s) => {true = 1};' % (n, x, lit(v))); n += 1
                    tail.append('let chk%d = select (%s == %s) => {true = 1};' % (n, x, lit(v))); n += 1
            prev = aft
        cases.append('\n'.join(lines + tail))
    res = R.driver('buildfile', cases)
    bound = '%d seeded programs as in prefix_values, each binding pinned to the reference value right after it is made and again at the end of the file' % len(progs)
    for src_, (st, out) in zip(cases, res):
        if st != 'OK':
            return dict(name='prefix_values_build', bound=bound, cases=len(cases), status='violation',
                        detail='a valid program whose bindings are pinned to their reference values does not build: %s %s' % (st, out[:300].replace('\n', ' ')),
                        input=dict(source=src_, expected='builds (every chkN select finds its `true` case)', observed='%s %s' % (st, out[:600]), how=HOW['buildfile']))
    return dict(name='prefix_values_build', bound=bound, cases=len(cases), status='ok')


# ------------------------------------------------------------------ invisible names, rebinding (templates x names x gaps)
FILL = ['let k1 = 1;', 'let k2 = "s";', 'let k3 = [1, 2];']


def scope_cases(names):
    """(program, expectation) with expectation = None (must be a build error) or {name: value} (must hold)"""
    cs = []
    for n in names:
        o = [x for x in POOL if x != n]
        for gap in (0, 1, 2):
            g1 = FILL[:gap]
            G = '\n'.join(g1 + [''])
            # a function sees the bindings that existed where it was defined: a later binding is invisible, an earlier one visible
            cs.append(('let f = func(z) => %s + z;\n%slet %s = 10;\nlet res = f(5);' % (n, G, n), None))
            cs.append(('let %s = 10;\n%slet f = func(z) => %s + z;\nlet res = f(5);' % (n, G, n), {'res': '15'}))
            cs.append(('let t = {g = func(z) => %s + z};\n%slet %s = 10;\nlet res = t.g(5);' % (n, G, n), None))
            cs.append(('let f = func(z) => %s + z;\nlet h = func(w) => f(w);\n%slet %s = 10;\nlet res = h(5);' % (n, G, n), None))
            # a parameter hides an outer binding inside, leaves it untouched outside, and does not survive the call
            cs.append(('let %s = 100;\n%slet f = func(%s) => %s + 1;\nlet res = f(1);\nlet after = %s;' % (n, G, n, n, n), {'res': '2', 'after': '100', n: '100'}))
            cs.append(('let f = func(%s) => %s + 1;\n%slet res = f(1);\nlet %s = 7;\nlet again = f(2);' % (n, n, G, n), {'res': '2', 'again': '3', n: '7'}))
            cs.append(('let f = func(%s) => %s + 1;\n%slet res = f(1);\nlet %s = "s";\nlet again = f(2);' % (n, n, G, n), {'res': '2', 'again': '3', n: '"s"'}))
            for outer, shown in (('"s"', '"s"'), ('{k = 1}', '{k=1}'), ('func(w) => w', None), ('[1]', '[1]')):
                exp = {'res': '2'}
                if shown is not None:     # a function value has no literal to pin it to
                    exp[n] = shown
                    exp['after'] = shown
                cs.append(('let %s = %s;\n%slet f = func(%s) => %s + 1;\nlet res = f(1);\nlet after = %s;' % (n, outer, G, n, n, n), exp))
            cs.append(('let f = func(%s) => %s + 1;\n%slet res = f(1);\nlet leak = %s;' % (n, n, G, n), None))
            cs.append(('let f = func(z, %s) => %s + z;\nlet res = f(1, 2);\n%slet leak = %s;' % (n, n, G, n), None))
            cs.append(('let l = map(func(%s) => %s + 1, [1, 2]);\n%slet leak = %s;' % (n, n, G, n), None))
            cs.append(('let l = filter(func(%s) => %s > 1, [1, 2]);\n%slet leak = %s;' % (n, n, G, n), None))
            cs.append(('let l = reduce(func(%s, %s) => %s + %s, 0, [1, 2]);\n%slet leak = %s;' % (o[0], n, o[0], n, G, n), None))
            cs.append(('let l = reduce(func(%s, %s) => %s + %s, 0, [1, 2]);\n%slet leak = %s;' % (n, o[0], o[0], n, G, n), None))
            cs.append(('let %s = 50;\nlet l = map(func(%s) => %s + 1, [1, 2]);\n%slet after = %s;' % (n, n, n, G, n), {'l': '[2,3]', 'after': '50'}))
            # the callee does not see the caller's parameters
            cs.append(('let g = func(w) => w + %s;\n%slet f = func(%s) => g(%s + 1);\nlet res = f(1);' % (n, G, n, n), None))
            cs.append(('let %s = 5;\nlet g = func(w) => w + %s;\n%slet f = func(%s) => g(%s + 1);\nlet res = f(1);' % (n, n, G, n, n), {'res': '7'}))
            # module: sees only `mod` and its own lets; its lets and `mod` do not leak
            cs.append(('let %s = 1;\n%slet m = module {p = 2} => { let res = mod.p + %s; };\nlet i = m{};' % (n, G, n), None))
            cs.append(('let m = module {p = 2} => { let res = mod.p + %s; };\n%slet %s = 1;\nlet i = m{};' % (n, G, n), None))
            cs.append(('let %s = func(w) => w;\n%slet m = module {p = 2} => { let res = %s(mod.p); };\nlet i = m{};' % (n, G, n), None))
            cs.append(('let %s = 1;\n%slet m = module {p = 2} => { let %s = mod.p + 1; };\nlet i = m{};\nlet after = %s;' % (n, G, n, n), {'i': '{%s=3}' % n, 'after': '1'}))
            cs.append(('let m = module {p = 2} => { let %s = mod.p + 1; };\nlet i = m{};\n%slet leak = %s;' % (n, G, n), None))
            cs.append(('let m = module {p = 2} => { let %s = mod.p + 1; };\nlet i = m{};\n%slet %s = 9;' % (n, G, n), {'i': '{%s=3}' % n, n: '9'}))
            cs.append(('let m = module {%s = 2} => { let res = mod.%s; };\nlet i = m{};\n%slet leak = %s;' % (n, n, G, n), None))
            cs.append(('let m = module {%s = 2} => { let res = %s; };\n%slet i = m{};' % (n, n, G), None))      # a parameter is reached through `mod` only
            cs.append(('let m = module {p = 2} => { let %s = mod.p; };\nlet i = m{};\n%slet leak = mod;' % (n, G), None))
            # rebinding, whatever the two bindings are
            kinds = ['let %s = 1;', 'let %s = "s";', 'let %s = func(z) => z;', 'let %s = module {p = 1} => { let w = mod.p; };', 'constraint %s = 1;']
            for k1 in kinds:
                for k2 in kinds:
                    cs.append(('%s\n%s%s' % (k1 % n, G, k2 % n), None))
            cs.append(('let %s = 1;\n%slet %s = 1;' % (n, G, n), None))                                          # even with the same value
            cs.append(('let m = module {p = 1} => { let %s = 1; %s let %s = 2; };\nlet i = m{};' % (n, ' '.join(g1), n), None))
            cs.append(('let %s = 1;\n%slet other = %s;' % (n, G, n), {n: '1', 'other': '1'}))
            # a parameter hides a binding of the captured scope: an enclosing function's parameter, a map / reduce callback's parameter, a top-level
            # binding of another type (inline callbacks; for named functions see KNOWN_BUILD), and a closure keeps its own parameter
            cs.append(('let mk = func(%s) => func(%s) => %s + 1;\n%slet inner = mk(5);\nlet res = inner(1);' % (n, n, n, G), {'res': '2'}))
            cs.append(('let f = func(%s) => map(func(%s) => %s + 1, [%s, 20]);\n%slet res = f(1);' % (n, n, n, n, G), {'res': '[2,21]'}))
            cs.append(('let l = map(func(%s) => reduce(func(zz, %s) => zz + %s, 0, [%s, 1]), [1, 2]);\n%slet k9 = 1;' % (n, n, n, n, G), {'l': '[2,3]'}))
            cs.append(('let %s = "s";\n%slet l = map(func(%s) => %s + 1, [1, 2]);\nlet after = %s;' % (n, G, n, n, n), {'l': '[2,3]', 'after': '"s"'}))
            cs.append(('let %s = "s";\n%slet l = filter(func(%s) => %s > 1, [1, 2]);\nlet res = reduce(func(zz, %s) => zz + %s, 0, [1, 2]);\nlet after = %s;' % (n, G, n, n, n, n, n),
                       {'l': '[2]', 'res': '3', 'after': '"s"'}))
            cs.append(('let f = func(%s) => func(z) => %s + z;\nlet g = f(10);\n%slet %s = 1;\nlet res = g(5);' % (n, n, G, n), {'res': '15', n: '1'}))
        # a format string's item
        if n != 'item':
            for gap in (0, 1, 2):
                G = '\n'.join(FILL[:gap] + [''])
                cs.append(('let %s = "@{item.a}" %% {a = 1};\n%slet leak = item;' % (n, G), None))
                cs.append(('let %s = "@{item}" %% 4;\n%slet f = func(z) => item + z;\nlet res = f(1);' % (n, G), None))
                cs.append(('let item = 3;\n%slet %s = "@{item.a}" %% {a = 1};\nlet after = item;' % (G, n), {n: '"1"', 'after': '3', 'item': '3'}))
                cs.append(('let %s = "@{item.a}" %% {a = 1};\n%slet item = 3;' % (n, G), {n: '"1"', 'item': '3'}))
                cs.append(('let f = func(item) => "@{item + 1}" %% 10;\n%slet %s = f(1);' % (G, n), {n: '"11"'}))
                cs.append(('let f = func(z) => "@{item + z}" %% 10;\n%slet %s = f(1);\nlet leak = z;' % (G, n), None))
                # nested formats, formats inside functions and map callbacks: `item` outside is exactly what it was
                fmts = [('"@{item.s}" %% {s = "@{item + 1}" %% 4}', '"5"'),                       # a format as the argument of a format
                        ('"@{int(\\"@{item + 1}\\" %% item) + item}" %% 5', '"11"'),              # a format inside a template: the outer item survives it
                        ('"<@{item}>" %% "[@{item + 1}]" %% 4', '"<[5]>"'),
                        ('ff(1)', '"11"'), ('map(func(e) => "@{item + 1}" %% e, [1, 2])', '["2","3"]')]
                for fsrc, fval in fmts:
                    pre = 'let ff = func(z) => "@{item + z}" % 10;\n' if fsrc.startswith('ff') else ''
                    fsrc = fsrc.replace('%%', '%')
                    cs.append(('%slet %s = %s;\n%slet leak = item;' % (pre, n, fsrc, G), None))
                    cs.append(('let item = 7;\n%slet %s = %s;\n%slet after = item;' % (pre, n, fsrc, G), {n: fval, 'after': '7', 'item': '7'}))
                    cs.append(('%slet %s = %s;\n%slet item = 1;\nlet again = %s;' % (pre, n, fsrc, G, fsrc), {n: fval, 'again': fval, 'item': '1'}))
    return cs


def check_scope(mode, cs, name, bound):
    cs = [(p, None if e is None else dict((k, v) for k, v in e.items() if k != KNOWN_BUILD)) for p, e in cs]
    progs = []
    for p, exp in cs:
        if mode == 'buildfile' and exp:
            # pin the expected values inside the program
            p = p + ''.join('\nlet chk%d = select (%s == %s) => {true = 1};' % (i, n, re.sub(r'([,=])', r'\1 ', v)) for i, (n, v) in enumerate(sorted(exp.items())))
        progs.append(p)
    res = R.driver(mode, progs)
    for p, (_, exp), (st, out) in zip(progs, cs, res):
        bad = None
        if exp is None:
            if st != 'ERR':
                bad = 'must be a build error, observed %s %s' % (st, out[:160].replace('\n', ' '))
        elif st != 'OK':
            bad = 'must build, observed %s %s' % (st, out[:200].replace('\n', ' '))
        elif mode == 'eval':
            got = fields(out) or {}
            wrong = ['%s = %s, expected %s' % (n, got.get(n, '(unbound)'), v) for n, v in sorted(exp.items()) if got.get(n) != v]
            if wrong:
                bad = '; '.join(wrong)
        if bad:
            return dict(name=name, bound=bound, cases=len(progs), status='violation', detail='`%s`: %s' % (p.replace('\n', ' '), bad),
                        input=dict(source=p, expected='build error' if exp is None else json.dumps(exp, sort_keys=True), observed='%s %s' % (st, out[:400]), how=HOW[mode]))
    return dict(name=name, bound=bound, cases=len(progs), status='ok')


SCOPE_BOUND = ('%d names x gaps of 0..2 unrelated statements x templates: function referring to a later / earlier binding (direct, in a tuple field, through another function), '
               'parameter equal to an earlier / later top-level name, parameter / map / filter / reduce parameter / `item` / module local / module parameter / `mod` used after the call, '
               "callee using the caller's parameter, module body using a file binding or function defined before / after it, all 25 pairs of {let value, let string, let func, let module, constraint} "
               'rebinding one name, rebinding inside a module; parameter equal to an enclosing function\'s / callback\'s parameter or to a top-level binding of another type; `item` after nested formats and formats inside functions and map callbacks (unbound stays unbound, bound keeps its value, a later `let item` succeeds); each invisible-name program has a visible twin whose values are checked')


def names_for(tier, seed):
    rnd = random.Random(seed)
    return POOL if tier == 'thorough' else ['item'] + rnd.sample([n for n in POOL if n != 'item'], 2)


def standin_scope_eval(tier, seed):
    names = names_for(tier, seed)
    return check_scope('eval', scope_cases(names), 'scope_eval', SCOPE_BOUND % len(names))


def standin_scope_build(tier, seed):
    names = names_for(tier, seed + 1)
    return check_scope('buildfile', scope_cases(names), 'scope_build', SCOPE_BOUND % len(names))


# ------------------------------------------------------------------ reserved words in every binding position
def doc_reserved():
    doc = open(os.path.join(R.REPO, 'docsite/site/content/reference/_index.md')).read()
    m = re.search(r'reserved in UCG.*?\n((?:\s*\n|\* .*\n)+)', doc)
    return re.findall(r'^\* (\S+)\s*$', m.group(1), re.M)


POSITIONS = {
    'let': 'let W = 1;',
    'let_after': 'let k = 1;\nlet s = "@{item}" % k;\nlet W = 2;',
    'constraint': 'constraint W = 1;',
    'module_let': 'let m = module {p = 1} => { let W = mod.p; };\nlet i = m{};',
    'func_param': 'let f = func(W) => 1;\nlet r = f(2);',
    'func_param2': 'let f = func(z, W) => z;\nlet r = f(2, 3);',
    'map_param': 'let l = map(func(W) => 1, [1, 2]);',
    'reduce_param': 'let l = reduce(func(W, z) => z, 0, [1, 2]);',
}


def standin_reserved_positions(tier, seed):
    words = doc_reserved()
    cases, meta = [], []
    for pos, tmpl in sorted(POSITIONS.items()):
        for w in words:
            for mode in ('eval', 'buildfile'):
                cases.append(tmpl.replace('W', w)); meta.append((pos, w, mode))
        for mode in ('eval', 'buildfile'):                    # the template itself is fine with an ordinary name
            cases.append(tmpl.replace('W', 'okname')); meta.append((pos, None, mode))
    bound = 'every published reserved word (%d) x %d binding positions (%s) x {eval, buildfile}; each template also with an ordinary name (must build)' % (
        len(words), len(POSITIONS), ', '.join(sorted(POSITIONS)))
    res = {}
    for mode in ('eval', 'buildfile'):
        idx = [i for i, m in enumerate(meta) if m[2] == mode]
        for i, r in zip(idx, R.driver(mode, [cases[i] for i in idx])):
            res[i] = r
    for i, (p, (pos, w, mode)) in enumerate(zip(cases, meta)):
        st, out = res[i]
        if (w is None and st != 'OK') or (w is not None and st != 'ERR'):
            return dict(name='reserved_positions', bound=bound, cases=len(cases), status='violation',
                        detail='`%s` (%s): %s, observed %s %s' % (p.replace('\n', ' '), pos, 'must build' if w is None else 'the reserved word %s must be refused as a binding name' % w, st, out[:160].replace('\n', ' ')),
                        input=dict(source=p, expected='builds' if w is None else 'build error', observed='%s %s' % (st, out[:300]), how=HOW[mode]))
    return dict(name='reserved_positions', bound=bound, cases=len(cases), status='ok', exhaustive=True)


# ------------------------------------------------------------------ the C01 table cut at every statement boundary
def split_statements(p):
    out, depth, ins, start, i = [], 0, False, 0, 0
    while i < len(p):
        ch = p[i]
        if ins:
            if ch == '\\':
                i += 1
            elif ch == '"':
                ins = False
        elif ch == '"':
            ins = True
        elif p.startswith('//', i):
            j = p.find('\n', i)
            i = len(p) if j < 0 else j
            continue
        elif ch in '{[(':
            depth += 1
        elif ch in '}])':
            depth -= 1
        elif ch == ';' and depth == 0:
            out.append(p[start:i + 1]); start = i + 1
        i += 1
    return out if not p[start:].strip() else None


def standin_golden_prefixes(tier, seed):
    gold = json.load(open(os.path.join(HERE, 'golden_c01.json')))
    cases, meta = [], []
    for g in gold:
        if g['status'] != 'OK':
            continue
        st = split_statements(g['program'])
        if not st or len(st) < 2:
            continue
        for k in range(1, len(st) + 1):
            cases.append(''.join(st[:k])); meta.append((g['program'], k, len(st)))
    res = R.driver('eval', cases)
    bound = 'the %d multi-statement programs of the C01 semantics table cut at every statement boundary: each binding of a prefix is present with the same value in every longer prefix' % len(set(m[0] for m in meta))
    last = {}
    for c, (prog, k, n), (st, out) in zip(cases, meta, res):
        cur = fields(out) if st == 'OK' else None
        if st not in ('OK', 'ERR'):
            return dict(name='golden_prefixes', bound=bound, cases=len(cases), status='violation', detail='`%s`: %s %s' % (c.replace('\n', ' '), st, out[:200]),
                        input=dict(source=c, expected='a value or a diagnostic', observed='%s %s' % (st, out[:300]), how=HOW['eval']))
        prev = last.get(prog)
        if prev is not None and cur is not None:
            diff = ['%s = %s, was %s' % (x, cur.get(x, '(unbound)'), v) for x, v in sorted(prev.items()) if cur.get(x) != v]
            if diff:
                return dict(name='golden_prefixes', bound=bound, cases=len(cases), status='violation',
                            detail='`%s`: after statement %d %s' % (prog.replace('\n', ' '), k, '; '.join(diff)),
                            input=dict(source=c, expected=json.dumps(prev, sort_keys=True), observed=out[:600], how=HOW['eval']))
        if cur is not None:
            last[prog] = cur
    return dict(name='golden_prefixes', bound=bound, cases=len(cases), status='ok')


# @@CLOSURES@@
STANDINS = [standin_prefix_values, standin_prefix_values_build, standin_scope_eval, standin_scope_build, standin_reserved_positions, standin_golden_prefixes]
