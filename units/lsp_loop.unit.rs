//@ unit lsp_loop
//@ serves C20
//@ must_verify publish_diagnostics handle_request handle_notification main_loop uri_to_path Connection::handle_shutdown Response::new_ok Response::new_err Request::extract Request::is_shutdown Notification::new Notification::is_exit lemma_sent_push lemma_request_methods lemma_notification_methods lemma_every_request_answered_once lemma_responses_add
//@ include prelude/head.rs

// C20, the JSON-RPC message loop of `ucg lsp`: `main_loop`, `handle_request`, `handle_notification`,
// `publish_diagnostics` (src/lsp/mod.rs), verbatim, together with the pieces of the pinned lsp_server they run
// through (`Connection::handle_shutdown`, `Request::extract`, `Response::new_ok/new_err`, `Notification::new`,
// `is_shutdown`, `is_exit`: REAL text of the dependency, under contract too) and the real parameter structs and METHOD
// constants of the pinned lsp_types.  (Unit lsp_pos covers the position kernel the request handlers call into; here
// those are total stubs.)
// Model (prelude/lsp_loop_server.rs): the connection is a pair of ghost-logged channel ends -- `conn.receiver` holds
// the whole sequence of messages the client will ever send and a cursor, `conn.sender` the sequence of messages
// delivered to the client; R11: the channel ends are `&mut` here (interior mutability in crossbeam).  serde_json is
// an uninterpreted pair `readable::<T>(doc)` / `decoded::<T>(doc)`; ServerState::update_document and the workspace
// index are uninterpreted state transitions (R8).
// Contract, from the statement ("for any sequence of open, change and close notifications and hover, definition,
// completion, semantic-token and workspace-symbol requests the server keeps running, answers every request"):
//  * WHOLE LOG: after main_loop the client has seen EXACTLY `run_sent(..)`: for every message consumed before the
//    terminator, in order, a request of the five kinds -> exactly one response with its id (a result iff its params
//    were readable, an error otherwise), didOpen / didChange(>= 1 change; the LAST change is the text) -> exactly one
//    publishDiagnostics for that uri with the diagnostics of the new analysis, didClose -> exactly one empty
//    publishDiagnostics for that uri, anything else (unreadable notifications included) -> nothing
//    (`lemma_every_request_answered_once`: the responses alone are one per request, in arrival order);
//  * KEEPS RUNNING: main_loop returns ONLY at the exit notification, at a shutdown request (answered; then exit or a
//    protocol error, as lsp_server prescribes), when the client hung up (input exhausted), or when the channel TO the
//    client is closed and a reply cannot be delivered -- never because a message was unreadable;
//  * the session state is exactly `run_state(..)` (documents inserted / replaced / removed as the notifications say);
//  * termination: one message is consumed per iteration.
// History: before commit 23f3dcc (`fix: language server answers a request it cannot read with an error`) main_loop
// propagated handle_request's error with `?` -- mutant `unreadable_request_ends_session` is that loop.
// Stated as the code behaves, NOT claimed by the statement: a request of a method outside the five gets no reply at
// all (LSP asks for a MethodNotFound error); when the channel to the client closes mid-session nothing is said
// about the log any more (the state contract still holds).
use std::rc::Rc;
use std::collections::{BTreeMap, HashMap};
use vstd::std_specs::iter::IteratorSpec;

//@ include prelude/lsp_loop_types.rs
//@ include prelude/lsp_loop_server.rs

// the `use` lines of src/lsp/mod.rs (names as the extracted functions see them)
use lsp_server::{
    Connection, Message, Notification as LspNotification, Request as LspRequest, RequestId,
    Response,
};
use lsp_server::Sent;   // the contracts' abstraction of a sent message (prelude/lsp_loop_server.rs)
use lsp_types::notification::{
    DidChangeTextDocument, DidCloseTextDocument, DidOpenTextDocument, Exit, Notification,
    PublishDiagnostics,
};
use lsp_types::request::{
    Completion, GotoDefinition, HoverRequest, Request, SemanticTokensFullRequest,
    WorkspaceSymbolRequest,
};
use lsp_types::{
    CompletionItem, CompletionList, CompletionResponse,
    GotoDefinitionResponse, Hover, Location,
    PublishDiagnosticsParams, SemanticToken,
    SemanticTokens, SymbolInformation, Url,
};

verus! {
//@ include prelude/core.rs

//@ include prelude/lsp_loop_std.rs

// `Box<dyn Error + Send + Sync>` (R5: dyn Trait is outside Verus; by `subst` on the four signatures): an opaque error value.  `?` converts into it with
// std's `impl<E: Error + Send + Sync> From<E> for Box<dyn Error + Send + Sync>`; one impl per error type that reaches it.
#[verifier::external_body]
pub struct VBoxErr { _p: u8 }
impl From<crossbeam_channel::SendError<Message>> for VBoxErr {
    #[verifier::external_body]
    fn from(e: crossbeam_channel::SendError<Message>) -> (r: VBoxErr) { unimplemented!() }
}
impl From<serde_json::Error> for VBoxErr {
    #[verifier::external_body]
    fn from(e: serde_json::Error) -> (r: VBoxErr) { unimplemented!() }
}
impl From<lsp_server::ExtractError<LspRequest>> for VBoxErr {
    #[verifier::external_body]
    fn from(e: lsp_server::ExtractError<LspRequest>) -> (r: VBoxErr) { unimplemented!() }
}
impl From<lsp_server::ProtocolError> for VBoxErr {
    #[verifier::external_body]
    fn from(e: lsp_server::ProtocolError) -> (r: VBoxErr) { unimplemented!() }
}
impl VBoxErr {
    // `e.to_string()` (Display of the boxed error): message text, not part of the contract
    #[verifier::external_body]
    pub fn to_string(&self) -> String { unimplemented!() }
}

//@ opaque PathBuf Statement Shape CommentMap WorkspaceIndex Position Token
// `&PathBuf` is passed where `&Path` is expected (Deref coercion): one opaque type for both.
pub type Path = PathBuf;
use lsp_types::Diagnostic;
//@ extract src/lsp/analysis.rs :: struct AnalysisResult
//@   rule R0
//@ end
//@ extract src/lsp/mod.rs :: struct ServerState
//@   rule R0 RV
//@ end

// ---------- the session state as the contracts see it ----------
broadcast use {lsp_server::lemma_sent_push, lsp_types::axiom_url_key_model, lsp_types::request::lemma_request_methods, lsp_types::notification::lemma_notification_methods};

pub struct St { pub docs: Map<Url, AnalysisResult>, pub ws: WorkspaceIndex }
impl ServerState {
    spec fn view(&self) -> St { St { docs: self.documents@, ws: self.workspace } }
}
// `ServerState::update_document` / `WorkspaceIndex::update_from_disk` (outside the unit; the file system is fixed):
// what the workspace index becomes when the editor's text of `uri` is `text` / when `path` is re-read from disk, and
// what analysing `text` as document `uri` against a workspace index yields.
pub uninterp spec fn ws_after_edit(ws: WorkspaceIndex, uri: Url, text: Seq<char>) -> WorkspaceIndex;
pub uninterp spec fn ws_after_disk(ws: WorkspaceIndex, path: PathBuf) -> WorkspaceIndex;
pub uninterp spec fn analysis_of(ws: WorkspaceIndex, uri: Url, text: Seq<char>) -> AnalysisResult;
pub open spec fn st_edit(s: St, uri: Url, text: Seq<char>) -> St {
    let ws = ws_after_edit(s.ws, uri, text);
    St { docs: s.docs.insert(uri, analysis_of(ws, uri, text)), ws }
}
pub open spec fn st_close(s: St, uri: Url) -> St {
    St { docs: s.docs.remove(uri), ws: match spec_file_path(uri) { Some(p) => ws_after_disk(s.ws, p), None => s.ws } }
}

// url::Url::to_file_path (url/src/lib.rs): a function of the url
pub uninterp spec fn spec_file_path(uri: Url) -> Option<PathBuf>;
impl Url {
    #[verifier::external_body]
    pub fn to_file_path(&self) -> (r: Result<PathBuf, ()>)
        ensures r.ok() == spec_file_path(*self)
    { unimplemented!() }
}
//@ extract src/lsp/mod.rs :: fn uri_to_path
//@   ret r
//@   sig <<<
    ensures r == spec_file_path(*uri)
//@   >>>
//@ end

// ---------- the analysis side: ASSUMED total (their totality on positions is unit lsp_pos) ----------
// (find_hover cannot be extracted: the assembler finds a second `fn find_hover` in `mod test`; signature copied from
// src/lsp/mod.rs `fn find_hover(doc: &AnalysisResult, workspace: &WorkspaceIndex, line: u32, character: u32) -> Option<Hover>`)
#[verifier::external_body]
fn find_hover(doc: &AnalysisResult, workspace: &WorkspaceIndex, line: u32, character: u32) -> Option<Hover> { unimplemented!() }
//@ extract src/lsp/mod.rs :: fn find_definition
//@   opaque_body
//@ end
//@ extract src/lsp/mod.rs :: fn collect_completions
//@   opaque_body
//@ end
//@ extract src/lsp/mod.rs :: fn collect_workspace_symbols
//@   opaque_body
//@ end
//@ extract src/lsp/mod.rs :: fn encode_semantic_tokens
//@   opaque_body
//@ end

// ======================= the contract vocabulary (from the statement of C20) =======================
// The five request kinds the statement lists, by their LSP method names (LSP specification 3.17).  The code names them
// through lsp_types' `METHOD` constants (real text, extracted above): that those ARE these strings is part of the proof.
pub enum ReqKind { Hover, Definition, Completion, WorkspaceSymbol, SemanticTokens, Other }
pub open spec fn req_kind(method: Seq<char>) -> ReqKind {
    if method == "textDocument/hover"@ { ReqKind::Hover }
    else if method == "textDocument/definition"@ { ReqKind::Definition }
    else if method == "textDocument/completion"@ { ReqKind::Completion }
    else if method == "workspace/symbol"@ { ReqKind::WorkspaceSymbol }
    else if method == "textDocument/semanticTokens/full"@ { ReqKind::SemanticTokens }
    else { ReqKind::Other }
}
pub open spec fn handled(q: LspRequest) -> bool { !(req_kind(q.method@) is Other) }
// the request's `params` document has the shape its method prescribes (serde_json decides; uninterpreted)
pub open spec fn req_readable(q: LspRequest) -> bool {
    match req_kind(q.method@) {
        ReqKind::Hover => serde_json::readable::<lsp_types::HoverParams>(q.params),
        ReqKind::Definition => serde_json::readable::<lsp_types::GotoDefinitionParams>(q.params),
        ReqKind::Completion => serde_json::readable::<lsp_types::CompletionParams>(q.params),
        ReqKind::WorkspaceSymbol => serde_json::readable::<lsp_types::WorkspaceSymbolParams>(q.params),
        ReqKind::SemanticTokens => serde_json::readable::<lsp_types::SemanticTokensParams>(q.params),
        ReqKind::Other => true,
    }
}
// what the client must see for a request: EXACTLY ONE response carrying its id -- a result when the server could
// read it, an error when it could not.  A request of any other method gets nothing (the statement lists the five
// kinds only; stated here as the code behaves: no `MethodNotFound` reply).
pub open spec fn req_sent(q: LspRequest) -> Seq<Sent> {
    if handled(q) { seq![Sent::Response { id: q.id, ok: req_readable(q) }] } else { Seq::empty() }
}

pub enum NotifKind { Exit, DidOpen, DidChange, DidClose, Other }
pub open spec fn notif_kind(method: Seq<char>) -> NotifKind {
    if method == "exit"@ { NotifKind::Exit }
    else if method == "textDocument/didOpen"@ { NotifKind::DidOpen }
    else if method == "textDocument/didChange"@ { NotifKind::DidChange }
    else if method == "textDocument/didClose"@ { NotifKind::DidClose }
    else { NotifKind::Other }
}
pub open spec fn notif_readable(n: LspNotification) -> bool {
    match notif_kind(n.method@) {
        NotifKind::DidOpen => serde_json::readable::<lsp_types::DidOpenTextDocumentParams>(n.params),
        NotifKind::DidChange => serde_json::readable::<lsp_types::DidChangeTextDocumentParams>(n.params),
        NotifKind::DidClose => serde_json::readable::<lsp_types::DidCloseTextDocumentParams>(n.params),
        _ => true,
    }
}
// full-text sync: of several content changes in one didChange the LAST one is the document's text
pub open spec fn chosen_change(p: lsp_types::DidChangeTextDocumentParams) -> lsp_types::TextDocumentContentChangeEvent {
    p.content_changes@.last()
}
// the (document, new text) a readable notification carries, if any
pub open spec fn notif_edit(n: LspNotification) -> Option<(Url, Seq<char>)> {
    match notif_kind(n.method@) {
        NotifKind::DidOpen => {
            let p = serde_json::decoded::<lsp_types::DidOpenTextDocumentParams>(n.params);
            Some((p.text_document.uri, p.text_document.text@))
        },
        NotifKind::DidChange => {
            let p = serde_json::decoded::<lsp_types::DidChangeTextDocumentParams>(n.params);
            if p.content_changes@.len() >= 1 { Some((p.text_document.uri, chosen_change(p).text@)) } else { None }
        },
        _ => None,
    }
}
pub open spec fn closed_uri(n: LspNotification) -> Url {
    serde_json::decoded::<lsp_types::DidCloseTextDocumentParams>(n.params).text_document.uri
}
// one publishDiagnostics notification for `uri` carrying `diags` (and no version)
pub open spec fn publish(uri: Url, diags: Seq<Diagnostic>) -> Sent {
    Sent::Notification { method: "textDocument/publishDiagnostics"@, params: lsp_types::json_publish(uri, diags, None) }
}
// the session state after a notification
spec fn notif_state(s: St, n: LspNotification) -> St {
    if !notif_readable(n) { s }
    else if notif_edit(n) is Some {
        let (uri, text) = notif_edit(n)->0;
        st_edit(s, uri, text)
    }
    else if notif_kind(n.method@) is DidClose { st_close(s, closed_uri(n)) }
    else { s }
}
// what the client must see for a notification: didOpen / didChange (with a change) publish EXACTLY ONE
// publishDiagnostics for that uri, carrying the diagnostics of the analysis of the new text; didClose publishes
// exactly one EMPTY publishDiagnostics for that uri; everything else -- unreadable ones included -- nothing.
spec fn notif_sent(s: St, n: LspNotification) -> Seq<Sent> {
    if !notif_readable(n) { Seq::empty() }
    else if notif_edit(n) is Some {
        let (uri, text) = notif_edit(n)->0;
        seq![publish(uri, st_edit(s, uri, text).docs[uri].diagnostics@)]
    }
    else if notif_kind(n.method@) is DidClose { seq![publish(closed_uri(n), Seq::empty())] }
    else { Seq::empty() }
}

// ---------- whole sessions ----------
pub open spec fn is_terminator(m: Message) -> bool { lsp_server::is_exit_msg(m) || lsp_server::is_shutdown_msg(m) }
spec fn msg_state(s: St, m: Message) -> St {
    match m { Message::Notification(n) => notif_state(s, n), _ => s }
}
spec fn msg_sent(s: St, m: Message) -> Seq<Sent> {
    match m {
        Message::Request(q) => req_sent(q),
        Message::Notification(n) => notif_sent(s, n),
        Message::Response(_) => Seq::empty(),
    }
}
// state / client-visible log after the messages input[from..to) were handled, starting in state s0
spec fn run_state(s0: St, input: Seq<Message>, from: int, to: int) -> St
    decreases to - from
{
    if to <= from { s0 } else { msg_state(run_state(s0, input, from, to - 1), input[to - 1]) }
}
spec fn run_sent(s0: St, input: Seq<Message>, from: int, to: int) -> Seq<Sent>
    decreases to - from
{
    if to <= from { Seq::empty() }
    else { run_sent(s0, input, from, to - 1) + msg_sent(run_state(s0, input, from, to - 1), input[to - 1]) }
}
pub open spec fn no_term(input: Seq<Message>, from: int, to: int) -> bool {
    forall|k: int| from <= k < to ==> !is_terminator(#[trigger] input[k])
}
// `now` is `before` followed by exactly `more` (extensional, so that no proof hint is needed at the use sites)
pub open spec fn grew_by(now: Seq<Sent>, before: Seq<Sent>, more: Seq<Sent>) -> bool { now =~= before + more }

// ---------- read-out of the session log: "answers every request" ----------
// (nothing depends on these; they say what `run_sent` means for the requests alone)
// the responses in a log, in order
pub open spec fn responses(log: Seq<Sent>) -> Seq<Sent>
    decreases log.len()
{
    if log.len() == 0 { Seq::empty() }
    else if log.last() is Response { responses(log.drop_last()).push(log.last()) }
    else { responses(log.drop_last()) }
}
// one response per request of the five kinds among input[from..to), in order of arrival: its id, and a result iff
// the server could read it
pub open spec fn answers(input: Seq<Message>, from: int, to: int) -> Seq<Sent>
    decreases to - from
{
    if to <= from { Seq::empty() }
    else { answers(input, from, to - 1) + (match input[to - 1] { Message::Request(q) => req_sent(q), _ => Seq::empty() }) }
}
pub proof fn lemma_responses_add(a: Seq<Sent>, b: Seq<Sent>)
    ensures responses(a + b) == responses(a) + responses(b)
    decreases b.len()
{
    if b.len() == 0 {
        assert(a + b =~= a);
        assert(responses(a) + responses(b) =~= responses(a));
    } else {
        assert((a + b).drop_last() =~= a + b.drop_last());
        assert((a + b).last() == b.last());
        lemma_responses_add(a, b.drop_last());
        assert(responses(a + b) =~= responses(a) + responses(b));
    }
}
proof fn lemma_responses_one(x: Sent)
    ensures responses(seq![x]) == (if x is Response { seq![x] } else { Seq::<Sent>::empty() })
{
    assert(seq![x].drop_last() =~= Seq::<Sent>::empty());
    assert(responses(Seq::<Sent>::empty()) =~= Seq::<Sent>::empty());
    assert(Seq::<Sent>::empty().push(x) =~= seq![x]);
}
// Whatever notifications are interleaved and whatever the documents contain: the responses the session prescribes
// are exactly one per request of the five kinds, with the request's id, in the order the requests arrived.
proof fn lemma_every_request_answered_once(s0: St, input: Seq<Message>, from: int, to: int)
    ensures responses(run_sent(s0, input, from, to)) == answers(input, from, to)
    decreases to - from
{
    if to > from {
        lemma_every_request_answered_once(s0, input, from, to - 1);
        let s = run_state(s0, input, from, to - 1);
        let cur = msg_sent(s, input[to - 1]);
        lemma_responses_add(run_sent(s0, input, from, to - 1), cur);
        assert(responses(Seq::<Sent>::empty()) =~= Seq::<Sent>::empty());
        match input[to - 1] {
            Message::Request(q) => {
                if handled(q) { lemma_responses_one(Sent::Response { id: q.id, ok: req_readable(q) }); }
            },
            Message::Notification(n) => {
                if cur.len() > 0 { lemma_responses_one(cur[0]); assert(cur =~= seq![cur[0]]); }
            },
            Message::Response(_) => {},
        }
    }
}

//@ extract src/lsp/mod.rs :: fn publish_diagnostics
//@   subst "conn: &Connection" => "conn: &mut Connection"
//@   subst "Box<dyn Error + Send + Sync>>" => "VBoxErr>"
//@   ret r
//@   sig <<<
    ensures
        final(conn).receiver == old(conn).receiver,
        old(conn).closed() ==> r is Err,
        match r {
            // delivered: exactly one publishDiagnostics for `uri` with the result's diagnostics
            Ok(_) => grew_by(final(conn).sent(), old(conn).sent(), seq![publish(uri, result.diagnostics@)])
                     && final(conn).closed() == old(conn).closed(),
            // the channel to the client is closed: nothing was delivered
            Err(_) => final(conn).sent() == old(conn).sent() && final(conn).closed(),
        },
//@   >>>
//@   mutant publish_wrong_uri "uri, diagnostics:" => "uri: match Url::parse(\"file:///untitled\") { Ok(u) => u, Err(_) => uri }, diagnostics:" expect publish_diagnostics
//@   mutant publish_drops_diagnostics "diagnostics: result.diagnostics.clone()," => "diagnostics: Vec::new()," expect publish_diagnostics
//@ end

//@ extract src/lsp/mod.rs :: fn handle_request
//@   subst "conn: &Connection" => "conn: &mut Connection"
//@   subst "Box<dyn Error + Send + Sync>>" => "VBoxErr>"
// Verus: no datatype constructor as a function value (eta-expansion)
//@   subst "location.map(GotoDefinitionResponse::Scalar)" => "location.map(|l: Location| -> (g: GotoDefinitionResponse) { GotoDefinitionResponse::Scalar(l) })"
//@   ret r
//@   sig <<<
    ensures
        final(conn).receiver == old(conn).receiver,
        *final(state) == *old(state),
        old(conn).closed() && handled(req) ==> r is Err,
        match r {
            // Ok: the request was readable and EXACTLY ONE success response with its id went out -- or the
            // method is none of the five and nothing went out
            Ok(_) => req_readable(req) && grew_by(final(conn).sent(), old(conn).sent(), req_sent(req))
                     && final(conn).closed() == old(conn).closed(),
            // Err: nothing went out; either the params were unreadable (channel untouched), or the channel is closed
            Err(_) => handled(req) && final(conn).sent() == old(conn).sent()
                      && (if req_readable(req) { final(conn).closed() } else { final(conn).sender == old(conn).sender }),
        },
//@   >>>
//@   mutant hover_answered_twice ".send(Message::Response(Response::new_ok(id, hover)))?;" => ".send(Message::Response(Response::new_ok(id.clone(), ())))?; conn.sender.send(Message::Response(Response::new_ok(id, hover)))?;" expect handle_request
//@   mutant workspace_symbol_unanswered "conn.sender .send(Message::Response(Response::new_ok(id, symbols)))?;" => "" expect handle_request
//@   mutant completion_answered_with_other_id "Response::new_ok(id, response) ))?; } else if req.method == WorkspaceSymbolRequest::METHOD" => "Response::new_ok(RequestId::from(0), response) ))?; } else if req.method == WorkspaceSymbolRequest::METHOD" expect handle_request
//@ end

// ASSUMED (outside the unit): total; the new analysis replaces the document's entry and is what is returned.
//@ extract src/lsp/mod.rs :: impl ServerState :: fn update_document
//@   opaque_body
//@   ret r
//@   sig <<<
        ensures
            final(self)@ == st_edit(old(self)@, uri, content@),
            *r == final(self)@.docs[uri],
//@   >>>
//@ end
//@ extract src/lsp/workspace.rs :: impl WorkspaceIndex :: fn update_from_disk
//@   opaque_body
//@   sig <<<
        ensures *final(self) == ws_after_disk(*old(self), *path)
//@   >>>
//@ end

//@ extract src/lsp/mod.rs :: fn handle_notification
//@   subst "conn: &Connection" => "conn: &mut Connection"
//@   subst "Box<dyn Error + Send + Sync>>" => "VBoxErr>"
//@   ret r
//@   sig <<<
    ensures
        final(conn).receiver == old(conn).receiver,
        match r {
            // Ok(stop): stop exactly for the exit notification; the notification was readable, the state is the
            // one the notification prescribes, and the client saw exactly what it prescribes -- nothing else
            Ok(stop) => stop == (notif_kind(notif.method@) is Exit)
                        && notif_readable(notif)
                        && final(state)@ == notif_state(old(state)@, notif)
                        && grew_by(final(conn).sent(), old(conn).sent(), notif_sent(old(state)@, notif))
                        && final(conn).closed() == old(conn).closed(),
            // Err: nothing went out; either the params were unreadable (state and channel untouched), or the
            // notification was applied but the channel to the client is closed
            Err(_) => final(conn).sent() == old(conn).sent() && !(notif_kind(notif.method@) is Exit)
                      && (if notif_readable(notif) {
                              final(conn).closed() && final(state)@ == notif_state(old(state)@, notif)
                          } else {
                              final(conn).sender == old(conn).sender && *final(state) == *old(state)
                          }),
        },
//@   >>>
// seeded change /verif/seeded/C20_1: the FIRST content change instead of the last
//@   mutant didchange_first_change "params.content_changes.into_iter().last()" => "params.content_changes.into_iter().next()" expect handle_notification
//@   mutant didclose_not_cleared "conn.sender .send(Message::Notification(LspNotification::new( PublishDiagnostics::METHOD.to_string(), clear, )))?;" => "let _ = clear;" expect handle_notification
//@   mutant didopen_not_published "let result = state.update_document(uri.clone(), &content); publish_diagnostics(conn, uri, result)?;" => "let result = state.update_document(uri.clone(), &content);" expect handle_notification
//@   mutant didclose_keeps_document "state.documents.remove(&uri);" => "" expect handle_notification
//@   mutant exit_not_reported "return Ok(true);" => "return Ok(false);" expect handle_notification
//@ end

// the reply `Connection::handle_shutdown` sends for the shutdown request m
spec fn shutdown_reply(m: Message) -> Seq<Sent> {
    seq![Sent::Response { id: m->Request_0.id, ok: true }]
}
// The session [p0, n) of `input` ended at message index e (the messages before e were all handled, none of them
// is a terminator): the state is the one they prescribe, and -- as long as the channel to the client is open --
// the client saw exactly what they prescribe, in order, followed by `tail`.
spec fn session(conn0: Connection, s0: St, conn: Connection, s: St, e: int, tail: Seq<Sent>) -> bool {
    let input = conn0.input();
    let p0 = conn0.pos();
    &&& p0 <= e <= conn.pos()
    &&& no_term(input, p0, e)
    &&& s == run_state(s0, input, p0, e)
    &&& !conn.closed() ==> grew_by(conn.sent(), conn0.sent(), run_sent(s0, input, p0, e) + tail)
}

//@ extract src/lsp/mod.rs :: fn main_loop
//@   rule R1
//@   subst "conn: &Connection" => "conn: &mut Connection"
//@   subst "Box<dyn Error + Send + Sync>>" => "VBoxErr>"
// `for msg in &receiver` is `while let Some(msg) = receiver.iter().next()` (see crossbeam_channel::Receiver)
//@   subst "for msg in &conn.receiver {" => "while let Some(msg) = conn.receiver.verif_iter_next() {"
//@   ret r
//@   sig <<<
    requires
        // well-formedness of the channel model: no more messages taken than there are
        old(conn).pos() <= old(conn).input().len(),
    ensures
        final(conn).input() == old(conn).input(),
        old(conn).pos() <= final(conn).pos() <= old(conn).input().len(),
        ({
            let input = old(conn).input();
            let n = final(conn).pos();
            let c0 = *old(conn);
            let s0 = old(state)@;
            let c = *final(conn);
            let s = final(state)@;
            match r {
                // The server stops with Ok ONLY when
                Ok(_) => {
                    // (a) the client hung up: every message was consumed and handled, none was a terminator, or
                    ||| n == input.len() && session(c0, s0, c, s, n, Seq::empty())
                    // (b) the last message consumed is the exit notification, everything before it was handled, or
                    ||| session(c0, s0, c, s, n - 1, Seq::empty()) && lsp_server::is_exit_msg(input[n - 1])
                    // (c) the last two are the shutdown request -- answered -- and the exit notification
                    ||| session(c0, s0, c, s, n - 2, shutdown_reply(input[n - 2]))
                        && lsp_server::is_shutdown_msg(input[n - 2]) && lsp_server::is_exit_msg(input[n - 1])
                },
                // and with Err ONLY when
                Err(_) => {
                    // (d) the channel to the client is closed and the reply to the last request could not be sent, or
                    ||| c.closed() && session(c0, s0, c, s, n, Seq::empty()) && n > c0.pos() && input[n - 1] is Request
                    // (e) the shutdown request (answered) was not followed by the exit notification: nothing came in time,
                    ||| session(c0, s0, c, s, n - 1, shutdown_reply(input[n - 1])) && lsp_server::is_shutdown_msg(input[n - 1])
                    //     or something else came
                    ||| session(c0, s0, c, s, n - 2, shutdown_reply(input[n - 2]))
                        && lsp_server::is_shutdown_msg(input[n - 2]) && !lsp_server::is_exit_msg(input[n - 1])
                },
            }
        }),
//@   >>>
//@   loop 1 <<<
        invariant_except_break
            session(*old(conn), old(state)@, *conn, state@, conn.pos(), Seq::empty()),
        invariant
            conn.input() == old(conn).input(),
            old(conn).pos() <= conn.pos() <= conn.input().len(),
        ensures
            // `break`: exit notification, or shutdown request + exit notification
            session(*old(conn), old(state)@, *conn, state@, conn.pos(), Seq::empty()) && conn.pos() == conn.input().len()
            || session(*old(conn), old(state)@, *conn, state@, conn.pos() - 1, Seq::empty())
               && lsp_server::is_exit_msg(conn.input()[conn.pos() - 1])
            || session(*old(conn), old(state)@, *conn, state@, conn.pos() - 2, shutdown_reply(conn.input()[conn.pos() - 2]))
               && lsp_server::is_shutdown_msg(conn.input()[conn.pos() - 2]) && lsp_server::is_exit_msg(conn.input()[conn.pos() - 1]),
        decreases conn.input().len() - conn.pos()
//@   >>>
// the loop before commit 23f3dcc: an unreadable request ended the session
//@   mutant unreadable_request_ends_session "let id = req.id.clone(); if let Err(e) = handle_request(conn, state, req) { conn.sender.send(Message::Response(Response::new_err( id, lsp_server::ErrorCode::InvalidParams as i32, e.to_string(), )))?; }" => "handle_request(conn, state, req)?;" expect main_loop
//@   mutant error_response_other_id "Response::new_err( id," => "Response::new_err( RequestId::from(0)," expect main_loop
//@   mutant unreadable_request_unanswered "conn.sender.send(Message::Response(Response::new_err( id, lsp_server::ErrorCode::InvalidParams as i32, e.to_string(), )))?;" => "let _ = (id, e);" expect main_loop
//@   mutant exit_ignored "Ok(true) => break," => "Ok(true) => {}" expect main_loop
//@   mutant unreadable_notification_ends_session "Err(e) => eprintln!(\"lsp: ignoring notification: {}\", e)," => "Err(e) => return Err(e)," expect main_loop
//@   mutant client_response_ends_session "Message::Response(_) => {}" => "Message::Response(_) => break," expect main_loop
//@ end

} // verus!

fn main() {}
