//@ unit build_cmd
//@ serves C14 C16
//@ must_verify build_file do_compile visit_ucg_files build_command FileBuilder::set_strict FileBuilder::enable_validate_mode lemma_batch_status lemma_single_file_is_one_attempt
//@ include prelude/head.rs
use std::rc::Rc;

// C14 ("if the value cannot be converted the build fails") / C16 ("for each file, the same success or failure ... as
// building that file alone"), at the level of the `ucg build` command driver: `build_command`, `visit_ucg_files`,
// `do_compile`, `build_file` (main.rs) and the two FileBuilder setters they use (build/mod.rs), all verbatim.
// The counterpart for `ucg test` is units test_cmd + verdict; the modelling is theirs (R11 stand-in `VEnv`, ghost
// history of the run, clap / directory iteration / process::exit stubs), see prelude/build_cmd_env.rs for the two
// differences (value cache as a field, directory listings as a function of the path).
// `FileBuilder::build` (the whole compiler) is an ASSUMED stub: it returns Ok or Err and logs one BuildRec -
// including which import values were cached when it started.
//
// Contract, bottom up:
//   build_file    exactly one FileBuilder::build of the named file (resolved against the cwd), configured as asked;
//                 Ok iff that build returned Ok; Err without a build only if the cwd cannot be read.
//   do_compile    announces the file, runs AT MOST ONE build, of THAT file, in build mode, with the asked strictness,
//                 and that build STARTS WITH AN EMPTY IMPORT VALUE CACHE (the per-file reset of fix c510806, observable
//                 as BuildRec.vals_at_start); returns true iff the build ran and returned Ok; reports exactly one
//                 error line iff it returns false.
//   visit_ucg_files (build mode)  Ok(b) with b == "nothing was reported as failed and no listing failed during this
//                 call, at any depth"; Err only with a failed listing; unless a listing failed, the files announced
//                 are EXACTLY `targets(path, recurse)` - every `.ucg` entry, at any depth with -r, once, in listing
//                 order: none skipped, a failure does not stop the walk; every build of the call started fresh.
//   build_command the same for the command line: files announced == the targets of every INPUT path in command-line
//                 order (of the cwd without INPUT); status != 0 only if some file failed or a listing failed; status
//                 0 (normal return) only if no file failed - provided no listing failed (see NOT covered).
// NOT covered: as in test_cmd, an I/O error while listing a directory named on the command line makes
// visit_ucg_files return Err, which build_command ignores (`if let Ok(false) = ..`): the status is then 0 even if files
// built before the error failed.  Excluded by `no_new_list_errors`, not claimed as a defect (no input found: needs a
// directory that is_dir() but cannot be listed).  Validate mode (`ucg test`) is units test_cmd / verdict; here
// do_validate is a stub about which nothing but "histories grow" is assumed, and nothing is claimed for validate=true.
verus! {
//@ include prelude/core.rs
//@ opaque Val FileBuilderRest

//@ include prelude/build_cmd_env.rs

// ---------- FileBuilder (build/mod.rs) ----------
// R11 stand-in: `environment: &RefCell<Environment>` becomes `&mut VEnv`; `out` is kept (do_compile looks at it), the
// fields the extracted code does not look at (working_dir, std, import_path, last) are folded into `rest`.
pub struct FileBuilder<'a> {
    pub environment: &'a mut VEnv,
    pub strict: bool,
    pub validate_mode: bool,
    pub out: Option<Rc<Val>>,
    pub rest: FileBuilderRest,
}

//@ extract src/build/mod.rs :: type BuildResult
//@   rule R0
//@   subst "Box<dyn Error>>" => "VBoxErr>"
//@ end

// main.rs names these through `use ucglib::build;`
pub mod build {
    pub use super::FileBuilder;
}

impl<'a> FileBuilder<'a> {
    // ASSUMED (R8, constructor outside the unit): stores the environment reference, reads and writes nothing of the
    // environment; a new builder is non-strict, in build mode (build/mod.rs FileBuilder::new).
    #[verifier::external_body]
    pub fn new(working_dir: PathBuf, import_paths: &'a Vec<PathBuf>, environment: &'a mut VEnv) -> (r: Self)
        ensures
            *r.environment == *old(environment),
            *final(r.environment) == *final(environment),
            !r.strict, !r.validate_mode,
    { unimplemented!() }

    // ASSUMED contract of the whole build of one file (R8; everything below it - parser, translator, VM - is outside
    // this unit; its first steps are unit link_ops): it returns Ok or Err and is logged as ONE BuildRec that remembers
    // how the builder was configured and which import values were cached when it started.  It prints none of the
    // driver's lines.  The caches (value cache included) may change freely.
    #[verifier::external_body]
    pub fn build(&mut self, file: PathBuf) -> (r: BuildResult)
        ensures
            final(self).environment.builds@ == old(self).environment.builds@.push(BuildRec {
                path: file@, ok: r is Ok, strict: old(self).strict, validate: old(self).validate_mode,
                vals_at_start: old(self).environment.val_cache@,
            }),
            final(self).environment.announced == old(self).environment.announced,
            final(self).environment.errors == old(self).environment.errors,
            final(self).environment.list_errors == old(self).environment.list_errors,
            *final(final(self).environment) == *final(old(self).environment),
            final(self).strict == old(self).strict, final(self).validate_mode == old(self).validate_mode,
    { unimplemented!() }
}

//@ extract src/build/mod.rs :: impl * FileBuilder<'a, Stdout, Stderr> * :: fn set_strict
//@   impl_header impl<'a> FileBuilder<'a>
//@   sig <<<
        ensures
            final(self).strict == strict, final(self).validate_mode == old(self).validate_mode,
            final(self).environment == old(self).environment, final(self).out == old(self).out,
//@   >>>
//@ end
//@ extract src/build/mod.rs :: impl * FileBuilder<'a, Stdout, Stderr> * :: fn enable_validate_mode
//@   impl_header impl<'a> FileBuilder<'a>
//@   rule R0
//@   sig <<<
        ensures
            final(self).validate_mode, final(self).strict == old(self).strict,
            final(self).environment == old(self).environment, final(self).out == old(self).out,
//@   >>>
//@ end

// ---------- one file ----------
// the record of the one build `build_file(file, validate, strict, ..)` runs, given the state it starts in
pub open spec fn build_rec(e0: VEnv, file: Seq<char>, validate: bool, strict: bool, ok: bool) -> BuildRec {
    BuildRec { path: resolved(file), ok: ok, strict: strict, validate: validate, vals_at_start: e0.val_cache@ }
}

//@ extract src/main.rs :: fn build_file
//@   subst "env: &'a RefCell<Environment<StdoutWrapper, StderrWrapper>>," => "env: &'a mut VEnv,"
//@   subst "Result<build::FileBuilder<'a, StdoutWrapper, StderrWrapper>, Box<dyn Error>>" => "Result<build::FileBuilder<'a>, VBoxErr>"
//@   subst all "std::env::current_dir()" => "verif_current_dir()"
//@   rule R1
//@   mutant build_error_swallowed "builder.build(file_path_buf)?;" => "let _ = builder.build(file_path_buf);" expect build_file
//@   mutant strictness_dropped "builder.set_strict(strict);" => "builder.set_strict(false);" expect build_file
//@   ret r
//@   sig <<<
    ensures
        match r {
            Ok(b) => {
                // exactly one build was run: of the named file, configured as asked, and it succeeded
                &&& b.environment.builds@ == old(env).builds@.push(build_rec(*old(env), file@, validate, strict, true))
                &&& b.environment.announced == old(env).announced && b.environment.errors == old(env).errors
                &&& b.environment.list_errors == old(env).list_errors
                &&& *final(b.environment) == *final(env)
            },
            Err(_) => {
                // no build (the cwd cannot be read), or one failed build
                &&& (final(env).builds@ == old(env).builds@
                     || final(env).builds@ == old(env).builds@.push(build_rec(*old(env), file@, validate, strict, false)))
                &&& final(env).announced == old(env).announced && final(env).errors == old(env).errors
                &&& final(env).list_errors == old(env).list_errors
            },
        },
//@   >>>
//@ end

// THE CONTRACT of building one file of a batch.
pub open spec fn compile_post(e0: VEnv, e1: VEnv, file: Seq<char>, strict: bool, r: bool) -> bool {
    // the file is announced; no listing is involved
    &&& e1.announced@ == e0.announced@.push(file)
    &&& e1.list_errors == e0.list_errors
    // at most one build is run; if one is run it is of THIS file, in build mode, with the asked strictness, and it
    // starts with an empty import value cache - whatever the files built before left there
    &&& extends(e0.builds@, e1.builds@)
    &&& builds_run(e0, e1) <= 1
    &&& builds_run(e0, e1) == 1 ==> build_no(e0, e1, 0) == (BuildRec {
            path: resolved(file), ok: build_no(e0, e1, 0).ok, strict: strict, validate: false,
            vals_at_start: Set::<Seq<char>>::empty(),
        })
    // THE RESULT: true exactly when the build was run and returned Ok
    &&& r == (builds_run(e0, e1) == 1 && build_no(e0, e1, 0).ok)
    // a failure is reported, once; a success is not
    &&& e1.errors@ == e0.errors@ + (if r { 0nat } else { 1nat })
}

//@ extract src/main.rs :: fn do_compile
//@   subst "env: &'a RefCell<Environment<StdoutWrapper, StderrWrapper>>," => "env: &'a mut VEnv,"
//@   subst "println!(\"Building {}\", file)" => "vprint_building(env, file)"
//@   subst "eprintln!(\"{}\", err)" => "veprint_err(env, err)"
//@   rule R1
//@   mutant cache_clear_not_per_file "env.borrow_mut().val_cache.clear();" => "" expect do_compile
//@   mutant true_on_err "eprintln!(\"{}\", err); return false;" => "eprintln!(\"{}\", err); return true;" expect do_compile
//@   mutant built_in_validate_mode "build_file(file, false, strict, import_paths, env)" => "build_file(file, true, strict, import_paths, env)" expect do_compile
//@   mutant cache_cleared_after_build "env.borrow_mut().val_cache.clear(); let builder = match build_file(file, false, strict, import_paths, env) { Ok(builder) => builder, Err(err) => { eprintln!(\"{}\", err); return false; } };" => "let builder = match build_file(file, false, strict, import_paths, env) { Ok(builder) => builder, Err(err) => { eprintln!(\"{}\", err); return false; } }; builder.environment.borrow_mut().val_cache.clear();" expect do_compile
//@   ret r
//@   sig <<<
    ensures
        compile_post(*old(env), *final(env), file@, strict, r),
//@   >>>
//@ end

// ASSUMED here (validate mode is `ucg test`; PROVED in unit verdict as far as the meaning of the result goes): nothing
// but that the histories grow.
#[verifier::external_body]
fn do_validate(file: &str, strict: bool, import_paths: &Vec<PathBuf>, env: &mut VEnv) -> (r: bool)
    ensures grows(*old(env), *final(env))
{ unimplemented!() }

// ---------- a path: file or directory ----------
// THE CONTRACT of building one path of the command line (build mode).
pub open spec fn visit_post(e0: VEnv, e1: VEnv, path: Seq<char>, recurse: bool, strict: bool, r: Result<bool, VBoxErr>) -> bool {
    &&& grows(e0, e1)
    // the result is the AND over every file attempted during this call, at any depth, of "that file built"
    // (a subdirectory that could not be listed counts as a failure)
    &&& r matches Ok(b) ==> b == (no_new_errors(e0, e1) && no_new_list_errors(e0, e1))
    // an Err is always a failed listing
    &&& r is Err ==> !no_new_list_errors(e0, e1)
    // unless a listing failed: the files attempted are exactly the targets of the path, in order, each once
    &&& no_new_list_errors(e0, e1) ==> e1.announced@ =~= e0.announced@ + targets(path, recurse)
    // every build started from a fresh value cache
    &&& builds_fresh_since(e0, e1, strict)
}

//@ extract src/main.rs :: fn visit_ucg_files
//@   subst "env: &RefCell<Environment<StdoutWrapper, StderrWrapper>>," => "env: &mut VEnv,"
//@   subst "Result<bool, Box<dyn Error>>" => "Result<bool, VBoxErr>"
//@   subst "String::from(path.to_string_lossy())" => "path.verif_to_string()"
//@   subst "String::from(next_path.to_string_lossy())" => "next_path.verif_to_string()"
//@   subst "std::fs::read_dir(path)?.peekable()" => "verif_read_dir(path, env)?"
//@   subst "entry?" => "verif_entry(entry, env)?"
//@   subst all "ends_with" => "verif_ends_with"
//@   rule R1
//@   ret r
//@   sig <<<
    ensures
        grows(*old(env), *final(env)),
        !validate ==> visit_post(*old(env), *final(env), path@, recurse, strict, r),
    decreases spec_height(path@)
//@   >>>
//@   loop 1 <<<
            invariant
                spec_is_dir(path@),
                dir_iter.dir@ == path@,
                dir_iter.idx@ <= spec_entries(path@).len(),
                grows(*old(env), *env),
                !validate ==> result == (no_new_errors(*old(env), *env) && no_new_list_errors(*old(env), *env)),
                !validate && no_new_list_errors(*old(env), *env)
                    ==> env.announced@ =~= old(env).announced@ + entries_targets(path@, dir_iter.idx@, recurse),
                !validate ==> builds_fresh_since(*old(env), *env, strict),
            ensures
                dir_iter.idx@ == spec_entries(path@).len(),
            decreases spec_entries(path@).len() - dir_iter.idx@
//@   >>>
//@   loop_body_end 1 <<<
            proof {
                // one entry further: unfold the definition of entries_targets once (no fact about the code)
                assert(entries_targets(path@, dir_iter.idx@, recurse) == entries_targets(path@, (dir_iter.idx@ - 1) as nat, recurse)
                    + entry_targets(path@, spec_entries(path@)[dir_iter.idx@ - 1], recurse));
            }
//@   >>>
//@   mutant subdir_failure_ignored "Ok(false) => { result = false; }" => "Ok(false) => {}" expect visit_ucg_files
//@   mutant dir_entry_failure_ignored "&& !do_compile(&path_as_string, strict, import_paths, env) { result = false; }" => "&& !do_compile(&path_as_string, strict, import_paths, env) { }" expect visit_ucg_files
//@   mutant single_file_failure_ignored "&& !do_compile(&our_path, strict, import_paths, env) { result = false; }" => "&& !do_compile(&our_path, strict, import_paths, env) { }" expect visit_ucg_files
//@   mutant dir_stops_at_first_failure "&& !do_compile(&path_as_string, strict, import_paths, env) { result = false; }" => "&& !do_compile(&path_as_string, strict, import_paths, env) { result = false; break; }" expect visit_ucg_files
//@   mutant entry_skipped_after_failure "} else if !validate && path_as_string.ends_with(\".ucg\")" => "} else if !validate && result && path_as_string.ends_with(\".ucg\")" expect visit_ucg_files
//@ end

// ---------- the command ----------
// the files `ucg build [-r] [INPUT..]` must attempt
pub open spec fn command_targets(matches: &clap::ArgMatches) -> Seq<Seq<char>> {
    let recurse = matches.spec_is_present("recurse"@);
    match matches.spec_values_of("INPUT"@) {
        None => targets(spec_cwd(), recurse),
        Some(files) => batch_targets(files, files.len(), recurse),
    }
}
// THE CONTRACT of the command, `status` being the exit status (normal return: 0)
pub open spec fn command_post(e0: VEnv, e1: VEnv, matches: &clap::ArgMatches, strict: bool, status: int) -> bool {
    &&& grows(e0, e1)
    // a non-zero status is given only if some file failed (or some directory could not be listed)
    &&& status != 0 ==> !(no_new_errors(e0, e1) && no_new_list_errors(e0, e1))
    // provided no directory listing failed:
    &&& no_new_list_errors(e0, e1) ==> {
        // status 0 is given only if every file built ...
        &&& status == 0 ==> no_new_errors(e0, e1)
        // ... and EVERY listed file and directory entry was attempted, in command-line order, whatever failed before it
        &&& e1.announced@ =~= e0.announced@ + command_targets(matches)
    }
    // every build of the run started from a fresh value cache, with the asked strictness, in build mode
    &&& builds_fresh_since(e0, e1, strict)
}

// `process::exit(code)` (R12): never returns.  Its PRECONDITION is the property.
#[verifier::external_body]
pub fn verif_exit(code: i32, env: &VEnv, Ghost(e0): Ghost<VEnv>, matches: &clap::ArgMatches, strict: bool)
    requires command_post(e0, *env, matches, strict, code as int),
    ensures false
{ std::process::exit(code) }

//@ extract src/main.rs :: fn build_command
//@   subst "env: &RefCell<Environment<StdoutWrapper, StderrWrapper>>," => "env: &mut VEnv,"
//@   subst all "process::exit(1)" => "verif_exit(1, &*env, Ghost(*old(env)), matches, strict)"
//@   subst "process::exit(0)" => "verif_exit(0, &*env, Ghost(*old(env)), matches, strict)"
//@   subst "std::env::current_dir().unwrap()" => "verif_current_dir_unwrap()"
//@   mutant status_from_last_file_only "if let Ok(false) = visit_ucg_files(&pb, recurse, false, strict, import_paths, env) { ok = false; }" => "ok = visit_ucg_files(&pb, recurse, false, strict, import_paths, env).unwrap_or(false);" expect build_command
//@   mutant batch_stops_at_first_failure "if let Ok(false) = visit_ucg_files(&pb, recurse, false, strict, import_paths, env) { ok = false; }" => "if let Ok(false) = visit_ucg_files(&pb, recurse, false, strict, import_paths, env) { ok = false; break; }" expect build_command
//@   mutant failure_forgotten "ok = false;" => "ok = true;" expect build_command
//@   mutant exit_condition_negated "if !ok { process::exit(1) }" => "if ok { process::exit(1) }" expect build_command
//@   mutant recursion_flag_ignored "visit_ucg_files(&pb, recurse, false, strict, import_paths, env)" => "visit_ucg_files(&pb, false, false, strict, import_paths, env)" expect build_command
//@   sig <<<
    ensures command_post(*old(env), *final(env), matches, strict, 0),   // a normal return is status 0
//@   >>>
//@   loop 1 iter it <<<
            invariant
                texts(it.seq()) == matches.spec_values_of("INPUT"@)->Some_0,
                matches.spec_values_of("INPUT"@) is Some,
                recurse == matches.spec_is_present("recurse"@),
                grows(*old(env), *env),
                !ok ==> !(no_new_errors(*old(env), *env) && no_new_list_errors(*old(env), *env)),
                no_new_list_errors(*old(env), *env) ==> {
                    &&& ok ==> no_new_errors(*old(env), *env)
                    &&& env.announced@ =~= old(env).announced@ + batch_targets(texts(it.seq()), it.index@ as nat, recurse)
                },
                builds_fresh_since(*old(env), *env, strict),
//@   >>>
//@ end

// ---------- the property's clauses, read off the contracts ----------
// "the exit status is the AND over ALL files of `that file built`": if every file's contract holds along a run of the
// command (compile_post chained over the announced files), status 0 <=> every one of them returned true.  Stated for
// the step: appending one file to a run whose error count so far is `errs`.
pub proof fn lemma_batch_status(e0: VEnv, e1: VEnv, e2: VEnv, file: Seq<char>, strict: bool, r: bool)
    requires grows(e0, e1), compile_post(e1, e2, file, strict, r),
    ensures
        grows(e0, e2),
        (no_new_errors(e0, e2) && no_new_list_errors(e0, e2)) == (no_new_errors(e0, e1) && no_new_list_errors(e0, e1) && r),
        builds_fresh_since(e0, e1, strict) ==> builds_fresh_since(e0, e2, strict),
{
}
// a path that is not a directory is exactly one attempt, of that very path, whatever its name
pub proof fn lemma_single_file_is_one_attempt(p: Seq<char>, recurse: bool)
    requires !spec_is_dir(p),
    ensures targets(p, recurse) =~= seq![p], batch_targets(seq![p], 1, recurse) =~= seq![p],
{
    assert(batch_targets(seq![p], 0, recurse) =~= Seq::empty());
    assert(seq![p][0] == p);
}

} // verus!

fn main() {}
