//@ unit err_pos_run
//@ serves C17
//@ must_verify VM::run
// C17 (narrow kernel, second half) - the interpreter loop `VM::run` (src/build/opcode/vm.rs), verbatim: what it does with
// the positions.  The idea of unit vm_dispatch (every opcode reaches its handler with the arguments it carries),
// extended by the handlers' RESULTS: each handler invocation is logged with the instruction pointer it ran at and the
// error it returned.  Proved:
//   (a) the `pos` handed to a handler is the position stored with the op the pointer is at (every iteration, and the
//       failing one);
//   (b) an error a handler returns comes out of `run` UNCHANGED - same position, same call sites, same message: `run`
//       neither drops, replaces nor adds a position (it uses plain `?`);
//   (c) hence every error out of `run` has a position, GIVEN that every handler's has one - the contract text proved of
//       the real handler bodies in unit err_pos (assume / guarantee between the two units: err_pos assumes (c) of the
//       nested runs its handlers start);
//   (d) `run` never swaps the program it runs.
// NOT discharged here: the translator invariants the handlers of unit err_pos require (stack depths, operand kinds).
//@ include prelude/head.rs
use std::rc::Rc;

verus! {
//@ include prelude/core.rs
//@ include prelude/err_pos_run_values.rs
//@ opaque VShapeMap VLinks VEnvCell
//@ extract src/ast/mod.rs :: enum CastType
//@   rule R0
//@ end
//@ extract src/build/opcode/mod.rs :: enum Hook
//@   rule R0
//@ end
//@ extract src/build/opcode/mod.rs :: enum ConstraintArmType
//@   rule R0
//@ end
//@ extract src/build/opcode/mod.rs :: enum Op
//@   rule R0
//@ end
//@ clone_spec Op Primitive CastType Hook
//@ extract src/build/opcode/translate.rs :: struct OpsMap
//@   rule R0
//@   subst "shape_map: BTreeMap<Rc<str>, Shape>" => "shape_map: VShapeMap"
//@   subst "links: BTreeMap<Rc<str>, Position>" => "links: VLinks"
//@ end
//@ extract src/build/opcode/pointer.rs :: struct OpPointer
//@   rule R0
//@   subst "path: Option<PathBuf>" => "path: Option<VPathBuf>"
//@ end
impl Clone for OpPointer {
    #[verifier::external_body]
    fn clone(&self) -> (r: Self) ensures r == *self { unimplemented!() }
}
// the struct Builtins of runtime.rs: only `strict` is read by the dispatch loop
pub struct VBuiltins { pub strict: bool }
// the real error value (error.rs): position, call sites, message
//@ extract src/build/opcode/error.rs :: struct Error
//@   rule R0 RV
//@ end
impl Position {
    // the default position (only the seeded mutants of this unit call it): an arbitrary position as far as the contract knows
    #[verifier::external_body]
    pub fn new(line: usize, column: usize, offset: usize) -> Self { unimplemented!() }
}
impl Error {
    // error.rs (proved in unit err_pos); only the seeded mutants of this unit call it
    #[verifier::external_body]
    pub fn with_pos(self, pos: Position) -> (r: Self) ensures r.pos == Some(pos), r.message == self.message, r.call_stack == self.call_stack { unimplemented!() }
}
// as in unit err_pos
pub open spec fn positioned(e: Error) -> bool { e.pos is Some }
pub uninterp spec fn env_ok() -> bool;

// ---------- what one handler invocation is: the oracle's vocabulary ----------
// One variant per handler of the VM, with the arguments the dispatch loop hands to it.
pub enum Call {
    Push(Value, Position), Cast(CastType), DeRef(Rc<str>, Position),
    Add(Position), Mod(Position), Sub(Position), Mul(Position), Div(Position),
    Bind(bool), Equal(Position), Not(Position), Gt(Position), Lt(Position), GtEq(Position), LtEq(Position),
    Field, Element, Index(bool, Position), Exist(Position), Copy(Position), Bang, Thunk(usize, i32, Position),
    Jump(i32), JumpIfTrue(i32), JumpIfFalse(i32), SelectJump(i32), And(i32, Position), Or(i32, Position),
    Module(usize, i32, Position), Func(usize, i32, Position), FCall(Position), NewScope(i32, OpPointer),
    Pop, Typ, Runtime(Hook, Position), Render, PushSelf, PopSelf, CheckConstraint(Position),
    BuildConstraint(Vec<ConstraintArmType>, Position),
    // oracle-only: a list / tuple literal starts EMPTY
    PushEmptyList(Position), PushEmptyTuple(Position),
}

// The reference meaning of each opcode (src/build/opcode/mod.rs documents them): which handler runs, with which
// arguments. `strict` is the VM's strictness: a plain selector lookup (`Index`) is SAFE (NULL on a miss) exactly when
// the VM is NOT strict; `SafeIndex` is always safe; `Bind` is the strict bind of `let`, `BindOver` may shadow.
pub open spec fn call_for(op: Op, pos: Position, idx: usize, strict: bool, ptr_after_fetch: OpPointer) -> Option<Call> {
    match op {
        Op::Val(p) => Some(Call::Push(P(p), pos)),
        Op::Cast(t) => Some(Call::Cast(t)),
        Op::Sym(s) => Some(Call::Push(S(s), pos)),
        Op::DeRef(s) => Some(Call::DeRef(s, pos)),
        Op::Add => Some(Call::Add(pos)), Op::Mod => Some(Call::Mod(pos)), Op::Sub => Some(Call::Sub(pos)),
        Op::Mul => Some(Call::Mul(pos)), Op::Div => Some(Call::Div(pos)),
        Op::Bind => Some(Call::Bind(true)), Op::BindOver => Some(Call::Bind(false)),
        Op::Equal => Some(Call::Equal(pos)), Op::Not => Some(Call::Not(pos)),
        Op::Gt => Some(Call::Gt(pos)), Op::Lt => Some(Call::Lt(pos)), Op::GtEq => Some(Call::GtEq(pos)), Op::LtEq => Some(Call::LtEq(pos)),
        Op::InitList => Some(Call::PushEmptyList(pos)),
        Op::InitTuple => Some(Call::PushEmptyTuple(pos)),
        Op::Field => Some(Call::Field), Op::Element => Some(Call::Element),
        Op::Index => Some(Call::Index(!strict, pos)), Op::SafeIndex => Some(Call::Index(true, pos)),
        Op::Exist => Some(Call::Exist(pos)), Op::Cp => Some(Call::Copy(pos)), Op::Bang => Some(Call::Bang),
        Op::InitThunk(jp) => Some(Call::Thunk(idx, jp, pos)),
        Op::Noop => None,
        Op::Jump(jp) => Some(Call::Jump(jp)), Op::JumpIfTrue(jp) => Some(Call::JumpIfTrue(jp)), Op::JumpIfFalse(jp) => Some(Call::JumpIfFalse(jp)),
        Op::SelectJump(jp) => Some(Call::SelectJump(jp)), Op::And(jp) => Some(Call::And(jp, pos)), Op::Or(jp) => Some(Call::Or(jp, pos)),
        Op::Module(mptr) => Some(Call::Module(idx, mptr, pos)), Op::Func(jptr) => Some(Call::Func(idx, jptr, pos)),
        Op::FCall => Some(Call::FCall(pos)), Op::NewScope(jp) => Some(Call::NewScope(jp, ptr_after_fetch)),
        Op::Return => None,
        Op::Pop => Some(Call::Pop), Op::Typ => Some(Call::Typ), Op::Runtime(h) => Some(Call::Runtime(h, pos)),
        Op::Render => Some(Call::Render), Op::PushSelf => Some(Call::PushSelf), Op::PopSelf => Some(Call::PopSelf),
        Op::CheckConstraint => Some(Call::CheckConstraint(pos)), Op::BuildConstraint(a) => Some(Call::BuildConstraint(a, pos)),
    }
}

pub open spec fn call_matches(want: Call, got: Call) -> bool {
    match (want, got) {
        (Call::PushEmptyList(p), Call::Push(C(List(b, bp)), q)) => b@.len() == 0 && bp@.len() == 0 && p == q,
        (Call::PushEmptyTuple(p), Call::Push(C(Tuple(b, bp)), q)) => b@.len() == 0 && bp@.len() == 0 && p == q,
        _ => want == got,
    }
}

// one handler invocation: the instruction pointer it ran at, the handler with its arguments, the error it returned
pub struct Step { pub at: OpPointer, pub call: Call, pub err: Option<Error> }
pub open spec fn err_of<T>(r: Result<T, Error>) -> Option<Error> { match r { Ok(_) => None, Err(e) => Some(e) } }
// the step is the one the op under the pointer asks for: the right handler, with the op's payload, the op's index and
// THE POSITION STORED WITH THE OP
pub open spec fn step_of_op(st: Step, strict: bool) -> bool {
    &&& ops_at(st.at)
    &&& ({ let k = st.at.ptr->0 as int;
           call_for(st.at.pos_map.ops@[k], st.at.pos_map.pos@[k], k as usize, strict, st.at) matches Some(w) && call_matches(w, st.call) })
}
pub open spec fn step_ok(op: Op, pos: Position, idx: usize, strict: bool, ptr: OpPointer, t0: Seq<Step>, t1: Seq<Step>) -> bool {
    match call_for(op, pos, idx, strict, ptr) {
        Some(c) => t1.len() == t0.len() + 1 && t1.subrange(0, t0.len() as int) =~= t0 && step_of_op(t1.last(), strict) && t1.last().err is None,
        None => t1 =~= t0,
    }
}
// what an error out of `run` is: exactly the error of the LAST handler invoked, and that handler was invoked as the
// op under the pointer asks, in the program `run` was started on
pub open spec fn failed_step(vm0: VM, t: Seq<Step>, e: Error) -> bool {
    t.len() > 0 && t.last().err == Some(e) && step_of_op(t.last(), vm0.runtime.strict) && t.last().at.pos_map == vm0.ops.pos_map
}

//@ extract src/build/opcode/vm.rs :: struct VM
//@   rule R0 RV
//@   subst "working_dir: PathBuf" => "working_dir: VPathBuf"
//@   subst "runtime: runtime::Builtins" => "runtime: VBuiltins"
//@   subst "reserved_words: &'static BTreeSet<&'static str>" => "reserved_words: ReservedWords"
//@   subst "pub struct VM {" => "pub struct VM { pub trace: Ghost<Seq<Step>>,"
//@ end

pub open spec fn ops_wf(p: OpPointer) -> bool {
    (p.ptr matches Some(i) ==> i < p.pos_map.ops@.len()) && p.pos_map.pos@.len() == p.pos_map.ops@.len()
}
// the pointer is AT an op that has a position (`at_op` of unit err_pos: what its handlers require)
pub open spec fn ops_at(p: OpPointer) -> bool {
    p.ptr matches Some(i) && i < p.pos_map.ops@.len() && p.pos_map.pos@.len() == p.pos_map.ops@.len()
}
// what every handler leaves intact as far as the dispatch loop is concerned (R8; the handlers are under contract in
// vm_arith, vm_ctrl, scope, env_lookup, constraint_vm, rt_funcs, vm_data): the program itself, a well-formed
// instruction pointer, and the strictness flag.  Everything else is havocked here.
// + (unit err_pos, proved there of the real bodies): an error a handler returns has a position.
pub open spec fn handler_frame<T>(a: VM, b: VM, c: Call, r: Result<T, Error>) -> bool {
    &&& b.trace@ == a.trace@.push(Step { at: a.ops, call: c, err: err_of(r) })
    &&& b.ops.pos_map == a.ops.pos_map && ops_wf(b.ops) && b.runtime.strict == a.runtime.strict
    &&& (env_ok() ==> (r matches Err(e) ==> positioned(e)))
}

impl OpPointer {
    // proved in unit vm_ctrl (same contract)
    #[verifier::external_body]
    pub fn next(&mut self) -> (r: Option<&Op>)
        requires ops_wf(*old(self))
        ensures ops_wf(*final(self)), final(self).pos_map == old(self).pos_map, final(self).path == old(self).path,
            r matches Some(o) ==> (final(self).ptr matches Some(i) && *o == final(self).pos_map.ops@[i as int]),
    { unimplemented!() }
    #[verifier::external_body]
    pub fn pos(&self) -> (r: Option<&Position>)
        ensures (self.ptr matches Some(i) && i < self.pos_map.pos@.len()) ==> r == Some(&self.pos_map.pos@[self.ptr->0 as int]),
    { unimplemented!() }
    #[verifier::external_body]
    pub fn idx(&self) -> (r: Result<usize, Error>)
        ensures self.ptr matches Some(i) ==> r == Ok::<usize, Error>(i),
    { unimplemented!() }
}

impl VM {
    #[verifier::external_body]
    fn op_cast(&mut self, t: CastType) -> (r: Result<(), Error>)
        requires ops_at(old(self).ops) ensures handler_frame(*old(self), *final(self), Call::Cast(t), r) { unimplemented!() }
    #[verifier::external_body]
    fn op_add(&mut self, pos: Position) -> (r: Result<(), Error>)
        requires ops_at(old(self).ops) ensures handler_frame(*old(self), *final(self), Call::Add(pos), r) { unimplemented!() }
    #[verifier::external_body]
    fn op_mod(&mut self, pos: Position) -> (r: Result<(), Error>)
        requires ops_at(old(self).ops) ensures handler_frame(*old(self), *final(self), Call::Mod(pos), r) { unimplemented!() }
    #[verifier::external_body]
    fn op_sub(&mut self, pos: Position) -> (r: Result<(), Error>)
        requires ops_at(old(self).ops) ensures handler_frame(*old(self), *final(self), Call::Sub(pos), r) { unimplemented!() }
    #[verifier::external_body]
    fn op_mul(&mut self, pos: Position) -> (r: Result<(), Error>)
        requires ops_at(old(self).ops) ensures handler_frame(*old(self), *final(self), Call::Mul(pos), r) { unimplemented!() }
    #[verifier::external_body]
    fn op_div(&mut self, pos: Position) -> (r: Result<(), Error>)
        requires ops_at(old(self).ops) ensures handler_frame(*old(self), *final(self), Call::Div(pos), r) { unimplemented!() }
    #[verifier::external_body]
    fn op_bind(&mut self, strict: bool) -> (r: Result<(), Error>)
        requires ops_at(old(self).ops) ensures handler_frame(*old(self), *final(self), Call::Bind(strict), r) { unimplemented!() }
    #[verifier::external_body]
    fn op_equal(&mut self, pos: Position) -> (r: Result<(), Error>)
        requires ops_at(old(self).ops) ensures handler_frame(*old(self), *final(self), Call::Equal(pos), r) { unimplemented!() }
    #[verifier::external_body]
    fn op_gteq(&mut self, pos: Position) -> (r: Result<(), Error>)
        requires ops_at(old(self).ops) ensures handler_frame(*old(self), *final(self), Call::GtEq(pos), r) { unimplemented!() }
    #[verifier::external_body]
    fn op_lteq(&mut self, pos: Position) -> (r: Result<(), Error>)
        requires ops_at(old(self).ops) ensures handler_frame(*old(self), *final(self), Call::LtEq(pos), r) { unimplemented!() }
    #[verifier::external_body]
    fn op_field(&mut self) -> (r: Result<(), Error>)
        requires ops_at(old(self).ops) ensures handler_frame(*old(self), *final(self), Call::Field, r) { unimplemented!() }
    #[verifier::external_body]
    fn op_element(&mut self) -> (r: Result<(), Error>)
        requires ops_at(old(self).ops) ensures handler_frame(*old(self), *final(self), Call::Element, r) { unimplemented!() }
    #[verifier::external_body]
    fn op_index(&mut self, safe: bool, pos: Position) -> (r: Result<(), Error>)
        requires ops_at(old(self).ops) ensures handler_frame(*old(self), *final(self), Call::Index(safe, pos), r) { unimplemented!() }
    #[verifier::external_body]
    fn op_exist(&mut self, pos: Position) -> (r: Result<(), Error>)
        requires ops_at(old(self).ops) ensures handler_frame(*old(self), *final(self), Call::Exist(pos), r) { unimplemented!() }
    #[verifier::external_body]
    fn op_bang(&mut self) -> (r: Result<(), Error>)
        requires ops_at(old(self).ops) ensures handler_frame(*old(self), *final(self), Call::Bang, r) { unimplemented!() }
    #[verifier::external_body]
    fn op_thunk(&mut self, idx: usize, jp: i32, pos: Position) -> (r: Result<(), Error>)
        requires ops_at(old(self).ops) ensures handler_frame(*old(self), *final(self), Call::Thunk(idx, jp, pos), r) { unimplemented!() }
    #[verifier::external_body]
    fn op_jump(&mut self, jp: i32) -> (r: Result<(), Error>)
        requires ops_at(old(self).ops) ensures handler_frame(*old(self), *final(self), Call::Jump(jp), r) { unimplemented!() }
    #[verifier::external_body]
    fn op_jump_if_true(&mut self, jp: i32) -> (r: Result<(), Error>)
        requires ops_at(old(self).ops) ensures handler_frame(*old(self), *final(self), Call::JumpIfTrue(jp), r) { unimplemented!() }
    #[verifier::external_body]
    fn op_jump_if_false(&mut self, jp: i32) -> (r: Result<(), Error>)
        requires ops_at(old(self).ops) ensures handler_frame(*old(self), *final(self), Call::JumpIfFalse(jp), r) { unimplemented!() }
    #[verifier::external_body]
    fn op_select_jump(&mut self, jp: i32) -> (r: Result<(), Error>)
        requires ops_at(old(self).ops) ensures handler_frame(*old(self), *final(self), Call::SelectJump(jp), r) { unimplemented!() }
    #[verifier::external_body]
    fn op_and(&mut self, jp: i32, pos: Position) -> (r: Result<(), Error>)
        requires ops_at(old(self).ops) ensures handler_frame(*old(self), *final(self), Call::And(jp, pos), r) { unimplemented!() }
    #[verifier::external_body]
    fn op_or(&mut self, jp: i32, pos: Position) -> (r: Result<(), Error>)
        requires ops_at(old(self).ops) ensures handler_frame(*old(self), *final(self), Call::Or(jp, pos), r) { unimplemented!() }
    #[verifier::external_body]
    fn op_module(&mut self, idx: usize, jptr: i32, pos: Position) -> (r: Result<(), Error>)
        requires ops_at(old(self).ops) ensures handler_frame(*old(self), *final(self), Call::Module(idx, jptr, pos), r) { unimplemented!() }
    #[verifier::external_body]
    fn op_func(&mut self, idx: usize, jptr: i32, pos: Position) -> (r: Result<(), Error>)
        requires ops_at(old(self).ops) ensures handler_frame(*old(self), *final(self), Call::Func(idx, jptr, pos), r) { unimplemented!() }
    #[verifier::external_body]
    fn op_typ(&mut self) -> (r: Result<(), Error>)
        requires ops_at(old(self).ops) ensures handler_frame(*old(self), *final(self), Call::Typ, r) { unimplemented!() }
    #[verifier::external_body]
    fn op_render(&mut self) -> (r: Result<(), Error>)
        requires ops_at(old(self).ops) ensures handler_frame(*old(self), *final(self), Call::Render, r) { unimplemented!() }
    #[verifier::external_body]
    fn op_push_self(&mut self) -> (r: Result<(), Error>)
        requires ops_at(old(self).ops) ensures handler_frame(*old(self), *final(self), Call::PushSelf, r) { unimplemented!() }
    #[verifier::external_body]
    fn op_pop_self(&mut self) -> (r: Result<(), Error>)
        requires ops_at(old(self).ops) ensures handler_frame(*old(self), *final(self), Call::PopSelf, r) { unimplemented!() }
    #[verifier::external_body]
    fn op_check_constraint(&mut self, pos: Position) -> (r: Result<(), Error>)
        requires ops_at(old(self).ops) ensures handler_frame(*old(self), *final(self), Call::CheckConstraint(pos), r) { unimplemented!() }
    #[verifier::external_body]
    fn op_build_constraint(&mut self, arm_types: Vec<ConstraintArmType>, pos: Position) -> (r: Result<(), Error>)
        requires ops_at(old(self).ops) ensures handler_frame(*old(self), *final(self), Call::BuildConstraint(arm_types, pos), r) { unimplemented!() }
    #[verifier::external_body]
    fn op_not(&mut self, pos: &Position) -> (r: Result<(), Error>)
        requires ops_at(old(self).ops) ensures handler_frame(*old(self), *final(self), Call::Not(*pos), r) { unimplemented!() }
    #[verifier::external_body]
    fn op_gt(&mut self, pos: &Position) -> (r: Result<(), Error>)
        requires ops_at(old(self).ops) ensures handler_frame(*old(self), *final(self), Call::Gt(*pos), r) { unimplemented!() }
    #[verifier::external_body]
    fn op_lt(&mut self, pos: &Position) -> (r: Result<(), Error>)
        requires ops_at(old(self).ops) ensures handler_frame(*old(self), *final(self), Call::Lt(*pos), r) { unimplemented!() }
    #[verifier::external_body]
    fn op_deref(&mut self, name: Rc<str>, env: &VEnvCell, pos: &Position) -> (r: Result<(), Error>)
        requires ops_at(old(self).ops) ensures handler_frame(*old(self), *final(self), Call::DeRef(name, *pos), r) { unimplemented!() }
    #[verifier::external_body]
    fn op_copy(&mut self, pos: Position, env: &VEnvCell) -> (r: Result<(), Error>)
        requires ops_at(old(self).ops) ensures handler_frame(*old(self), *final(self), Call::Copy(pos), r) { unimplemented!() }
    #[verifier::external_body]
    fn op_fcall(&mut self, pos: Position, env: &VEnvCell) -> (r: Result<(), Error>)
        requires ops_at(old(self).ops) ensures handler_frame(*old(self), *final(self), Call::FCall(pos), r) { unimplemented!() }
    #[verifier::external_body]
    fn op_new_scope(&mut self, jp: i32, ptr: OpPointer, env: &VEnvCell) -> (r: Result<(), Error>)
        requires ops_at(old(self).ops) ensures handler_frame(*old(self), *final(self), Call::NewScope(jp, ptr), r) { unimplemented!() }
    #[verifier::external_body]
    fn op_runtime(&mut self, h: Hook, pos: Position, env: &VEnvCell) -> (r: Result<(), Error>)
        requires ops_at(old(self).ops) ensures handler_frame(*old(self), *final(self), Call::Runtime(h, pos), r) { unimplemented!() }
    #[verifier::external_body]
    fn push(&mut self, val: Rc<Value>, pos: Position) -> (r: Result<(), Error>)
        requires ops_at(old(self).ops) ensures handler_frame(*old(self), *final(self), Call::Push(*val, pos), r) { unimplemented!() }
    #[verifier::external_body]
    pub fn pop(&mut self) -> (r: Result<(Rc<Value>, Position), Error>)
        requires ops_at(old(self).ops) ensures handler_frame(*old(self), *final(self), Call::Pop, r) { unimplemented!() }
}

// `p.to_string_lossy().into()` for the import stack entry pushed when a file has been run to its end
#[verifier::external_body]
pub fn verif_path_to_rcstr(p: &VPathBuf) -> Rc<str> { unimplemented!() }

// The interpreter loop.  Termination is NOT proved (relative jumps are data).
//@ extract src/build/opcode/error.rs :: macro decorate_error
//@ end
//@ extract src/build/opcode/vm.rs :: impl VM :: fn run
//@   subst "pub fn run<O, E>(&mut self, env: &RefCell<Environment<O, E>>)" => "#[verifier::exec_allows_no_decreases_clause] pub fn run(&mut self, env: &VEnvCell)"
//@   subst "where O: std::io::Write + Clone, E: std::io::Write + Clone," => ""
//@   subst "p.to_string_lossy().into()" => "verif_path_to_rcstr(p)"
//@   ret r
//@   sig <<<
        requires ops_wf(old(self).ops)
        ensures
            // (b) + (a) for the failing step
            r matches Err(e) ==> failed_step(*old(self), final(self).trace@, e),
            // (c)
            env_ok() ==> (r matches Err(e) ==> positioned(e)),
            // (d)
            final(self).ops.pos_map == old(self).ops.pos_map,
//@   >>>
//@   loop 1 <<<
            invariant ops_wf(self.ops), self.ops.pos_map == old(self).ops.pos_map, self.runtime.strict == old(self).runtime.strict,
//@   >>>
//@   after "let idx = self.ops.idx()?;" <<<
            let ghost t0 = self.trace@;
            let ghost strict0 = self.runtime.strict;
            let ghost ptr0 = self.ops;
            let ghost op0 = op;
            assert(ops_at(self.ops) && pos == self.ops.pos_map.pos@[idx as int] && op == self.ops.pos_map.ops@[idx as int]);
//@   >>>
//@   loop_body_end 1 <<<
            // (a) every iteration: the handler this opcode must reach, with the arguments - and the position - it must get
            assert(step_ok(op0, pos, idx, strict0, ptr0, t0, self.trace@));
//@   >>>
//@   mutant handler_gets_default_position "Op::Gt => self.op_gt(&pos)?" => "Op::Gt => self.op_gt(&Position::new(0, 0, 0))?" expect run
//@   mutant handler_gets_previous_position "let pos = self.ops.pos().unwrap().clone();" => "let pos = match &self.last { Some(l) => l.1.clone(), None => self.ops.pos().unwrap().clone() };" expect run
//@   mutant handler_error_position_dropped "Op::Div => self.op_div(pos)?" => "Op::Div => match self.op_div(pos) { Ok(v) => v, Err(e) => return Err(Error { message: e.message, pos: None, call_stack: e.call_stack }) }" expect run
//@   mutant handler_error_position_replaced "Op::Add => self.op_add(pos)?" => "Op::Add => decorate_error!(pos => self.op_add(pos.clone()))?" expect run
//@   mutant handler_error_call_sites_dropped "Op::FCall => self.op_fcall(pos, env)?" => "Op::FCall => match self.op_fcall(pos, env) { Ok(v) => v, Err(e) => return Err(Error { message: e.message, pos: e.pos, call_stack: Vec::new() }) }" expect run
//@   mutant index_strict_inverted "Op::Index => self.op_index(!self.runtime.strict, pos)?" => "Op::Index => self.op_index(self.runtime.strict, pos)?" expect run
//@ end

} // verus!

fn main() {}
