//@ unit fmt_consume
//@ serves C01 C04
//@ must_verify ExpressionTemplate::consume_expr lemma_depth_examples lemma_group_unique
//@ include prelude/head.rs
use std::rc::Rc;

verus! {
//@ include prelude/core.rs
//@ opaque Expression VBoxError

// ---------- reference reading of the `{ ... }` group after an unescaped `@` in an expression template ----------
// The embedded expression is the text between the `{` that follows the `@` and the `}` that matches it (braces nest,
// inner braces belong to the text); reading of the template continues right after that `}`. An `@` that is not followed
// by a brace group holds no expression: the template is refused.
pub open spec fn brace_delta(c: char) -> int { if c == '{' { 1 } else if c == '}' { -1int } else { 0 } }
// nesting depth after the first i characters of s
pub open spec fn depth(s: Seq<char>, i: int) -> int
    decreases i
{
    if i <= 0 { 0 } else { depth(s, i - 1) + brace_delta(s[i - 1]) }
}
// every proper prefix 1..=j (j < k) is inside the group
pub open spec fn inside(s: Seq<char>, k: int) -> bool { forall|j: int| 1 <= j < k ==> depth(s, j) >= 1 }

pub open spec fn tkn(s0: Seq<char>, rest: Seq<char>) -> int { s0.len() - rest.len() }
// sequence algebra the loop needs (proved before the loop, carried as an invariant: no hints inside the real body)
pub open spec fn seq_facts(s: Seq<char>) -> bool {
    &&& forall|t: int| 0 <= t < s.len() ==> #[trigger] s.skip(t).drop_first() == s.skip(t + 1)
    &&& forall|t: int| 1 <= t < s.len() ==> #[trigger] s.subrange(1, t).push(s[t]) == s.subrange(1, t + 1)
    &&& (s.len() >= 1 ==> s.subrange(1, 1) == Seq::<char>::empty())
}

// what consume_expr's postcondition says about the number k of characters taken from a text that starts with `{`
pub open spec fn is_group_end(s: Seq<char>, k: int) -> bool {
    &&& 1 <= k <= s.len()
    &&& inside(s, k)
    &&& (k < s.len() ==> depth(s, k) == 0)
    &&& (depth(s, k) != 0 ==> k == s.len())
}
// ... determines k: the reader is a FUNCTION of the remaining text (what unit fmt_template assumes of it as ce_take / ce_ok)
proof fn lemma_group_unique(s: Seq<char>, k1: int, k2: int)
    requires is_group_end(s, k1), is_group_end(s, k2)
    ensures k1 == k2
{
    if k1 < k2 {
        assert(depth(s, k1) == 0);
        assert(depth(s, k1) >= 1);
    }
    if k2 < k1 {
        assert(depth(s, k2) == 0);
        assert(depth(s, k2) >= 1);
    }
}

proof fn lemma_depth_examples()
    ensures
        depth(seq!['{', 'a', '}'], 3) == 0, depth(seq!['{', 'a', '}'], 2) == 1,
        depth(seq!['{', '{', '}', '}', 'x'], 4) == 0, depth(seq!['{', '{', '}', '}', 'x'], 3) == 1,
{
    reveal_with_fuel(depth, 6);
}

// `s.chars()` as an explicit iterator value
pub struct VChars { pub rest: Vec<char> }
impl VChars {
    #[verifier::external_body]
    pub fn next(&mut self) -> (r: Option<char>)
        ensures
            old(self).rest@.len() > 0 ==> r == Some(old(self).rest@[0]) && final(self).rest@ == old(self).rest@.drop_first(),
            old(self).rest@.len() == 0 ==> r is None && final(self).rest@ == old(self).rest@,
    { unimplemented!() }
}

// the tokenizer + expression parser run on the group's text (R8; units tokenizer*, prec*): ASSUMED to be a function of the
// text; the empty text is not an expression
pub uninterp spec fn text_ok(t: Seq<char>) -> bool;
pub uninterp spec fn expr_text(e: Expression) -> Seq<char>;
#[verifier::external_body]
pub proof fn axiom_empty_text_is_no_expression()
    ensures !text_ok(Seq::<char>::empty())
{ }
#[verifier::external_body]
pub fn verif_parse_expr_text(text: String) -> (r: Result<Expression, VBoxError>)
    ensures r is Ok <==> text_ok(text@), r matches Ok(e) ==> expr_text(e) == text@
{ unimplemented!() }

pub struct ExpressionTemplate();

//@ extract src/build/format.rs :: impl ExpressionTemplate :: fn consume_expr
//@   subst "iter: &mut Chars" => "iter: &mut VChars"
//@   subst "Result<Expression, Box<dyn Error>>" => "Result<Expression, VBoxError>"
//@   subst "let mut brace_count = 0;" => "let mut brace_count: i32 = 0;"
//@   subst "for c in iter.by_ref() {" => "while let Some(c) = iter.next() {"
//@   subst "let str_iter = iter::OffsetStrIter::new(&result); let toks = match tokenizer::tokenize(str_iter, None) { Ok(toks) => toks, Err(e) => { return Err(Box::new(simple_error::SimpleError::new(format!( \"Invalid expression in format string: {}\", e )))); } }; let i = SliceIter::new(&toks); match parse::expression(i) { ParseResult::Complete(_, expr) => Ok(expr), ParseResult::Abort(e) | ParseResult::Fail(e) => { Err(Box::new(simple_error::SimpleError::new(format!( \"Invalid expression in format string: {}\", e )))) } ParseResult::Incomplete(_ei) => Err(Box::new(simple_error::SimpleError::new( \"Incomplete expression in format string\", ))), }" => "verif_parse_expr_text(result)"
//@   ret r
//@   sig <<<
        requires
            // caller obligation: templates are shorter than 2 GiB (the nesting counter is an i32)
            old(iter).rest@.len() < 0x7fff_ffff,
        ensures
            // only a prefix is taken
            exists|k: int| 0 <= k <= old(iter).rest@.len() && final(iter).rest@ == old(iter).rest@.skip(k),
            // no brace group: refused (one character is taken at most)
            old(iter).rest@.len() == 0 || (old(iter).rest@[0] != '{' && old(iter).rest@[0] != '}') ==> r is Err
                && old(iter).rest@.len() - final(iter).rest@.len() <= 1,
            // a brace group: exactly the group is taken, the expression is read from the text between the outer braces
            old(iter).rest@.len() > 0 && old(iter).rest@[0] == '{' ==> ({
                let s = old(iter).rest@;
                let k = s.len() - final(iter).rest@.len();
                &&& is_group_end(s, k)          // determines k (lemma_group_unique)
                &&& 1 <= k <= s.len()
                &&& inside(s, k)
                &&& (k < s.len() ==> depth(s, k) == 0)
                &&& (depth(s, k) == 0 ==> k >= 2 && (r is Ok <==> text_ok(s.subrange(1, k - 1))) && (r matches Ok(e) ==> expr_text(e) == s.subrange(1, k - 1)))
                &&& (depth(s, k) != 0 ==> k == s.len() && (r is Ok <==> text_ok(s.subrange(1, k))))
            }),
//@   >>>
//@   loop 1 <<<
            invariant_except_break
                brace_count as int == depth(s0@, tkn(s0@, iter.rest@)),
                s0@.len() > 0 && s0@[0] == '{' ==> inside(s0@, tkn(s0@, iter.rest@) + 1)
                    && (tkn(s0@, iter.rest@) >= 1 ==> result@ == s0@.subrange(1, tkn(s0@, iter.rest@)))
                    && (tkn(s0@, iter.rest@) == 0 ==> result@ =~= Seq::<char>::empty()),
                (s0@.len() == 0 || (s0@[0] != '{' && s0@[0] != '}')) ==> tkn(s0@, iter.rest@) == 0 && result@ =~= Seq::<char>::empty(),
                -tkn(s0@, iter.rest@) <= depth(s0@, tkn(s0@, iter.rest@)) <= tkn(s0@, iter.rest@),
            invariant
                s0@.len() < 0x7fff_ffff,
                seq_facts(s0@),
                0 <= tkn(s0@, iter.rest@) <= s0@.len(),
                iter.rest@ == s0@.skip(tkn(s0@, iter.rest@)),
            ensures
                0 <= tkn(s0@, iter.rest@) <= s0@.len(),
                iter.rest@ == s0@.skip(tkn(s0@, iter.rest@)),
                s0@.len() == 0 || (s0@[0] != '{' && s0@[0] != '}') ==> tkn(s0@, iter.rest@) <= 1 && result@ =~= Seq::<char>::empty(),
                s0@.len() > 0 && s0@[0] == '{' ==> ({
                    let taken = tkn(s0@, iter.rest@);
                    &&& 1 <= taken
                    &&& inside(s0@, taken)
                    &&& (taken < s0@.len() ==> depth(s0@, taken) == 0)
                    &&& (depth(s0@, taken) == 0 ==> taken >= 2 && result@ == s0@.subrange(1, taken - 1))
                    &&& (depth(s0@, taken) != 0 ==> taken == s0@.len() && result@ == s0@.subrange(1, taken))
                }),
            decreases iter.rest@.len()
//@   >>>
//@   before "while let" <<<
        let s0: Ghost<Seq<char>> = Ghost(iter.rest@);
        proof {
            axiom_empty_text_is_no_expression();
            assert(s0@.skip(0) =~= s0@);
            assert forall|t: int| 0 <= t < s0@.len() implies #[trigger] s0@.skip(t).drop_first() == s0@.skip(t + 1) by {
                assert(s0@.skip(t).drop_first() =~= s0@.skip(t + 1));
            }
            assert forall|t: int| 1 <= t < s0@.len() implies #[trigger] s0@.subrange(1, t).push(s0@[t]) == s0@.subrange(1, t + 1) by {
                assert(s0@.subrange(1, t).push(s0@[t]) =~= s0@.subrange(1, t + 1));
            }
            assert(s0@.len() >= 1 ==> s0@.subrange(1, 1) =~= Seq::<char>::empty());
        }
//@   >>>
//@   mutant ce_no_nesting "if c == '}' { brace_count -= 1; }" => "if c == '}' { brace_count = 0; }" expect consume_expr
//@   mutant ce_keeps_open_brace "if brace_count == 1 { continue; }" => "" expect consume_expr
//@   mutant ce_stop_late "if brace_count == 0 { break; } result.push(c);" => "result.push(c); if brace_count == 0 { break; }" expect consume_expr
//@ end

} // verus!
fn main() {}
