//@ unit env_caches
//@ serves C16
//@ must_verify OpPointer::new OpPointer::set_path Ops::new Ops::entry Entry::get_pointer_or_else Checker::new Checker::with_working_dir Checker::with_shape_cache Checker::result Environment::get_ops_for_path Environment::add_ops_for_path_and_content Environment::get_cached_path_val Environment::update_path_val Environment::get_out_lock_for_path Environment::set_out_lock_for_path Environment::reset_out_lock_for_path
//@ include prelude/head.rs
use std::rc::Rc;

verus! {
//@ include prelude/core.rs
//@ opaque Value Shape OpsMap ConverterRegistry ImporterRegistry AssertCollector Stdout Stderr Statement CommentMap ErrorType Position
//@ clone_spec Position
impl Position {
    #[verifier::external_body]
    pub fn new(line: usize, column: usize, offset: usize) -> Self { unimplemented!() }
}

//@ include prelude/env_caches_world.rs

// ---------- errors: only constructed, converted and propagated here (R5); message text dropped (R1) ----------
#[verifier::external_body]
pub struct Error { _p: u8 }
impl Error {
    #[verifier::external_body]
    pub fn new(msg: String, pos: Position) -> Self { unimplemented!() }
}
// crate::error::BuildError without its `cause: Option<Box<dyn Error>>` (dyn; never read by the code under contract)
pub struct BuildError {
    pub err_type: ErrorType,
    pub pos: Option<Position>,
    pub msg: String,
}
impl From<IoError> for Error {
    #[verifier::external_body]
    fn from(e: IoError) -> (r: Error) { unimplemented!() }
}
impl From<BuildError> for Error {
    #[verifier::external_body]
    fn from(e: BuildError) -> (r: Error) { unimplemented!() }
}

// ---------- opcode/pointer.rs: the handle handed out for a compiled file ----------
//@ extract src/build/opcode/pointer.rs :: struct OpPointer
//@   rule R0
//@ end
//@ extract src/build/opcode/pointer.rs :: impl OpPointer :: fn new
//@   ret r
//@   sig <<<
        ensures r.pos_map == ops, r.ptr is None, r.path is None
//@   >>>
//@ end
//@ extract src/build/opcode/pointer.rs :: impl OpPointer :: fn set_path
//@   sig <<<
        ensures final(self).path == Some(path), final(self).pos_map == old(self).pos_map, final(self).ptr == old(self).ptr
//@   >>>
//@ end

// A pointer to the start of the compiled file `ops`, labelled with the path `tag`
pub open spec fn fresh_pointer(p: OpPointer, ops: Rc<OpsMap>, tag: Seq<char>) -> bool {
    p.pos_map == ops && p.ptr is None && (p.path matches Some(q) && q@ == tag)
}

// THE CACHE CONTRACT (whole map, both directions). `m0`/`m1`: the cache before/after; `key`: the slot looked up;
// `load(res)`: "res is what the computation for this key yields" (the closure's postcondition).
//   hit  => the STORED ops are handed out (the same Rc), the cache is unchanged (and, by the precondition of
//           get_pointer_or_else, the computation cannot have been run: nothing is known about its precondition);
//   miss => the computation ran: on Ok(o) the cache gains exactly key |-> o and the pointer handed out is to that very
//           entry; on Err(e) the very error is returned and the cache is unchanged - no entry is left behind.
pub open spec fn cache_post(
    key: Seq<char>, m0: Map<Seq<char>, Rc<OpsMap>>, m1: Map<Seq<char>, Rc<OpsMap>>,
    load: spec_fn(Result<OpsMap, Error>) -> bool, tag: Seq<char>, r: Result<OpPointer, Error>,
) -> bool {
    if m0.contains_key(key) {
        &&& m1 =~= m0
        &&& r matches Ok(p) && fresh_pointer(p, m0[key], tag)
    } else {
        match r {
            Ok(p) => load(Ok(*p.pos_map)) && m1 =~= m0.insert(key, p.pos_map) && fresh_pointer(p, p.pos_map, tag),
            Err(e) => load(Err(e)) && m1 =~= m0,
        }
    }
}

// ---------- opcode/cache.rs: the whole file ----------
pub mod cache {
    use super::*;
//@ extract src/build/opcode/cache.rs :: struct Ops
//@   rule R0 RV
//@ end
//@ extract src/build/opcode/cache.rs :: struct Entry
//@   rule R0
//@   subst "Entry<'a>(btree_map::Entry" => "Entry<'a>(pub btree_map::Entry"
//@ end
//@ extract src/build/opcode/cache.rs :: impl Ops :: fn new
//@   ret r
//@   sig <<<
        ensures r.ops@ == Map::<Seq<char>, Rc<OpsMap>>::empty()
//@   >>>
//@ end
//@ extract src/build/opcode/cache.rs :: impl Ops :: fn entry
//@   subst "P: Into<PathBuf>>" => "P: vinto::VIntoPathBuf>"
//@   ret r
//@   sig <<<
        ensures
            r.0.wf(), r.0.key() == path.pview(),
            r.0.cur() == old(self).ops@, r.0.fin() == final(self).ops@,
//@   >>>
//@   mutant entry_for_another_key "self.ops.entry(path.into())" => "self.ops.entry(PathBuf::from(\"\"))" expect entry
//@ end
//@ extract src/build/opcode/cache.rs :: impl * Entry<'a> :: fn get_pointer_or_else
//@   subst "P: Into<PathBuf>>" => "P: vinto::VIntoPathBuf>"
//@   ret r
//@   sig <<<
        requires
            self.0.wf(),
            // only on a miss may the computation be started
            self.0 is Vacant ==> f.requires(()),
        ensures
            cache_post(self.0.key(), self.0.cur(), self.0.fin(), |res: Result<OpsMap, Error>| f.ensures((), res), path.pview(), r),
//@   >>>
//@   mutant closure_called_on_hit "btree_map::Entry::Occupied(e) => e.get().clone()," => "btree_map::Entry::Occupied(e) => { let fresh = f(); match fresh { Ok(o) => Rc::new(o), Err(_) => e.get().clone() } }" expect get_pointer_or_else
//@   mutant error_leaves_empty_entry "let v = Rc::new(f()?);" => "let v = match f() { Ok(o) => Rc::new(o), Err(err) => { e.insert(Rc::new(OpsMap::new())); return Err(err); } };" expect get_pointer_or_else
//@   mutant miss_not_stored "e.insert(v.clone());" => "" expect get_pointer_or_else
//@   mutant pointer_to_a_copy_not_the_entry "e.insert(v.clone()); v" => "e.insert(v.clone()); Rc::new(OpsMap::new())" expect get_pointer_or_else
//@ end
}

// ---------- the front end behind a cache miss: parser, type checker, translator (R8: outside the unit) ----------
// Each stage is an UNINTERPRETED function of what it is handed; what is verified is how the code under contract
// composes them (which path is read, in which order, how failures propagate) - `compile` below.
pub struct OffsetStrIter<'a> { pub text: Ghost<Seq<char>>, pub file: Ghost<Option<Seq<char>>>, pub _p: core::marker::PhantomData<&'a u8> }
impl<'a> OffsetStrIter<'a> {
    #[verifier::external_body]
    pub fn new(input: &'a str) -> (r: Self) ensures r.text@ == input@, r.file@ is None { unimplemented!() }
    #[verifier::external_body]
    pub fn with_src_file<Q: vinto::VIntoPathBuf>(self, file: Q) -> (r: Self)
        ensures r.text@ == self.text@, r.file@ == Some(file.pview())
    { unimplemented!() }
}
// crate::parse::parse: the statements of a source text (None: a syntax error); the file name only labels positions
pub uninterp spec fn spec_parse(text: Seq<char>, file: Option<Seq<char>>) -> Option<Seq<Statement>>;
#[verifier::external_body]
pub fn parse<'a>(input: OffsetStrIter<'a>, comment_map: Option<&mut CommentMap>) -> (r: Result<Vec<Statement>, BuildError>)
    ensures match spec_parse(input.text@, input.file@) { Some(s) => r matches Ok(v) && v@ == s, None => r is Err }
{ unimplemented!() }

// opcode/translate.rs AST::translate: a function of (statements, directory of the file)
pub uninterp spec fn spec_translate(stmts: Seq<Statement>, root: Seq<char>) -> OpsMap;
pub mod translate {
    use super::*;
    pub struct AST();
    impl AST {
        #[verifier::external_body]
        pub fn translate<Q: VAsRefPath>(stmts: Vec<Statement>, root: &Q) -> (r: OpsMap)
            ensures r == spec_translate(stmts@, root.pview())
        { unimplemented!() }
    }
}
impl OpsMap {
    #[verifier::external_body]
    pub fn new() -> Self { unimplemented!() }
}

// ---------- ast/typecheck: the Checker as the Environment drives it ----------
pub type ShapeCache = Rc<RefCell<BTreeMap<PathBuf, Shape>>>;
impl<T> RefCell<T> {
    #[verifier::external_body]
    pub fn new(t: T) -> Self { unimplemented!() }
}
//@ extract src/ast/typecheck/mod.rs :: struct Checker
//@   rule R0 RV
//@ end
// what a Checker is, up to the identity of its containers
pub struct CkState {
    pub symbols: Map<Seq<char>, Shape>,
    pub errs: Seq<BuildError>,
    pub shapes: Seq<Shape>,
    pub depth: usize,
    pub strict: bool,
    pub dir: Option<Seq<char>>,
    pub cache: ShapeCache,
    pub istack: Seq<Seq<char>>,
}
pub open spec fn path_texts(s: Seq<PathBuf>) -> Seq<Seq<char>> { Seq::new(s.len(), |k: int| s[k]@) }
impl Checker {
    pub open spec fn st(self) -> CkState {
        CkState {
            symbols: self.symbol_table@, errs: self.err_stack@, shapes: self.shape_stack@, depth: self.nested_depth,
            strict: self.strict, dir: match self.working_dir { Some(d) => Some(d@), None => None },
            cache: self.shape_cache, istack: path_texts(self.import_stack@),
        }
    }
}
// the state `Checker::new().with_working_dir(root).with_shape_cache(cache)` is in
pub open spec fn root_checker(root: Seq<char>, cache: ShapeCache) -> CkState {
    CkState {
        symbols: Map::empty(), errs: Seq::empty(), shapes: Seq::empty(), depth: 0, strict: true, dir: Some(root),
        cache: cache, istack: path_texts(Seq::empty()),
    }
}
//@ extract src/ast/typecheck/mod.rs :: impl Checker :: fn new
//@   ret r
//@   sig <<<
        ensures
            r.symbol_table@ =~= Map::<Seq<char>, Shape>::empty(), r.err_stack@ =~= Seq::<BuildError>::empty(),
            r.shape_stack@ =~= Seq::<Shape>::empty(), r.nested_depth == 0, r.strict, r.working_dir is None,
            r.import_stack@ =~= Seq::<PathBuf>::empty(),
//@   >>>
//@ end
//@ extract src/ast/typecheck/mod.rs :: impl Checker :: fn with_working_dir
//@   rule R4
//@   subst "P: Into<PathBuf>>" => "P: vinto::VIntoPathBuf>"
//@   ret r
//@   sig <<<
        ensures r.st() == (CkState { dir: Some(dir.pview()), ..self.st() })
//@   >>>
//@ end
//@ extract src/ast/typecheck/mod.rs :: impl Checker :: fn with_shape_cache
//@   rule R4
//@   ret r
//@   sig <<<
        ensures r.st() == (CkState { cache: cache, ..self.st() })
//@   >>>
//@ end
//@ extract src/ast/typecheck/mod.rs :: impl Checker :: fn result
//@   ret r
//@   sig <<<
        ensures match r {
            Ok(t) => self.err_stack@.len() == 0 && t == self.symbol_table,
            Err(e) => self.err_stack@.len() > 0 && e == self.err_stack@[0],
        }
//@   >>>
//@ end

// Walker::walk_statement_list (ast/walk.rs) driving the Checker's visitor over a file (R8: the whole type checker).
// ASSUMED: a function of (the checker's state, the statements); it may rewrite the statements.
// NOT MODELLED HERE: that the checker reads and fills the shared shape cache behind `cache` (interior mutability).
// The outcome is assumed not to depend on what the cell holds - that is the coherence of the shape cache, whose
// one-step kernel is the contract of Checker::resolve_import below; the induction over the import graph is not done.
pub uninterp spec fn spec_walk(c: CkState, stmts: Seq<Statement>) -> (CkState, Seq<Statement>);
impl Checker {
    #[verifier::external_body]
    pub fn walk_statement_list(&mut self, stmts: &mut Vec<Statement>)
        ensures (final(self).st(), final(stmts)@) == spec_walk(old(self).st(), old(stmts)@)
    { unimplemented!() }
}
pub mod ast {
    pub use super::Position;
    pub mod typecheck { pub use super::super::Checker; }
}

// ---------- what a cache miss computes ----------
// get_ops_for_path's closure: read, parse, type check, translate the file `path` names
pub open spec fn compile(cache: ShapeCache, path: Seq<char>) -> Option<OpsMap> {
    match spec_parent(path) {
        None => None,
        Some(root) => match fs_text(path) {
            None => None,
            Some(text) => match spec_parse(text, Some(path)) {
                None => None,
                Some(stmts) => {
                    let checked = spec_walk(root_checker(root, cache), stmts);
                    if checked.0.errs.len() == 0 { Some(spec_translate(checked.1, root)) } else { None }
                },
            },
        },
    }
}
// add_ops_for_path_and_content's closure: parse and translate the given text under the name `path` (no type check)
pub open spec fn compile_text(path: Seq<char>, text: Seq<char>) -> Option<OpsMap> {
    match spec_parent(path) {
        None => None,
        Some(root) => match spec_parse(text, Some(path)) {
            None => None,
            Some(stmts) => Some(spec_translate(stmts, root)),
        },
    }
}
pub open spec fn yields(want: Option<OpsMap>, res: Result<OpsMap, Error>) -> bool {
    match want { Some(o) => res matches Ok(got) && got == o, None => res is Err }
}

// ---------- the shared environment ----------
pub mod environment {
    use super::*;
//@ extract src/build/opcode/environment.rs :: struct Environment
//@   rule R0
//@   subst "Environment<Stdout, Stderr> where Stdout: Write + Clone, Stderr: Write + Clone," => "Environment"
//@ end

// everything but the three caches and the lock set
pub open spec fn rest_frame(a: Environment, b: Environment) -> bool {
    a.converter_registry == b.converter_registry && a.importer_registry == b.importer_registry
    && a.assert_results == b.assert_results && a.stdout == b.stdout && a.stderr == b.stderr && a.env_vars == b.env_vars
}

//@ extract src/build/opcode/environment.rs :: impl * Environment<Stdout, Stderr> :: fn get_cached_path_val
//@   impl_header impl Environment
//@   ret r
//@   sig <<<
        ensures match r {
            Some(v) => self.val_cache@.contains_key(path@) && v == self.val_cache@[path@],
            None => !self.val_cache@.contains_key(path@),
        }
//@   >>>
//@   body_start <<<
        broadcast use clax::group_clone_axioms;
//@   >>>
//@ end
//@ extract src/build/opcode/environment.rs :: impl * Environment<Stdout, Stderr> :: fn update_path_val
//@   impl_header impl Environment
//@   sig <<<
        ensures
            final(self).val_cache@ == old(self).val_cache@.insert(path@, val),
            final(self).op_cache == old(self).op_cache, final(self).shape_cache == old(self).shape_cache,
            final(self).out_lock == old(self).out_lock, rest_frame(*old(self), *final(self)),
//@   >>>
//@   body_start <<<
        broadcast use clax::group_clone_axioms;
//@   >>>
//@ end
//@ extract src/build/opcode/environment.rs :: impl * Environment<Stdout, Stderr> :: fn get_out_lock_for_path
//@   impl_header impl Environment
//@   subst "<P: AsRef<Path>>" => "<P: VAsRefPath>"
//@   ret r
//@   sig <<<
        ensures r == self.out_lock@.contains(path.pview())
//@   >>>
//@ end
//@ extract src/build/opcode/environment.rs :: impl * Environment<Stdout, Stderr> :: fn set_out_lock_for_path
//@   impl_header impl Environment
//@   subst "<P: Into<PathBuf>>" => "<P: vinto::VIntoPathBuf>"
//@   sig <<<
        ensures
            final(self).out_lock@ == old(self).out_lock@.insert(path.pview()),
            final(self).op_cache == old(self).op_cache, final(self).shape_cache == old(self).shape_cache,
            final(self).val_cache == old(self).val_cache, rest_frame(*old(self), *final(self)),
//@   >>>
//@ end
//@ extract src/build/opcode/environment.rs :: impl * Environment<Stdout, Stderr> :: fn reset_out_lock_for_path
//@   impl_header impl Environment
//@   subst "<P: AsRef<Path>>" => "<P: VAsRefPath>"
//@   sig <<<
        ensures
            final(self).out_lock@ == old(self).out_lock@.remove(path.pview()),
            final(self).op_cache == old(self).op_cache, final(self).shape_cache == old(self).shape_cache,
            final(self).val_cache == old(self).val_cache, rest_frame(*old(self), *final(self)),
//@   >>>
//@ end

// THE CONTRACT of a lookup in the opcode cache through the environment: the cache contract for the slot `path`, the
// computation being the compilation of THE SAME path; nothing else in the environment is touched.
pub open spec fn ops_post(e0: Environment, e1: Environment, path: Seq<char>, r: Result<OpPointer, Error>) -> bool {
    &&& cache_post(path, e0.op_cache.ops@, e1.op_cache.ops@,
            |res: Result<OpsMap, Error>| yields(compile(e0.shape_cache, path), res), path, r)
    &&& e1.val_cache == e0.val_cache && e1.shape_cache == e0.shape_cache && e1.out_lock == e0.out_lock
    &&& rest_frame(e0, e1)
}

//@ extract src/build/opcode/environment.rs :: impl * Environment<Stdout, Stderr> :: fn get_ops_for_path
//@   impl_header impl Environment
//@   rule R1
//@   subst "P: Into<PathBuf> + Clone," => "P: vinto::VIntoPathBuf + Clone,"
//@   subst "checker.walk_statement_list(stmts.iter_mut().collect())" => "checker.walk_statement_list(&mut stmts)"
//@   ret r
//@   sig <<<
        ensures ops_post(*old(self), *final(self), path.pview(), r)
//@   >>>
//@   body_start <<<
        broadcast use vinto::axiom_cloned_pview;
        let ghost key = path.pview();
        let ghost sc0 = self.shape_cache;
//@   >>>
//@   after "get_pointer_or_else( ||" <<<
            -> (res: Result<OpsMap, Error>) ensures yields(compile(sc0, key), res)
//@   >>>
//@ end
}

} // verus!

fn main() {}
