// ---- prelude/map_yaml_models.rs: the part of the pinned serde_yaml (0.9.x, see Cargo.lock) that
// src/convert/yaml.rs builds values with (inside verus!) ----
// needs: prelude/map_json_data.rs
pub mod serde_yaml {
    use vstd::prelude::*;
    use super::*;

    // ---------- Number ----------
    // serde_yaml/src/number.rs: `struct Number { n: N }`, `enum N { PosInt(u64), NegInt(i64), Float(f64) }`
    // ("Float: may be infinite or NaN").  Seen from an i64/f64 producer that is:
    pub enum NumV { Int(i64), Float(f64) }

    #[verifier::external_body]
    pub struct Number { _p: u8 }
    impl Number {
        pub uninterp spec fn view(&self) -> NumV;
    }

    // serde_yaml::Error, value::TaggedValue: only mentioned, never built by yaml.rs's converter half (R5).
    #[verifier::external_body]
    pub struct Error { _p: u8 }
    #[verifier::external_body]
    pub struct TaggedValue { _p: u8 }

    // ---------- to_value ----------
    // value/mod.rs `pub fn to_value<T: Serialize>(value: T) -> Result<Value, Error> { value.serialize(Serializer) }`
    // value/ser.rs  `fn serialize_i64(self, v: i64) -> Result<Value> { Ok(Value::Number(Number::from(v))) }`
    //               `fn serialize_f64(self, v: f64) -> Result<Value> { Ok(Value::Number(Number::from(v))) }`
    // number.rs     `from_signed!(.. i64 ..)`: `if i < 0 { N::NegInt(i as i64) } else { N::PosInt(i as u64) }` - the
    //               integer itself; `impl From<f64>`: `if f.is_nan() { f = f64::NAN.copysign(1.0); } N::Float(f)`
    //               ("Destroy NaN sign, signaling, and payload. YAML only has one NaN.") - any other float,
    //               infinities included, is kept.  Neither ever fails.
    // (R7: T is `i64` or `f64` at yaml.rs's call sites; the trait stands for `Serialize` on those two.)
    pub trait YamlNum: Sized {
        spec fn yaml_num(self) -> NumV;
    }
    impl YamlNum for i64 {
        open spec fn yaml_num(self) -> NumV { NumV::Int(self) }
    }
    impl YamlNum for f64 {
        open spec fn yaml_num(self) -> NumV { NumV::Float(float_node(Fmt::Yaml, self)) }
    }
    #[verifier::external_body]
    pub fn to_value<T: YamlNum>(value: T) -> (r: Result<Value, Error>)
        ensures r is Ok && r->Ok_0 is Number && r->Ok_0->Number_0@ == value.yaml_num()
    { unimplemented!() }

    // ---------- Mapping ----------
    // serde_yaml/src/mapping.rs: `pub struct Mapping { map: IndexMap<Value, Value> }`: an insertion-ordered map
    // with unique keys.  The model covers mappings whose keys are strings (all that yaml.rs builds: `insert`
    // below requires it) and views one as the key texts in iteration order + a finite map key text -> value.
    // (Transparent only so that values inside a Mapping count as structurally smaller than the Mapping.)
    pub struct Mapping { pub keys: Ghost<Seq<Seq<char>>>, pub g: Ghost<vstd::map::Map<Seq<char>, Value>> }

    impl Mapping {
        pub open spec fn view(&self) -> vstd::map::Map<Seq<char>, Value> { self.g@ }

        // mapping.rs `pub fn new() -> Self { Self::default() }`: "Creates an empty YAML map."
        #[verifier::external_body]
        pub fn new() -> (r: Self)
            ensures r@ == vstd::map::Map::<Seq<char>, Value>::empty(), r.keys@ == Seq::<Seq<char>>::empty()
        { unimplemented!() }

        // mapping.rs `pub fn insert(&mut self, k: Value, v: Value) -> Option<Value> { self.map.insert(k, v) }`
        // indexmap `IndexMap::insert`: "If an equivalent key already exists in the map: the key remains and
        // retains in its place in the order, its corresponding value is updated with `value` [...] If no
        // equivalent key existed in the map: the new key-value pair is inserted, last in order".
        // LAST INSERT WINS, at the position of the first.  The returned old value is not used by yaml.rs and
        // is not modelled.
        #[verifier::external_body]
        pub fn insert(&mut self, k: Value, v: Value) -> (r: Option<Value>)
            requires k is String
            ensures
                final(self)@ == old(self)@.insert(k->String_0@, v),
                final(self).keys@ == (if old(self).keys@.contains(k->String_0@) { old(self).keys@ } else { old(self).keys@.push(k->String_0@) }),
        { unimplemented!() }
    }

    // ---------- Value: the dependency's public enum and its payload alias, verbatim ----------
    //@ extract dep:serde_yaml/src/value/mod.rs :: enum Value
    //@   rule R0
    //@ end
    //@ extract dep:serde_yaml/src/value/mod.rs :: type Sequence
    //@   rule R0
    //@ end
}

// ---------- what a decoder sees in a serde_yaml::Value ----------
// ASSUMPTION (DESIGN §5 C03): `serde_yaml::to_writer` prints this view faithfully and independent decoders
// agree on it.
pub open spec fn yview(j: serde_yaml::Value) -> D
    decreases j, 0int
{
    match j {
        serde_yaml::Value::Null => D::Null,
        serde_yaml::Value::Bool(b) => D::Bool(b),
        serde_yaml::Value::Number(n) => match n@ {
            serde_yaml::NumV::Int(i) => D::Int(i),
            serde_yaml::NumV::Float(f) => D::Float(f),
        },
        serde_yaml::Value::String(s) => D::Str(s@),
        serde_yaml::Value::Sequence(a) => D::List(ylist(a@)),
        serde_yaml::Value::Mapping(m) => D::Obj(yobj(m@)),
        serde_yaml::Value::Tagged(_) => D::Other,
    }
}

// a sequence: element-wise, same order
pub open spec fn ylist(a: Seq<serde_yaml::Value>) -> Seq<D>
    decreases a, 1int
{
    Seq::new(a.len(), |i: int| if 0 <= i < a.len() { yview(a[i]) } else { D::Null })
}

// a mapping: same keys, value-wise
pub open spec fn yobj(m: vstd::map::Map<Seq<char>, serde_yaml::Value>) -> Map<Seq<char>, D>
    decreases m, 1int
{
    Map::new(m.dom(), |k: Seq<char>| if m.dom().contains(k) { yview(m[k]) } else { D::Null })
}

// the shape of every contract below: Ok(j) exactly when the oracle has a tree, and then j's view IS that
// tree; Err exactly when the oracle says "must be an error"
pub open spec fn yaml_agrees(want: Option<D>, r: std::io::Result<serde_yaml::Value>) -> bool {
    match r {
        Ok(j) => want == Some(yview(j)),
        Err(_) => want is None,
    }
}

// ---------- key order (more than C03 asks: "same key set") ----------
// the names in order of first occurrence
pub open spec fn first_occurrences(names: Seq<Seq<char>>) -> Seq<Seq<char>>
    decreases names.len()
{
    if names.len() == 0 {
        Seq::<Seq<char>>::empty()
    } else {
        let p = first_occurrences(names.drop_last());
        if p.contains(names.last()) { p } else { p.push(names.last()) }
    }
}

pub open spec fn tuple_names(t: Seq<(Rc<str>, Rc<Val>)>, n: int) -> Seq<Seq<char>> {
    Seq::new(n as nat, |i: int| t[i].0@)
}

pub open spec fn env_names(e: Seq<(Rc<str>, Rc<str>)>, n: int) -> Seq<Seq<char>> {
    Seq::new(n as nat, |i: int| e[i].0@)
}

// the mapping lists its keys in this order
pub open spec fn yaml_key_order(r: std::io::Result<serde_yaml::Value>, order: Seq<Seq<char>>) -> bool {
    r is Ok ==> r->Ok_0 is Mapping && r->Ok_0->Mapping_0.keys@ == order
}
