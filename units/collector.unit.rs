//@ unit collector
//@ serves C13
//@ must_verify AssertCollector::new AssertCollector::record_assert_result lemma_entries_push lemma_failures_all_ok
//@ include prelude/head.rs

verus! {
//@ include prelude/core.rs
//@ include prelude/collector_model.rs

} // verus!

fn main() {}
