//@ unit constraint_rt
//@ serves C06 C04
//@ must_verify ConstraintVal::check ConstraintVal::contains_self_ref Val::equal Val::contains_empty_constraint verif_any
//@ include prelude/head.rs
use std::rc::Rc;

verus! {
//@ include prelude/core.rs
//@ include prelude/constraint_rt_models.rs
//@ include prelude/constraint_rt_ir.rs

// R9: the element loops of the List / Tuple arms use `.iter().enumerate()` (no Verus model) and recurse;
// they are replaced by stubs whose result is an uninterpreted function of the two containers. The length
// test in front of each loop stays verified.
#[verifier::external_body]
fn verif_equal_list_elems(ldef: &Vec<Rc<Val>>, rdef: &Vec<Rc<Val>>) -> (r: Result<bool, error::BuildError>)
    ensures (r matches Ok(true)) == list_elems_same(ldef@, rdef@)
{ unimplemented!() }
#[verifier::external_body]
fn verif_equal_tuple_fields(ldef: &Vec<(Rc<str>, Rc<Val>)>, rdef: &Vec<(Rc<str>, Rc<Val>)>) -> (r: Result<bool, error::BuildError>)
    ensures (r matches Ok(true)) == tuple_fields_same(ldef@, rdef@)
{ unimplemented!() }

//@ extract src/build/ir.rs :: impl Val :: fn equal
//@   rule R1 R3
//@   subst <<<
                    for (i, lv) in ldef.iter().enumerate() {
                        if !lv.equal(rdef[i].as_ref())? {
                            return Ok(false);
                        }
                    }
                    Ok(true)
//@ ===
                    verif_equal_list_elems(ldef, rdef)
//@   >>>
//@   subst <<<
                    for (i, lv) in ldef.iter().enumerate() {
                        let field_target = &rdef[i];
                        if lv.0 != field_target.0 {
                            return Ok(false);
                        } else {
                            if !lv.1.equal(field_target.1.as_ref())? {
                                return Ok(false);
                            }
                        }
                    }
                    Ok(true)
//@ ===
                    verif_equal_tuple_fields(ldef, rdef)
//@   >>>
//@   ret r
//@   sig <<<
        ensures
            // Ok(true) exactly for the same value
            (r matches Ok(true)) == val_same(*self, *target),
            // scalars of one type, and anything against NULL, are comparable; two different types are an error
            // (`check` turns the error into "not this alternative")
            (is_scalar(*self) && is_scalar(*target)) ==> (r is Ok) == (same_kind(*self, *target) || *self is Empty || *target is Empty),
            (*self is Empty || *target is Empty) ==> r is Ok,
//@   >>>
//@   mutant equal_int_ne "(Val::Int(i), Val::Int(ii)) => Ok(i == ii)" => "(Val::Int(i), Val::Int(ii)) => Ok(i != ii)" expect equal
//@   mutant equal_null_any "(_, Val::Empty) => Ok(false)" => "(_, Val::Empty) => Ok(true)" expect equal
//@ end

// Closures: Verus needs parameter types and an `ensures` on each closure (spliced by `subst`, bodies unchanged);
// `.iter().any(f)` goes through the verified model `verif_any` (R9').
//@ extract src/build/ir.rs :: impl ConstraintVal :: fn check
//@   subst "}) }" => "}}) }"
//@   subst "self.arms.iter().any(|arm| match arm {" => "verif_any(self.arms.as_slice(), |arm: &ConstraintValArm| -> (b: bool) requires decreases_to!(*self => *arm) ensures b == arm_admits(*arm, *val) { match arm {"
// the four bound closures (two per numeric type): anchors carry no comparison operator, so that a changed
// operator in the source is a failed obligation, not a lost anchor. `b_ge`/`b_le`: `>=`/`<=` of the operand type.
//@   subst all "min.is_none_or(|lo|" => "min.is_none_or(|lo| -> (b: bool) ensures b == (*v).b_ge(lo) {"
//@   subst all "lo) &&" => "lo }) &&"
//@   subst all "max.is_none_or(|hi|" => "max.is_none_or(|hi| -> (b: bool) ensures b == (*v).b_le(hi) {"
//@   subst all "hi) }" => "hi }) }"
//@   ret r
//@   sig <<<
        ensures r == check_spec(*self, *val)
        decreases *self
//@   >>>
//@   mutant int_hi_exclusive "{ *v <= hi }) } else { false } } ConstraintValArm::Range(ConstraintBound::Float(min, max))" => "{ *v < hi }) } else { false } } ConstraintValArm::Range(ConstraintBound::Float(min, max))" expect check
//@   mutant int_lo_exclusive "if let Val::Int(v) = val { min.is_none_or(|lo| -> (b: bool) ensures b == (*v).b_ge(lo) { *v >= lo })" => "if let Val::Int(v) = val { min.is_none_or(|lo| -> (b: bool) ensures b == (*v).b_ge(lo) { *v > lo })" expect check
//@   mutant float_hi_exclusive "{ *v <= hi }) } else { false } } ConstraintValArm::Exact" => "{ *v < hi }) } else { false } } ConstraintValArm::Exact" expect check
//@   mutant first_arm_only "verif_any(self.arms.as_slice()," => "verif_any(vstd::slice::slice_subrange(self.arms.as_slice(), 0, 1)," expect check
//@   mutant int_lo_hi_swapped "ConstraintValArm::Range(ConstraintBound::Int(min, max)) =>" => "ConstraintValArm::Range(ConstraintBound::Int(max, min)) =>" expect check
//@   mutant int_range_admits_float "} else { false } } ConstraintValArm::Range(ConstraintBound::Float(min, max))" => "} else { if let Val::Float(_) = val { true } else { false } } } ConstraintValArm::Range(ConstraintBound::Float(min, max))" expect check
//@   mutant named_alternative_by_equality "Val::Constraint(inner) => inner.check(val)," => "Val::Constraint(inner) => val.equal(expected).unwrap_or(false)," expect check
//@   mutant no_arms_rejects "if self.arms.is_empty() { return true; }" => "if self.arms.is_empty() { return false; }" expect check
//@ end

//@ extract src/build/ir.rs :: impl Val :: fn contains_empty_constraint
//@   subst "items.iter().any(|v| v.contains_empty_constraint())" => "verif_any(items.as_slice(), |v: &Rc<Val>| -> (b: bool) requires decreases_to!(*self => **v) ensures b == has_placeholder(**v) { v.contains_empty_constraint() })"
//@   subst "fields.iter().any(|(_, v)| v.contains_empty_constraint())" => "verif_any(fields.as_slice(), |f: &(Rc<str>, Rc<Val>)| -> (b: bool) requires decreases_to!(*self => *f.1) ensures b == has_placeholder(*f.1) { let (_, v) = f; v.contains_empty_constraint() })"
//@   ret r
//@   sig <<<
        ensures r == has_placeholder(*self)
        decreases *self
//@   >>>
//@   mutant placeholder_nonempty "Val::Constraint(cv) => cv.arms.is_empty()" => "Val::Constraint(cv) => !cv.arms.is_empty()" expect contains_empty_constraint
//@ end

//@ extract src/build/ir.rs :: impl ConstraintVal :: fn contains_self_ref
//@   subst "self.arms.iter().any(|arm| match arm {" => "verif_any(self.arms.as_slice(), |arm: &ConstraintValArm| -> (b: bool) ensures b == (*arm matches ConstraintValArm::Exact(e) && has_placeholder(*e)) { match arm {"
//@   subst "_ => false, })" => "_ => false, }})"
//@   ret r
//@   sig <<<
        ensures r == self_ref_spec(*self)
//@   >>>
//@   mutant self_ref_any_arm "_ => false, }})" => "_ => true, }})" expect contains_self_ref
//@ end

} // verus!

fn main() {}
