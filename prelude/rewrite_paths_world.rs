// ---- prelude/rewrite_paths_world.rs: std stand-ins for the import/include path rewriter (src/ast/rewrite.rs) and the
// AST walker (src/ast/walk.rs). Everything in this file is a TRUSTED MODEL of std. ----
// needs: `use std::rc::Rc;` before verus!, prelude/core.rs

// ---------- paths ----------
// A path is its text. NOTHING about std's path algebra is modelled: `is_relative`, `join`, `starts_with` are
// UNINTERPRETED functions of the texts involved (they are functions: same texts in, same answer out).
pub struct PathBuf { pub text: Ghost<Seq<char>> }
impl View for PathBuf { type V = Seq<char>; open spec fn view(&self) -> Seq<char> { self.text@ } }

pub uninterp spec fn path_is_relative(p: Seq<char>) -> bool;
pub uninterp spec fn path_join(base: Seq<char>, p: Seq<char>) -> Seq<char>;
pub uninterp spec fn path_starts_with(p: Seq<char>, prefix: Seq<char>) -> bool;
// std::path::MAIN_SEPARATOR as a string ("/" on Unix, "\" on Windows): an uninterpreted constant.
pub uninterp spec fn main_separator() -> Seq<char>;
// std `str::replace(&str, &str)`: an uninterpreted function of (text, pattern, replacement).
pub uninterp spec fn str_replace(s: Seq<char>, from: Seq<char>, to: Seq<char>) -> Seq<char>;

// `PathBuf::from(&str)` / `PathBuf::from(&String)` (std `impl<T: ?Sized + AsRef<OsStr>> From<&T> for PathBuf`): same text.
pub trait VPathText: Sized {
    spec fn ptext(&self) -> Seq<char>;
}
impl VPathText for &str { open spec fn ptext(&self) -> Seq<char> { (**self)@ } }
impl VPathText for &String { open spec fn ptext(&self) -> Seq<char> { (**self)@ } }

// `Cow<str>` of `to_string_lossy()`. ASSUMED lossless: every path the rewriter sees was made from UCG strings and
// the (Unicode) base directory the file was found under.
pub struct VCow { pub text: Ghost<Seq<char>> }
impl VCow {
    // `ToString::to_string` of a `Cow<str>`: the same text
    #[verifier::external_body]
    pub fn to_string(&self) -> (r: String) ensures r@ == self.text@ { unimplemented!() }
}

impl PathBuf {
    #[verifier::external_body]
    pub fn from<S: VPathText>(s: S) -> (r: PathBuf) ensures r@ == s.ptext() { unimplemented!() }
    // std `Path::is_relative` (through Deref)
    #[verifier::external_body]
    pub fn is_relative(&self) -> (r: bool) ensures r == path_is_relative(self@) { unimplemented!() }
    // std `Path::join`
    #[verifier::external_body]
    pub fn join(&self, p: PathBuf) -> (r: PathBuf) ensures r@ == path_join(self@, p@) { unimplemented!() }
    // std `Path::starts_with` (component-wise prefix)
    #[verifier::external_body]
    pub fn starts_with(&self, prefix: String) -> (r: bool) ensures r == path_starts_with(self@, prefix@) { unimplemented!() }
    // std `Path::to_string_lossy`
    #[verifier::external_body]
    pub fn to_string_lossy(&self) -> (r: VCow) ensures r.text@ == self@ { unimplemented!() }
}
impl Clone for PathBuf {
    #[verifier::external_body]
    fn clone(&self) -> (r: Self) ensures r == *self { unimplemented!() }
}

// `String -> Rc<str>` (`.into()`): std `impl From<String> for Rc<str>`, content preserved.
pub assume_specification [<Rc<str> as From<String>>::from] (s: String) -> (r: Rc<str>)
    ensures r@ == s@;

// R2: the two `format!` call sites of the rewriter, one stub each; the literal pieces of the format string are
// part of the stub's spec.
// `format!("{}", std::path::MAIN_SEPARATOR)`
#[verifier::external_body]
pub fn verif_fmt_main_separator() -> (r: String) ensures r@ == main_separator() { unimplemented!() }
// `format!("std{}", sep)`
#[verifier::external_body]
pub fn verif_fmt_std_prefix(sep: &String) -> (r: String) ensures r@ == "std"@ + sep@ { unimplemented!() }
// `s.replace(from, to)` on `str`
#[verifier::external_body]
pub fn verif_str_replace(s: &str, from: &str, to: &str) -> (r: String)
    ensures r@ == str_replace(s@, from@, to@)
{ unimplemented!() }

// std `Box::as_mut`: the unique reference to the boxed value.
pub assume_specification<T: ?Sized, A: std::alloc::Allocator> [<std::boxed::Box<T, A> as std::convert::AsMut<T>>::as_mut] (b: &mut std::boxed::Box<T, A>) -> (r: &mut T)
    ensures &*r == &**old(b), &*final(r) == &**final(b);
