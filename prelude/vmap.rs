// ---- prelude/vmap.rs: trusted model of std BTreeMap<Rc<str>, (Rc<Value>, Position)> (the VM symbol table) ----
// Each method states the documented std behaviour over an abstract view Map<Seq<char>, V>.
#[verifier::external_body]
pub struct VMap { m: std::collections::BTreeMap<Rc<str>, (Rc<Value>, Position)> }

impl View for VMap {
    type V = Map<Seq<char>, (Rc<Value>, Position)>;
    uninterp spec fn view(&self) -> Map<Seq<char>, (Rc<Value>, Position)>;
}

impl VMap {
    #[verifier::external_body]
    pub fn new() -> (r: Self)
        ensures r@ == Map::<Seq<char>, (Rc<Value>, Position)>::empty()
    { VMap { m: std::collections::BTreeMap::new() } }

    // `map.get(k).cloned()`
    #[verifier::external_body]
    pub fn get_cloned(&self, k: &str) -> (r: Option<(Rc<Value>, Position)>)
        ensures
            self@.contains_key(k@) ==> r == Some(self@[k@]),
            !self@.contains_key(k@) ==> r is None,
    { self.m.get(k).cloned() }

    #[verifier::external_body]
    pub fn contains_key(&self, k: &str) -> (r: bool)
        ensures r == self@.contains_key(k@)
    { self.m.contains_key(k) }

    #[verifier::external_body]
    pub fn insert(&mut self, k: Rc<str>, v: (Rc<Value>, Position)) -> (r: Option<(Rc<Value>, Position)>)
        ensures final(self)@ == old(self)@.insert(k@, v)
    { self.m.insert(k, v) }

    #[verifier::external_body]
    pub fn remove(&mut self, k: &str) -> (r: Option<(Rc<Value>, Position)>)
        ensures final(self)@ == old(self)@.remove(k@),
            old(self)@.contains_key(k@) ==> r == Some(old(self)@[k@]),
            !old(self)@.contains_key(k@) ==> r is None,
    { self.m.remove(k) }
}

impl Clone for VMap {
    #[verifier::external_body]
    fn clone(&self) -> (r: Self)
        ensures r@ == self@
    { VMap { m: self.m.clone() } }
}
