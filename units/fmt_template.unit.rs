//@ unit fmt_template
//@ serves C01 C04
//@ must_verify SimpleTemplate::parse lemma_tpl_examples ExpressionTemplate::parse lemma_pvs_push
//@ include prelude/head.rs
use std::rc::Rc;

verus! {
//@ include prelude/core.rs
//@ opaque Expression VBoxError

//@ extract src/ast/mod.rs :: enum TemplatePart
//@   rule R0
//@ end

// ---------- reference semantics of a `"..@.." % (..)` template (language reference, "Format Strings") ----------
// A template is read left to right. `@` stands for the next argument; a backslash makes the character
// that follows it stand for itself (so `\@` is a literal `@` and `\\` is a literal backslash) and is
// itself dropped; every other character stands for itself. The parts are the literal pieces between
// placeholders; placeholders are numbered 0, 1, 2 .. in order of appearance. A template without any
// placeholder is one literal piece (also when it is empty); a trailing empty literal piece is omitted.
// X(text): the expression parsed from the text that follows an `@` (see consume_expr below)
pub enum PV { S(Seq<char>), P(int), X(Seq<char>) }
// the template text an embedded expression was read from (ghost link between consume_expr's result and its input)
pub uninterp spec fn expr_src(e: Expression) -> Seq<char>;
pub open spec fn pv(p: TemplatePart) -> PV {
    match p {
        TemplatePart::Str(v) => PV::S(v@),
        TemplatePart::PlaceHolder(n) => PV::P(n as int),
        TemplatePart::Expression(e) => PV::X(expr_src(e)),
    }
}
pub struct TS { pub parts: Seq<PV>, pub buf: Seq<char>, pub esc: bool, pub n: int }
pub open spec fn ts_init() -> TS { TS { parts: Seq::empty(), buf: Seq::empty(), esc: false, n: 0 } }
pub open spec fn ts_step(t: TS, c: char) -> TS {
    if t.esc {
        TS { parts: t.parts, buf: t.buf.push(c), esc: false, n: t.n }
    } else if c == '@' {
        TS { parts: t.parts.push(PV::S(t.buf)).push(PV::P(t.n)), buf: Seq::empty(), esc: false, n: t.n + 1 }
    } else if c == '\\' {
        TS { parts: t.parts, buf: t.buf, esc: true, n: t.n }
    } else {
        TS { parts: t.parts, buf: t.buf.push(c), esc: false, n: t.n }
    }
}
// state after the first i characters
pub open spec fn ts_at(s: Seq<char>, i: int) -> TS
    decreases i
{
    if i <= 0 { ts_init() } else { ts_step(ts_at(s, i - 1), s[i - 1]) }
}
pub open spec fn ts_finish(t: TS) -> Seq<PV> {
    if t.buf.len() > 0 || t.parts.len() == 0 { t.parts.push(PV::S(t.buf)) } else { t.parts }
}
pub open spec fn tpl_parts(s: Seq<char>) -> Seq<PV> { ts_finish(ts_at(s, s.len() as int)) }
pub open spec fn parts_match(r: Seq<TemplatePart>, a: Seq<PV>) -> bool {
    r.len() == a.len() && forall|k: int| 0 <= k < r.len() ==> pv(#[trigger] r[k]) == a[k]
}
// number of parts is bounded by the number of characters read (overflow freedom of `count`)
pub open spec fn ts_bounded(t: TS, i: int) -> bool { 0 <= t.n && t.n <= i && t.parts.len() == 2 * t.n }
proof fn lemma_ts_bounded(s: Seq<char>, i: int)
    requires 0 <= i <= s.len()
    ensures ts_bounded(ts_at(s, i), i)
    decreases i
{
    if i > 0 { lemma_ts_bounded(s, i - 1); }
}

// The reference semantics pinned on the documented examples (guards the oracle itself).
proof fn lemma_tpl_examples()
    ensures
        tpl_parts(seq!['a', '@']) =~= seq![PV::S(seq!['a']), PV::P(0)],
        tpl_parts(seq!['\\', '@']) =~= seq![PV::S(seq!['@'])],
        tpl_parts(seq!['\\', '\\', '@']) =~= seq![PV::S(seq!['\\']), PV::P(0)],
        tpl_parts(Seq::<char>::empty()) =~= seq![PV::S(Seq::<char>::empty())],
        tpl_parts(seq!['@', '@']) =~= seq![PV::S(Seq::<char>::empty()), PV::P(0), PV::S(Seq::<char>::empty()), PV::P(1)],
{
    reveal_with_fuel(ts_at, 4);
    assert(seq!['a', '@'].len() == 2);
    assert(seq!['\\', '@'].len() == 2);
    assert(seq!['\\', '\\', '@'].len() == 3);
    assert(seq!['@', '@'].len() == 2);
    assert(ts_at(seq!['a', '@'], 2).parts =~= seq![PV::S(seq!['a']), PV::P(0)]);
    assert(ts_at(seq!['\\', '@'], 2).buf =~= seq!['@']);
    assert(ts_at(seq!['\\', '\\', '@'], 2).buf =~= seq!['\\']);
    assert(ts_at(seq!['\\', '\\', '@'], 3).parts =~= seq![PV::S(seq!['\\']), PV::P(0)]);
    assert(ts_at(seq!['@', '@'], 1).parts =~= seq![PV::S(Seq::<char>::empty()), PV::P(0)]);
    assert(ts_at(seq!['@', '@'], 2).parts =~= seq![PV::S(Seq::<char>::empty()), PV::P(0), PV::S(Seq::<char>::empty()), PV::P(1)]);
}

pub struct SimpleTemplate();
impl SimpleTemplate {
    pub fn new() -> Self { Self() }
}

// a str's length in chars is at most its length in bytes, which is at most isize::MAX (Rust guarantee)
#[verifier::external_body]
pub proof fn axiom_str_len_bound(s: &str)
    ensures s@.len() <= usize::MAX / 4
{ }

// the `@`-placeholder template parser against the reference semantics: never fails, and the parts are
// exactly tpl_parts(input) - every literal piece character for character, every placeholder with its number
//@ extract src/build/format.rs :: impl TemplateParser for SimpleTemplate :: fn parse
//@   impl_header impl SimpleTemplate
//@   subst "-> TemplateResult" => "-> Result<Vec<TemplatePart>, VBoxError>"
//@   subst "let mut result = Vec::new();" => "let mut result: Vec<TemplatePart> = Vec::new();"
//@   subst "let mut count = 0;" => "let mut count: usize = 0;"
//@   ret r
//@   sig <<<
        ensures r matches Ok(parts) && parts_match(parts@, tpl_parts(input@))
//@   >>>
//@   loop 1 indexed <<<
            invariant
                it__1@ == input@, i__1 <= it__1@.len(),
                it__1@.len() <= usize::MAX / 4,
                ts_bounded(ts_at(it__1@, i__1 as int), i__1 as int),
                forall|j: int| 0 <= j <= it__1@.len() ==> ts_bounded(#[trigger] ts_at(it__1@, j), j),
                parts_match(result@, ts_at(it__1@, i__1 as int).parts),
                buf@ == ts_at(it__1@, i__1 as int).buf,
                should_escape == ts_at(it__1@, i__1 as int).esc,
                count as int == ts_at(it__1@, i__1 as int).n,
            decreases it__1@.len() - i__1
//@   >>>
//@   before "for c in" <<<
        proof {
            axiom_str_len_bound(input);
            assert forall|j: int| 0 <= j <= input@.len() implies ts_bounded(#[trigger] ts_at(input@, j), j) by { lemma_ts_bounded(input@, j); }
        }
//@   >>>
//@   mutant tpl_escape_rearm "c == '\\\\' && !should_escape" => "c == '\\\\'" expect parse
//@   mutant tpl_escape_sticky "buf.push(c); } should_escape = false;" => "buf.push(c); }" expect parse
//@   mutant tpl_ph_number "result.push(TemplatePart::PlaceHolder(count));" => "result.push(TemplatePart::PlaceHolder(count + 1));" expect parse
//@   mutant tpl_at_escaped_drop "c == '@' && !should_escape" => "c == '@'" expect parse
//@   mutant tpl_trailing_piece "if !buf.is_empty() || result.is_empty() {" => "if !buf.is_empty() {" expect parse
//@   mutant tpl_drop_char "buf.push(c);" => "" expect parse
//@ end

// ---------- `@{expr}` templates ----------
// Reference reading: as above, but an unescaped `@` hands the text that follows it to the expression reader, which takes
// the `{ ... }` group (some number of characters, ce_len) and either yields the expression or refuses it (then the whole
// template is refused); reading continues right after the group. Literal pieces and escapes are as in `@` templates.
pub uninterp spec fn ce_len(rest: Seq<char>) -> int;
pub uninterp spec fn ce_ok(rest: Seq<char>) -> bool;
pub open spec fn ce_take(rest: Seq<char>) -> int {
    if ce_len(rest) < 0 { 0 } else if ce_len(rest) > rest.len() { rest.len() as int } else { ce_len(rest) }
}
pub open spec fn pvs(s: Seq<TemplatePart>) -> Seq<PV> { s.map_values(|p: TemplatePart| pv(p)) }
pub open spec fn et_finish(parts: Seq<PV>, buf: Seq<char>) -> Seq<PV> {
    if buf.len() > 0 || parts.len() == 0 { parts.push(PV::S(buf)) } else { parts }
}
// what reading `rest` yields when `parts` were produced so far, `buf` is the literal piece under construction and `esc`
// tells whether the previous character was an unescaped backslash; None = the template is refused
pub open spec fn et_parts(rest: Seq<char>, buf: Seq<char>, esc: bool, parts: Seq<PV>) -> Option<Seq<PV>>
    decreases rest.len()
{
    if rest.len() == 0 {
        Some(et_finish(parts, buf))
    } else {
        let c = rest[0];
        let r1 = rest.drop_first();
        if esc {
            et_parts(r1, buf.push(c), false, parts)
        } else if c == '@' {
            if !ce_ok(r1) { None } else { et_parts(r1.skip(ce_take(r1)), Seq::empty(), false, parts.push(PV::S(buf)).push(PV::X(r1))) }
        } else if c == '\\' {
            et_parts(r1, buf, true, parts)
        } else {
            et_parts(r1, buf.push(c), false, parts)
        }
    }
}
pub open spec fn et_template(s: Seq<char>) -> Option<Seq<PV>> { et_parts(s, Seq::empty(), false, Seq::empty()) }
proof fn lemma_pvs_push(s: Seq<TemplatePart>, p: TemplatePart)
    ensures pvs(s.push(p)) == pvs(s).push(pv(p))
{
    assert(pvs(s.push(p)) =~= pvs(s).push(pv(p)));
}
pub open spec fn pvs_push_all() -> bool {
    forall|s: Seq<TemplatePart>, p: TemplatePart| #[trigger] pvs(s.push(p)) == pvs(s).push(pv(p))
}

// `s.chars()` as an explicit iterator value (it is handed to consume_expr by `&mut`)
pub struct VChars { pub rest: Vec<char> }
#[verifier::external_body]
pub fn verif_chars(s: &str) -> (r: VChars)
    ensures r.rest@ == s@
{ unimplemented!() }
impl VChars {
    #[verifier::external_body]
    pub fn next(&mut self) -> (r: Option<char>)
        ensures
            old(self).rest@.len() > 0 ==> r == Some(old(self).rest@[0]) && final(self).rest@ == old(self).rest@.drop_first(),
            old(self).rest@.len() == 0 ==> r is None && final(self).rest@ == old(self).rest@,
    { unimplemented!() }
}

pub struct ExpressionTemplate();
impl ExpressionTemplate {
    pub fn new() -> Self { ExpressionTemplate() }
    // consume_expr (R8: scans the `{...}` group, then runs the tokenizer and the expression parser on it) - ASSUMED: it is a
    // function of the remaining text: it takes ce_take(rest) characters from the front, whether it succeeds (ce_ok) depends on
    // that text only, and the expression it yields is the one read from that text (expr_src)
    #[verifier::external_body]
    fn consume_expr(&self, iter: &mut VChars) -> (r: Result<Expression, VBoxError>)
        ensures
            final(iter).rest@ == old(iter).rest@.skip(ce_take(old(iter).rest@)),
            r is Ok <==> ce_ok(old(iter).rest@),
            r matches Ok(e) ==> expr_src(e) == old(iter).rest@,
    { unimplemented!() }
}

// the `@{expr}` template parser against the reference reading: refused exactly when an embedded expression is refused,
// otherwise the parts are exactly et_template(input): every literal piece character for character, every expression
// read from the text after its `@`, in order
//@ extract src/build/format.rs :: impl TemplateParser for ExpressionTemplate :: fn parse
//@   impl_header impl ExpressionTemplate
//@   subst "-> TemplateResult" => "-> Result<Vec<TemplatePart>, VBoxError>"
//@   subst "let mut parts = Vec::new();" => "let mut parts: Vec<TemplatePart> = Vec::new();"
//@   subst "let mut iter = input.chars();" => "let mut iter = verif_chars(input);"
//@   ret r
//@   sig <<<
        ensures
            et_template(input@) is None ==> r is Err,
            et_template(input@) matches Some(ps) ==> r matches Ok(parts) && pvs(parts@) == ps,
//@   >>>
//@   loop 1 <<<
            invariant
                pvs_push_all(),
                et_parts(iter.rest@, buf@, should_escape, pvs(parts@)) == et_template(input@),
            ensures iter.rest@.len() == 0
            decreases iter.rest@.len()
//@   >>>
//@   before "while let" <<<
        proof {
            assert forall|s: Seq<TemplatePart>, p: TemplatePart| #[trigger] pvs(s.push(p)) == pvs(s).push(pv(p)) by { lemma_pvs_push(s, p); }
            assert(pvs(parts@) =~= Seq::<PV>::empty());
        }
//@   >>>
//@   mutant etpl_escape_rearm "c == '\\\\' && !should_escape" => "c == '\\\\'" expect parse
//@   mutant etpl_at_escaped "c == '@' && !should_escape" => "c == '@'" expect parse
//@   mutant etpl_trailing_piece "if !buf.is_empty() || parts.is_empty() {" => "if !buf.is_empty() {" expect parse
//@   mutant etpl_drop_char "buf.push(c);" => "" expect parse
//@   mutant etpl_piece_lost "parts.push(TemplatePart::Str(buf)); buf = Vec::new();" => "buf = Vec::new();" expect parse
//@ end

} // verus!
fn main() {}
