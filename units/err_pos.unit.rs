//@ unit err_pos
//@ serves C17
//@ must_verify Error::new Error::with_pos Error::push_call_stack decorate_error_contract decorate_call_contract FromRegex::from FromIo::from FromBuild::from FromConv::from q_regex q_io q_conv
//@ include prelude/head.rs
use std::rc::Rc;

verus! {
//@ include prelude/err_pos_core.rs
//@ include prelude/err_pos_types.rs
//@ include prelude/vmap.rs

impl VShapeMap { #[verifier::external_body] pub fn new() -> Self { unimplemented!() } }
impl VLinks { #[verifier::external_body] pub fn new() -> Self { unimplemented!() } }

// The environment cell is only handed on (R5): `RefCell<Environment<O, E>>` stays in the signatures, both types are
// opaque stand-ins; `std::io::Write` is declared to Verus as an external trait.
#[verifier::external_body]
#[verifier::accept_recursive_types(T)]
pub struct RefCell<T> { _p: core::marker::PhantomData<T> }
#[verifier::external_body]
#[verifier::accept_recursive_types(O)]
#[verifier::accept_recursive_types(E)]
pub struct Environment<O, E> { _p: core::marker::PhantomData<(O, E)> }
#[verifier::external_trait_specification]
pub trait ExIoWrite {
    type ExternalTraitSpecificationFor: std::io::Write;
}

//@ extract src/build/opcode/scope.rs :: struct Stack
//@   rule R0 RV
//@   subst "curr: BTreeMap<Rc<str>, (Rc<Value>, Position)>" => "curr: VMap"
//@ end
//@ extract src/build/opcode/runtime.rs :: struct Builtins
//@   rule R0 RV
//@   subst "import_path: Vec<PathBuf>" => "import_path: Vec<VPathBuf>"
//@ end

impl Position {
    // the default position `Position::new(0, 0, 0)`: an arbitrary position as far as the contracts know - a handler
    // that reports it instead of a position of the failing op / operand cannot meet its contract
    #[verifier::external_body]
    pub fn new(line: usize, column: usize, offset: usize) -> Self { unimplemented!() }
}

// =====================================================================================================================
// 1. error.rs: the error value - exact contracts on (pos, call_stack); the message is carried along untouched
// =====================================================================================================================
//@ extract src/build/opcode/error.rs :: struct Error
//@   rule R0 RV
//@ end
//@ extract src/build/opcode/error.rs :: impl Error :: fn new
//@   ret r
//@   sig <<<
        ensures r.message == msg, r.pos == Some(pos), r.call_stack@.len() == 0
//@   >>>
//@   mutant new_drops_pos "pos: Some(pos)," => "pos: None," expect new
//@ end
//@ extract src/build/opcode/error.rs :: impl Error :: fn with_pos
//@   rule R4
//@   ret r
//@   sig <<<
        ensures r.pos == Some(pos), r.message == self.message, r.call_stack == self.call_stack
//@   >>>
//@   mutant with_pos_drops_pos "self.pos = Some(pos);" => "self.pos = None;" expect with_pos
//@ end
//@ extract src/build/opcode/error.rs :: impl Error :: fn push_call_stack
//@   sig <<<
        ensures final(self).call_stack@ == old(self).call_stack@.push(pos),
            final(self).pos == old(self).pos, final(self).message == old(self).message
//@   >>>
//@   mutant push_call_stack_ignored "self.call_stack.push(pos);" => "" expect push_call_stack
//@ end


// decorate_error!(pos => result): an Err gets the position `pos` (REPLACING whatever it carried, see notes/C17.json), call sites kept
//@ extract src/build/opcode/error.rs :: macro decorate_error
//@ end
// decorate_call!(pos => result): an Err gets `pos` appended to its call sites, its own position kept
//@ extract src/build/opcode/error.rs :: macro decorate_call
//@ end
// the two macros under contract, each expanded on an arbitrary result (the macro text is the extracted one)
pub fn decorate_error_contract(pos: Position, result: Result<u8, Error>) -> (r: Result<u8, Error>)
    ensures
        result matches Ok(v) ==> r == Ok::<u8, Error>(v),
        result matches Err(e) ==> (r matches Err(e2) && e2.pos == Some(pos) && e2.call_stack == e.call_stack && e2.message == e.message),
{
    decorate_error!(pos => result)
}
pub fn decorate_call_contract(pos: Position, result: Result<u8, Error>) -> (r: Result<u8, Error>)
    ensures
        result matches Ok(v) ==> r == Ok::<u8, Error>(v),
        result matches Err(e) ==> (r matches Err(e2) && e2.pos == e.pos && e2.call_stack@ == e.call_stack@.push(pos) && e2.message == e.message),
{
    decorate_call!(pos => result)
}

// ---------- the `From` impls: where an error of another layer becomes an opcode::Error ----------
// regex::Error, std::io::Error, convert::Error have NO position: the converted error has none (the raiser must add one);
// a BuildError (parser / type checker) keeps the position it has.  The foreign error types are opaque stand-ins.
#[verifier::external_body]
pub struct VRegexError { _p: u8 }
#[verifier::external_body]
pub struct VIoError { _p: u8 }
pub mod io { pub enum ErrorKind { NotFound, Other, Rest } }
impl VIoError {
    #[verifier::external_body]
    pub fn kind(&self) -> io::ErrorKind { unimplemented!() }
}
#[verifier::external_body]
pub struct ConvError { _p: u8 }
impl ConvError {
    #[verifier::external_body]
    pub fn message(&self) -> String { unimplemented!() }
}
#[verifier::external_body]
pub struct VErrorType { _p: u8 }
// crate::error::BuildError: the three fields the conversion reads (the fourth, `cause: Option<Box<dyn Error>>`, is not read)
pub struct BuildError { pub err_type: VErrorType, pub pos: Option<Position>, pub msg: String }

// what each conversion must do to (pos, call_stack)
pub open spec fn unpositioned(e: Error) -> bool { e.pos is None && e.call_stack@.len() == 0 }
// The `From` impls are placed in inherent impls of marker types (Verus gives `?` / `.into()` no contract of a local
// trait impl); the bodies are the extracted ones.
pub struct FromRegex {}
pub struct FromIo {}
pub struct FromBuild {}
pub struct FromConv {}
//@ extract src/build/opcode/error.rs :: impl From<regex::Error> for Error :: fn from
//@   impl_header impl FromRegex
//@   rule R1
//@   subst "fn from(e: regex::Error) -> Self" => "pub fn from(e: VRegexError) -> Error"
//@   ret r
//@   sig <<<
        ensures unpositioned(r)
//@   >>>
//@ end
//@ extract src/build/opcode/error.rs :: impl From<std::io::Error> for Error :: fn from
//@   impl_header impl FromIo
//@   rule R1
//@   subst "fn from(e: std::io::Error) -> Self" => "pub fn from(e: VIoError) -> Error"
// (R1 turned both `format!(..)` arms into the Rc<str> stub: the trailing String -> Rc<str> `.into()` goes with them)
//@   subst "} .into();" => "};"
//@   ret r
//@   sig <<<
        ensures unpositioned(r)
//@   >>>
//@ end
//@ extract src/build/opcode/error.rs :: impl From<crate::error::BuildError> for Error :: fn from
//@   impl_header impl FromBuild
//@   rule R1
//@   subst "fn from(e: crate::error::BuildError) -> Self" => "pub fn from(e: BuildError) -> Error"
//@   ret r
//@   sig <<<
        // a parser / type checker diagnostic keeps its position
        ensures r.pos == e.pos, r.call_stack@.len() == 0
//@   >>>
//@   mutant from_build_error_drops_pos "pos: e.pos," => "pos: None," expect from
//@ end
//@ extract src/build/opcode/error.rs :: impl From<convert::Error> for Error :: fn from
//@   impl_header impl FromConv
//@   subst "fn from(e: convert::Error) -> Self" => "pub fn from(e: ConvError) -> Error"
//@   ret r
//@   sig <<<
        ensures unpositioned(r)
//@   >>>
//@ end
// `x?` on a Result whose error type is not opcode::Error: std desugars it to
// `match x { Ok(v) => v, Err(e) => return Err(From::from(e)) }`; the From impl is the extracted one (R7).
pub fn q_regex<T>(x: Result<T, VRegexError>) -> (r: Result<T, Error>)
    ensures x matches Ok(v) ==> r == Ok::<T, Error>(v), x is Err ==> (r matches Err(e) && unpositioned(e))
{ match x { Ok(v) => Ok(v), Err(e) => Err(FromRegex::from(e)) } }
pub fn q_io<T>(x: Result<T, VIoError>) -> (r: Result<T, Error>)
    ensures x matches Ok(v) ==> r == Ok::<T, Error>(v), x is Err ==> (r matches Err(e) && unpositioned(e))
{ match x { Ok(v) => Ok(v), Err(e) => Err(FromIo::from(e)) } }
pub fn q_conv<T>(x: Result<T, ConvError>) -> (r: Result<T, Error>)
    ensures x matches Ok(v) ==> r == Ok::<T, Error>(v), x is Err ==> (r matches Err(e) && unpositioned(e))
{ match x { Ok(v) => Ok(v), Err(e) => Err(FromConv::from(e)) } }


// =====================================================================================================================
// 2. pointer.rs / vm.rs: every error a handler raises carries a position of the failing op or of one of its operands
// =====================================================================================================================
impl Value {
    // only used to build messages and to compare type names here (R1/R8; proved in unit vm_data)
    #[verifier::external_body]
    fn type_name(&self) -> &'static str { unimplemented!() }
    // `impl PartialEq for Value` (proved in unit vm_data): its outcome does not matter to positions
    #[verifier::external_body]
    fn eq(&self, other: &Value) -> bool { unimplemented!() }
}
//@ extract src/build/opcode/translate.rs :: impl OpsMap :: fn len
//@   ret r
//@   sig <<<
        ensures r == self.ops@.len()
//@   >>>
//@ end
//@ extract src/build/opcode/vm.rs :: struct VM
//@   rule R0 RV
//@   subst "working_dir: PathBuf" => "working_dir: VPathBuf"
//@   subst "runtime: runtime::Builtins" => "runtime: Builtins"
//@   subst "reserved_words: &'static BTreeSet<&'static str>" => "reserved_words: ReservedWords"
//@ end

// ---------- vocabulary ----------
// a freshly raised error: it carries exactly this position and no call sites
pub open spec fn raised_at(e: Error, p: Position) -> bool { e.pos == Some(p) && e.call_stack@.len() == 0 }
// the k-th entry from the top of the value stack (1 = top) and the position it was pushed with
pub open spec fn opnd(vm: VM, k: int) -> Value { *vm.stack@[vm.stack@.len() - k].0 }
pub open spec fn opnd_pos(vm: VM, k: int) -> Position { vm.stack@[vm.stack@.len() - k].1 }
// interpreter-loop invariant (proved in unit err_pos_run): a handler runs while the instruction pointer is at an op
// that has a position; `cur_pos` is the position stored with that op
pub open spec fn at_op(p: OpPointer) -> bool {
    p.ptr matches Some(i) && i < p.pos_map.ops@.len() && p.pos_map.pos@.len() == p.pos_map.ops@.len()
}
pub open spec fn cur_pos(p: OpPointer) -> Position { p.pos_map.pos@[p.ptr->0 as int] }
// nothing but the value stack and the `last` debugging slot changes
pub open spec fn frame(a: VM, b: VM) -> bool {
    a.symbols == b.symbols && a.self_stack == b.self_stack && a.ops == b.ops && a.import_stack == b.import_stack
    && a.working_dir == b.working_dir && a.runtime == b.runtime && a.reserved_words == b.reserved_words
}
// ... and the instruction pointer, inside the same program
pub open spec fn frame_jump(a: VM, b: VM) -> bool {
    a.symbols == b.symbols && a.self_stack == b.self_stack && a.import_stack == b.import_stack
    && a.working_dir == b.working_dir && a.runtime == b.runtime && a.reserved_words == b.reserved_words
    && a.ops.pos_map == b.ops.pos_map && a.ops.path == b.ops.path
}
// the value pushed by a handler carries position p
pub open spec fn pushed_at(b: VM, p: Position) -> bool { b.stack@.len() > 0 && b.stack@.last().1 == p }

//@ extract src/build/opcode/pointer.rs :: impl OpPointer :: fn pos
//@   ret r
//@   sig <<<
        ensures
            (self.ptr matches Some(i) && i < self.pos_map.pos@.len()) ==> r == Some(&self.pos_map.pos@[self.ptr->0 as int]),
            (self.ptr is None || self.ptr->0 >= self.pos_map.pos@.len()) ==> r is None,
//@   >>>
//@ end
// a jump out of the program is an internal fault of the translator; even so it is reported at the op that jumps
//@ extract src/build/opcode/pointer.rs :: impl OpPointer :: fn jump
//@   subst all ".into()" => ".v_into()"
//@   ret r
//@   sig <<<
        ensures
            final(self).pos_map == old(self).pos_map, final(self).path == old(self).path,
            r is Ok ==> final(self).ptr == Some(ptr) && ptr < old(self).pos_map.ops@.len(),
            r is Err ==> final(self).ptr == old(self).ptr,
            at_op(*old(self)) ==> (r matches Err(e) ==> raised_at(e, cur_pos(*old(self)))),
//@   >>>
//@   mutant jump_fault_at_default_position "Some(pos) => pos.clone()," => "Some(pos) => Position::new(0, 0, 0)," expect jump
//@ end
//@ extract src/build/opcode/pointer.rs :: impl OpPointer :: fn idx
//@   subst all ".into()" => ".v_into()"
//@   ret r
//@   sig <<<
        // (the Err arm reports Position::new(0, 0, 0): unreachable from the interpreter loop, which only asks at an op)
        ensures self.ptr matches Some(i) ==> r == Ok::<usize, Error>(i),
//@   >>>
//@ end

//@ extract src/build/opcode/vm.rs :: impl VM :: fn push
//@   ret r
//@   sig <<<
        ensures r is Ok, final(self).stack@ == old(self).stack@.push((val, pos)),
            frame(*old(self), *final(self)),
//@   >>>
//@ end
//@ extract src/build/opcode/vm.rs :: impl VM :: fn pop
//@   subst "Some(v.clone())" => "Some((v.0.clone(), v.1.clone()))"
//@   ret r
//@   sig <<<
        requires old(self).stack@.len() > 0
        ensures r is Ok, r->Ok_0 == old(self).stack@.last(), final(self).stack@ == old(self).stack@.drop_last(),
            frame(*old(self), *final(self)),
//@   >>>
//@ end

// ---------- arithmetic: the error is at the RIGHT operand (second from the top), the result at the operator ----------
//@ extract src/build/opcode/vm.rs :: impl VM :: fn mul
//@   rule R1 R6(*f,*ff)
//@   ret r
//@   sig <<<
        ensures r matches Err(e) ==> raised_at(e, *pos)
//@   >>>
//@ end
//@ extract src/build/opcode/vm.rs :: impl VM :: fn div
//@   rule R1 R6(*f,*ff)
//@   ret r
//@   sig <<<
        ensures r matches Err(e) ==> raised_at(e, *pos)
//@   >>>
//@   mutant div_by_zero_at_default_position "None => { return Err(Error::new( verif_msg(), pos.clone(), )) }" => "None => { return Err(Error::new( verif_msg(), Position::new(0, 0, 0), )) }" expect div
//@ end
//@ extract src/build/opcode/vm.rs :: impl VM :: fn sub
//@   rule R1 R6(*f,*ff)
//@   ret r
//@   sig <<<
        ensures r matches Err(e) ==> raised_at(e, *pos)
//@   >>>
//@ end
//@ extract src/build/opcode/vm.rs :: impl VM :: fn modulus
//@   rule R1 R6(*f,*ff)
//@   ret r
//@   sig <<<
        ensures r matches Err(e) ==> raised_at(e, *pos)
//@   >>>
//@ end
//@ extract src/build/opcode/vm.rs :: impl VM :: fn add
//@   rule R1 R6(*f,*ff)
//@   subst "P(Str(ns.into()))" => "P(Str(verif_string_into_rcstr(ns)))"
//@   ret r
//@   sig <<<
        requires
            // representation invariant of list values: one position per element
            (*left matches C(List(a, ap)) ==> a@.len() <= ap@.len()),
            (*right matches C(List(b, bp)) ==> b@.len() <= bp@.len()),
            // two lists held in memory have fewer than 2^64 elements together
            (*left matches C(List(a, ap)) ==> (*right matches C(List(b, bp)) ==> a@.len() + b@.len() <= usize::MAX)),
        ensures r matches Err(e) ==> raised_at(e, *pos)
//@   >>>
//@   loop 1 iter it <<<
                    invariant
                        it.seq().len() == left_list@.len(), counter == it.index,
                        left_list@.len() <= left_pos_list@.len(), left_list@.len() <= usize::MAX,
//@   >>>
//@   loop 2 iter it <<<
                    invariant
                        it.seq().len() == right_list@.len(), counter == it.index,
                        right_list@.len() <= right_pos_list@.len(), right_list@.len() <= usize::MAX,
//@   >>>
//@ end
pub open spec fn binop_pos(a: VM, b: VM, pos: Position, r: Result<(), Error>) -> bool {
    &&& frame(a, b)
    &&& (r matches Err(e) ==> raised_at(e, opnd_pos(a, 2)))
    &&& (r is Ok ==> pushed_at(b, pos))
}
//@ extract src/build/opcode/vm.rs :: impl VM :: fn op_mod
//@   ret r
//@   sig <<<
        requires old(self).stack@.len() >= 2
        ensures binop_pos(*old(self), *final(self), pos, r)
//@   >>>
//@ end
//@ extract src/build/opcode/vm.rs :: impl VM :: fn op_sub
//@   ret r
//@   sig <<<
        requires old(self).stack@.len() >= 2
        ensures binop_pos(*old(self), *final(self), pos, r)
//@   >>>
//@ end
//@ extract src/build/opcode/vm.rs :: impl VM :: fn op_mul
//@   ret r
//@   sig <<<
        requires old(self).stack@.len() >= 2
        ensures binop_pos(*old(self), *final(self), pos, r)
//@   >>>
//@ end
//@ extract src/build/opcode/vm.rs :: impl VM :: fn op_div
//@   ret r
//@   sig <<<
        requires old(self).stack@.len() >= 2
        ensures binop_pos(*old(self), *final(self), pos, r)
//@   >>>
// the position of the operator's own result handed to the error instead of an operand's: still inside the statement,
// but not what the source says - rejected because the contract pins the operand
//@   mutant div_error_at_unpopped_operand "let (right, right_pos) = self.pop()?; self.push(Rc::new(P(self.div(&left, &right, &right_pos)?)), pos)?;" => "let (right, right_pos) = self.pop()?; let wrong = match self.stack.last() { Some(x) => x.1.clone(), None => right_pos.clone() }; self.push(Rc::new(P(self.div(&left, &right, &wrong)?)), pos)?;" expect op_div
//@ end
//@ extract src/build/opcode/vm.rs :: impl VM :: fn op_add
//@   ret r
//@   sig <<<
        requires old(self).stack@.len() >= 2,
            ({ let n = old(self).stack@.len() as int;
               (*old(self).stack@[n - 1].0 matches C(List(a, ap)) ==> a@.len() <= ap@.len())
               && (*old(self).stack@[n - 2].0 matches C(List(b, bp)) ==> b@.len() <= bp@.len())
               && (*old(self).stack@[n - 1].0 matches C(List(a, ap)) ==> (*old(self).stack@[n - 2].0 matches C(List(b, bp)) ==> a@.len() + b@.len() <= usize::MAX)) }),
        ensures binop_pos(*old(self), *final(self), pos, r)
//@   >>>
//@ end


// ---------- comparisons and `==`: a type mismatch is reported at the operator ----------
pub open spec fn cmp_pos(a: VM, b: VM, pos: Position, r: Result<(), Error>) -> bool {
    &&& frame(a, b)
    &&& (r matches Err(e) ==> raised_at(e, pos))
    &&& (r is Ok ==> pushed_at(b, pos))
}
//@ extract src/build/opcode/vm.rs :: impl VM :: fn op_gt
//@   rule R1 R3 R6(*f,*ff)
//@   ret r
//@   sig <<<
        requires old(self).stack@.len() >= 2
        ensures cmp_pos(*old(self), *final(self), *pos, r)
//@   >>>
//@ end
//@ extract src/build/opcode/vm.rs :: impl VM :: fn op_lt
//@   rule R1 R3 R6(*f,*ff)
//@   ret r
//@   sig <<<
        requires old(self).stack@.len() >= 2
        ensures cmp_pos(*old(self), *final(self), *pos, r)
//@   >>>
//@ end
//@ extract src/build/opcode/vm.rs :: impl VM :: fn op_gteq
//@   rule R1 R3 R6(*f,*ff)
//@   ret r
//@   sig <<<
        requires old(self).stack@.len() >= 2
        ensures cmp_pos(*old(self), *final(self), pos, r)
//@   >>>
//@ end
//@ extract src/build/opcode/vm.rs :: impl VM :: fn op_lteq
//@   rule R1 R3 R6(*f,*ff)
//@   ret r
//@   sig <<<
        requires old(self).stack@.len() >= 2
        ensures cmp_pos(*old(self), *final(self), pos, r)
//@   >>>
//@ end
//@ extract src/build/opcode/vm.rs :: impl VM :: fn op_equal
//@   rule R1
//@   subst? "left == right" => "left.as_ref().eq(right.as_ref())"
//@   subst? "right == left" => "right.as_ref().eq(left.as_ref())"
//@   ret r
//@   sig <<<
        requires old(self).stack@.len() >= 2
        ensures cmp_pos(*old(self), *final(self), pos, r)
//@   >>>
//@ end
// `not e`: the operand is at fault, and the result stands where the operand stood
//@ extract src/build/opcode/vm.rs :: impl VM :: fn op_not
//@   rule R1 R3
//@   ret r
//@   sig <<<
        requires old(self).stack@.len() >= 1
        ensures frame(*old(self), *final(self)),
            r matches Err(e) ==> raised_at(e, opnd_pos(*old(self), 1)),
            r is Ok ==> pushed_at(*final(self), opnd_pos(*old(self), 1)),
//@   >>>
//@   mutant not_error_without_operand_position "operand_pos, ))" => "Position::new(0, 0, 0), ))" expect op_not
//@ end

// ---------- control flow: a condition that is not a boolean is reported at the condition ----------
//@ extract src/build/opcode/vm.rs :: impl VM :: fn op_jump
//@   subst ".map(|v| (v as i32 + jp) as usize)" => ".map(|v: usize| -> (t: usize) requires v <= i32::MAX && 0 <= v + jp <= i32::MAX ensures t == v + jp { (v as i32 + jp) as usize })"
//@   ret r
//@   sig <<<
        requires at_op(old(self).ops),
            // translator invariant (caller obligation): programs are shorter than 2^31 ops, jumps stay inside
            old(self).ops.ptr->0 <= i32::MAX, 0 <= old(self).ops.ptr->0 + jp <= i32::MAX,
        ensures frame_jump(*old(self), *final(self)), final(self).stack == old(self).stack, at_op(final(self).ops),
            r matches Err(e) ==> raised_at(e, cur_pos(old(self).ops)),
//@   >>>
//@ end
pub open spec fn jump_pre(vm: VM, jp: i32) -> bool {
    at_op(vm.ops) && vm.ops.ptr->0 <= i32::MAX && 0 <= vm.ops.ptr->0 + jp <= i32::MAX
}
pub open spec fn is_bool(v: Value) -> bool { v matches P(p) && p is Bool }
// the condition on top of the stack decides; if it is no boolean the error is at the condition, otherwise only the jump
// can fail (internal fault: reported at the jumping op)
pub open spec fn cond_pos(a: VM, b: VM, r: Result<(), Error>) -> bool {
    &&& frame_jump(a, b) && at_op(b.ops)
    &&& (r matches Err(e) ==> raised_at(e, if is_bool(opnd(a, 1)) { cur_pos(a.ops) } else { opnd_pos(a, 1) }))
}
//@ extract src/build/opcode/vm.rs :: impl VM :: fn op_and
//@   rule R1 R3
//@   ret r
//@   sig <<<
        requires old(self).stack@.len() >= 1, jump_pre(*old(self), jp)
        ensures cond_pos(*old(self), *final(self), r)
//@   >>>
// (`pos`, the operator's position, is only printed in the message: pointing the error at it instead would still be
// inside the statement; the contract pins what the source does - the condition)
//@   mutant and_error_at_operator "cond_pos.clone(), ));" => "pos, ));" expect op_and
//@ end
//@ extract src/build/opcode/vm.rs :: impl VM :: fn op_or
//@   rule R1 R3
//@   subst "if cond {" => "if *cond {"
//@   ret r
//@   sig <<<
        requires old(self).stack@.len() >= 1, jump_pre(*old(self), jp)
        ensures cond_pos(*old(self), *final(self), r)
//@   >>>
//@ end
//@ extract src/build/opcode/vm.rs :: impl VM :: fn op_jump_if_true
//@   rule R1 R3
//@   subst "if cond {" => "if *cond {"
//@   ret r
//@   sig <<<
        requires old(self).stack@.len() >= 1, jump_pre(*old(self), jp)
        ensures cond_pos(*old(self), *final(self), r)
//@   >>>
//@ end
//@ extract src/build/opcode/vm.rs :: impl VM :: fn op_jump_if_false
//@   rule R1 R3
//@   ret r
//@   sig <<<
        requires old(self).stack@.len() >= 1, jump_pre(*old(self), jp)
        ensures cond_pos(*old(self), *final(self), r)
//@   >>>
//@   mutant jif_error_at_default_position "pos.clone(), ));" => "Position::new(0, 0, 0), ));" expect op_jump_if_false
//@ end
// select: comparing an arm's name with the searched value never fails by itself (an unhandled case is a `fail`
// compiled into the default arm, see op_bang); the searched value goes back with the position it had
//@ extract src/build/opcode/vm.rs :: impl VM :: fn op_select_jump
//@   rule R3
//@   subst "fname == sname" => "verif_rcstr_eq(fname, sname)"
//@   subst "== \"true\" && b" => "== \"true\" && *b"
//@   ret r
//@   sig <<<
        requires old(self).stack@.len() >= 2, jump_pre(*old(self), jp)
        ensures frame_jump(*old(self), *final(self)), at_op(final(self).ops),
            r matches Err(e) ==> raised_at(e, cur_pos(old(self).ops)),
            final(self).stack@.len() == old(self).stack@.len() - 1 ==> pushed_at(*final(self), opnd_pos(*old(self), 2)),
//@   >>>
//@ end
// `fail`: the user's message, at the position of the message expression
//@ extract src/build/opcode/vm.rs :: impl VM :: fn op_bang
//@   rule R3
//@   ret r
//@   sig <<<
        // translator invariant: `fail e` compiles to  e ; "UserDefined: " ; Add ; Bang: the top of the stack is a string
        requires old(self).stack@.len() >= 1, opnd(*old(self), 1) is P, opnd(*old(self), 1)->P_0 is Str,
        ensures frame(*old(self), *final(self)),
            r matches Err(e) && raised_at(e, opnd_pos(*old(self), 1)) && e.message == opnd(*old(self), 1)->P_0->Str_0,
//@   >>>
//@   mutant fail_at_default_position "Error::new(msg.clone(), err_pos)" => "Error::new(msg.clone(), Position::new(0, 0, 0))" expect op_bang
//@ end

} // verus!

fn main() {}
