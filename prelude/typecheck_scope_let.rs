// ---- prelude/typecheck_scope_let.rs: what checking a `let` statement does to the checker's state (C06/C10) (inside verus!) ----

// R8: `Shape::narrow` is under contract in units shape_narrow / shape_narrow_cref; here its body is cut off and what those
// units PROVE is assumed (see the opaque extraction in the unit): result and table are functions of the inputs (nr_shape,
// nr_tab: uninterpreted), the table keeps exactly its names, and for shapes without named constraints the result is a type
// error exactly when the shapes are not compatible (narrow_post, prelude/shape_narrow_spec.rs).
pub uninterp spec fn nr_shape(a: Shape, b: Shape, t: SymMap) -> Shape;
pub uninterp spec fn nr_tab(a: Shape, b: Shape, t: SymMap) -> SymMap;
// R8: import resolution (file system, parser, a child checker): a function of the checker's import context and the path.
// It reads and writes neither the symbol table nor the error / shape stacks.
pub uninterp spec fn import_result(dir: Option<PathBuf>, cache: VShapeCache, stack: Seq<PathBuf>, strict: bool, path: Seq<char>, pos: Position) -> Shape;
// a diagnostic: only constructed and stored
pub uninterp spec fn be_type(e: BuildError) -> ErrorType;
pub uninterp spec fn be_pos(e: BuildError) -> Option<Position>;
pub uninterp spec fn be_msg(e: BuildError) -> String;

pub enum LetOutcome {
    // the binding is made: the table the sub-derivations left, and the shape recorded for the name
    Bound(SymMap, Shape),
    // the statement is refused with one diagnostic; nothing is bound
    Refused(SymMap, Position, String),
}

// the shape of the bound value: what typing the value expression gives, an unresolved import resolved
pub open spec fn let_value_shape(c: Checker, d: LetDef) -> Shape {
    let v = ds_shape(d.value, c.symbol_table@);
    match v {
        Shape::Import(ImportShape::Unresolved(pi)) => import_result(c.working_dir, c.shape_cache, c.import_stack@, c.strict, pi.val@, pi.pos),
        _ => v,
    }
}
// the constraint's shape (typed after the value, in the table the value left)
pub open spec fn let_constraint_shape(c: Checker, d: LetDef) -> Shape
    recommends d.constraint is Some
{
    ds_shape(d.constraint->Some_0, ds_tab(d.value, c.symbol_table@))
}
pub open spec fn finish(t: SymMap, s: Shape) -> LetOutcome {
    match s { Shape::TypeErr(pos, msg) => LetOutcome::Refused(t, pos, msg), _ => LetOutcome::Bound(t, s) }
}
pub open spec fn let_outcome(c: Checker, d: LetDef) -> LetOutcome {
    let t1 = ds_tab(d.value, c.symbol_table@);
    let v = let_value_shape(c, d);
    match d.constraint {
        None => finish(t1, v),
        Some(ce) => {
            let cs = ds_shape(ce, t1);
            let t2 = ds_tab(ce, t1);
            let n = nr_shape(v, cs, t2);
            let t3 = nr_tab(v, cs, t2);
            match n {
                // the value does not conform: one diagnostic, NO binding
                Shape::TypeErr(pos, msg) => LetOutcome::Refused(t3, pos, msg),
                // it conforms: the binding keeps the shape OF ITS VALUE; only where that is not known (a hole, a candidate
                // set) does the constraint tell it (the narrowed shape). Never the constraint's own shape.
                _ => finish(t3, if v is Hole || v is Narrowed { n } else { v }),
            }
        }
    }
}

pub open spec fn let_post(c0: Checker, d: LetDef, c1: Checker) -> bool {
    &&& c1.nested_depth == c0.nested_depth && c1.strict == c0.strict && c1.working_dir == c0.working_dir
        && c1.import_stack == c0.import_stack
    &&& match let_outcome(c0, d) {
        // the table gains EXACTLY name |-> shape, the shape is pushed for the walker, no diagnostic
        LetOutcome::Bound(t, s) =>
            c1.symbol_table@ =~= t.insert(d.name.fragment, s)
            && c1.shape_stack@ =~= c0.shape_stack@.push(s)
            && c1.err_stack@ == c0.err_stack@,
        // exactly one diagnostic (a type failure at the reported position), nothing bound, nothing pushed
        LetOutcome::Refused(t, pos, msg) =>
            c1.symbol_table@ == t
            && c1.shape_stack@ == c0.shape_stack@
            && c1.err_stack@.len() == c0.err_stack@.len() + 1
            && c1.err_stack@.drop_last() =~= c0.err_stack@
            && be_type(c1.err_stack@.last()) is TypeFail && be_pos(c1.err_stack@.last()) == Some(pos) && be_msg(c1.err_stack@.last()) == msg,
    }
    // C06 (static half): a let that carries a constraint is accepted IF AND ONLY IF the value's shape conforms to the
    // constraint's shape (oracle `compat`; shapes without named constraints)
    &&& (d.constraint is Some && cref_free(let_value_shape(c0, d)) && cref_free(let_constraint_shape(c0, d)) ==>
            (let_outcome(c0, d) is Bound <==> compat(let_value_shape(c0, d), let_constraint_shape(c0, d))))
}

// What the contract buys:
// (1) a refused let binds nothing and an accepted let changes no OTHER name (relative to the table its sub-derivations left);
pub proof fn lemma_let_frame(c0: Checker, d: LetDef, c1: Checker, k: Rc<str>)
    requires let_post(c0, d, c1), k != d.name.fragment
    ensures
        let_outcome(c0, d) matches LetOutcome::Bound(t, _) ==> c1.symbol_table@.contains_key(k) == t.contains_key(k)
            && (t.contains_key(k) ==> c1.symbol_table@[k] == t[k]),
        let_outcome(c0, d) matches LetOutcome::Refused(t, _, _) ==> c1.symbol_table@ == t,
{ }
// (2) a constrained binding of a value whose shape is known (not a hole, not a candidate set) is recorded with the shape of
//     the VALUE, whatever the constraint says beyond it (fix d557b5a).
pub proof fn lemma_let_keeps_value_shape(c0: Checker, d: LetDef, c1: Checker)
    requires
        let_post(c0, d, c1), let_outcome(c0, d) is Bound,
        !(let_value_shape(c0, d) is Hole), !(let_value_shape(c0, d) is Narrowed),
    ensures
        c1.symbol_table@.contains_key(d.name.fragment),
        c1.symbol_table@[d.name.fragment] == let_value_shape(c0, d),
{ }
