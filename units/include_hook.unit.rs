//@ unit include_hook
//@ serves C15
//@ must_verify Builtins::include Builtins::get_file_as_string Builtins::get_file_as_bytes ImporterRegistry::get_importer ImporterRegistry::new ImporterRegistry::register ImporterRegistry::make_registry lemma_names_distinct Base64Importer::import VDynImporter::import Value::from_rc_val Value::from_val_ref lemma_include_b64 lemma_include_str_is_the_text lemma_unknown_type_is_an_error lemma_malformed_input_is_an_error lemma_unreadable_file_is_an_error
// C15 — the include hook: `Builtins::include` with `get_file_as_string`, `get_file_as_bytes` (opcode/runtime.rs) and
// `ImporterRegistry::get_importer` (convert/mod.rs), all extracted.
// Model (prelude/include_hook_world.rs + below, all trusted):
//   * R12: the readable files are the ghost state of an extra parameter `world: &World` (fs: path text -> bytes);
//     File::open(p) succeeds iff p is in fs; read_to_string yields the UTF-8 text (vstd::utf8) or an error;
//     read_to_end yields the bytes.
//   * R11: `&RefCell<Environment>` -> `&Environment` (the hook only calls `env.borrow()`).
//   * `dyn Importer` -> closed sum VDynImporter of the four implementors; `Importer::import` is ASSUMED to be a
//     function import_spec(importer, bytes) -> Some(val) | None (None = the importer's Err: malformed input).
//     What the json/yaml/toml importers make of the parsed value is the subject of unmap_json/unmap_toml/unmap_yaml.
//   * `impl From<Rc<Val>> for Value` / `impl From<&Val> for Value` (opcode/convert.rs) are extracted and verified:
//     the value pushed denotes the same data tree as the importer's value.
// Genuine defects found with this contract on the pinned tree (both fixed by /scratch/patches/include_hook.patch;
// the unit is written against the FIXED text, the pinned behaviours are seeded mutants):
//   (a) an EMPTY file included with ANY importer yielded NULL ("including an empty file. Use NULL as the result")
//       instead of what the importer says: empty JSON is malformed (must be a build error), empty TOML is the
//       empty table, base64 of nothing is the empty string;
//   (b) importers were fed through read_to_string, so `include b64 "file"` of a file that is not valid UTF-8
//       failed ("stream did not contain valid UTF-8") instead of yielding its base64 encoding.
//@ include prelude/head.rs
use std::rc::Rc;
use vstd::std_specs::convert::*;
use vstd::utf8::*;

verus! {
//@ include prelude/core.rs
//@ include prelude/vm_types.rs
//@ include prelude/include_hook_world.rs

// ---------- the importers ----------
// Val: extracted verbatim (its Constraint payload is the opaque ConstraintVal of prelude/vm_values.rs).
//@ extract src/build/ir.rs :: enum Val
//@   rule R0
//@ end
//@ include prelude/unmap_json_tree.rs

// ---------- raising an IR value to the VM value pushed on the stack (opcode/convert.rs) ----------
// `impl From<Rc<Val>> for Value` and `impl From<&Val> for Value` call each other through `.into()`; Verus rejects
// recursion through trait impls, so the two bodies are extracted as the inherent functions `Value::from_rc_val`
// / `Value::from_val_ref` and each `.into()` is rewritten to the function it dispatches to (R7: trait dispatch
// resolved statically - same bodies, same calls).
// vdata(value): the data tree a VM value denotes (source positions are not data).
pub open spec fn vdata(v: Value) -> D
    decreases v
{
    match v {
        P(Empty) => D::Null,
        P(Bool(b)) => D::Bool(b),
        P(Int(i)) => D::Int(i as int),
        P(Float(f)) => D::Float(f),
        P(Str(s)) => D::Str(s@),
        C(List(l, _)) => D::List(Seq::new(l@.len(), |k: int| if 0 <= k < l@.len() { vdata(*l@[k]) } else { D::NotData })),
        C(Tuple(fs, _)) => D::Obj(Seq::new(fs@.len(), |k: int| if 0 <= k < fs@.len() { (fs@[k].0@, vdata(*fs@[k].1)) } else { (Seq::<char>::empty(), D::NotData) })),
        _ => D::NotData,
    }
}
//@ clone_spec ConstraintVal
impl Position {
    // ast::Position::new: positions are not data (the raised value gets dummy positions)
    #[verifier::external_body]
    pub fn new(line: usize, column: usize, offset: usize) -> Self { unimplemented!() }
}
pub open spec fn raise_list_inv(lst: Vec<Rc<Value>>, els: Vec<Rc<Val>>, n: int) -> bool {
    &&& lst@.len() == n
    &&& forall|k: int| 0 <= k < n ==> (representable(data(*(#[trigger] els@[k]))) ==> vdata(*lst@[k]) == data(*els@[k]))
}
pub open spec fn raise_tuple_inv(lst: Vec<(Rc<str>, Rc<Value>)>, flds: Vec<(Rc<str>, Rc<Val>)>, n: int) -> bool {
    &&& lst@.len() == n
    &&& forall|k: int| 0 <= k < n ==> lst@[k].0@ == (#[trigger] flds@[k]).0@ && (representable(data(*flds@[k].1)) ==> vdata(*lst@[k].1) == data(*flds@[k].1))
}

//@ extract src/build/opcode/convert.rs :: impl From<Rc<Val>> for Value :: fn from
//@   impl_header impl Value
//@   subst "fn from(val: Rc<Val>)" => "pub fn from_rc_val(val: Rc<Val>)"
//@   subst "val.as_ref().into()" => "Value::from_val_ref(val.as_ref())"
//@   ret r
//@   sig <<<
        ensures representable(data(*val)) ==> vdata(r) == data(*val)
        decreases *val, 1int
//@   >>>
//@ end
//@ extract src/build/opcode/convert.rs :: impl From<&Val> for Value :: fn from
//@   impl_header #[verifier::loop_isolation(false)] impl Value
//@   subst "fn from(val: &Val)" => "pub fn from_val_ref(val: &Val)"
//@   subst "lst.push(Rc::new(e.into()));" => "lst.push(Rc::new(Value::from_rc_val(e)));"
//@   subst "field_list.push((key.clone(), Rc::new(val.into())));" => "field_list.push((key.clone(), Rc::new(Value::from_rc_val(val))));"
//@   mutant raise_list_last_dropped "C(List(lst, positions))" => "{ lst.pop(); C(List(lst, positions)) }" expect from_val_ref
//@   mutant raise_int_as_float "Val::Int(i) => P(Int(*i))" => "Val::Int(i) => P(Float(0.0))" expect from_val_ref
//@   mutant raise_null_as_empty_string "Val::Empty => P(Empty)" => "Val::Empty => P(Str(\"\".into()))" expect from_val_ref
//@   ret r
//@   sig <<<
        ensures representable(data(*val)) ==> vdata(r) == data(*val)
        decreases *val, 0int
//@   >>>
//@   body_start <<<
        let ghost val0 = *val;
//@   >>>
//@   loop 1 iter it <<<
                    invariant
                        *val is List && (*val)->List_0 == *els,
                        it.seq().len() == els@.len(),
                        forall|k: int| 0 <= k < els@.len() ==> *(#[trigger] it.seq()[k]) == els@[k],
                        raise_list_inv(lst, *els, it.index@),
//@   >>>
//@   after_loop 1 <<<
                proof {
                    if representable(data(*val)) {
                        assert forall|k: int| 0 <= k < els@.len() implies representable(data(*(#[trigger] els@[k]))) by {
                            assert(data(*val)->List_0[k] == data(*els@[k]));
                        }
                        assert(data(*val)->List_0.len() == lst@.len());
                        assert(vdata(C(List(lst, positions)))->List_0 =~= data(*val)->List_0);
                    }
                }
//@   >>>
//@   loop 2 iter it <<<
                    invariant
                        val0 is Tuple && val0->Tuple_0 == *flds,
                        it.seq().len() == flds@.len(),
                        forall|k: int| 0 <= k < flds@.len() ==> *(#[trigger] it.seq()[k]) == flds@[k],
                        raise_tuple_inv(field_list, *flds, it.index@),
//@   >>>
//@   after_loop 2 <<<
                proof {
                    if representable(data(*val)) {
                        assert forall|k: int| 0 <= k < flds@.len() implies representable(data(*(#[trigger] flds@[k]).1)) by {
                            assert(data(*val)->Obj_0[k].1 == data(*flds@[k].1));
                        }
                        assert(data(*val)->Obj_0.len() == field_list@.len());
                        assert(vdata(C(Tuple(field_list, positions)))->Obj_0 =~= data(*val)->Obj_0);
                    }
                }
//@   >>>
//@ end

//@ extract src/convert/json.rs :: struct JsonConverter
//@   rule R0
//@ end
//@ extract src/convert/yaml.rs :: struct YamlConverter
//@   rule R0
//@ end
//@ extract src/convert/toml.rs :: struct TomlConverter
//@   rule R0
//@ end
//@ extract src/convert/b64.rs :: struct Base64Importer
//@   rule R0
//@ end

// `dyn traits::Importer`: the closed sum of its implementors (all of `impl Importer for ..` in src/convert);
// `import` dispatches on the variant like the vtable does.
pub enum VDynImporter { Json(JsonConverter), Yaml(YamlConverter), Toml(TomlConverter), B64(Base64Importer) }

// ASSUMED for the three parsing importers (their own units unmap_json / unmap_yaml / unmap_toml say what the value
// is): `import` is a deterministic FUNCTION of (importer, bytes) without side effects: Some(val) = Ok(val),
// None = Err (the document is malformed for that format).
pub uninterp spec fn import_spec(i: VDynImporter, bytes: Seq<u8>) -> Option<Val>;
impl JsonConverter {
    #[verifier::external_body]
    pub fn import(&self, bytes: &[u8]) -> (r: Result<Rc<Val>, VBoxDynError>)
        ensures match import_spec(VDynImporter::Json(*self), bytes@) { Some(v) => r matches Ok(x) && *x == v, None => r is Err }
    { unimplemented!() }
}
impl YamlConverter {
    #[verifier::external_body]
    pub fn import(&self, bytes: &[u8]) -> (r: Result<Rc<Val>, VBoxDynError>)
        ensures match import_spec(VDynImporter::Yaml(*self), bytes@) { Some(v) => r matches Ok(x) && *x == v, None => r is Err }
    { unimplemented!() }
}
impl TomlConverter {
    #[verifier::external_body]
    pub fn import(&self, bytes: &[u8]) -> (r: Result<Rc<Val>, VBoxDynError>)
        ensures match import_spec(VDynImporter::Toml(*self), bytes@) { Some(v) => r matches Ok(x) && *x == v, None => r is Err }
    { unimplemented!() }
}

// The base64 importer is verified here. ASSUMED: the base64 crate's `Engine::encode` of the two general purpose
// engines is the (uninterpreted) function b64_text(url_safe, bytes).
pub uninterp spec fn b64_text(url_safe: bool, bytes: Seq<u8>) -> Seq<char>;
pub struct B64Engine { pub url_safe: bool }
pub const STANDARD: B64Engine = B64Engine { url_safe: false };
pub const URL_SAFE: B64Engine = B64Engine { url_safe: true };
impl B64Engine {
    #[verifier::external_body]
    pub fn encode(&self, bytes: &[u8]) -> (r: String)
        ensures r@ == b64_text(self.url_safe, bytes@)
    { unimplemented!() }
}

// what an importer yields for the bytes of a file: a value ...
pub open spec fn import_yields(imp: VDynImporter, b: Seq<u8>, v: Val) -> bool {
    match imp {
        // the base64 text of the bytes, standard or URL-safe alphabet, as a string
        VDynImporter::B64(i) => v matches Val::Str(s) && s@ == b64_text(i.url_safe, b),
        _ => import_spec(imp, b) == Some(v),
    }
}
// ... or an error (malformed input); base64 encoding never fails
pub open spec fn import_fails(imp: VDynImporter, b: Seq<u8>) -> bool {
    match imp {
        VDynImporter::B64(_) => false,
        _ => import_spec(imp, b) is None,
    }
}

//@ extract src/convert/b64.rs :: impl Importer for Base64Importer :: fn import
//@   impl_header impl Base64Importer
//@   subst "Box<dyn Error>>" => "VBoxDynError>"
//@   mutant b64_alphabets_swapped "if self.url_safe" => "if !self.url_safe" expect import
//@   ret r
//@   sig <<<
        ensures r matches Ok(x) && import_yields(VDynImporter::B64(*self), bytes@, *x)
//@   >>>
//@ end

impl VDynImporter {
    pub fn import(&self, bytes: &[u8]) -> (r: Result<Rc<Val>, VBoxDynError>)
        ensures
            import_fails(*self, bytes@) ==> r is Err,
            !import_fails(*self, bytes@) ==> (r matches Ok(x) && import_yields(*self, bytes@, *x)),
    {
        match self {
            VDynImporter::Json(c) => c.import(bytes),
            VDynImporter::Yaml(c) => c.import(bytes),
            VDynImporter::Toml(c) => c.import(bytes),
            VDynImporter::B64(c) => c.import(bytes),
        }
    }
    // `Box::new(importer)` + unsizing coercion to `Box<dyn Importer>`
    pub fn boxed<I: VImporter>(i: I) -> (r: Box<VDynImporter>) ensures *r == i.as_dyn_spec() { Box::new(i.as_dyn()) }
}
pub trait VImporter: Sized {
    spec fn as_dyn_spec(self) -> VDynImporter;
    fn as_dyn(self) -> (r: VDynImporter) ensures r == self.as_dyn_spec();
}
impl VImporter for JsonConverter {
    open spec fn as_dyn_spec(self) -> VDynImporter { VDynImporter::Json(self) }
    fn as_dyn(self) -> (r: VDynImporter) { VDynImporter::Json(self) }
}
impl VImporter for YamlConverter {
    open spec fn as_dyn_spec(self) -> VDynImporter { VDynImporter::Yaml(self) }
    fn as_dyn(self) -> (r: VDynImporter) { VDynImporter::Yaml(self) }
}
impl VImporter for TomlConverter {
    open spec fn as_dyn_spec(self) -> VDynImporter { VDynImporter::Toml(self) }
    fn as_dyn(self) -> (r: VDynImporter) { VDynImporter::Toml(self) }
}
impl VImporter for Base64Importer {
    open spec fn as_dyn_spec(self) -> VDynImporter { VDynImporter::B64(self) }
    fn as_dyn(self) -> (r: VDynImporter) { VDynImporter::B64(self) }
}
// the module paths `make_registry` names the importers by
pub mod b64 { pub use super::Base64Importer; }
pub mod json { pub use super::JsonConverter; }
pub mod yaml { pub use super::YamlConverter; }
pub mod toml { pub use super::TomlConverter; }
// R7: `S: Into<String>` of `register` -> a local trait with the one instance used (`&str`); `sview` is the text.
// (in a module of its own so that its `into` does not compete with std's `Into` elsewhere)
pub mod vinto {
    use super::*;
    pub trait VIntoString: Sized {
        spec fn sview(&self) -> Seq<char>;
        fn into(self) -> (r: String) ensures r@ == self.sview();
    }
    impl VIntoString for &str {
        open spec fn sview(&self) -> Seq<char> { (**self)@ }
        #[verifier::external_body]
        fn into(self) -> (r: String) { unimplemented!() }
    }
}

//@ extract src/convert/mod.rs :: struct ImporterRegistry
//@   rule R0 RV
//@   subst "dyn traits::Importer" => "VDynImporter"
//@ end

pub open spec fn lookup(reg: ImporterRegistry, name: Seq<char>) -> Option<VDynImporter> {
    if reg.importers@.contains_key(name) { Some(reg.importers@[name]) } else { None }
}

//@ extract src/convert/mod.rs :: impl ImporterRegistry :: fn get_importer
//@   subst "dyn traits::Importer" => "VDynImporter"
//@   subst "|c| c.as_ref()" => "|c: &Box<VDynImporter>| -> (r: &VDynImporter) ensures r == &**c { c.as_ref() }"
//@   ret r
//@   sig <<<
        ensures
            match r { Some(c) => lookup(*self, typ@) == Some(*c), None => lookup(*self, typ@) is None },
//@   >>>
//@ end

//@ extract src/convert/mod.rs :: impl ImporterRegistry :: fn new
//@   rule R0
//@   ret r
//@   sig <<<
        ensures r.importers@ == Map::<Seq<char>, VDynImporter>::empty()
//@   >>>
//@ end
//@ extract src/convert/mod.rs :: impl ImporterRegistry :: fn register
//@   subst "<S: Into<String>>" => "<S: vinto::VIntoString>"
//@   subst "dyn traits::Importer" => "VDynImporter"
//@   sig <<<
        ensures final(self).importers@ == old(self).importers@.insert(typ.sview(), *importer)
//@   >>>
//@ end
// The registry every Environment starts with (environment.rs: `importer_registry: ImporterRegistry::make_registry()`):
// exactly the five documented include types, each bound to its importer.
pub open spec fn documented_importers(reg: ImporterRegistry) -> bool {
    &&& reg.importers@.dom() =~= set!["b64"@, "b64urlsafe"@, "json"@, "yaml"@, "toml"@]
    &&& reg.importers@["b64"@] == VDynImporter::B64(Base64Importer { url_safe: false })
    &&& reg.importers@["b64urlsafe"@] == VDynImporter::B64(Base64Importer { url_safe: true })
    &&& reg.importers@["json"@] is Json
    &&& reg.importers@["yaml"@] is Yaml
    &&& reg.importers@["toml"@] is Toml
}
// the six type names are pairwise different texts
pub proof fn lemma_names_distinct()
    ensures
        "b64"@ != "b64urlsafe"@, "b64"@ != "json"@, "b64"@ != "yaml"@, "b64"@ != "toml"@, "b64"@ != "str"@,
        "b64urlsafe"@ != "json"@, "b64urlsafe"@ != "yaml"@, "b64urlsafe"@ != "toml"@, "b64urlsafe"@ != "str"@,
        "json"@ != "yaml"@, "json"@ != "toml"@, "json"@ != "str"@, "yaml"@ != "toml"@, "yaml"@ != "str"@, "toml"@ != "str"@,
{
    reveal_strlit("str"); reveal_strlit("b64"); reveal_strlit("b64urlsafe");
    reveal_strlit("json"); reveal_strlit("yaml"); reveal_strlit("toml");
    assert("b64"@.len() == 3 && "b64urlsafe"@.len() == 10 && "json"@.len() == 4 && "yaml"@.len() == 4 && "toml"@.len() == 4 && "str"@.len() == 3);
    assert("b64"@[0] == 'b' && "str"@[0] == 's' && "json"@[0] == 'j' && "yaml"@[0] == 'y' && "toml"@[0] == 't');
}
//@ extract src/convert/mod.rs :: impl ImporterRegistry :: fn make_registry
//@   subst all "Box::new" => "VDynImporter::boxed"
//@   body_start <<<
        proof { lemma_names_distinct(); }
//@   >>>
//@   mutant standard_is_urlsafe "url_safe: false" => "url_safe: true" expect make_registry
//@   mutant type_name_typo "\"b64urlsafe\"," => "\"b64url\"," expect make_registry
//@   mutant urlsafe_is_standard "url_safe: true" => "url_safe: false" expect make_registry
//@   ret r
//@   sig <<<
        ensures documented_importers(r)
//@   >>>
//@ end

// ---------- the shared environment (only read) ----------
//@ extract src/build/opcode/environment.rs :: struct Environment
//@   rule R0
//@   subst "Environment<Stdout, Stderr> where Stdout: Write + Clone, Stderr: Write + Clone," => "Environment"
//@ end

// ---------- the contract, from the property statement ----------
// What `include <type> <path>` must yield, given the operands the translator leaves on the stack
// (path on top, type below), the registered importers and the readable files:
pub enum Inc {
    Text(Seq<char>),                    // `str`: the file's text
    Import(VDynImporter, Seq<u8>),      // any other registered type: what its importer reads from the file's bytes
    Fail,                               // a build error
}
pub open spec fn include_spec(reg: ImporterRegistry, world: World, path_v: Value, typ_v: Value) -> Inc {
    match (path_v, typ_v) {
        (P(Str(p)), P(Str(t))) =>
            if t@ == "str"@ {
                // the file's text unchanged; a file that cannot be read or is not text: an error
                match file_text(world, p@) { Some(txt) => Inc::Text(txt), None => Inc::Fail }
            } else {
                match lookup(reg, t@) {
                    // unknown include type: an error
                    None => Inc::Fail,
                    Some(imp) => match file_bytes(world, p@) {
                        None => Inc::Fail,
                        // the importer's verdict on EXACTLY the file's bytes - whatever they are (empty,
                        // not UTF-8 ...): its value, or an error for malformed input
                        Some(b) => if import_fails(imp, b) { Inc::Fail } else { Inc::Import(imp, b) },
                    },
                }
            },
        _ => Inc::Fail,
    }
}

// `top` denotes exactly the data tree of a value the importer yields for the bytes
pub open spec fn denotes_import(imp: VDynImporter, b: Seq<u8>, top: Value) -> bool {
    exists|v: Val| #[trigger] import_yields(imp, b, v) && (representable(data(v)) ==> vdata(top) == data(v))
}

pub open spec fn include_post(
    stack0: Seq<(Rc<Value>, Position)>, stack1: Seq<(Rc<Value>, Position)>,
    env: Environment, world: World, pos: Position, r: Result<(), Error>,
) -> bool {
    let n = stack0.len() as int;
    // both operands are consumed; on success exactly one value is pushed, at the statement's position
    let pushed_one = r is Ok && stack1.len() == n - 1 && stack1.take(n - 2) =~= stack0.take(n - 2) && stack1[n - 2].1 == pos;
    match include_spec(env.importer_registry, world, *stack0[n - 1].0, *stack0[n - 2].0) {
        Inc::Text(txt) => pushed_one && (*stack1[n - 2].0 matches P(Str(s)) && s@ == txt),
        // the pushed value denotes exactly the data tree of the value the importer yields
        Inc::Import(imp, b) => pushed_one && denotes_import(imp, b, *stack1[n - 2].0),
        Inc::Fail => r is Err && stack1 =~= stack0.take(n - 2),
    }
}

impl Error {
    // error.rs `Error::with_pos` (unit err_pos): sets the position, nothing else
    #[verifier::external_body]
    pub fn with_pos(self, pos: Position) -> Self { unimplemented!() }
}
//@ extract src/build/opcode/error.rs :: macro decorate_error
//@ end
//@ extract src/build/opcode/runtime.rs :: impl Builtins :: fn get_file_as_string
//@   subst "path: &str" => "path: &str, world: &World"
//@   subst "File::open(path)" => "File::open(path, world)"
//@   subst "f.read_to_string(&mut contents)" => "f.read_to_string(&mut contents, world)"
//@   mutant str_text_altered "f.read_to_string(&mut contents)?;" => "f.read_to_string(&mut contents)?; contents.push('x');" expect get_file_as_string
//@   ret r
//@   sig <<<
        ensures match file_text(*world, path@) { Some(txt) => r matches Ok(s) && s@ == txt, None => r is Err }
//@   >>>
//@ end

//@ extract src/build/opcode/runtime.rs :: impl Builtins :: fn get_file_as_bytes
//@   subst "path: &str" => "path: &str, world: &World"
//@   subst "File::open(path)" => "File::open(path, world)"
//@   subst "f.read_to_end(&mut contents)" => "f.read_to_end(&mut contents, world)"
//@   ret r
//@   sig <<<
        ensures match file_bytes(*world, path@) { Some(b) => r matches Ok(v) && v@ == b, None => r is Err }
//@   >>>
//@ end

//@ extract src/build/opcode/runtime.rs :: impl Builtins :: fn include
//@   rule R1 R3
//@   subst "include<O, E>" => "include"
//@   subst "env: &RefCell<Environment<O, E>>," => "env: &Environment, world: &World,"
//@   subst "where O: std::io::Write + Clone, E: std::io::Write + Clone," => ""
//@   subst "env.borrow()" => "env"
//@   subst all "self.get_file_as_string(&path)" => "self.get_file_as_string(&path, world)"
//@   subst "self.get_file_as_bytes(&path)" => "self.get_file_as_bytes(&path, world)"
//@   subst "Ok(v) => v.into()," => "Ok(v) => Value::from_rc_val(v),"
// Seeded mutants: (1) empty_file_is_null = the pinned tree's special case for empty files; (2) importer_reads_text =
// the pinned tree feeding importers through read_to_string (written against the rewritten text); (3) importer error swallowed into NULL; (4) unknown type
// yields NULL; (5) the two operands taken in the wrong order.
//@   mutant empty_file_is_null "match importer.import(&contents) { Ok(v) => v.into(), Err(e) => return Err(Error::new(format!(\"{}\", e).into(), pos)), }" => "if contents.is_empty() { P(Empty) } else { match importer.import(&contents) { Ok(v) => v.into(), Err(e) => return Err(Error::new(format!(\"{}\", e).into(), pos)), } }" expect include
//@   mutant importer_reads_text "let contents = decorate_error!(pos => self.get_file_as_bytes(&path, world))?; match importer.import(&contents)" => "let contents = decorate_error!(pos => self.get_file_as_string(&path, world))?; match importer.import(contents.as_bytes())" expect include
//@   mutant error_swallowed_into_null "Err(e) => return Err(Error::new(format!(\"{}\", e).into(), pos))," => "Err(e) => P(Empty)," expect include
//@   mutant unknown_type_is_null "None => { return Err(Error::new(format!(\"No such conversion type {}\", &typ).into(), pos,)) }" => "None => { P(Empty) }" expect include
//@   mutant operands_swapped "let path = stack.pop(); let typ = stack.pop();" => "let typ = stack.pop(); let path = stack.pop();" expect include
//@   ret r
//@   sig <<<
        requires
            // the translator pushes the include type and the path before Hook::Include (else: panic!, see C04)
            old(stack)@.len() >= 2,
        ensures
            include_post(old(stack)@, final(stack)@, *env, *world, pos, r),
//@   >>>
//@ end

// ---------- the property's clauses, read off the contract ----------
// "`include str` yields the file's text unchanged"
pub proof fn lemma_include_str_is_the_text(
    s0: Seq<(Rc<Value>, Position)>, s1: Seq<(Rc<Value>, Position)>, env: Environment, world: World, pos: Position,
    r: Result<(), Error>, p: Rc<str>, t: Rc<str>,
)
    requires
        s0.len() >= 2, *s0[s0.len() - 1].0 == P(Str(p)), *s0[s0.len() - 2].0 == P(Str(t)), t@ == "str"@,
        world.fs@.contains_key(p@), valid_utf8(world.fs@[p@]),
        include_post(s0, s1, env, world, pos, r),
    ensures
        r is Ok, *s1.last().0 matches P(Str(s)) && encode_utf8(s@) == world.fs@[p@],
{
    decode_utf8_encode_utf8(world.fs@[p@]);
}

// "unknown include types are build errors"
pub proof fn lemma_unknown_type_is_an_error(
    s0: Seq<(Rc<Value>, Position)>, s1: Seq<(Rc<Value>, Position)>, env: Environment, world: World, pos: Position,
    r: Result<(), Error>, p: Rc<str>, t: Rc<str>,
)
    requires
        s0.len() >= 2, *s0[s0.len() - 1].0 == P(Str(p)), *s0[s0.len() - 2].0 == P(Str(t)),
        t@ != "str"@, !env.importer_registry.importers@.contains_key(t@),
        include_post(s0, s1, env, world, pos, r),
    ensures r is Err
{
}

// "malformed input is a build error": whenever the importer of the type rejects the file's bytes
pub proof fn lemma_malformed_input_is_an_error(
    s0: Seq<(Rc<Value>, Position)>, s1: Seq<(Rc<Value>, Position)>, env: Environment, world: World, pos: Position,
    r: Result<(), Error>, p: Rc<str>, t: Rc<str>,
)
    requires
        s0.len() >= 2, *s0[s0.len() - 1].0 == P(Str(p)), *s0[s0.len() - 2].0 == P(Str(t)),
        t@ != "str"@, env.importer_registry.importers@.contains_key(t@), world.fs@.contains_key(p@),
        import_fails(env.importer_registry.importers@[t@], world.fs@[p@]),
        include_post(s0, s1, env, world, pos, r),
    ensures r is Err
{
}

pub proof fn lemma_unreadable_file_is_an_error(
    s0: Seq<(Rc<Value>, Position)>, s1: Seq<(Rc<Value>, Position)>, env: Environment, world: World, pos: Position,
    r: Result<(), Error>, p: Rc<str>, t: Rc<str>,
)
    requires
        s0.len() >= 2, *s0[s0.len() - 1].0 == P(Str(p)), *s0[s0.len() - 2].0 == P(Str(t)),
        !world.fs@.contains_key(p@), t@ == "str"@ || env.importer_registry.importers@.contains_key(t@),
        include_post(s0, s1, env, world, pos, r),
    ensures r is Err
{
}

// "`include b64|b64urlsafe` yields the file's standard or URL-safe base64 encoding" - for ANY bytes (empty, binary):
// with the registry of make_registry the pushed value denotes the string b64_text(urlsafe?, bytes).
pub proof fn lemma_include_b64(
    s0: Seq<(Rc<Value>, Position)>, s1: Seq<(Rc<Value>, Position)>, env: Environment, world: World, pos: Position,
    r: Result<(), Error>, p: Rc<str>, t: Rc<str>,
)
    requires
        s0.len() >= 2, *s0[s0.len() - 1].0 == P(Str(p)), *s0[s0.len() - 2].0 == P(Str(t)),
        t@ == "b64"@ || t@ == "b64urlsafe"@,
        documented_importers(env.importer_registry), world.fs@.contains_key(p@),
        include_post(s0, s1, env, world, pos, r),
    ensures
        r is Ok,
        vdata(*s1.last().0) == D::Str(b64_text(t@ == "b64urlsafe"@, world.fs@[p@])),
{
    lemma_names_distinct();
    assert(env.importer_registry.importers@.dom().contains(t@));
}

} // verus!

fn main() {}
