//@ unit map_json
//@ serves C03
//@ must_verify JsonConverter::convert_value JsonConverter::convert_list JsonConverter::convert_tuple JsonConverter::convert_env lemma_obj_fold data list_data tuple_data jview
//@ include prelude/head.rs
use std::rc::Rc;

verus! {
//@ include prelude/core.rs
//@ include prelude/map_json_data.rs
//@ include prelude/map_json_models.rs

// C03, the ucg-owned half for JSON: `Val -> serde_json::Value`.
// For ALL values v (any nesting, any strings, any i64, any f64, duplicate field names included):
//   convert_value(v) is Ok(j)  <=>  data(Json, v) is a tree, and then  jview(j) == that tree
//   convert_value(v) is Err    <=>  data(Json, v) is None  (a non-finite float or a constraint value somewhere
//                                   inside v - nothing is dropped or defaulted to make the rest go through).

//@ extract src/convert/json.rs :: struct JsonConverter
//@   rule R0
//@ end

//@ extract src/convert/json.rs :: impl JsonConverter :: fn convert_list
//@   ret r
//@   sig <<<
        ensures json_agrees(list_data(Fmt::Json, items@), r)
        decreases items@, 1int
//@   >>>
//@   loop 1 iter it <<<
            invariant
                it.seq().len() == items@.len(),
                forall|k: int| 0 <= k < items@.len() ==> *it.seq()[k] == items@[k],
                v@.len() == it.index@,
                forall|k: int| 0 <= k < it.index@ ==> data(Fmt::Json, *(#[trigger] items@[k])) is Some,
                forall|k: int| 0 <= k < it.index@ ==> jview(#[trigger] v@[k]) == data(Fmt::Json, *items@[k])->Some_0,
//@   >>>
//@   before "v.push" <<<
            assert(*val == items@[it.index@]);
//@   >>>
//@   after_loop 1 <<<
        assert(jlist(v@) =~= list_entries(Fmt::Json, items@, items@.len() as int));
//@   >>>
//@   mutant list_element_skipped_on_error "v.push(self.convert_value(val)?);" => "match self.convert_value(val) { Ok(x) => { v.push(x); } Err(_) => { } }" expect convert_list
//@   mutant list_built_in_reverse "v.push(self.convert_value(val)?);" => "v.push(self.convert_value(&items[items.len() - 1 - v.len()])?);" expect convert_list
//@   mutant list_first_element_twice "v.push(self.convert_value(val)?);" => "v.push(self.convert_value(&items[0])?);" expect convert_list
//@ end

//@ extract src/convert/json.rs :: impl JsonConverter :: fn convert_tuple
//@   ret r
//@   sig <<<
        ensures json_agrees(tuple_data(Fmt::Json, items@), r)
        decreases items@, 1int
//@   >>>
//@   loop 1 iter it <<<
            invariant
                it.seq().len() == items@.len(),
                forall|k: int| 0 <= k < items@.len() ==> *it.seq()[k] == items@[k],
                forall|k: int| 0 <= k < it.index@ ==> data(Fmt::Json, *(#[trigger] items@[k]).1) is Some,
                jobj(mp@) =~= obj_fold(true, tuple_entries(Fmt::Json, items@, it.index@ as int)),
//@   >>>
//@   before "mp.entry" <<<
            proof {
                let n = it.index@ as int;
                assert(items@[n].0 == *k && items@[n].1 == *v);
                assert(tuple_entries(Fmt::Json, items@, n + 1).drop_last() =~= tuple_entries(Fmt::Json, items@, n));
                assert(tuple_entries(Fmt::Json, items@, n + 1).last() == (k@, data(Fmt::Json, **v)->Some_0));
            }
//@   >>>
//@   mutant null_field_dropped "mp.entry(k.as_ref()).or_insert(self.convert_value(v)?);" => "if let Val::Empty = **v { } else { mp.entry(k.as_ref()).or_insert(self.convert_value(v)?); }" expect convert_tuple
//@   mutant field_error_swallowed "mp.entry(k.as_ref()).or_insert(self.convert_value(v)?);" => "match self.convert_value(v) { Ok(x) => { mp.entry(k.as_ref()).or_insert(x); } Err(_) => { } }" expect convert_tuple
//@ end

//@ extract src/convert/json.rs :: impl JsonConverter :: fn convert_env
//@   ret r
//@   sig <<<
        ensures json_agrees(env_data(Fmt::Json, items@), r)
//@   >>>
//@   loop 1 iter it <<<
            invariant
                it.seq().len() == items@.len(),
                forall|k: int| 0 <= k < items@.len() ==> *it.seq()[k] == items@[k],
                jobj(mp@) =~= obj_fold(true, env_entries(items@, it.index@ as int)),
//@   >>>
//@   before "mp.entry" <<<
            proof {
                let n = it.index@ as int;
                assert(items@[n].0 == *k && items@[n].1 == *v);
                assert(env_entries(items@, n + 1).drop_last() =~= env_entries(items@, n));
                assert(env_entries(items@, n + 1).last() == (k@, D::Str(v@)));
            }
//@   >>>
//@   mutant env_key_value_swapped "mp.entry(k.as_ref()) .or_insert(serde_json::Value::String(v.to_string()));" => "mp.entry(v.as_ref()) .or_insert(serde_json::Value::String(k.to_string()));" expect convert_env
//@ end

//@ extract src/convert/json.rs :: impl JsonConverter :: fn convert_value
//@   rule R1 R3(f,i)
//@   subst "serde_json::Value::Bool(b)" => "serde_json::Value::Bool(*b)"
//@   subst all "std::io::Error::new" => "verif_io_error"
//@   ret r
//@   sig <<<
        ensures
            // every kind of value except Int
            !(*v is Int) ==> json_agrees(data(Fmt::Json, *v), r),
            // FINDING-CLAUSE json-int-exact: an integer arrives as that integer (not as the nearest double)
            *v is Int ==> json_agrees(data(Fmt::Json, *v), r),
        decreases *v, 0int
//@   >>>
//@   mutant int_through_f64 "serde_json::Number::from(i)" => "match serde_json::Number::from_f64(i as f64) { Some(n) => n, None => serde_json::Number::from(i) }" expect convert_value
//@   mutant null_becomes_false "Val::Empty => serde_json::Value::Null" => "Val::Empty => serde_json::Value::Bool(false)" expect convert_value
//@   mutant constraint_becomes_null "&Val::Constraint(_) => {" => "&Val::Constraint(_) => { if true { return Ok(serde_json::Value::Null); }" expect convert_value
//@   mutant nonfinite_float_becomes_null "None => { return Err(std::io::Error::new( std::io::ErrorKind::InvalidData, format!(\"Float is too large or Not a Number {}\", f), )); }" => "None => { return Ok(serde_json::Value::Null); }" expect convert_value
//@ end

} // verus!

fn main() {}
