//@ unit unmap_toml
//@ serves C15
//@ must_verify TomlConverter::convert_toml_val TomlConverter::import
// C15 — included data files decode to the data they contain: the ucg-owned mapping toml::Value -> Val.
// A TOML document has no null and its integers are i64: every toml::Value is representable, the mapper never fails.
// Datetime: the code binds a TOML datetime to a STRING holding the toml crate's Display rendering of it
// (`Val::Str(format!("{}", d).into())`); the contract says exactly that (tview: Datetime(d) |-> Str(toml_datetime_text(d))).
// Table members come in the Map's iteration order = ascending key order (`preserve_order` is off), not document order.
//@ include prelude/head.rs
use std::rc::Rc;
use vstd::std_specs::convert::*;
use vstd::std_specs::iter::IteratorSpec;

verus! {
//@ include prelude/core.rs
//@ include prelude/unmap_json_data.rs
//@ include prelude/unmap_toml_models.rs

// ---------- view of the format value: the tree the parsed document denotes ----------
pub open spec fn tview(v: toml::Value) -> D
    decreases v
{
    match v {
        toml::Value::String(s) => D::Str(s@),
        toml::Value::Integer(i) => D::Int(i as int),
        toml::Value::Float(f) => D::Float(f),
        toml::Value::Boolean(b) => D::Bool(b),
        toml::Value::Datetime(d) => D::Str(toml_datetime_text(d)),
        toml::Value::Array(l) => D::List(Seq::new(l@.len(), |k: int| if 0 <= k < l@.len() { tview(l@[k]) } else { D::NotData })),
        toml::Value::Table(m) => D::Obj(Seq::new(m@.len(), |k: int| if 0 <= k < m@.len() { (m@[k].0@, tview(m@[k].1)) } else { (Seq::<char>::empty(), D::NotData) })),
    }
}

// loop invariants: the first n elements / members are mapped, each to a value denoting exactly its tree
pub open spec fn arr_inv(vs: Vec<Rc<Val>>, l: Vec<toml::Value>, n: int) -> bool {
    &&& vs@.len() == n
    &&& forall|k: int| 0 <= k < n ==> data(*vs@[k]) == tview(#[trigger] l@[k])
}
pub open spec fn tbl_inv(fs: Vec<(Rc<str>, Rc<Val>)>, m: toml::Map<String, toml::Value>, n: int) -> bool {
    &&& fs@.len() == n
    &&& forall|k: int| 0 <= k < n ==> fs@[k].0@ == (#[trigger] m@[k]).0@ && data(*fs@[k].1) == tview(m@[k].1)
}

//@ extract src/convert/toml.rs :: struct TomlConverter
//@   rule R0
//@ end

//@ extract src/convert/toml.rs :: impl TomlConverter :: fn convert_toml_val
//@   subst "Box<dyn Error>>" => "VBoxDynError>"
//@   subst "format!(\"{}\", d).into()" => "verif_fmt_toml_datetime(d)"
//@   mutant int_through_f64 "toml::Value::Integer(i) => Val::Int(*i)" => "toml::Value::Integer(i) => Val::Float(verif_i64_as_f64(*i))" expect convert_toml_val
//@   mutant array_order_changed "Val::List(vs)" => "{ if vs.len() > 1 { let x = vs.remove(0); vs.push(x); } Val::List(vs) }" expect convert_toml_val
//@   mutant array_last_dropped "Val::List(vs)" => "{ vs.pop(); Val::List(vs) }" expect convert_toml_val
//@   mutant key_replaced_by_value "fs.push((key.clone().into()," => "fs.push((match value { toml::Value::String(s) => s.clone().into(), _ => key.clone().into() }," expect convert_toml_val
//@   mutant bool_to_empty "toml::Value::Boolean(b) => Val::Boolean(*b)" => "toml::Value::Boolean(b) => Val::Empty" expect convert_toml_val
//@   mutant datetime_dropped "toml::Value::Datetime(d) => Val::Str(verif_fmt_toml_datetime(d))" => "toml::Value::Datetime(d) => Val::Empty" expect convert_toml_val
//@   mutant table_member_dropped "Val::Tuple(fs)" => "{ fs.pop(); Val::Tuple(fs) }" expect convert_toml_val
//@   ret r
//@   sig <<<
        ensures r matches Ok(val) && data(val) == tview(*v)
        decreases *v
//@   >>>
//@   loop 1 iter it <<<
                    invariant
                        *v is Array && (*v)->Array_0 == *l,
                        it.seq().len() == l@.len(),
                        forall|k: int| 0 <= k < l@.len() ==> *(#[trigger] it.seq()[k]) == l@[k],
                        arr_inv(vs, *l, it.index@),
//@   >>>
//@   after_loop 1 <<<
                proof {
                    assert(tview(*v)->List_0.len() == vs@.len());
                    assert(data(Val::List(vs))->List_0 =~= tview(*v)->List_0);
                }
//@   >>>
//@   loop 2 iter it <<<
                    invariant
                        *v is Table && (*v)->Table_0 == *m,
                        it.seq().len() == m@.len(),
                        forall|k: int| 0 <= k < m@.len() ==> *(#[trigger] it.seq()[k]) == m@[k],
                        tbl_inv(fs, *m, it.index@),
//@   >>>
//@   after_loop 2 <<<
                proof {
                    assert(tview(*v)->Obj_0.len() == fs@.len());
                    assert(data(Val::Tuple(fs))->Obj_0 =~= tview(*v)->Obj_0);
                }
//@   >>>
//@ end

// The importer: parse, then map. A document the parser rejects is an error; otherwise the parsed value's tree.
//@ extract src/convert/toml.rs :: impl Importer for TomlConverter :: fn import
//@   impl_header impl TomlConverter
//@   mutant parse_error_swallowed "toml::from_slice(bytes)?" => "match toml::from_slice(bytes) { Ok(v) => v, Err(_) => toml::Value::Boolean(false) }" expect import
//@   ret r
//@   sig <<<
        ensures match toml_parse(bytes@) {
            None => r is Err,
            Some(doc) => r matches Ok(val) && data(*val) == tview(doc),
        }
//@   >>>
//@ end

} // verus!

fn main() {}
