"""C03 bounded stand-ins: JSON, YAML and TOML output decodes back to the value that was output.

A seeded generator produces value trees (NULL, booleans, 64-bit integers incl. the extremes, floats, strings incl.
format-significant ones, lists and tuples nested to depth 3-5, keys that need quoting).  Each tree is written as a UCG literal,
sent through the REAL `ucg build` (`out json|yaml|toml|yamlmulti <literal>;`, one file per tree, many files per invocation) or
through a `convert <fmt> <literal>` expression, and the artifact is read back by an INDEPENDENT decoder: python's `json`,
`tomllib`, and PyYAML's pure-python parser with the YAML 1.2 core-schema scalar resolution (serde_yaml / libyaml are not
involved on the decoding side).  Oracle (from the property statement): the text is valid in its format and decodes to the same
nesting, list order, key set, identical strings, same booleans / nulls and numbers of equal numeric value; a value the format
cannot represent must make the build fail (never dropped, defaulted or altered).

Bounded: exactly the generated trees of the given seed; never counted as proved."""
import json
import math
import os
import random
import re
import shutil
import subprocess
import tempfile
from decimal import Decimal
from fractions import Fraction

try:
    import tomllib
except ModuleNotFoundError:      # python < 3.11
    tomllib = None

import realcode as R

I64_MAX = 2 ** 63 - 1
I64_MIN = -2 ** 63
F64_EXACT = 2 ** 53

# ---------------------------------------------------------------------------------------------------------------------
# KNOWN: inputs on which the real code violates the property today.  They are kept OUT of the generated families (so the
# stand-ins pass on the current tree) -- the oracle is NOT weakened for anything else.
# (Fixed since the first version of this module and now part of the families: yamlmulti `---` separators 60754ad, the extra
#  newline after a YAML document 6ac2269, TOML values that could only be written as broken TOML 3850144, and JSON integers
#  with |n| > 2^53 that went through f64 -- `out json 9007199254740993;` wrote 9007199254740992.0 -- fix json_int_exact.)
# JSON has one number type: the JSON converter writes an integer a double holds exactly in float notation (`42.0` for 42,
# pinned by the repo test convert::json::test::convert_int).  Numbers are therefore compared by EXACT numeric value
# (num_equal: never through a float comparison of big integers), so `42.0` for 42 is fine and 9007199254740992.0 for
# 9007199254740993 is not.
KNOWN = [
]


# ---------------------------------------------------------------------------------------------------------------------
# value model: None, bool, int, float, str, list, Tup (a tuple: ordered (key, value) pairs with unique keys)
class Tup(object):
    __slots__ = ('items',)

    def __init__(self, items):
        self.items = list(items)

    def __repr__(self):
        return 'Tup(%r)' % (self.items,)


SAFE_BARE = ['a', 'b', 'c', 'foo', 'bar', 'foo_bar', 'x1', 'name', 'value', 'item']


def int_lit(n):
    """UCG has no negative literals."""
    if n >= 0:
        return str(n)
    if n == I64_MIN:
        return '(0 - %d - 1)' % I64_MAX
    return '(0 - %d)' % (-n)


def float_lit(f):
    """A positional decimal literal that denotes exactly the double f (shortest round-trip digits, no exponent)."""
    if f != f:
        return '(0.0 / 0.0)'
    if f in (float('inf'), float('-inf')):
        return '(1.0 / 0.0)' if f > 0 else '((0.0 - 1.0) / 0.0)'
    d = format(Decimal(repr(abs(f))), 'f')
    if '.' not in d:
        d += '.0'
    assert float(d) == abs(f)
    return d if (f > 0 or f == 0) else '(0.0 - %s)' % d


def str_lit(s):
    out = ['"']
    for ch in s:
        if ch == '\\':
            out.append('\\\\')
        elif ch == '"':
            out.append('\\"')
        elif ch == '\n':
            out.append('\\n')
        elif ch == '\r':
            out.append('\\r')
        elif ch == '\t':
            out.append('\\t')
        else:
            out.append(ch)      # everything else (other control characters, non-ASCII) goes in raw
    out.append('"')
    return ''.join(out)


def ucg_lit(v):
    if v is None:
        return 'NULL'
    if v is True:
        return 'true'
    if v is False:
        return 'false'
    if isinstance(v, int):
        return int_lit(v)
    if isinstance(v, float):
        return float_lit(v)
    if isinstance(v, str):
        return str_lit(v)
    if isinstance(v, list):
        return '[' + ', '.join(ucg_lit(x) for x in v) + ']'
    if isinstance(v, Tup):
        return '{' + ', '.join('%s = %s' % (k if k in SAFE_BARE else str_lit(k), ucg_lit(x)) for k, x in v.items) + '}'
    raise TypeError(v)


def show(v):
    """The expected data, for reports."""
    if isinstance(v, Tup):
        return '{' + ', '.join('%r: %s' % (k, show(x)) for k, x in v.items) + '}'
    if isinstance(v, list):
        return '[' + ', '.join(show(x) for x in v) + ']'
    return repr(v)


# ---------------------------------------------------------------------------------------------------------------------
# generator
INT_EDGES = [0, 1, -1, 2, 7, -7, 10, 42, 255, 256, 65535, 65536, 2 ** 31 - 1, 2 ** 31, -2 ** 31, 2 ** 32, 10 ** 15,
             F64_EXACT - 1, F64_EXACT, -F64_EXACT, -F64_EXACT + 1,
             # beyond 2^53: integers a double cannot hold (odd ones), or can (even ones / powers of two)
             F64_EXACT + 1, -F64_EXACT - 1, F64_EXACT + 2, -F64_EXACT - 2, F64_EXACT + 3, 2 ** 54 + 2, 2 ** 54 + 1, 2 ** 62, 2 ** 62 + 1, -2 ** 62 - 1,
             10 ** 18, 999999999999999999, 1234567890123456789, -1234567890123456789,
             I64_MAX, I64_MAX - 1, I64_MAX - 511, I64_MAX - 512, I64_MAX - 1024, I64_MIN, I64_MIN + 1, I64_MIN + 1025]

FLOATS = [0.0, 1.0, 1.5, 0.1, 0.2, 0.30000000000000004, 3.14159, 2.718281828459045, 100.0, 1000000.0, 1e-6, 1e-5, 1e-7,
          123456789.125, 1e15, 1e16, 1e17, 1e21, 1e22, 1e23, 9007199254740992.0, 9007199254740994.0, 1.0 / 3.0, 2.0 / 3.0,
          0.5, 0.25, 1e100, 1.7976931348623157e308, 2.2250738585072014e-308, 5e-324, 123.456, 65504.0, 4294967296.0,
          9.223372036854775807e18, 0.1 + 0.7, 1e-10, 6.02214076e23, 1.1, 2.5e-3]

SPECIAL_STRINGS = [
    '', ' ', '  ', 'hello', 'hello world',
    # look like other scalars
    'true', 'false', 'True', 'TRUE', 'False', 'null', 'Null', 'NULL', '~', 'yes', 'no', 'on', 'off', 'y', 'n', 'Y', 'N', 'Yes', 'NO',
    '1', '0', '-1', '+1', '1.5', '-1.5', '1e3', '1E3', '.5', '1.', '0x1F', '0o17', '017', '1_000', '0b101', '+.5', '1e', 'e1',
    '.inf', '-.inf', '+.inf', '.Inf', '.nan', '.NaN', 'inf', '-inf', 'nan', 'NaN', 'Infinity', '1:30', '1:30:00', '2001-01-01',
    '2001-01-01T00:00:00Z', '2001-01-01 00:00:00', '00:00:00', '9223372036854775808', '12345678901234567890',
    # YAML indicators
    'a: b', 'a:b', 'a :b', ': a', 'a:', ':', 'a: ', '- x', '-x', '-', '- ', '--', '---', '--- ', '--- x', '...', '... x', '# c', 'a # c', 'a #c', 'a#c',
    '#', '[1, 2]', '{a: 1}', '[', ']', '{', '}', '[]', '{}', ',', 'a, b', ',a', '&anchor', '&a x', '*alias', '*', '!tag', '!!str x', '!',
    '| x', '> x', '|', '>', '|-', '>+', '%TAG', '%', '@at', '`tick', '?', '? x', '?x', '<<', '=', '<< : x', 'key: [v', 'a: {b',
    # quotes and backslashes
    "'", '"', "''", '""', "'single'", '"double"', "it's", 'say "hi"', 'mixed \' and "', "'''", '"""', "a'''b", 'a"""b',
    "''''", "'lead", "trail'", '"lead', 'trail"', 'back\\slash', 'trail\\', '\\n', '\\u0041', '\\', '\\\\', '\\"', "\\'", 'a\\tb', 'C:\\dir\\file',
    # multi-line and blanks
    'line1\nline2', 'line1\nline2\n', '\nlead', 'trail\n\n', 'trail\n\n\n', '\n', '\n\n', ' lead space\nx', 'x\n  indented\n', 'trailing space \nx',
    'x\n\ny', 'x\n \ny', '  two lead\nx', 'x\ny ', 'x\n#c', 'x\n- y', 'x\n---\ny', 'x\n...\ny', "x\n'''\ny", "q'\nq\"", 'k: v\nk2: v2', 'a\n\tb',
    'a\r\nb', 'a\rb', '\r', '\r\n', 'a\r\nb\r\n', 'a\n\rb', 'tab\tx', '\tlead tab', 'trail tab\t', '\t', ' lead', 'trail ', ' both ', 'a  b',
    # non-ASCII
    '\u00e9', 'na\u00efve \u2713', '\u65e5\u672c\u8a9e', '\U0001f600', 'e\u0301', '\u00a0nbsp', '\u00a0', '\u200b', '\u202e', '\u00df\u03a9',
    '\U0010ffff', '\ufffd', '\u0085', 'a\u0085b', '\u2028', 'a\u2028b', '\u2029', 'a\u2029b', '\ufeff', '\ufeffbom', 'a\ufeffb', '\uffff', '\ufffe',
    '\ud7ff', '\ue000', '\U00010000', '\u00e9\n\u00e9', '\u65e5\u672c: \u8a9e',
    # control characters
    '\x00', '\x01', 'a\x00b', '\x1b[0m', '\x7f', '\x08', '\x0c', '\x0b', '\x1f', 'a\x07b', '\x80', '\x9f', 'bell\x07\n',
    # TOML / UCG looking
    '= x', 'a = b', 'key = "v"', '[table]', '[[aot]]', 'a.b', 'a.b.c', '.', '1.2.3', '@', '@{x}', '% x', '$HOME', '${x}', '<a>', '&amp;', 'NULL ', 'a;b', '//c',
    # long (line folding at the emitter's width)
    'x' * 200, 'word ' * 40, ('lorem ipsum ' * 12).strip(), 'a' * 79 + ' b', ' '.join(['\u65e5\u672c\u8a9e'] * 40), 'w ' * 100 + '\nline2',
    'tr\u00e8s long ' * 20 + "'q' \"d\"", 'a: b ' * 30,
]

ALPHABET = list('abcXYZ019 _-.:,#\'"\\/[]{}=&*!|>%@`~?+<$;') + ['\n', '\n', '\t', '\r', ' ', ' ', '\u00e9', '\u65e5', '\U0001f600', '\x00', '\x01', '\x1b',
                                                              '\x7f', '\u0085', '\u2028', '\ufeff', '\u00a0', '\uffff']

KEY_STRINGS = ['true', 'false', 'null', 'NULL', '~', 'yes', 'no', 'on', 'y', '1', '0', '-1', '1.5', '1e3', '.inf', '0x1F', '2001-01-01', 'a: b', 'a:b', 'a.b', 'a.b.c', '.',
               'key with space', ' lead', 'trail ', '', ' ', '\u00e9', '\u65e5\u672c\u8a9e', '\U0001f600', '- x', '-', '# c', 'a #c', 'a"b', "a'b", '"', "'", 'a\nb', 'a\tb', '\n',
               '\x01', '\x00', '\x7f', '[x]', '[[x]]', '{x}', 'a=b', '=', '?', '? x', '<<', '&a', '*a', '!t', '|', '>', '%', '@', 'a,b', 'back\\slash', '\\', 'with-dash', 'CamelCase',
               'UPPER', '_under', 'x' * 150, 'long key ' * 20, '\u0085', '\u2028', '\ufeff', 'a\r\nb', "'''", '"""', 'k: v\nk2: v2', 'multi\nline\nkey\n', '\u00a0', 'true ', '1 ', 'x\n']


def gen_string(rnd):
    r = rnd.random()
    if r < 0.6:
        return rnd.choice(SPECIAL_STRINGS)
    if r < 0.85:
        return ''.join(rnd.choice(ALPHABET) for _ in range(rnd.randint(0, 12)))
    return rnd.choice(SPECIAL_STRINGS) + rnd.choice(['', ' ', '\n', ': ', ' #', "'", '"', '\\']) + rnd.choice(SPECIAL_STRINGS)


def gen_int(rnd, fmt):
    r = rnd.random()
    if r < 0.5:
        n = rnd.choice(INT_EDGES)
    elif r < 0.7:
        n = rnd.randint(-1000, 1000)
    elif r < 0.85:
        n = rnd.randint(-F64_EXACT, F64_EXACT)
    else:
        n = rnd.randint(I64_MIN, I64_MAX)
    return n


def gen_float(rnd):
    r = rnd.random()
    if r < 0.55:
        f = rnd.choice(FLOATS)
    elif r < 0.75:
        f = round(rnd.uniform(-1000, 1000), rnd.randint(0, 6))
    elif r < 0.9:
        f = rnd.uniform(-1, 1) * 10.0 ** rnd.randint(-12, 25)
    else:
        import struct
        f = struct.unpack('<d', struct.pack('<Q', rnd.getrandbits(64)))[0]
        if f != f or f in (float('inf'), float('-inf')):
            f = 1.5
        if len(format(Decimal(repr(abs(f))), 'f')) > 400:      # keep the literal of sane length; the extremes are in FLOATS
            f = rnd.choice(FLOATS)
    if rnd.random() < 0.3:
        f = -f
    return f


def gen_key(rnd, used):
    for _ in range(50):
        r = rnd.random()
        if r < 0.35:
            k = rnd.choice(SAFE_BARE)
        elif r < 0.8:
            k = rnd.choice(KEY_STRINGS)
        else:
            k = gen_string(rnd)
        if k not in used:
            used.add(k)
            return k
    k = 'k%d' % len(used)
    used.add(k)
    return k


def gen_scalar(rnd, fmt):
    kinds = ['null', 'bool', 'int', 'int', 'float', 'str', 'str', 'str']
    if fmt == 'toml':
        kinds.remove('null')         # NULL is unrepresentable in TOML: error family
    k = rnd.choice(kinds)
    if k == 'null':
        return None
    if k == 'bool':
        return rnd.random() < 0.5
    if k == 'int':
        return gen_int(rnd, fmt)
    if k == 'float':
        return gen_float(rnd)
    return gen_string(rnd)


def gen_value(rnd, fmt, depth, want=None, in_list=False):
    """want: None (anything), 'tuple', 'nontuple'.  The TOML round-trip family has lists of tuples only or lists without any tuple
    below them; lists mixing tuples with other items are refused by ucg's TOML converter and live in standin_unrepresentable."""
    if want == 'tuple':
        kind = 'tuple'
    else:
        r = rnd.random()
        if depth <= 0 or r < 0.35:
            kind = 'scalar'
        elif r < 0.65:
            kind = 'list'
        else:
            kind = 'tuple'
        if want == 'nontuple' and kind == 'tuple':
            kind = 'list' if depth > 0 else 'scalar'
    if kind == 'scalar':
        return gen_scalar(rnd, fmt)
    n = rnd.choice([0, 1, 1, 2, 2, 3, 4]) if depth > 0 else 0
    if kind == 'list':
        if fmt == 'toml':
            # all tuples, or no tuple anywhere below (lists of lists hold no tuples either); mixed lists: see standin_unrepresentable
            if want == 'nontuple' or rnd.random() < 0.6:
                return [gen_value(rnd, fmt, depth - 1, want='nontuple', in_list=True) for _ in range(n)]
            return [gen_value(rnd, fmt, depth - 1, want='tuple', in_list=True) for _ in range(n)]
        return [gen_value(rnd, fmt, depth - 1, in_list=True) for _ in range(n)]
    used = set()
    sub = 'nontuple' if (fmt == 'toml' and want == 'nontuple') else None
    return Tup([(gen_key(rnd, used), gen_value(rnd, fmt, depth - 1, want=sub)) for _ in range(n)])


def gen_top(rnd, fmt, depth):
    if fmt == 'toml':               # a TOML document is a table; other top-level values: see standin_unrepresentable
        return gen_value(rnd, fmt, depth, want='tuple')
    return gen_value(rnd, fmt, depth)


def fixed_values(fmt):
    """Deterministic part of every family: each special string / key / number once, in small containers."""
    vals = []
    strs = SPECIAL_STRINGS
    for i in range(0, len(strs), 12):
        chunk = strs[i:i + 12]
        vals.append(Tup([('s%d' % j, s) for j, s in enumerate(chunk)]))
        vals.append(Tup([('l', list(chunk))]))
    for i in range(0, len(KEY_STRINGS), 10):
        chunk = KEY_STRINGS[i:i + 10]
        vals.append(Tup([(k, j) for j, k in enumerate(chunk)]))
        vals.append(Tup([('t', Tup([(k, Tup([(k, k)])) for k in chunk]))]))
    ints = list(INT_EDGES)
    vals.append(Tup([('ints', ints), ('floats', list(FLOATS)), ('neg', [-f for f in FLOATS])]))
    vals.append(Tup([('i%d' % j, n) for j, n in enumerate(ints)]))
    vals.append(Tup([('t', True), ('f', False), ('bools', [True, False]), ('e', []), ('et', Tup([])), ('ee', [[], [[]]]), ('le', [Tup([]), Tup([])]),
                     ('deep', Tup([('a', Tup([('b', Tup([('c', Tup([('d', [1, 2, 3])]))]))]))]))]))
    if fmt != 'toml':
        vals.append(Tup([('n', None), ('ln', [None, None]), ('tn', Tup([('x', None)])), ('mix', [None, True, 1, 1.5, 's', [], Tup([])])]))
        vals += [None, True, False, 0, 1, -1, 1.5, '', 'true', '~', 'a: b', 'line1\nline2\n', [], [[]], [None], Tup([]), [Tup([]), 1, [Tup([('a', [Tup([])])])]]]
        vals += list(strs[::7])
        # a string ending in two or more newlines / made of newlines only as the LAST scalar of the document (`|+` block scalar)
        vals += ['a\n\n', '\n', '\n\n', 'trail\n\n\n', [1, 'a\n\n'], ['\n'], Tup([('k', 'x\n\n')]), Tup([('k', ['\n\n'])]), [Tup([('k', Tup([('j', 'a\n\n\n')]))])],
                 ['a\n\n', 'b\n\n'], Tup([('a', '\n'), ('b', '\n')])]
    else:
        vals += [Tup([('k', 'x\n\n')]), Tup([('k', ['\n\n', '\n'])]), Tup([('l', [Tup([('k', 'a\n\n\n')])])])]
    return vals


# ---------------------------------------------------------------------------------------------------------------------
# independent decoders
class Undecodable(Exception):
    pass


def _no_const(x):
    raise ValueError('JSON has no constant %s' % x)


def _pairs_unique(pairs):
    d = {}
    for k, v in pairs:
        if k in d:
            raise ValueError('duplicate key %r' % (k,))
        d[k] = v
    return d


def decode_json(text):
    try:
        return json.loads(text, parse_constant=_no_const, object_pairs_hook=_pairs_unique)
    except ValueError as e:
        raise Undecodable('not valid JSON: %s' % e)


def decode_toml(text):
    try:
        return tomllib.loads(text)
    except (tomllib.TOMLDecodeError, ValueError) as e:
        raise Undecodable('not valid TOML: %s' % e)


_YAML = {}


def yaml_module():
    if 'mod' not in _YAML:
        try:
            import yaml
            _YAML['mod'] = yaml
        except ImportError:
            # the system interpreter's pure-python PyYAML, if this interpreter has none
            import sys
            extra = '/usr/lib/python3/dist-packages'
            sys.path.append(extra)
            try:
                import yaml
                _YAML['mod'] = yaml
            except Exception:
                _YAML['mod'] = None
            finally:
                if extra in sys.path:
                    sys.path.remove(extra)
    return _YAML['mod']


def core_loader():
    """PyYAML's pure-python scanner/parser/composer with the YAML 1.2 core schema for plain scalars (what a YAML 1.2 reader
    sees): null | ~ | empty, true/false, decimal/0o/0x integers, floats, .inf/.nan; everything else is a string.  No merge
    keys, no timestamps, no sexagesimals, no yes/no booleans.  Duplicate keys are rejected."""
    if 'loader' in _YAML:
        return _YAML['loader']
    yaml = yaml_module()

    class Core(yaml.SafeLoader):
        pass
    Core.yaml_implicit_resolvers = {}
    Core.yaml_constructors = dict(yaml.SafeLoader.yaml_constructors)

    def con_int(loader, node):
        s = loader.construct_scalar(node)
        if s.startswith('0o'):
            return int(s[2:], 8)
        if s.startswith('0x'):
            return int(s[2:], 16)
        return int(s, 10)

    def con_float(loader, node):
        s = loader.construct_scalar(node).lower()
        if s in ('.inf', '+.inf'):
            return float('inf')
        if s == '-.inf':
            return float('-inf')
        if s == '.nan':
            return float('nan')
        return float(s)

    def con_map(loader, node):
        if not isinstance(node, yaml.MappingNode):
            raise yaml.constructor.ConstructorError(None, None, 'expected a mapping', node.start_mark)
        d, seen = {}, set()
        for kn, vn in node.value:
            k = loader.construct_object(kn, deep=True)
            try:
                tk = (type(k).__name__, k)
                dup = tk in seen
            except TypeError:
                raise yaml.constructor.ConstructorError(None, None, 'unhashable key', kn.start_mark)
            if dup:
                raise yaml.constructor.ConstructorError(None, None, 'duplicate key %r' % (k,), kn.start_mark)
            seen.add(tk)
            d[k] = loader.construct_object(vn, deep=True)
        return d

    def con_bool(loader, node):
        return loader.construct_scalar(node).lower() == 'true'
    Core.add_constructor('tag:yaml.org,2002:int', con_int)
    Core.add_constructor('tag:yaml.org,2002:float', con_float)
    Core.add_constructor('tag:yaml.org,2002:bool', con_bool)
    Core.add_constructor('tag:yaml.org,2002:map', con_map)
    Core.add_implicit_resolver('tag:yaml.org,2002:null', re.compile(r'^(?:~|null|Null|NULL|)$'), ['~', 'n', 'N', ''])
    Core.add_implicit_resolver('tag:yaml.org,2002:bool', re.compile(r'^(?:true|True|TRUE|false|False|FALSE)$'), list('tTfF'))
    Core.add_implicit_resolver('tag:yaml.org,2002:int', re.compile(r'^(?:[-+]?[0-9]+|0o[0-7]+|0x[0-9a-fA-F]+)$'), list('-+0123456789'))
    Core.add_implicit_resolver('tag:yaml.org,2002:float',
                               re.compile(r'^(?:[-+]?(?:\.[0-9]+|[0-9]+(?:\.[0-9]*)?)(?:[eE][-+]?[0-9]+)?|[-+]?\.(?:inf|Inf|INF)|\.(?:nan|NaN|NAN))$'),
                               list('-+0123456789.'))
    _YAML['loader'] = Core
    return Core


def decode_yaml_all(text):
    yaml = yaml_module()
    try:
        return list(yaml.load_all(text, Loader=core_loader()))
    except yaml.YAMLError as e:
        raise Undecodable('not valid YAML: %s' % ' '.join(str(e).split()))
    except (ValueError, TypeError) as e:
        raise Undecodable('not valid YAML: %s' % e)


def decode_yaml(text):
    docs = decode_yaml_all(text)
    if len(docs) != 1:
        raise Undecodable('expected one YAML document, the text holds %d' % len(docs))
    return docs[0]


DECODE = {'json': decode_json, 'yaml': decode_yaml, 'toml': decode_toml}
EXT = {'json': 'json', 'yaml': 'yaml', 'toml': 'toml', 'yamlmulti': 'yaml'}


# ---------------------------------------------------------------------------------------------------------------------
# oracle
def exact(x):
    """The exact rational value of a decoded / expected number (an int, or a finite float), None for inf / NaN."""
    if isinstance(x, int):
        return Fraction(x)
    if x != x or x in (float('inf'), float('-inf')):
        return None
    return Fraction(x)          # exact: every finite double is a rational


def num_equal(exp, obs):
    """Equal numeric value, decided exactly (9007199254740993 is NOT 9007199254740992.0, 42 IS 42.0); infinities by identity."""
    a, b = exact(exp), exact(obs)
    if a is None or b is None:
        return isinstance(exp, float) and isinstance(obs, float) and exp == obs
    return a == b


def same(exp, obs, path='$'):
    """None if the decoded data `obs` is the value `exp`; otherwise a one-line description of the first difference."""
    if exp is None:
        return None if obs is None else '%s: expected null, decoded %r' % (path, obs)
    if isinstance(exp, bool):
        return None if obs is exp else '%s: expected the boolean %s, decoded %r' % (path, exp, obs)
    if isinstance(exp, (int, float)):
        if isinstance(obs, bool) or not isinstance(obs, (int, float)):
            return '%s: expected the number %r, decoded %r' % (path, exp, obs)
        if isinstance(exp, float) and exp != exp:
            return None if (isinstance(obs, float) and obs != obs) else '%s: expected NaN, decoded %r' % (path, obs)
        return None if num_equal(exp, obs) else '%s: expected the number %r, decoded %r (numerically different)' % (path, exp, obs)
    if isinstance(exp, str):
        if not isinstance(obs, str):
            return '%s: expected the string %r, decoded %r' % (path, exp, obs)
        return None if obs == exp else '%s: expected the string %r, decoded the string %r' % (path, exp, obs)
    if isinstance(exp, list):
        if not isinstance(obs, list):
            return '%s: expected a list, decoded %r' % (path, obs)
        if len(exp) != len(obs):
            return '%s: expected a list of %d items, decoded %d items' % (path, len(exp), len(obs))
        for i, (a, b) in enumerate(zip(exp, obs)):
            d = same(a, b, '%s[%d]' % (path, i))
            if d:
                return d
        return None
    if isinstance(exp, Tup):
        if not isinstance(obs, dict):
            return '%s: expected a mapping, decoded %r' % (path, obs)
        ek = [k for k, _ in exp.items]
        ok = list(obs.keys())
        if sorted(map(repr, ek)) != sorted(map(repr, ok)) or any(not isinstance(k, str) for k in ok):
            return '%s: expected the key set %r, decoded %r' % (path, sorted(ek), sorted(ok, key=repr))
        for k, v in exp.items:
            d = same(v, obs[k], '%s.%s' % (path, json.dumps(k)))
            if d:
                return d
        return None
    raise TypeError(exp)


def check_text(fmt, exp, text):
    """None or a description of why `text` is not a faithful <fmt> rendering of exp."""
    try:
        obs = DECODE[fmt](text)
    except Undecodable as e:
        return str(e)
    return same(exp, obs)


def check_multi(exp, text):
    """yamlmulti: a list is a stream with one document per item; any other value is a stream of one document."""
    docs = exp if isinstance(exp, list) else [exp]
    try:
        obs = decode_yaml_all(text)
    except Undecodable as e:
        return str(e)
    if len(obs) != len(docs):
        return 'expected a stream of %d documents, decoded %d' % (len(docs), len(obs))
    return same(docs, obs)


# ---------------------------------------------------------------------------------------------------------------------
# running the real binary
def build_many(work, sources, fmt):
    """Write sources as c<i>.ucg into `work`, build them in ONE `ucg build` invocation; -> (rc, [artifact text or None], log)."""
    names = []
    for i, src in enumerate(sources):
        n = 'c%04d' % i
        with open(os.path.join(work, n + '.ucg'), 'w', encoding='utf-8', newline='') as f:
            f.write(src)
        art = os.path.join(work, n + '.' + EXT[fmt])
        if os.path.exists(art):
            os.remove(art)
        names.append(n)
    rc, so, se = R.run_ucg(['build'] + [n + '.ucg' for n in names], work, timeout=600)
    arts = []
    for n in names:
        art = os.path.join(work, n + '.' + EXT[fmt])
        if os.path.exists(art):
            with open(art, 'rb') as f:
                raw = f.read()
            try:
                arts.append(raw.decode('utf-8'))
            except UnicodeDecodeError:
                arts.append(raw.decode('latin-1') + '\x00<<artifact is not UTF-8>>')
        else:
            arts.append(None)
    return rc, arts, so + se


def build_one(src, fmt):
    """One program alone in a fresh directory: -> (rc, artifact text or None, log).  This is the replay of a report."""
    work = tempfile.mkdtemp(prefix='verif_c03_')
    try:
        rc, arts, log = build_many(work, [src], fmt)
        return rc, arts[0], log
    finally:
        shutil.rmtree(work, ignore_errors=True)


HOW = 'write the source to x.ucg, run the real `ucg build x.ucg`, decode the artifact x.%s with %s'
DECODER_NAME = {'json': "python's json.loads", 'yaml': 'PyYAML (pure-python parser, YAML 1.2 core schema)', 'toml': "python's tomllib.loads",
                'yamlmulti': 'PyYAML load_all (pure-python parser, YAML 1.2 core schema)'}


def verdict_ok_case(fmt, exp, rc, text):
    """A representable value: the build succeeds and the artifact decodes to exp."""
    if text is None:
        return 'the build produced no artifact (exit %s) for a value %s can represent' % (rc, fmt)
    if fmt == 'yamlmulti':
        return check_multi(exp, text)
    return check_text(fmt, exp, text)


def smaller(v, fmt):
    """Candidate trees smaller than v (halves, single members, children), all still inside the family of fmt."""
    top_ok = (lambda x: isinstance(x, Tup)) if fmt == 'toml' else (lambda x: True)
    if isinstance(v, list):
        if len(v) > 2:
            yield v[:len(v) // 2]
            yield v[len(v) // 2:]
        if len(v) > 1:
            for x in v:
                yield [x]
        for x in v:
            if top_ok(x):
                yield x
    elif isinstance(v, Tup):
        it = v.items
        if len(it) > 2:
            yield Tup(it[:len(it) // 2])
            yield Tup(it[len(it) // 2:])
        if len(it) > 1:
            for kx in it:
                yield Tup([kx])
        for k, x in it:
            if top_ok(x):
                yield x
            elif isinstance(x, list) and fmt == 'toml':
                for c in smaller(x, 'list-in-toml'):
                    if isinstance(c, list):
                        yield Tup([(k, c)])


def shrink(fmt, v, budget=30):
    """Greedy reduction of a failing tree: at most `budget` extra builds, only on the way to a violation report."""
    while budget > 0:
        for cand in smaller(v, fmt):
            if ucg_lit(cand) == ucg_lit(v):
                continue
            budget -= 1
            rc, text, _ = build_one('out %s %s;\n' % (fmt, ucg_lit(cand)), fmt)
            if verdict_ok_case(fmt, cand, rc, text) is not None:
                v = cand
                break
            if budget <= 0:
                return v
        else:
            return v
    return v


def run_family(name, bound, fmt, values):
    """Build every value (one file each, one invocation), decode, compare; re-run a suspect alone before reporting it."""
    work = tempfile.mkdtemp(prefix='verif_c03_')
    try:
        sources = ['out %s %s;\n' % (fmt, ucg_lit(v)) for v in values]
        rc, arts, log = build_many(work, sources, fmt)
    finally:
        shutil.rmtree(work, ignore_errors=True)
    for v, src, text in zip(values, sources, arts):
        why = verdict_ok_case(fmt, v, rc, text)
        if why is None:
            continue
        rc1, text1, log1 = build_one(src, fmt)          # confirm on its own (this is the replay)
        why1 = verdict_ok_case(fmt, v, rc1, text1)
        if why1 is None:
            continue
        v = shrink(fmt, v)                              # a smaller tree that still fails, for the report
        src = 'out %s %s;\n' % (fmt, ucg_lit(v))
        rc1, text1, log1 = build_one(src, fmt)
        why1 = verdict_ok_case(fmt, v, rc1, text1) or why1
        return dict(name=name, bound=bound, cases=len(values), status='violation',
                    detail='`%s` -> %s' % (src.strip()[:160], why1[:300]),
                    input=dict(source=src, expected='exit 0 and an artifact that decodes to %s' % show(v),
                               observed='exit %s; artifact: %r; %s%s' % (rc1, text1, why1, '' if text1 is not None else '; log: ' + log1[-300:]),
                               how=HOW % (EXT[fmt], DECODER_NAME[fmt])))
    return dict(name=name, bound=bound, cases=len(values), status='ok')


def need(fmt):
    if fmt in ('yaml', 'yamlmulti') and yaml_module() is None:
        return 'PyYAML is not importable in this interpreter: YAML decoding not covered'
    if fmt == 'toml' and tomllib is None:
        return 'tomllib is not available in this interpreter: TOML decoding not covered'
    return None


def sizes(tier):
    # (random trees per format, maximal depth)
    return (250, 5) if tier == 'thorough' else (60, 4)


def family(fmt, tier, seed):
    n, depth = sizes(tier)
    rnd = random.Random('%s-%s' % (fmt, seed))
    vals = fixed_values(fmt)
    for i in range(n):
        vals.append(gen_top(rnd, fmt, rnd.randint(1, depth)))
    return vals, ('%d fixed trees (every special string, key and number of the tables once) + %d seeded random trees of depth <= %d (seed %s), '
                  'each through `out %s`; KNOWN exclusions: %s' % (len(vals) - n, n, depth, seed, fmt, known_ids(fmt)))


def known_ids(fmt):
    return ', '.join(k['id'] for k in KNOWN if fmt in k['family'].replace(',', ' ').split()) or 'none'


def standin_json_roundtrip(tier, seed):
    vals, bound = family('json', tier, seed)
    return run_family('json_roundtrip', bound, 'json', vals)


def standin_yaml_roundtrip(tier, seed):
    miss = need('yaml')
    if miss:
        return dict(name='yaml_roundtrip', bound='none', cases=0, status='ok', detail=miss)
    vals, bound = family('yaml', tier, seed)
    return run_family('yaml_roundtrip', bound, 'yaml', vals)


def standin_toml_roundtrip(tier, seed):
    miss = need('toml')
    if miss:
        return dict(name='toml_roundtrip', bound='none', cases=0, status='ok', detail=miss)
    vals, bound = family('toml', tier, seed)
    return run_family('toml_roundtrip', bound, 'toml', vals)


def standin_yamlmulti_stream(tier, seed):
    """yamlmulti: a list is written as a stream with one document per item, anything else as a stream of one document."""
    miss = need('yamlmulti')
    if miss:
        return dict(name='yamlmulti_stream', bound='none', cases=0, status='ok', detail=miss)
    n, depth = (120, 4) if tier == 'thorough' else (30, 3)
    rnd = random.Random('yamlmulti-%s' % seed)
    vals = [[], [1], ['a'], [None], [[1, 2]], [[]], [Tup([('a', 1)])], [Tup([])], 1, 'x', None, True, 1.5, Tup([('a', [1, 2])]), Tup([]),
            ['---'], ['--- x\n...\n'], 'a\n---\nb', ['a\n---\nb\n'], ['...'], [Tup([('---', '---')])],
            [1, 2], [1, 2, 3], [Tup([('a', 1)]), Tup([('a', 2)])], [Tup([('a', 1)]), Tup([('a', 1)])], ['---', '...', '--- '], [None, None], [[1, 2], [3]], [[], Tup([]), '', None],
            ['a\n\n', '\n', 'b\n\n'], ['a\n---\nb\n', 'c\n...\nd'], [1, 'two', 3.5, True, None, [4], Tup([('five', 5)])], ['x', ['x'], [['x']]], [Tup([('l', [1, 2])]), [Tup([('l', [1, 2])])]],
            ['line1\nline2', Tup([('k', 'line1\nline2\n')]), '# c', '- x', 'a: b'], ['', ''], [' ', '~', 'null', 'true'], list(range(12)), [[None]], [Tup([('k', '\n')]), Tup([('k', '\n')])]]
    for i in range(n):
        vals.append(gen_value(rnd, 'yaml', rnd.randint(0, depth)))
    fixed = vals
    bound = ('%d values (lists of 0..n items = that many documents, non-lists = one document; %d seeded random, depth <= %d, seed %s) through `out yamlmulti`, decoded with load_all'
             % (len(fixed), n, depth, seed))
    return run_family('yamlmulti_stream', bound, 'yamlmulti', fixed)


# ---------------------------------------------------------------------------------------------------------------------
# convert expressions: `convert <fmt> <value>` is a string holding the same text
def standin_convert_expr(tier, seed):
    miss = need('yaml') or need('toml')
    if miss:
        return dict(name='convert_expr', bound='none', cases=0, status='ok', detail=miss)
    n, depth = (60, 4) if tier == 'thorough' else (12, 3)
    rnd = random.Random('convert-%s' % seed)
    triples = []
    strs = list(SPECIAL_STRINGS)
    rnd.shuffle(strs)
    for i in range(n):
        chunk = strs[(i * 6) % len(strs):(i * 6) % len(strs) + 6]
        tr = {}
        for fmt in ('json', 'yaml', 'toml'):
            v = gen_top(rnd, fmt, rnd.randint(1, depth))
            if i % 2 == 0:
                v = Tup([('strings', list(chunk)), ('v', v)])
            tr[fmt] = v
        triples.append(tr)
    # fixed: the LAST scalar of the converted document is a string ending in newline(s) / blanks (nothing may trim the converter's text)
    for tail in ('x\ny\n', 'a\n\n', 'trail ', '\n', 'line one\nline two\n'):
        triples.append({'json': Tup([('a', 1), ('w', tail)]), 'yaml': Tup([('a', 1), ('w', tail)]), 'toml': Tup([('a', 1), ('w', tail)])})
        triples.append({'json': ['k', tail], 'yaml': ['k', tail], 'toml': Tup([('l', ['k', tail])])})
    # (bound to names first: the parser's running time grows steeply with the nesting depth of a literal)
    sources = ['let v1 = %s;\nlet v2 = %s;\nlet v3 = %s;\nout json {j = convert json v1, y = convert yaml v2, t = convert toml v3};\n'
               % (ucg_lit(t['json']), ucg_lit(t['yaml']), ucg_lit(t['toml'])) for t in triples]
    bound = ('%d programs `let v1 = V1; let v2 = V2; let v3 = V3; out json {j = convert json v1, y = convert yaml v2, t = convert toml v3};` with seeded random trees of depth <= %d (seed %s); '
             'the three strings are read from the JSON artifact and decoded' % (n, depth, seed))

    def judge(t, rc, text):
        if text is None:
            return 'the build produced no artifact (exit %s)' % rc
        try:
            car = decode_json(text)
        except Undecodable as e:
            return 'the JSON artifact carrying the three strings: %s' % e
        if not isinstance(car, dict) or sorted(car) != ['j', 't', 'y'] or any(not isinstance(x, str) for x in car.values()):
            return 'the JSON artifact is not {j, t, y} of strings: %r' % (car,)
        for key, fmt in (('j', 'json'), ('y', 'yaml'), ('t', 'toml')):
            why = check_text(fmt, t[fmt], car[key])
            if why:
                return '`convert %s %s` = %r: %s' % (fmt, ucg_lit(t[fmt])[:200], car[key][:300], why)
        return None
    work = tempfile.mkdtemp(prefix='verif_c03_')
    try:
        rc, arts, log = build_many(work, sources, 'json')
    finally:
        shutil.rmtree(work, ignore_errors=True)
    for t, src, text in zip(triples, sources, arts):
        if judge(t, rc, text) is None:
            continue
        rc1, text1, log1 = build_one(src, 'json')
        why = judge(t, rc1, text1)
        if why is None:
            continue
        return dict(name='convert_expr', bound=bound, cases=3 * n, status='violation', detail=why[:400],
                    input=dict(source=src, expected='j, y, t decode (json / YAML / tomllib) to the three literals of the program',
                               observed='exit %s; %s%s' % (rc1, why, '' if text1 is not None else '; log: ' + log1[-300:]),
                               how='write the source to x.ucg, run the real `ucg build x.ucg`, json.loads(x.json), then decode the fields j / y / t'))
    return dict(name='convert_expr', bound=bound, cases=3 * n, status='ok')


# ---------------------------------------------------------------------------------------------------------------------
# values a format cannot represent: the build must fail
def inject_null(rnd, v):
    """Put one NULL somewhere into the tree v (in place); v is a Tup."""
    conts = []

    def walk(x):
        if isinstance(x, list):
            conts.append(x)
            for y in x:
                walk(y)
        elif isinstance(x, Tup):
            conts.append(x)
            for _, y in x.items:
                walk(y)
    walk(v)
    c = rnd.choice(conts)
    if isinstance(c, list):
        c.insert(rnd.randint(0, len(c)), None)
    else:
        used = set(k for k, _ in c.items)
        c.items.insert(rnd.randint(0, len(c.items)), (gen_key(rnd, used), None))
    return v


def inject_mix(rnd, v):
    """Make one list of the TOML tree v (a Tup, changed in place) mix tuples with other items, or hold a tuple inside a list of lists."""
    lists = []

    def walk(x):
        if isinstance(x, list):
            lists.append(x)
            for y in x:
                walk(y)
        elif isinstance(x, Tup):
            for _, y in x.items:
                walk(y)
    walk(v)
    if not lists:
        used = set(k for k, _ in v.items)
        v.items.insert(rnd.randint(0, len(v.items)), (gen_key(rnd, used), rnd.choice([[1, Tup([('x', 1)])], [Tup([('x', 1)]), 's'], [[Tup([('x', 1)])]], [Tup([]), 1.5]])))
        return v
    lst = rnd.choice(lists)
    if lst and all(isinstance(x, Tup) for x in lst):
        lst.insert(rnd.randint(0, len(lst)), rnd.choice([1, 's', True, 1.5, [], [1]]))
    elif lst:
        lst.insert(rnd.randint(0, len(lst)), rnd.choice([Tup([]), Tup([('x', 1)]), Tup([('x', [1, 2]), ('y', 's')])]))
    else:
        lst.append([Tup([('x', 1)])])
    return v


TOML_NOT_A_DOCUMENT = ['1', '"s"', 'true', '1.5', '[1, 2]', '[]', '[{a = 1}]', '[[1, 2]]', '[[[1]]]', '[[1], [2]]', '[[]]', '"a = 1"', '"[a]"', '(0 - 7)', '[[1]]', '[["a"]]', '[[true]]', '[[1.5]]']
TOML_MIXED = [('{l = [1, {x = 1}]}', Tup([('l', [1, Tup([('x', 1)])])])), ('{l = [{x = 1}, 1]}', Tup([('l', [Tup([('x', 1)]), 1])])), ('{l = [[{a = 1}]]}', Tup([('l', [[Tup([('a', 1)])]])])),
              ('{l = [[1], {a = 1}]}', Tup([('l', [[1], Tup([('a', 1)])])])), ('{l = [{a = [1, {b = 1}]}]}', Tup([('l', [Tup([('a', [1, Tup([('b', 1)])])])])])),
              ('{l = [{}, 1]}', Tup([('l', [Tup([]), 1])])), ('{l = [[[{a = 1}]]]}', Tup([('l', [[[Tup([('a', 1)])]]])])), ('{l = [{a = [[{b = 1}]]}]}', Tup([('l', [Tup([('a', [[Tup([('b', 1)])]])])])])),
              ('{t = {l = ["s", {}]}, z = 1}', Tup([('t', Tup([('l', ['s', Tup([])])])), ('z', 1)]))]

CONSTRAINTS = ['constraint c = in 1..3;', 'constraint c = "a" | "b";', 'constraint c = in 1..1024 | 8080;']
CONSTRAINT_USES = ['c', '{a = c}', '{a = [c]}', '{a = 1, b = {x = c}, z = "s"}', '{a = [{x = 1}, {x = c}]}', '[c]', '[1, c]']
NONFINITE = ['1.0 / 0.0', '(0.0 - 1.0) / 0.0', '0.0 / 0.0', '1' + '0' * 400 + '.0']


def standin_unrepresentable(tier, seed):
    """NULL in TOML, a top-level value that is not a table in TOML, constraint values in every format and non-finite floats in JSON must be
    reported as an error (exit status != 0); a non-finite float in YAML / TOML (which have .inf / inf / nan) and a TOML list mixing tuples
    with other items are either an error or decode to exactly that data."""
    rnd = random.Random('unrep-%s' % seed)
    n_null = 60 if tier == 'thorough' else 12
    cases = []      # (fmt, source, None = must fail | expected value)
    for src in ['{a = NULL}', '{a = [NULL]}', '{a = [1, NULL]}', '{a = {b = NULL}}', '{a = [{b = NULL}]}', '{a = 1, b = NULL, c = 2}', '{a = {b = {c = {d = NULL}}}}',
                '{a = [[NULL]]}', '{"" = NULL}', '{a = [{b = 1}, {b = NULL}]}', '{a = "s", n = NULL}', '{n = NULL, a = "s"}']:
        cases.append(('toml', 'out toml %s;\n' % src, None))
    for i in range(n_null):
        v = inject_null(rnd, gen_top(rnd, 'toml', rnd.randint(1, 4)))
        cases.append(('toml', 'out toml %s;\n' % ucg_lit(v), None))
    # TOML: a document is a table -- any other top-level value cannot be represented
    for lit in TOML_NOT_A_DOCUMENT:
        cases.append(('toml', 'out toml %s;\n' % lit, None))
    # TOML: lists mixing tuples with other items (ucg's converter refuses them: 3850144).  TOML 1.0 itself could hold them as inline
    # tables, so the demand taken from the property is: a build error, or text that decodes to exactly this data -- never broken TOML,
    # never dropped members.
    n_mix = 40 if tier == 'thorough' else 10
    if not need('toml'):
        for lit, val in TOML_MIXED:
            cases.append(('toml', 'out toml %s;\n' % lit, val))
        for i in range(n_mix):
            v = inject_mix(rnd, gen_top(rnd, 'toml', rnd.randint(1, 4)))
            cases.append(('toml', 'out toml %s;\n' % ucg_lit(v), v))
    for fmt in ('json', 'yaml', 'toml', 'yamlmulti'):
        for ci, con in enumerate(CONSTRAINTS):
            for use in (CONSTRAINT_USES if (ci == 0 or tier == 'thorough') else CONSTRAINT_USES[:2]):
                cases.append((fmt, '%s\nout %s %s;\n' % (con, fmt, use), None))
    for nf in NONFINITE:
        for shape in ('%s', '{a = %s}', '[1.5, %s]', '{a = {b = [%s]}}'):
            cases.append(('json', 'out json %s;\n' % (shape % nf), None))
    inf, nan = float('inf'), float('nan')
    for fmt in ('yaml', 'toml'):
        if need(fmt):
            continue
        for nf, val in (('1.0 / 0.0', inf), ('(0.0 - 1.0) / 0.0', -inf), ('0.0 / 0.0', nan)):
            cases.append((fmt, 'out %s {a = %s, l = [%s]};\n' % (fmt, nf, nf), Tup([('a', val), ('l', [val])])))
    # through a convert expression
    for fmt, lit in (('toml', '{a = NULL}'), ('toml', '{a = [1, NULL]}'), ('json', '{a = 1.0 / 0.0}'), ('json', '[0.0 / 0.0]'), ('toml', '1'), ('toml', '[1, 2]'), ('toml', '"s"')):
        cases.append(('json', 'let s = convert %s %s;\nout json {s = s};\n' % (fmt, lit), None))
    for fmt in ('json', 'yaml', 'toml'):
        cases.append(('json', 'constraint c = in 1..3;\nlet s = convert %s {a = c};\nout json {s = s};\n' % fmt, None))
    bound = ('%d programs: NULL at fixed and %d seeded random positions of TOML trees; %d top-level non-tables through out toml (must fail); %d fixed + %d seeded TOML trees with a list mixing '
             'tuples and other items (fail or decode to the same data); 3 named constraints used as a value in %d positions x {json, yaml, toml, yamlmulti}; '
             'inf / -inf / NaN in JSON (must fail) and in YAML / TOML (fail or decode to the same float); the same through convert expressions (seed %s)'
             % (len(cases), n_null, len(TOML_NOT_A_DOCUMENT), len(TOML_MIXED), n_mix, len(CONSTRAINT_USES), seed))

    def judge(fmt, exp, rc, text):
        if exp is None:         # "reported as an error" = the build's exit status (what a failed build leaves on disk is C14's business)
            if rc == 0:
                return 'the format cannot represent the value, yet exit status 0 and artifact %r' % (text if text is None else text[:300],)
            return None
        if text is None:
            return None if rc != 0 else 'exit 0 but no artifact'
        return check_text(fmt, exp, text)
    n = 0
    by_fmt = {}
    for c in cases:
        by_fmt.setdefault((c[0], c[2] is None), []).append(c)
    for (fmt, _), group in by_fmt.items():
        work = tempfile.mkdtemp(prefix='verif_c03_')
        try:
            rc, arts, log = build_many(work, [c[1] for c in group], fmt)
        finally:
            shutil.rmtree(work, ignore_errors=True)
        for (f, src, exp), text in zip(group, arts):
            n += 1
            # inside a batch the exit status belongs to the whole invocation: only the artifact is per file
            # (a must-fail batch that exits 0 is suspect as a whole)
            if (exp is None and text is None and rc != 0) or (exp is not None and judge(f, exp, 1, text) is None):
                continue
            rc1, text1, log1 = build_one(src, f)
            why = judge(f, exp, rc1, text1)
            if why is None:
                continue
            return dict(name='unrepresentable', bound=bound, cases=len(cases), status='violation',
                        detail='`%s`: %s' % (src.strip().replace('\n', ' ')[:200], why[:300]),
                        input=dict(source=src, expected='a build error (exit status 1, no artifact)' if exp is None else 'a build error, or an artifact that decodes to %s' % show(exp),
                                   observed='exit %s; artifact %r; log: %s' % (rc1, text1, log1[-300:]), how=HOW % (EXT[f], DECODER_NAME[f])))
    return dict(name='unrepresentable', bound=bound, cases=len(cases), status='ok')


# ---------------------------------------------------------------------------------------------------------------------
# the artifact after a build is the converter's text WHATEVER the artifact path held before ("the text produced by an out statement
# ... read by an independent decoder, yields the same data" -- the reader reads the file, not the bytes of the last write)
def build_over(work, items, fmt, alone=False):
    """items: [(source, prior artifact bytes | None | callable(path) that prepares the artifact path)].  Writes c<i>.ucg and the prior
    artifacts, runs ONE `ucg build` over all files (alone=True: one invocation per file), -> (rc | [rc], [artifact bytes or None])."""
    names = []
    for i, (src, prior) in enumerate(items):
        n = 'c%04d' % i
        with open(os.path.join(work, n + '.ucg'), 'w', encoding='utf-8', newline='') as f:
            f.write(src)
        art = os.path.join(work, n + '.' + EXT[fmt])
        if callable(prior):
            prior(art)
        elif prior is not None:
            with open(art, 'wb') as f:
                f.write(prior)
        names.append(n)
    if alone:
        rc = [R.run_ucg(['build', n + '.ucg'], work, timeout=120)[0] for n in names]
    else:
        rc = R.run_ucg(['build'] + [n + '.ucg' for n in names], work, timeout=600)[0]
    arts = []
    for n in names:
        art = os.path.join(work, n + '.' + EXT[fmt])
        try:
            with open(art, 'rb') as f:
                arts.append(f.read())
        except OSError:
            arts.append(None)
    return rc, arts


def art_text(raw):
    if raw is None:
        return None
    try:
        return raw.decode('utf-8')
    except UnicodeDecodeError:
        return raw.decode('latin-1') + '\x00<<artifact is not UTF-8>>'


def same_length_variant(raw):
    """The same number of bytes, different content (every ASCII letter / digit replaced): an artifact of an 'earlier value' of exactly the new size."""
    return bytes((0x78 if (48 <= b <= 57 or 65 <= b <= 90 or 97 <= b <= 122) else b) for b in raw)


def _p_readonly(data):
    def prep(path):
        with open(path, 'wb') as f:
            f.write(data)
        os.chmod(path, 0o444)
    return prep


def _p_directory(path):
    os.mkdir(path)


def _p_symlink(data, dangling=False):
    def prep(path):
        target = path + '.target'
        if not dangling:
            with open(target, 'wb') as f:
                f.write(data)
        os.symlink(os.path.basename(target), path)
    return prep


def _p_hardlink(data):
    def prep(path):
        with open(path + '.other', 'wb') as f:
            f.write(data)
        os.link(path + '.other', path)
    return prep


def rebuild_values(fmt, tier, rnd):
    """(new value, a 'previous' value whose text is longer) pairs of the format's family."""
    n = 24 if tier == 'thorough' else 6
    if fmt == 'yamlmulti':
        pool = [[1], ['a', 'b'], [Tup([('a', 1)]), Tup([('b', [1, 2])])], 'x', Tup([('name', 'svc')]), [], [None, 'two'], ['---', 'a\n---\nb\n']]
        pool += [gen_value(rnd, 'yaml', rnd.randint(0, 3)) for _ in range(n)]
    else:
        pool = [Tup([('name', 'svc')]), Tup([]), Tup([('a', 1), ('l', [1, 2, 3]), ('s', 'line1\nline2\n'), ('t', Tup([('k', 'v')]))]), Tup([('k', 'x\n\n')])]
        if fmt != 'toml':
            pool += [1, 's', [], [1, 'two', None], None, True, 'trail\n\n']
        pool += [gen_top(rnd, fmt, rnd.randint(1, 3)) for _ in range(n)]
    vals = pool if tier == 'thorough' else pool[:3] + rnd.sample(pool[3:], 5)
    out = []
    for v in vals:
        pad = 'previous build ' * 20
        if fmt == 'yamlmulti':
            longer = (v if isinstance(v, list) else [v]) + [pad, Tup([('old', [1, 2, 3])])]
        else:
            longer = Tup([('v', v), ('zz_previous', pad), ('zz_ports', [8080, 8081, 8082])])
        out.append((v, longer))
    return out


def standin_rebuild_over_existing(tier, seed):
    """Write / build an artifact first, then build the program: the artifact decodes to the value of THIS build, whatever was there."""
    fmts = [f for f in ('json', 'yaml', 'toml', 'yamlmulti') if not need(f)]
    name = 'rebuild_over_existing'
    PRIORS = ['absent', 'empty', 'text_twice', 'text_plus_junk', 'text_plus_newlines_and_junk', 'non_utf8_longer', 'prefix_half', 'same_length_other_content', 'huge_64k', 'one_byte_longer',
              'one_byte_shorter', 'hard_link_to_longer']
    SPECIAL = ['read_only_longer', 'directory', 'symlink_to_longer', 'dangling_symlink', 'read_only_directory_with_longer_artifact']
    bound = ('for each of %s: seeded values of the format\'s family (%s per format), (a) built twice in the same directory -- previous value longer -> new, new -> longer, same -> same -- and (b) built over an '
             'artifact path prepared as {%s} (text = what a clean build writes); after an exit-0 build the artifact decodes (independent decoder) to the value of THIS build; '
             '(c) over {%s}: the build fails, or the artifact decodes to the value (seed %s)'
             % ('/'.join(fmts), 'all fixed + 24 random' if tier == 'thorough' else '3 fixed + 5 sampled', ', '.join(PRIORS), ', '.join(SPECIAL), seed))
    count = {}

    def report(fmt, src, prior_desc, v, rc, raw, why, prior_src=None):
        d = dict(source=src, prior_artifact=prior_desc, expected='exit 0 and an artifact that decodes to %s' % show(v),
                 observed='exit %s; artifact: %r; %s' % (rc, art_text(raw), why),
                 how='in an empty directory: prepare x.%s as described under prior_artifact%s, write the source to x.ucg, run the real `ucg build x.ucg`, decode x.%s with %s'
                     % (EXT[fmt], ' (build prior_source as x.ucg first)' if prior_src else '', EXT[fmt], DECODER_NAME[fmt]))
        if prior_src:
            d['prior_source'] = prior_src
        return dict(name=name, bound=bound, cases=sum(count.values()), status='violation', detail='`%s` built over %s -> %s' % (src.strip()[:120], prior_desc[:120], why[:240]), input=d)

    def confirm_alone(fmt, src, prior, v, prior_src=None):
        """The replay: a fresh directory, this file alone.  -> (why | None, rc, raw)"""
        work = tempfile.mkdtemp(prefix='verif_c03r_')
        try:
            if prior_src is not None:
                build_over(work, [(prior_src, None)], fmt)
                prior = None
            rc, arts = build_over(work, [(src, prior)], fmt, alone=True)
            return verdict_ok_case(fmt, v, rc[0], art_text(arts[0])), rc[0], arts[0]
        finally:
            shutil.rmtree(work, ignore_errors=True)

    def one_format(fmt):
        n_cases = 0
        rnd = random.Random('rebuild-%s-%s' % (fmt, seed))
        pairs = rebuild_values(fmt, tier, rnd)
        srcs = ['out %s %s;\n' % (fmt, ucg_lit(v)) for v, _ in pairs]
        longs = ['out %s %s;\n' % (fmt, ucg_lit(w)) for _, w in pairs]
        # ---- (a) two builds in the same directory
        for first, second, vals, label in ((longs, srcs, [v for v, _ in pairs], 'longer previous value'), (srcs, longs, [w for _, w in pairs], 'shorter previous value'),
                                           (srcs, srcs, [v for v, _ in pairs], 'same value')):
            work = tempfile.mkdtemp(prefix='verif_c03r_')
            try:
                rc0, arts0 = build_over(work, [(s_, None) for s_ in first], fmt)
                rc1, arts1 = build_over(work, [(s_, None) for s_ in second], fmt)
            finally:
                shutil.rmtree(work, ignore_errors=True)
            for s1, s2, v, a0, a1 in zip(first, second, vals, arts0, arts1):
                n_cases += 1
                count[fmt] = n_cases
                if a0 is None:
                    continue            # the first build wrote nothing: the plain round-trip families judge that
                why = verdict_ok_case(fmt, v, rc1, art_text(a1))
                if why is None:
                    continue
                why1, rc_a, raw_a = confirm_alone(fmt, s2, None, v, prior_src=s1)
                if why1 is None:
                    continue
                return report(fmt, s2, 'the artifact of an earlier build of prior_source (%s, %d bytes)' % (label, len(a0)), v, rc_a, raw_a, why1, prior_src=s1)
        # ---- the text a clean build writes
        work = tempfile.mkdtemp(prefix='verif_c03r_')
        try:
            rc, clean = build_over(work, [(s_, None) for s_ in srcs], fmt)
        finally:
            shutil.rmtree(work, ignore_errors=True)
        # ---- (b) prepared artifact paths, writable: strict
        items, meta = [], []
        for (v, _), src, T in zip(pairs, srcs, clean):
            if T is None or verdict_ok_case(fmt, v, 0, art_text(T)) is not None:
                continue                # not a faithful clean build: the plain round-trip families report that
            priors = dict(absent=None, empty=b'', text_twice=T + T, text_plus_junk=T + b'}]"\'\x00 junk: [{\n', text_plus_newlines_and_junk=T + b'\n\n\n---\nold: [1, 2\n',
                          non_utf8_longer=b'\xff\xfe\x00\xc3' * (len(T) // 4 + 8), prefix_half=T[:len(T) // 2], same_length_other_content=same_length_variant(T),
                          huge_64k=b'# earlier build\n' * 4096, one_byte_longer=T + b'x', one_byte_shorter=T[:-1] if T else b'', hard_link_to_longer=_p_hardlink(T + T))
            assert sorted(priors) == sorted(PRIORS)
            for k in PRIORS:
                items.append((src, priors[k]))
                meta.append((v, k, priors[k]))
        work = tempfile.mkdtemp(prefix='verif_c03r_')
        try:
            rc, arts = build_over(work, items, fmt)
        finally:
            shutil.rmtree(work, ignore_errors=True)
        for (src, prior), (v, k, _), raw in zip(items, meta, arts):
            n_cases += 1
            count[fmt] = n_cases
            why = verdict_ok_case(fmt, v, rc, art_text(raw))
            if why is None:
                continue
            why1, rc_a, raw_a = confirm_alone(fmt, src, prior, v)
            if why1 is None:
                continue
            desc = '%s: %s' % (k, 'a hard link to a file holding the clean text twice' if callable(prior) else ('no file' if prior is None else '%d bytes %r%s' % (len(prior), prior[:300], '...' if len(prior) > 300 else '')))
            return report(fmt, src, desc, v, rc_a, raw_a, why1)
        # ---- (c) artifact paths a build may be unable to (over)write: an error, or the faithful artifact -- never exit 0 with anything else
        sample = [(p_, s_, T) for p_, s_, T in zip(pairs, srcs, clean) if T is not None][:(4 if tier == 'thorough' else 1)]
        items, meta = [], []
        for (v, _), src, T in sample:
            spec = dict(read_only_longer=_p_readonly(T + T), directory=_p_directory, symlink_to_longer=_p_symlink(T + b'\n# old tail\n' + T), dangling_symlink=_p_symlink(b'', dangling=True))
            for k in SPECIAL[:4]:
                items.append((src, spec[k]))
                meta.append((v, k))
        work = tempfile.mkdtemp(prefix='verif_c03r_')
        try:
            rcs, arts = build_over(work, items, fmt, alone=True)
        finally:
            for dp, dn, fn in os.walk(work):
                for f in fn:
                    try:
                        os.chmod(os.path.join(dp, f), 0o644)
                    except OSError:
                        pass
            shutil.rmtree(work, ignore_errors=True)
        # ... and a read-only DIRECTORY holding a longer artifact (for a privileged user the directory stays writable: then the strict rule applies through exit 0)
        for (v, _), src, T in sample[:1]:
            work = tempfile.mkdtemp(prefix='verif_c03r_')
            try:
                with open(os.path.join(work, 'c0000.ucg'), 'w', encoding='utf-8', newline='') as f:
                    f.write(src)
                with open(os.path.join(work, 'c0000.' + EXT[fmt]), 'wb') as f:
                    f.write(T + b'\n' + T)
                os.chmod(work, 0o555)
                rc1 = R.run_ucg(['build', 'c0000.ucg'], work, timeout=120)[0]
                with open(os.path.join(work, 'c0000.' + EXT[fmt]), 'rb') as f:
                    raw = f.read()
            finally:
                os.chmod(work, 0o755)
                shutil.rmtree(work, ignore_errors=True)
            items.append((src, None))
            meta.append((v, 'read_only_directory_with_longer_artifact'))
            rcs.append(rc1)
            arts.append(raw)
        for (src, _), (v, k), rc1, raw in zip(items, meta, rcs, arts):
            n_cases += 1
            count[fmt] = n_cases
            if rc1 != 0:
                continue
            why = verdict_ok_case(fmt, v, rc1, art_text(raw))
            if why is not None:
                return report(fmt, src, '%s (x.%s prepared as a %s before the build; `ucg build` exits 0)' % (k, EXT[fmt], k.replace('_', ' ')), v, rc1, raw, why)
        return None

    R.ucg_binary()              # build once before the worker threads start
    if yaml_module() is not None:
        core_loader()
    import concurrent.futures as cf
    with cf.ThreadPoolExecutor(max_workers=len(fmts) or 1) as pool:
        results = list(pool.map(one_format, fmts))
    for r in results:
        if r is not None:
            r['cases'] = sum(count.values())
            return r
    return dict(name=name, bound=bound, cases=sum(count.values()), status='ok')


STANDINS = [standin_rebuild_over_existing, standin_json_roundtrip, standin_yaml_roundtrip, standin_toml_roundtrip, standin_yamlmulti_stream, standin_convert_expr, standin_unrepresentable]
