// ---- prelude/env_caches_front.rs: the neighbours of the caches that both env_caches units share (inside verus!): errors,
// the parser stub, the type checker's struct and constructors (EXTRACTED), the type checker's walk as an uninterpreted function.
// needs: prelude/env_caches_world.rs; the types Statement, CommentMap, ErrorType, Position, Shape (opaque or extracted) ----

// ---------- errors: only constructed, converted and propagated here (R5); message text dropped (R1) ----------
#[verifier::external_body]
pub struct Error { _p: u8 }
impl Error {
    #[verifier::external_body]
    pub fn new(msg: String, pos: Position) -> Self { unimplemented!() }
}
// crate::error::BuildError without its `cause: Option<Box<dyn Error>>` (dyn; never read by the code under contract)
pub struct BuildError {
    pub err_type: ErrorType,
    pub pos: Option<Position>,
    pub msg: String,
}
impl From<IoError> for Error {
    #[verifier::external_body]
    fn from(e: IoError) -> (r: Error) { unimplemented!() }
}
impl From<BuildError> for Error {
    #[verifier::external_body]
    fn from(e: BuildError) -> (r: Error) { unimplemented!() }
}

// ---------- the parser (R8: outside the unit) ----------
pub struct OffsetStrIter<'a> { pub text: Ghost<Seq<char>>, pub file: Ghost<Option<Seq<char>>>, pub _p: core::marker::PhantomData<&'a u8> }
impl<'a> OffsetStrIter<'a> {
    #[verifier::external_body]
    pub fn new(input: &'a str) -> (r: Self) ensures r.text@ == input@, r.file@ is None { unimplemented!() }
    #[verifier::external_body]
    pub fn with_src_file<Q: vinto::VIntoPathBuf>(self, file: Q) -> (r: Self)
        ensures r.text@ == self.text@, r.file@ == Some(file.pview())
    { unimplemented!() }
}
// crate::parse::parse: the statements of a source text (None: a syntax error); the file name only labels positions
pub uninterp spec fn spec_parse(text: Seq<char>, file: Option<Seq<char>>) -> Option<Seq<Statement>>;
#[verifier::external_body]
pub fn parse<'a>(input: OffsetStrIter<'a>, comment_map: Option<&mut CommentMap>) -> (r: Result<Vec<Statement>, BuildError>)
    ensures match spec_parse(input.text@, input.file@) { Some(s) => r matches Ok(v) && v@ == s, None => r is Err }
{ unimplemented!() }

// ---------- ast/typecheck: the Checker as the Environment drives it ----------
pub type ShapeCache = Rc<RefCell<BTreeMap<PathBuf, Shape>>>;
impl<T> RefCell<T> {
    #[verifier::external_body]
    pub fn new(t: T) -> Self { unimplemented!() }
}
//@ extract src/ast/typecheck/mod.rs :: struct Checker
//@   rule R0 RV
//@ end
// what a Checker is, up to the identity of its containers
pub struct CkState {
    pub symbols: Map<Seq<char>, Shape>,
    pub errs: Seq<BuildError>,
    pub shapes: Seq<Shape>,
    pub depth: usize,
    pub strict: bool,
    pub dir: Option<Seq<char>>,
    pub cache: ShapeCache,
    pub istack: Seq<Seq<char>>,
}
pub open spec fn path_texts(s: Seq<PathBuf>) -> Seq<Seq<char>> { Seq::new(s.len(), |k: int| s[k]@) }
impl Checker {
    pub open spec fn st(self) -> CkState {
        CkState {
            symbols: self.symbol_table@, errs: self.err_stack@, shapes: self.shape_stack@, depth: self.nested_depth,
            strict: self.strict, dir: match self.working_dir { Some(d) => Some(d@), None => None },
            cache: self.shape_cache, istack: path_texts(self.import_stack@),
        }
    }
}
// the state `Checker::new().with_working_dir(root).with_shape_cache(cache)` is in
pub open spec fn root_checker(root: Seq<char>, cache: ShapeCache) -> CkState {
    CkState {
        symbols: Map::empty(), errs: Seq::empty(), shapes: Seq::empty(), depth: 0, strict: true, dir: Some(root),
        cache: cache, istack: path_texts(Seq::empty()),
    }
}
//@ extract src/ast/typecheck/mod.rs :: impl Checker :: fn new
//@   ret r
//@   sig <<<
        ensures
            r.symbol_table@ =~= Map::<Seq<char>, Shape>::empty(), r.err_stack@ =~= Seq::<BuildError>::empty(),
            r.shape_stack@ =~= Seq::<Shape>::empty(), r.nested_depth == 0, r.strict, r.working_dir is None,
            r.import_stack@ =~= Seq::<PathBuf>::empty(),
//@   >>>
//@ end
//@ extract src/ast/typecheck/mod.rs :: impl Checker :: fn with_working_dir
//@   rule R4
//@   subst "P: Into<PathBuf>>" => "P: vinto::VIntoPathBuf>"
//@   ret r
//@   sig <<<
        ensures r.st() == (CkState { dir: Some(dir.pview()), ..self.st() })
//@   >>>
//@ end
//@ extract src/ast/typecheck/mod.rs :: impl Checker :: fn with_shape_cache
//@   rule R4
//@   ret r
//@   sig <<<
        ensures r.st() == (CkState { cache: cache, ..self.st() })
//@   >>>
//@ end
//@ extract src/ast/typecheck/mod.rs :: impl Checker :: fn result
//@   ret r
//@   sig <<<
        ensures match r {
            Ok(t) => self.err_stack@.len() == 0 && t == self.symbol_table,
            Err(e) => self.err_stack@.len() > 0 && e == self.err_stack@[0],
        }
//@   >>>
//@ end

// Walker::walk_statement_list (ast/walk.rs) driving the Checker's visitor over a file (R8: the whole type checker):
// an UNINTERPRETED function of (the checker's state, the statements); it may rewrite the statements.
pub uninterp spec fn spec_walk(c: CkState, stmts: Seq<Statement>) -> (CkState, Seq<Statement>);
