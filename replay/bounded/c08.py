"""C08 bounded stand-ins: what the env / flags / exec converters write is handed to REAL shells (/bin/sh = dash, and bash) and
the words / variables the shell ends up with are compared with the original UCG strings.

Oracle (from the property statement and reference/converters.md only):
  * env   : after `. ./x.env` every scalar field NAME is a shell variable whose value is the original string; skipped fields
            (NULL, list, nested tuple) are not set and do not disturb their neighbours;
  * flags : after `eval "set -- $(cat x.txt)"` the positional parameters are `--name value` per scalar field, `--name item` per
            scalar list item, nothing for nested tuples / non-scalar list items (a NULL field may show up as a bare `--name`, as in
            the reference's example, or not at all - both accepted);
  * exec  : running the script with the command replaced by a tiny argv/environment printer: argv = args in order (tuples in
            args expanded like flags), every env field is a variable with the original value, the command word is the original
            command string;
  * nothing inside a value is executed (trap commands / `$(touch PWNED)` must leave no PWNED file).
Bounded: exactly the families named in each stand-in's `bound`."""
import itertools
import os
import random
import re
import shutil
import subprocess
import tempfile

import realcode as R

ALPHA = ["'", '"', '\\', '$', '`', ' ', '\n', '*', 'a']
MARK = 'zZmArKzZ'
UNSET = MARK + ':UNSET'
SHELLS = [('sh', '/bin/sh'), ('bash', '/bin/bash')]

# hand-picked hostile values (beyond the alphabet) and a few Unicode strings
HOSTILE = ['$(touch PWNED)', '`touch PWNED`', "'; touch PWNED; '", '"; touch PWNED; "', "'$(touch PWNED)'", '"`touch PWNED`"',
           '\\$(touch PWNED)', "\\'; touch PWNED; \\'", '$HOME', '${PATH}', '$0', '$@', '$$', '~', '#x', 'a;b', 'a&b', 'a|b', 'a>PWNED',
           '?', '[a]', '{a,b}', 'a\tb', 'a\rb', '!', '!!', '-n', '-e', '--', '\\n', '%s', 'a\\', "it's a \\'test\\'", '\\\\\\',
           "''", '""', "'\"'\"'", '$(a)', '`a`', '$((1+1))', 'a=b', ' a', 'a ', '\n', 'a\n', '\na', '\n\n', '* *',
           # exactly one kind of special character each
           'a `echo x` b', '`echo x`', '``', 'x`y', 'a $HOME b', '$x', 'a$', '$(echo x)', 'a "q" b', '"q"', 'x"y', 'a \\ b', 'x\\y', '\\', '\\\\', '\\a', "it's", "'q'"]
UNICODE = ['é', 'naïve ✓', '日本語 テスト', 'Ünïcödé $HOME `a` \'q\' "q"', '😀 emoji\n🚀', 'a\u0301\u0300 combining', '\u00a0nbsp\u2003emsp',
           'עברית mixed ltr', '“smart” ‘quotes’', '\u2028line sep']

# Inputs on which the real code violates the property (none on the pinned HEAD).
KNOWN = []


def lit(s):
    """UCG string literal for s (reference/types.md: escapes \\" \\\\ \\n \\r \\t)."""
    return '"' + s.replace('\\', '\\\\').replace('"', '\\"').replace('\n', '\\n').replace('\r', '\\r').replace('\t', '\\t') + '"'


def all_strings(maxlen):
    for n in range(maxlen + 1):
        for t in itertools.product(ALPHA, repeat=n):
            yield ''.join(t)


def random_unicode(rnd, count):
    ranges = [(0x20, 0x7e), (0xa1, 0x24f), (0x370, 0x3ff), (0x4e00, 0x4fff), (0x1f300, 0x1f5ff), (0x2000, 0x206f)]
    res = []
    for _ in range(count):
        n = rnd.randint(1, 40)
        s = ''
        for _ in range(n):
            if rnd.random() < 0.25:
                s += rnd.choice(ALPHA)
            else:
                lo, hi = rnd.choice(ranges)
                s += chr(rnd.randint(lo, hi))
        res.append(s)
    return res


def value_set(tier, seed):
    rnd = random.Random(seed)
    if tier == 'thorough':
        vals = list(all_strings(4))
        desc = 'all %d strings of length <= 4 over {\' " \\ $ ` space newline * a}' % len(vals)
        uni = random_unicode(rnd, 100)
    else:
        pool = list(all_strings(3))
        short = [s for s in pool if len(s) <= 1]
        vals = short + rnd.sample([s for s in pool if len(s) > 1], 140)
        desc = 'a seeded sample of %d of the 820 strings of length <= 3 over {\' " \\ $ ` space newline * a} (all of length <= 1)' % len(vals)
        uni = random_unicode(rnd, 10)
    extra = HOSTILE + UNICODE + uni
    desc += ' + %d hand-picked hostile strings + %d Unicode strings (%d random, <= 40 chars)' % (len(HOSTILE), len(UNICODE) + len(uni), len(uni))
    seen, out = set(), []
    for v in vals + extra:
        if v in seen or MARK in v or v in KNOWN:
            continue
        seen.add(v)
        out.append(v)
    return out, desc


# ------------------------------------------------------------------ work directory, shells
class Work:
    def __init__(self):
        self.dir = tempfile.mkdtemp(prefix='verif_c08_')
        self.trap = os.path.join(self.dir, 'trapbin')
        self.cmds = os.path.join(self.dir, 'cmds')
        os.mkdir(self.trap)
        os.mkdir(self.cmds)
        self.pwned = os.path.join(self.dir, 'PWNED')
        # `a` is the alphabet's only letter: an executed `a` / $(a) hits this trap
        self.script(os.path.join(self.trap, 'a'), '#!/bin/sh\n: > %s\n' % self.pwned)
        # the stand-in for the launched application: prints $0, argv and its environment, NUL separated
        self.pa = os.path.join(self.dir, 'pa')
        self.script(self.pa, '#!/bin/sh\nprintf \'%%s\\0\' "$0" \'%s:ARGS\'\nfor a in "$@"; do printf \'%%s\\0\' "$a"; done\n'
                             'printf \'%%s\\0\' \'%s:ENV\'\n/usr/bin/env -0\nprintf \'%%s\\0\' \'%s:END\'\n' % (MARK, MARK, MARK))
        self.env = {'PATH': self.trap + ':/usr/bin:/bin', 'HOME': self.dir, 'LC_ALL': 'C'}
        self.nrun = 0
        self.dash_exec = None

    def script(self, path, text):
        with open(path, 'w') as f:
            f.write(text)
        os.chmod(path, 0o755)

    def write(self, name, text):
        with open(os.path.join(self.dir, name), 'w', encoding='utf-8') as f:
            f.write(text)

    def read(self, name):
        p = os.path.join(self.dir, name)
        return open(p, 'rb').read() if os.path.exists(p) else None

    def build(self, names):
        """`ucg build` of the named files (chunks of 400 per call); returns (name, tail of output) of the first failing call or None."""
        for i in range(0, len(names), 400):
            rc, so, se = R.run_ucg(['build'] + names[i:i + 400], self.dir, timeout=600)
            if rc != 0:
                return names[i:i + 400], (so + se)[-400:]
        return None

    def sh(self, shell, text, flags=(), path_first=None):
        """Run `text` as a script file under the given shell; returns (stdout bytes, stderr text, pwned?)."""
        self.nrun += 1
        name = 'run_%d.sh' % self.nrun
        self.write(name, text)
        env = dict(self.env)
        if path_first:
            env['PATH'] = path_first + ':/usr/bin:/bin'
        if os.path.exists(self.pwned):
            os.remove(self.pwned)
        p = subprocess.run([shell] + list(flags) + [name], cwd=self.dir, env=env, capture_output=True, timeout=600)
        pw = os.path.exists(self.pwned)
        return p.stdout, p.stderr.decode('utf-8', 'replace'), pw

    def for_shell(self, shname, art):
        """The exec artifact as that shell reads it.  The script is a bash script; dash has no `pipefail` option, so for dash the
        fixed prologue line loses that one option (nothing value-dependent is touched)."""
        if shname == 'bash':
            return art
        data = self.read(art)
        if data is None:
            return art
        alt = art + '.dash'
        with open(os.path.join(self.dir, alt), 'wb') as f:
            f.write(re.sub(rb'(?m)^set -([a-z]*)o pipefail[ \t]*$', lambda m: b'set -' + m.group(1) if m.group(1) else b':', data))
        return alt

    def close(self):
        shutil.rmtree(self.dir, ignore_errors=True)


def words(out):
    parts = out.split(b'\0')
    if parts and parts[-1] == b'':
        parts.pop()
    return parts


def norm_flag(w):
    """`-name` and `--name` are the same flag for this property (the dash count is not C08's business)."""
    return re.sub(rb'^-{1,2}(?=(f\d+|it|q)$)', b'--', w)


def parse_pa(out):
    """One record printed by the `pa` printer -> (argv0, [args], {env}) or None."""
    w = words(out)
    a, e, z = (MARK + ':ARGS').encode(), (MARK + ':ENV').encode(), (MARK + ':END').encode()
    if len(w) < 4 or w[1] != a or e not in w or w[-1] != z:
        return None
    k = w.index(e)
    env = {}
    for item in w[k + 1:-1]:
        n, _, v = item.partition(b'=')
        env[n] = v
    return w[0], w[2:k], env


# ------------------------------------------------------------------ placements of a batch of values
class Env:
    name, ext = 'env converter value', 'env'

    def source(self, W, vals):
        return 'out env {%s};\n' % ', '.join('V%d = %s' % (i, lit(v)) for i, v in enumerate(vals))

    def observe(self, W, shname, shell, art, vals):
        text = '. ./%s\nprintf \'%%s\\0\' %s\n' % (art, ' '.join('"${V%d-%s}"' % (i, UNSET) for i in range(len(vals))))
        out, err, pw = W.sh(shell, text)
        return words(out), err, pw, '`. ./%s; printf \'%%s\\0\' "$V0" ...` in %s' % (art, shell)

    def expected(self, W, vals):
        return [v.encode() for v in vals]


class Flags:
    name, ext = 'flags converter value', 'txt'

    def source(self, W, vals):
        return 'out flags {%s};\n' % ', '.join('f%d = %s' % (i, lit(v)) for i, v in enumerate(vals))

    def observe(self, W, shname, shell, art, vals):
        text = 'eval "set -- $(cat ./%s)"\nfor a in "$@"; do printf \'%%s\\0\' "$a"; done\n' % art
        out, err, pw = W.sh(shell, text)
        return [norm_flag(w) for w in words(out)], err, pw, '`eval "set -- $(cat %s)"; printf \'%%s\\0\' "$@"` in %s' % (art, shell)

    def expected(self, W, vals):
        res = []
        for i, v in enumerate(vals):
            res += [b'--f%d' % i, v.encode()]
        return res


class FlagItems(Flags):
    name = 'list-flag item'

    def source(self, W, vals):
        return 'out flags {it = [%s]};\n' % ', '.join(lit(v) for v in vals)

    def expected(self, W, vals):
        res = []
        for v in vals:
            res += [b'--it', v.encode()]
        return res


class ExecArgs:
    name, ext = 'exec args item', 'sh'

    def source(self, W, vals):
        return 'out exec {command = %s, args = [%s]};\n' % (lit(W.pa), ', '.join(lit(v) for v in vals))

    def observe(self, W, shname, shell, art, vals):
        out, err, pw = W.sh(shell, '. ./%s\n' % W.for_shell(shname, art), flags=['-a'])
        rec = parse_pa(out)
        return self.pick(rec), err, pw, 'the script run by %s -a (allexport, so that assignments reach the printer), command = a printer of argv/environment' % shell

    def pick(self, rec):
        return [norm_flag(w) for w in rec[1]] if rec else []

    def expected(self, W, vals):
        return [v.encode() for v in vals]


class ExecArgFlags(ExecArgs):
    name = 'flag value / list item inside an exec args tuple'

    def source(self, W, vals):
        # bound by let first: deeply nested literals make the parser crawl
        return 'let fl = {%s};\nlet items = [%s];\nlet li = {it = items};\nout exec {command = %s, args = ["first", fl, li, "last"]};\n' % (
            ', '.join('f%d = %s' % (i, lit(v)) for i, v in enumerate(vals)), ', '.join(lit(v) for v in vals), lit(W.pa))

    def expected(self, W, vals):
        res = [b'first']
        for i, v in enumerate(vals):
            res += [b'--f%d' % i, v.encode()]
        for v in vals:
            res += [b'--it', v.encode()]
        return res + [b'last']


class ExecEnv(ExecArgs):
    name = 'exec env value'

    def source(self, W, vals):
        return 'out exec {env = {%s}, command = %s, args = ["only"]};\n' % (', '.join('E%d = %s' % (i, lit(v)) for i, v in enumerate(vals)), lit(W.pa))

    def pick(self, rec):
        if not rec:
            return []
        n = 0
        while b'E%d' % n in rec[2]:
            n += 1
        return list(rec[1]) + [rec[2][b'E%d' % i] for i in range(n)]

    def expected(self, W, vals):
        return [b'only'] + [v.encode() for v in vals]


PLACEMENTS = [Env(), Flags(), FlagItems(), ExecArgs(), ExecArgFlags(), ExecEnv()]


def shells_for(W, pl):
    """dash cannot run the exec prologue (`set -o pipefail`); it reads a copy without that option - if even a harmless script does
    not run that way, exec scripts are evaluated by bash only."""
    if pl.ext != 'sh':
        return SHELLS
    if W.dash_exec is None:
        if W.read('probe.sh') is None:
            W.write('probe.ucg', 'out exec {command = %s, args = ["x"]};\n' % lit(W.pa))
            W.build(['probe.ucg'])
        out, err, pw = W.sh('/bin/sh', '. ./%s\n' % W.for_shell('sh', 'probe.sh'), flags=['-a'])
        rec = parse_pa(out)
        W.dash_exec = bool(rec and rec[1] == [b'x'])
    return SHELLS if W.dash_exec else SHELLS[1:]


def observe_batch(W, pl, tag, vals):
    """The artifact tag.ext holds all vals in placement pl: let every shell read it.  Returns None or a failure dict."""
    src = pl.source(W, vals)
    art = tag + '.' + pl.ext
    if W.read(art) is None:
        return dict(source=src, expected='builds', observed='no artifact', how='`ucg build %s.ucg`' % tag, shell='-')
    exp = pl.expected(W, vals)
    for shname, shell in shells_for(W, pl):
        got, err, pw, how = pl.observe(W, shname, shell, art, vals)
        if got != exp or pw:
            return dict(source=src, expected=[w.decode('utf-8', 'replace') for w in exp], observed=[w.decode('utf-8', 'replace') for w in got],
                        pwned=pw, stderr=err[-300:], how='`ucg build %s.ucg`, then %s' % (tag, how), shell=shname, artifact=(W.read(art) or b'').decode('utf-8', 'replace'))
    return None


def check_batch(W, pl, tag, vals):
    """Build one artifact holding all vals in placement pl, let every shell read it.  Returns None or a failure dict."""
    src = pl.source(W, vals)
    W.write(tag + '.ucg', src)
    art = tag + '.' + pl.ext
    if os.path.exists(os.path.join(W.dir, art)):
        os.remove(os.path.join(W.dir, art))
    bad = W.build([tag + '.ucg'])
    if bad or W.read(art) is None:
        return dict(source=src, expected='builds', observed='build failed: %s' % (bad[1] if bad else 'no artifact'), how='`ucg build %s.ucg`' % tag, shell='-')
    return observe_batch(W, pl, tag, vals)


def localise(W, pl, vals):
    """A batch failed: find a single value that fails on its own (smallest replay)."""
    for i, v in enumerate(vals):
        W.write('one%d.ucg' % i, pl.source(W, [v]))
    W.build(['one%d.ucg' % i for i in range(len(vals))])
    for i, v in enumerate(vals):
        f = observe_batch(W, pl, 'one%d' % i, [v])
        if f:
            if f['shell'] == '-':
                f = check_batch(W, pl, 'one', [v]) or f
            return v, f
    return None, None


def failure(name, bound, n, pl, v, f):
    what = 'something inside the value was EXECUTED' if f.get('pwned') else 'it arrives as %r' % (f['observed'],)
    if v is None:
        detail = '%s: a batch of values does not arrive intact in %s (each value alone does): expected %d words, observed %d' % (pl.name, f['shell'], len(f['expected']), len(f['observed']))
    else:
        detail = '%s %r read by %s: %s, expected %r' % (pl.name, v, f['shell'], what, f['expected'])
    return dict(name=name, bound=bound, cases=n, status='violation', detail=detail[:600],
                input=dict(source=f['source'], expected=f['expected'], observed=f['observed'], how=f['how'], executed=bool(f.get('pwned')),
                           artifact=f.get('artifact', ''), stderr=f.get('stderr', '')))


CHUNK = 700


def standin_sh_values(tier, seed):
    vals, desc = value_set(tier, seed)
    W = Work()
    n = 0
    bound = '%s; each placed as env value, flags value, list-flag item, exec args item, flag value/item in an exec args tuple and exec env value (batched, %d per artifact); read by /bin/sh (dash) and bash' % (desc, CHUNK)
    try:
        jobs = []
        for pi, pl in enumerate(PLACEMENTS):
            for c in range(0, len(vals), CHUNK):
                tag = 'p%d_%d' % (pi, c // CHUNK)
                W.write(tag + '.ucg', pl.source(W, vals[c:c + CHUNK]))
                jobs.append((pl, tag, vals[c:c + CHUNK]))
        W.write('probe.ucg', 'out exec {command = %s, args = ["x"]};\n' % lit(W.pa))
        W.build(['probe.ucg'] + [tag + '.ucg' for _, tag, _ in jobs])   # a failing build shows up as a missing artifact below
        for pl, tag, chunk in jobs:
            f = observe_batch(W, pl, tag, chunk)
            n += len(chunk)
            if f:
                v, f1 = localise(W, pl, chunk)
                return failure('sh_values', bound, n, pl, v, f1 or f)
        if W.dash_exec is False:
            bound += ' (exec scripts: bash only, dash rejects the prologue)'
    finally:
        W.close()
    return dict(name='sh_values', bound=bound, cases=n, status='ok')


# ------------------------------------------------------------------ exec command: one script per value
def standin_sh_command(tier, seed):
    vals, desc = value_set(tier, seed)
    rnd = random.Random(seed)
    # not a program name: empty, with `/`, `.`/`..`; a leading `-` is read by the `exec` builtin as ITS option although the word arrives
    # unaltered (outside the property's alphabet, not a quoting matter)
    vals = [v for v in vals if v and '/' not in v and v not in ('.', '..') and not v.startswith('-') and len(v.encode()) < 200]
    if tier == 'thorough':
        short = [v for v in vals if len(v) <= 3 or any(c not in ALPHA for c in v)]
        long = [v for v in vals if len(v) == 4 and all(c in ALPHA for c in v)]
        vals = short + rnd.sample(long, min(len(long), 1500))
        desc = 'all non-empty strings of length <= 3 over the alphabet + a seeded sample of 1500 of length 4 + the hostile/Unicode strings without `/` (%d)' % len(vals)
    else:
        desc = 'the non-empty, `/`-free ones (%d) of: %s' % (len(vals), desc)
    bound = 'exec `command` = %s; one script each, the word the shell tries to launch is observed through a PATH directory holding a program of that name; bash and /bin/sh (dash, prologue without pipefail)' % desc
    W = Work()
    n = 0
    try:
        names = []
        for i, v in enumerate(vals):
            W.write('c%d.ucg' % i, 'out exec {command = %s, args = ["x y", "z"]};\n' % lit(v))
            os.symlink(W.pa, os.path.join(W.cmds, v))
            names.append('c%d.ucg' % i)
        W.write('probe.ucg', 'out exec {command = %s, args = ["x"]};\n' % lit(W.pa))
        bad = W.build(names + ['probe.ucg'])
        if bad:
            miss = [i for i in range(len(vals)) if W.read('c%d.sh' % i) is None]
            i = miss[0] if miss else 0
            return dict(name='sh_command', bound=bound, cases=len(vals), status='violation', detail='exec command %r: the build fails: %s' % (vals[i], bad[1][-200:]),
                        input=dict(source='out exec {command = %s, args = ["x y", "z"]};' % lit(vals[i]), expected='a script', observed=bad[1], how='`ucg build`'))
        dummy = ExecArgs()
        for shname, shell in shells_for(W, dummy):
            end = MARK + ':CASE'
            text = ''.join('( . ./%s ) 2>/dev/null; printf \'%%s\\0\' \'%s\'\n' % (W.for_shell(shname, 'c%d.sh' % i), end) for i in range(len(vals)))
            out, err, pw = W.sh(shell, text, flags=['-a'], path_first=W.cmds)
            recs = out.split(end.encode() + b'\0')
            for i, v in enumerate(vals):
                n += 1
                rec = parse_pa(recs[i]) if i < len(recs) else None
                exp = (os.path.join(W.cmds, v).encode(), [b'x y', b'z'])
                got = (rec[0], rec[1]) if rec else None
                if got != exp:
                    o, e2, _ = W.sh(shell, '. ./%s\n' % W.for_shell(shname, 'c%d.sh' % i), flags=['-a'], path_first=W.cmds)
                    return dict(name='sh_command', bound=bound, cases=n, status='violation',
                                detail=('exec command %r read by %s: launched %r, expected the program named %r with arguments [x y, z]' % (v, shname, got, v))[:600],
                                input=dict(source='out exec {command = %s, args = ["x y", "z"]};' % lit(v), expected='the shell launches the program whose name is exactly %r with argv [x y, z]' % v,
                                           observed='%r; stderr: %s' % (got, e2[-300:]), artifact=(W.read('c%d.sh' % i) or b'').decode('utf-8', 'replace'),
                                           how='`ucg build`, then run the script with %s, PATH pointing at a directory that holds an executable of that exact name which prints $0 and "$@"' % shell))
            if pw or os.path.exists(W.pwned):
                return dict(name='sh_command', bound=bound, cases=n, status='violation', detail='something inside a command string was executed by %s' % shname,
                            input=dict(source='(batch of %d scripts)' % len(vals), expected='no PWNED file', observed='PWNED created', how='scripts run by %s' % shell))
    finally:
        W.close()
    return dict(name='sh_command', bound=bound, cases=n, status='ok')


# ------------------------------------------------------------------ field order: scalar / NULL / list / tuple fields in every order
def field(kind, i):
    """(ucg expression, scalar word or None, flag words incl. optional ones) of field number i of the given kind."""
    if kind == 's':
        v = "v%d x'$y" % i
        return lit(v), v.encode(), [(b'--f%d' % i, False), (v.encode(), False)]
    if kind == 'i':
        src, w = [('1%d' % i, b'1%d' % i), ('true', b'true'), ('1.5', b'1.5')][i % 3]
        return src, w, [(b'--f%d' % i, False), (w, False)]
    if kind == 'n':
        return 'NULL', None, [(b'--f%d' % i, True)]          # bare flag (reference example) or nothing
    if kind == 'l':
        # skipped items (tuple, list) in the middle, scalars after them
        return 'lst%d' % i, None, [(b'--f%d' % i, False), (b'7', False), (b'--f%d' % i, False), (b's %d' % i, False), (b'--f%d' % i, False), (b'true', False)]
    return 'sub', None, []


# the nested values are bound first: the parser's running time explodes with the nesting depth of literals
def prelude(combo):
    return ''.join('let sub = {a = 1, b = "x"};\n' if k == 't' and 't' not in combo[:i] else
                   'let lst%d = [7, {x = 1}, [2], "s %d", {y = "z"}, true];\n' % (i, i) if k == 'l' else '' for i, k in enumerate(combo))


def scal(i, v):
    return lit(v), v.encode(), [(b'--f%d' % i, False), (v.encode(), False)]


def extras():
    """Hand-made tuples (prelude, fields): a NON-EMPTY nested tuple whose field names collide with the outer ones (must not be flattened),
    list flags with skipped items first / in the middle / last followed by more scalars."""
    inner = 'let inner = {f0 = "in0", f1 = "in1", f2 = "in2", f3 = "in3"};\n'
    tag = 'let tag = ["a", {s = 1}, "b c", ["x"], "it\'s"];\n'
    tagp = lambda i: [(b'--f%d' % i, False), (b'a', False), (b'--f%d' % i, False), (b'b c', False), (b'--f%d' % i, False), (b"it's", False)]
    ends = 'let ends = [{s = 1}, "a", ["x"], {t = 2}, "b", [1]];\n'
    endsp = lambda i: [(b'--f%d' % i, False), (b'a', False), (b'--f%d' % i, False), (b'b', False)]
    return [(inner, [scal(0, 'out0'), ('inner', None, []), scal(2, 'out2')]),
            (inner, [('inner', None, []), scal(1, 'out1'), scal(2, 'out2')]),
            (inner, [scal(0, 'out0'), scal(1, 'out1'), ('inner', None, [])]),
            (inner, [('inner', None, [])]),
            (tag, [scal(0, 'first'), ('tag', None, tagp(1)), scal(2, 'la st')]),
            (tag, [('tag', None, tagp(0)), scal(1, 'after')]),
            (ends, [scal(0, 'first'), ('ends', None, endsp(1)), scal(2, 'la st')]),
            (ends + tag, [('ends', None, endsp(0)), ('tag', None, tagp(1)), scal(2, 'la st')])]


def matches(got, pattern):
    """got == pattern with every optional element present or absent."""
    def go(i, j):
        if j == len(pattern):
            return i == len(got)
        w, opt = pattern[j]
        if i < len(got) and got[i] == w and go(i + 1, j + 1):
            return True
        return opt and go(i, j + 1)
    return go(0, 0)


def show(pattern):
    return ' '.join(('[%s]' if o else '%s') % w.decode() for w, o in pattern)


def standin_sh_field_order(tier, seed):
    maxf = 4 if tier == 'thorough' else 3
    combos = [c for k in range(0, maxf + 1) for c in itertools.product('sinlt', repeat=k)]
    bound = ('tuples of 0..%d fields over {string, int/bool/float, NULL, list with skipped items in the middle, nested non-empty tuple} in every order (%d), each as env tuple, flags tuple and '
             'tuple inside exec args; + %d hand-made tuples (non-empty nested tuple whose field names collide with outer ones, list flags with skipped items first/middle/last); + 11 layouts of the exec tuple (command/args/env in every order, args/env optional); read by /bin/sh (dash) and bash') % (maxf, len(combos), len(extras()))
    W = Work()
    n = 0
    try:
        names, meta = [], []
        for ci, (pre, fl) in enumerate([(prelude(combo), [field(k, i) for i, k in enumerate(combo)]) for combo in combos] + extras()):
            tup = '{%s}' % ', '.join('f%d = %s' % (i, f[0]) for i, f in enumerate(fl))
            for fam, src in (('e', 'out env tup;\n'), ('f', 'out flags tup;\n'),
                             ('x', 'out exec {command = %s, args = ["first", tup, "la st"]};\n' % lit(W.pa))):
                W.write('%s%d.ucg' % (fam, ci), pre + 'let tup = %s;\n' % tup + src)
                names.append('%s%d.ucg' % (fam, ci))
            meta.append((pre, fl, tup))
        # layouts of the exec tuple itself
        parts = {'command': 'command = %s' % lit(W.pa), 'args': 'args = ["a 1", "a\'2"]', 'env': 'env = {E0 = "e 0", E1 = "e$1"}'}
        layouts = []
        for opt in ([], ['args'], ['env'], ['args', 'env']):
            for perm in itertools.permutations(['command'] + opt):
                layouts.append(perm)
        for li, perm in enumerate(layouts):
            W.write('y%d.ucg' % li, 'out exec {%s};\n' % ', '.join(parts[p] for p in perm))
            names.append('y%d.ucg' % li)
        W.write('probe.ucg', 'out exec {command = %s, args = ["x"]};\n' % lit(W.pa))
        bad = W.build(names + ['probe.ucg'])
        if bad:
            miss = [nm for nm in names if not any(W.read(nm[:-4] + e) is not None for e in ('.env', '.txt', '.sh'))]
            nm = miss[0] if miss else bad[0][0]
            src = open(os.path.join(W.dir, nm)).read()
            return dict(name='sh_field_order', bound=bound, cases=len(names), status='violation', detail='`%s` does not build: %s' % (src.strip(), bad[1][-200:]),
                        input=dict(source=src, expected='builds', observed=bad[1], how='`ucg build`'))
        end = MARK + ':CASE'
        endb = end.encode() + b'\0'
        dummy = ExecArgs()

        def viol(src, art, exp, got, how, sh):
            return dict(name='sh_field_order', bound=bound, cases=n, status='violation',
                        detail=('`%s` read by %s: %s, expected %s' % (src.strip().replace('\n', ' '), sh, got, exp))[:600],
                        input=dict(source=src, expected=exp, observed=got, artifact=(W.read(art) or b'').decode('utf-8', 'replace'), how=how))

        # env: order / exactly-once on the text (`NAME=` at line starts), values and absence through the shells
        for ci, (pre, fl, tup) in enumerate(meta):
            n += 1
            art = (W.read('e%d.env' % ci) or b'').decode('utf-8', 'replace')
            got = re.findall(r'(?m)^(\w+)=', art)          # (no value of this family contains a newline)
            exp = ['f%d' % i for i, f in enumerate(fl) if f[1] is not None]
            if got != exp:
                return viol(pre + 'let tup = %s;\nout env tup;' % tup, 'e%d.env' % ci, 'assignments to %s, each once, in this order' % exp, 'assignments to %s' % got, '`ucg build`, artifact text', 'text')
        for shname, shell in SHELLS:
            text = ''.join('( . ./e%d.env; printf \'%%s\\0\' %s ); printf \'%%s\\0\' \'%s\'\n' % (
                ci, ' '.join('"${f%d-%s}"' % (i, UNSET) for i in range(maxf)), end) for ci in range(len(meta)))
            out, err, pw = W.sh(shell, text)
            recs = out.split(endb)
            for ci, (pre, fl, tup) in enumerate(meta):
                n += 1
                got = words(recs[ci]) if ci < len(recs) else []
                exp = [(fl[i][1] if i < len(fl) and fl[i][1] is not None else UNSET.encode()) for i in range(maxf)]
                if got != exp:
                    return viol(pre + 'let tup = %s;\nout env tup;' % tup, 'e%d.env' % ci, 'f0..f%d = %s' % (maxf - 1, [w.decode() for w in exp]), 'f0..f%d = %s' % (maxf - 1, [w.decode('utf-8', 'replace') for w in got]),
                                '`ucg build`, then `. ./x.env; printf \'%%s\\0\' "${f0-%s}" ...` in %s' % (UNSET, shell), shname)
            if pw:
                return viol('(batch)', 'e0.env', 'nothing executed', 'PWNED created', 'env artifacts sourced by %s' % shell, shname)
        # flags
        for shname, shell in SHELLS:
            text = ''.join('( eval "set -- $(cat ./f%d.txt)"; for a in "$@"; do printf \'%%s\\0\' "$a"; done ); printf \'%%s\\0\' \'%s\'\n' % (ci, end) for ci in range(len(meta)))
            out, err, pw = W.sh(shell, text)
            recs = out.split(endb)
            for ci, (pre, fl, tup) in enumerate(meta):
                n += 1
                got = [norm_flag(w) for w in words(recs[ci])] if ci < len(recs) else []
                pat = [p for f in fl for p in f[2]]
                if not matches(got, pat):
                    return viol(pre + 'let tup = %s;\nout flags tup;' % tup, 'f%d.txt' % ci, 'argv: ' + show(pat) + '   ([..] optional)', 'argv: %s' % [w.decode('utf-8', 'replace') for w in got],
                                '`ucg build`, then `eval "set -- $(cat x.txt)"; printf \'%%s\\0\' "$@"` in %s' % shell, shname)
            if pw:
                return viol('(batch)', 'f0.txt', 'nothing executed', 'PWNED created', 'flags artifacts eval-ed by %s' % shell, shname)
        # exec: tuple inside args, and layouts of the exec tuple
        for shname, shell in shells_for(W, dummy):
            files = ['x%d.sh' % ci for ci in range(len(meta))] + ['y%d.sh' % li for li in range(len(layouts))]
            text = ''.join('( . ./%s ); printf \'%%s\\0\' \'%s\'\n' % (W.for_shell(shname, f), end) for f in files)
            out, err, pw = W.sh(shell, text, flags=['-a'])
            recs = out.split(endb)
            how = '`ucg build`, then the script run by %s -a with a printer of argv/environment as command' % shell
            for ci, (pre, fl, tup) in enumerate(meta):
                n += 1
                rec = parse_pa(recs[ci]) if ci < len(recs) else None
                got = [norm_flag(w) for w in rec[1]] if rec else []
                pat = [(b'first', False)] + [p for f in fl for p in f[2]] + [(b'la st', False)]
                if not matches(got, pat):
                    return viol(pre + 'let tup = %s;\nout exec {command = "<printer>", args = ["first", tup, "la st"]};' % tup, 'x%d.sh' % ci, 'argv: ' + show(pat) + '   ([..] optional)',
                                'argv: %s' % [w.decode('utf-8', 'replace') for w in got], how, shname)
            for li, perm in enumerate(layouts):
                n += 1
                k = len(meta) + li
                rec = parse_pa(recs[k]) if k < len(recs) else None
                exp_args = [b'a 1', b"a'2"] if 'args' in perm else []
                exp_env = {b'E0': b'e 0', b'E1': b'e$1'} if 'env' in perm else {}
                got_env = {kk: v for kk, v in (rec[2] if rec else {}).items() if re.match(rb'^E\d$', kk)}
                if not rec or rec[1] != exp_args or got_env != exp_env or rec[0] != W.pa.encode():
                    src = 'out exec {%s};' % ', '.join(parts[p] for p in perm)
                    return viol(src, 'y%d.sh' % li, 'command %s, argv %s, variables %s' % (W.pa, exp_args, exp_env),
                                'command %s, argv %s, variables %s' % ((rec[0], rec[1], got_env) if rec else (None, None, None)), how, shname)
            if pw:
                return viol('(batch)', 'x0.sh', 'nothing executed', 'PWNED created', 'exec scripts run by %s' % shell, shname)
        if W.dash_exec is False:
            bound += ' (exec scripts: bash only, dash rejects the prologue)'
    finally:
        W.close()
    return dict(name='sh_field_order', bound=bound, cases=n, status='ok')


STANDINS = [standin_sh_values, standin_sh_command, standin_sh_field_order]
