//@ unit assert_hook
//@ serves C13
//@ must_verify Builtins::assert VEnv::record_assert_result AssertCollector::new AssertCollector::record_assert_result lemma_last_idx lemma_field_unique
//@ include prelude/head.rs
use std::rc::Rc;

// C13, the assert hook: `Builtins::assert` (runtime.rs) verbatim, with `Environment::record_assert_result`
// (environment.rs) and the collector (build/mod.rs) below it -- all three bodies are verified here, nothing
// about them is assumed.  R11: `env: &RefCell<Environment<O,E>>` -> `env: &mut VEnv`; `env.borrow_mut()` stays
// verbatim and resolves to the identity stand-in `VEnv::borrow_mut` (prelude/collector_env.rs).
// R7: the now unused type parameters O, E and their `std::io::Write + Clone` bounds are dropped.
// R1: the three TYPE FAIL messages become opaque strings (their text is not part of the property).
verus! {
//@ include prelude/core.rs
//@ include prelude/vm_types.rs
//@ include prelude/collector_model.rs
//@ include prelude/collector_env.rs

// ---------- oracle: what the property calls a well-formed assertion value ----------
pub type Fields = Seq<(Rc<str>, Rc<Value>)>;

// index of the last field called `name` among the first `i` fields, or -1 if there is none
pub open spec fn last_idx(flds: Fields, name: Seq<char>, i: int) -> int
    decreases i
{
    if i <= 0 { -1 } else if flds[i - 1].0@ == name { i - 1 } else { last_idx(flds, name, i - 1) }
}

// the value of field `name` of a tuple (UCG tuples have no duplicate names; if one had, the last one counts)
pub open spec fn field(flds: Fields, name: Seq<char>) -> Option<Value> {
    let k = last_idx(flds, name, flds.len() as int);
    if k >= 0 { Some(*flds[k].1) } else { None }
}

// "a tuple with a boolean `ok` and a string `desc`": the entry it denotes; None = malformed
pub open spec fn assertion_of(v: Value) -> Option<Entry> {
    match v {
        C(Tuple(flds, _)) => match (field(flds@, "ok"@), field(flds@, "desc"@)) {
            (Some(P(Bool(b))), Some(P(Str(d)))) => Some((d@, b)),
            _ => None,
        },
        _ => None,
    }
}

pub proof fn lemma_last_idx(flds: Fields, name: Seq<char>, i: int)
    requires 0 <= i <= flds.len()
    ensures
        -1 <= last_idx(flds, name, i) < i,
        last_idx(flds, name, i) >= 0 ==> flds[last_idx(flds, name, i)].0@ == name,
        forall|j: int| last_idx(flds, name, i) < j < i ==> (#[trigger] flds[j]).0@ != name,
    decreases i
{
    if i > 0 { lemma_last_idx(flds, name, i - 1); }
}

// With unique field names `field` is plain lookup: the field called `name`, wherever it stands.
pub proof fn lemma_field_unique(flds: Fields, name: Seq<char>, k: int)
    requires
        0 <= k < flds.len(), flds[k].0@ == name,
        forall|a: int, b: int| 0 <= a < b < flds.len() ==> (#[trigger] flds[a]).0@ != (#[trigger] flds[b]).0@,
    ensures field(flds, name) == Some(*flds[k].1)
{
    lemma_last_idx(flds, name, flds.len() as int);
    let l = last_idx(flds, name, flds.len() as int);
    if l < k { assert(flds[k].0@ != name); }
    if l > k { assert(flds[k].0@ != flds[l].0@); }
}

// The hook: pops the asserted value and records exactly ONE entry in the environment's collector.
//@ extract src/build/opcode/runtime.rs :: impl Builtins :: fn assert
//@   rule R1 R3
//@   subst "assert<O, E>" => "assert"
//@   subst "where O: std::io::Write + Clone, E: std::io::Write + Clone," => ""
//@   subst "env: &RefCell<Environment<O, E>>" => "env: &mut VEnv"
//@   mutant ok_field_name "if name.as_ref() == \"ok\"" => "if name.as_ref() == \"okay\"" expect assert
//@   mutant always_pass "env.borrow_mut().record_assert_result(desc, ok);" => "env.borrow_mut().record_assert_result(desc, true);" expect assert
//@   mutant malformed_passes "record_assert_result(&msg, false); } else" => "record_assert_result(&msg, true); } else" expect assert
//@   mutant malformed_unrecorded "env.borrow_mut().record_assert_result(&msg, false); return Ok(()); }; let desc =" => "return Ok(()); }; let desc =" expect assert
//@   mutant recorded_twice "env.borrow_mut().record_assert_result(desc, ok); return Ok(());" => "env.borrow_mut().record_assert_result(desc, ok);" expect assert
//@   ret r
//@   sig <<<
        requires
            // the translator emits `assert` only after pushing the asserted value (else: panic!, see C04)
            old(stack)@.len() > 0,
            // i32 assertion counter (see collector)
            old(env).assert_results.counter < i32::MAX,
        ensures
            // the build continues
            r is Ok,
            // the asserted value is consumed, nothing else changes
            final(stack)@ == old(stack)@.drop_last(),
            *final(self) == *old(self),
            final(env).rest == old(env).rest,
            final(env).builds == old(env).builds,
            // exactly one entry is recorded ...
            final(env).log@.len() == old(env).log@.len() + 1,
            final(env).log@.drop_last() =~= old(env).log@,
            // ... (desc, ok) for a well-formed assertion value, a FAILING entry for anything else
            match assertion_of(*old(stack)@.last().0) {
                Some(e) => final(env).log@.last() == e,
                None => !final(env).log@.last().1,
            },
            // and it lands in the collector
            keeps_tracking(*old(env), *final(env)),
//@   >>>
//@   loop 1 iter it <<<
                    invariant
                        it.seq().len() == tuple_flds@.len(),
                        forall|k: int| 0 <= k < tuple_flds@.len() ==> *it.seq()[k] == tuple_flds@[k],
                        ({ let k = last_idx(tuple_flds@, "desc"@, it.index as int);
                           if k >= 0 { desc == Some(&*tuple_flds@[k].1) } else { desc is None } }),
                        ({ let k = last_idx(tuple_flds@, "ok"@, it.index as int);
                           if k >= 0 { ok == Some(&*tuple_flds@[k].1) } else { ok is None } }),
//@   >>>
//@ end

} // verus!

fn main() {}
