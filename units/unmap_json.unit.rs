//@ unit unmap_json
//@ serves C15
//@ must_verify JsonConverter::convert_json_val JsonConverter::import Number::as_i64 Number::as_f64 Number::is_u64 lemma_json_object_fields_sorted
// C15 — included data files decode to the data they contain: the ucg-owned mapping serde_json::Value -> Val.
// Verified text: JsonConverter::convert_json_val and `impl Importer for JsonConverter`::import (convert/json.rs);
// serde_json's `enum Value`, `struct Number`, `enum N`, Number::{as_i64,is_u64,as_f64} extracted from the pinned
// dependency and verified; `Map` is a model (prelude/unmap_json_models.rs): entries in iteration order, which for
// the pinned build (no `preserve_order`) is ASCENDING KEY order, not document order (lemma_json_object_fields_sorted).
// Contract: unmap_post(jview(v), r): data(result) == jview(v) when every integer of the document fits an i64,
// otherwise Err. Genuine defect found by the `Int` clause on the pinned tree: a JSON integer in (i64::MAX, u64::MAX]
// (serde_json PosInt) was silently bound as a rounded Float (`18446744073709551615` -> 1.8446744073709552e19).
// Fixed by /scratch/patches/unmap_json.patch (such a number is an IncludeError). This unit is written against the
// FIXED text; the pinned behaviour is the seeded mutant `big_u64_to_float`. On the unfixed tree the obligation
// convert_json_val fails (VIOLATION) at the end of the function body.
//@ include prelude/head.rs
use std::rc::Rc;
use vstd::std_specs::convert::*;
use vstd::std_specs::iter::IteratorSpec;

verus! {
//@ include prelude/core.rs
//@ include prelude/unmap_json_data.rs
//@ include prelude/unmap_json_models.rs

// ---------- view of the format value: the tree the parsed document denotes ----------
pub open spec fn jview(v: serde_json::Value) -> D
    decreases v
{
    match v {
        serde_json::Value::Null => D::Null,
        serde_json::Value::Bool(b) => D::Bool(b),
        serde_json::Value::Number(n) => match n.n {
            serde_json::N::PosInt(u) => D::Int(u as int),
            serde_json::N::NegInt(i) => D::Int(i as int),
            serde_json::N::Float(f) => D::Float(f),
        },
        serde_json::Value::String(s) => D::Str(s@),
        serde_json::Value::Array(l) => D::List(Seq::new(l@.len(), |k: int| if 0 <= k < l@.len() { jview(l@[k]) } else { D::NotData })),
        serde_json::Value::Object(m) => D::Obj(Seq::new(m@.len(), |k: int| if 0 <= k < m@.len() { (m@[k].0@, jview(m@[k].1)) } else { (Seq::<char>::empty(), D::NotData) })),
    }
}

// loop invariants: the first n elements / members are mapped, each to a value denoting exactly its tree
// (spec functions with typed parameters: the element type of `vs` / `fs` is not yet inferred at the loop head)
pub open spec fn arr_inv(vs: Vec<Rc<Val>>, l: Vec<serde_json::Value>, n: int) -> bool {
    &&& vs@.len() == n
    &&& forall|k: int| 0 <= k < n ==> representable(jview(#[trigger] l@[k])) && data(*vs@[k]) == jview(l@[k])
}
pub open spec fn obj_inv(fs: Vec<(Rc<str>, Rc<Val>)>, m: serde_json::Map<String, serde_json::Value>, n: int) -> bool {
    &&& fs@.len() == n
    &&& forall|k: int| 0 <= k < n ==> representable(jview((#[trigger] m@[k]).1)) && fs@[k].0@ == m@[k].0@ && data(*fs@[k].1) == jview(m@[k].1)
}

//@ extract src/convert/json.rs :: struct JsonConverter
//@   rule R0
//@ end

//@ extract src/convert/json.rs :: impl JsonConverter :: fn convert_json_val
//@   rule R1
//@   subst "Box<dyn Error>>" => "VBoxDynError>"
//@   mutant int_through_f64 "Val::Int(i)" => "Val::Float(verif_i64_as_f64(i))" expect convert_json_val
//@   mutant big_u64_to_float "n.is_u64()" => "false" expect convert_json_val
//@   mutant array_order_changed "Val::List(vs)" => "{ if vs.len() > 1 { let x = vs.remove(0); vs.push(x); } Val::List(vs) }" expect convert_json_val
//@   mutant array_last_dropped "Val::List(vs)" => "{ vs.pop(); Val::List(vs) }" expect convert_json_val
//@   mutant key_replaced_by_value "fs.push((key.clone().into()," => "fs.push((match value { serde_json::Value::String(s) => s.clone().into(), _ => key.clone().into() }," expect convert_json_val
//@   mutant null_to_empty_string "serde_json::Value::Null => Val::Empty" => "serde_json::Value::Null => Val::Str(String::new().into())" expect convert_json_val
//@   mutant error_swallowed_into_null "vs.push(Rc::new(self.convert_json_val(aval)?));" => "vs.push(Rc::new(match self.convert_json_val(aval) { Ok(x) => x, Err(_) => Val::Empty }));" expect convert_json_val
//@   ret r
//@   sig <<<
        ensures unmap_post(jview(*v), r)
        decreases *v
//@   >>>
//@   loop 1 iter it <<<
                    invariant
                        *v is Array && (*v)->Array_0 == *l,
                        it.seq().len() == l@.len(),
                        forall|k: int| 0 <= k < l@.len() ==> *(#[trigger] it.seq()[k]) == l@[k],
                        arr_inv(vs, *l, it.index@),
//@   >>>
//@   before "vs.push(Rc::new" <<<
                    proof { assert(jview(*v)->List_0[it.index@] == jview(*aval)); }
//@   >>>
//@   after_loop 1 <<<
                proof {
                    assert(jview(*v)->List_0.len() == vs@.len());
                    assert(data(Val::List(vs))->List_0 =~= jview(*v)->List_0);
                }
//@   >>>
//@   before "fs.push((" <<<
                    proof { assert(jview(*v)->Obj_0[it.index@].1 == jview(*value)); }
//@   >>>
//@   after_loop 2 <<<
                proof {
                    assert(jview(*v)->Obj_0.len() == fs@.len());
                    assert(data(Val::Tuple(fs))->Obj_0 =~= jview(*v)->Obj_0);
                }
//@   >>>
//@   loop 2 iter it <<<
                    invariant
                        *v is Object && (*v)->Object_0 == *m,
                        it.seq().len() == m@.len(),
                        forall|k: int| 0 <= k < m@.len() ==> *(#[trigger] it.seq()[k]) == m@[k],
                        obj_inv(fs, *m, it.index@),
//@   >>>
//@ end

// The importer: parse, then map. A document the parser rejects is an error; otherwise the verdict of the mapper
// on exactly the parsed value.
//@ extract src/convert/json.rs :: impl Importer for JsonConverter :: fn import
//@   impl_header impl JsonConverter
//@   mutant parse_error_swallowed "serde_json::from_slice(bytes)?" => "match serde_json::from_slice(bytes) { Ok(v) => v, Err(_) => serde_json::Value::Null }" expect import
//@   ret r
//@   sig <<<
        ensures match json_parse(bytes@) {
            None => r is Err,
            Some(doc) => match r { Ok(val) => unmap_post(jview(doc), Ok::<Val, VBoxDynError>(*val)), Err(e) => unmap_post(jview(doc), Err::<Val, VBoxDynError>(e)) },
        }
//@   >>>
//@ end

// ---------- the order of a tuple's fields: the Map's iteration order = ascending key order ----------
// (stated, not hidden: with `preserve_order` off the DOCUMENT order of object members is not available to ucg)
pub open spec fn keys_ascending<T>(m: Seq<(Seq<char>, T)>) -> bool {
    forall|i: int, j: int| 0 <= i < j < m.len() ==> str_lt(#[trigger] m[i].0, #[trigger] m[j].0)
}
// what every serde_json::Value built by the pinned serde_json satisfies: each Object's entries ascend by key
pub open spec fn json_wf(v: serde_json::Value) -> bool
    decreases v
{
    match v {
        serde_json::Value::Array(l) => forall|k: int| 0 <= k < l@.len() ==> json_wf(#[trigger] l@[k]),
        serde_json::Value::Object(m) => (forall|i: int, j: int| 0 <= i < j < m@.len() ==> str_lt(#[trigger] m@[i].0@, #[trigger] m@[j].0@))
            && (forall|k: int| 0 <= k < m@.len() ==> json_wf((#[trigger] m@[k]).1)),
        _ => true,
    }
}
pub open spec fn objs_ascending(d: D) -> bool
    decreases d
{
    match d {
        D::List(l) => forall|k: int| 0 <= k < l.len() ==> objs_ascending(#[trigger] l[k]),
        D::Obj(m) => keys_ascending(m) && (forall|k: int| 0 <= k < m.len() ==> objs_ascending((#[trigger] m[k]).1)),
        _ => true,
    }
}
// Hence (with unmap_post: data(result) == jview(v)) every tuple of the included value lists its fields in
// ascending key order, whatever the order in the file.
pub proof fn lemma_json_object_fields_sorted(v: serde_json::Value)
    requires json_wf(v)
    ensures objs_ascending(jview(v))
    decreases v
{
    match v {
        serde_json::Value::Array(l) => {
            assert forall|k: int| 0 <= k < jview(v)->List_0.len() implies objs_ascending(#[trigger] jview(v)->List_0[k]) by {
                assert(json_wf(l@[k]));
                lemma_json_object_fields_sorted(l@[k]);
            }
        }
        serde_json::Value::Object(m) => {
            let o = jview(v)->Obj_0;
            assert forall|k: int| 0 <= k < o.len() implies objs_ascending((#[trigger] o[k]).1) by {
                assert(json_wf(m@[k].1));
                lemma_json_object_fields_sorted(m@[k].1);
            }
            assert forall|i: int, j: int| 0 <= i < j < o.len() implies str_lt(#[trigger] o[i].0, #[trigger] o[j].0) by {
                assert(str_lt(m@[i].0@, m@[j].0@));
            }
        }
        _ => {}
    }
}

} // verus!

fn main() {}
