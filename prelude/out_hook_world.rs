// ---- prelude/out_hook_world.rs: the outside world of the `out` hook (rule R12) and std stand-ins (R7/R8) ----
// Everything in this file is a TRUSTED MODEL of std / of code outside the unit. The stand-ins for std
// types carry the std names (PathBuf, Path, File, BTreeSet, BTreeMap, HashMap, RefCell) so that the
// extracted /repo text resolves to them without rewriting; the unit must not import the std ones.

// ---------- paths ----------
// A path is its text. `Path` (unsized in std) only ever occurs behind `&`.
pub struct Path { pub text: Ghost<Seq<char>> }
pub struct PathBuf { pub text: Ghost<Seq<char>> }
impl View for Path { type V = Seq<char>; open spec fn view(&self) -> Seq<char> { self.text@ } }
impl View for PathBuf { type V = Seq<char>; open spec fn view(&self) -> Seq<char> { self.text@ } }

// `with_extension`: uninterpreted function of (path, extension) — nothing about std's algorithm is assumed
// except that it is a function.
pub uninterp spec fn spec_with_extension(p: Seq<char>, ext: Seq<char>) -> Seq<char>;

impl Path {
    #[verifier::external_body]
    pub fn to_path_buf(&self) -> (r: PathBuf) ensures r@ == self@ { unimplemented!() }
}
impl PathBuf {
    #[verifier::external_body]
    pub fn with_extension(&self, ext: String) -> (r: PathBuf) ensures r@ == spec_with_extension(self@, ext@) { unimplemented!() }
}

// R7: `P: AsRef<Path>` / `P: Into<PathBuf>` — local traits with the instances the hook uses
// (`&P`, `&Path`, `&PathBuf`, `&str`); `pview` is the text of the path denoted.
pub trait VAsRefPath {
    spec fn pview(&self) -> Seq<char>;
    fn as_ref(&self) -> (r: &Path) ensures r@ == self.pview();
}
impl VAsRefPath for str {
    open spec fn pview(&self) -> Seq<char> { self@ }
    #[verifier::external_body]
    fn as_ref(&self) -> (r: &Path) { unimplemented!() }
}
impl VAsRefPath for Path {
    open spec fn pview(&self) -> Seq<char> { self@ }
    fn as_ref(&self) -> (r: &Path) { self }
}
impl VAsRefPath for PathBuf {
    open spec fn pview(&self) -> Seq<char> { self@ }
    #[verifier::external_body]
    fn as_ref(&self) -> (r: &Path) { unimplemented!() }
}
impl<T: ?Sized + VAsRefPath> VAsRefPath for &T {
    open spec fn pview(&self) -> Seq<char> { (**self).pview() }
    fn as_ref(&self) -> (r: &Path) { (**self).as_ref() }
}
// (in a module of its own: as a trait in scope its `into` would compete with std's `Into` at the
// unrelated `"..".into()` call sites of the hook; through the bound `P: vinto::VIntoPathBuf` it is found)
pub mod vinto {
    use super::*;
    pub trait VIntoPathBuf: Sized {
        spec fn pview(&self) -> Seq<char>;
        fn into(self) -> (r: PathBuf) ensures r@ == self.pview();
    }
    impl VIntoPathBuf for &Path {
        open spec fn pview(&self) -> Seq<char> { (**self)@ }
        #[verifier::external_body]
        fn into(self) -> (r: PathBuf) { unimplemented!() }
    }
    impl VIntoPathBuf for &str {
        open spec fn pview(&self) -> Seq<char> { (**self)@ }
        #[verifier::external_body]
        fn into(self) -> (r: PathBuf) { unimplemented!() }
    }
}

// BTreeSet<PathBuf>: a set of path texts.
#[verifier::external_body]
#[verifier::accept_recursive_types(T)]
pub struct BTreeSet<T> { _t: core::marker::PhantomData<T> }
impl View for BTreeSet<PathBuf> { type V = Set<Seq<char>>; uninterp spec fn view(&self) -> Set<Seq<char>>; }
impl BTreeSet<PathBuf> {
    #[verifier::external_body]
    pub fn contains(&self, p: &Path) -> (r: bool) ensures r == self@.contains(p@) { unimplemented!() }
    #[verifier::external_body]
    pub fn insert(&mut self, p: PathBuf) -> (r: bool)
        ensures final(self)@ == old(self)@.insert(p@), r == !old(self)@.contains(p@)
    { unimplemented!() }
}

// Containers the hook never looks into (fields of Environment): opaque.
#[verifier::external_body]
#[verifier::accept_recursive_types(K)]
#[verifier::accept_recursive_types(V)]
pub struct BTreeMap<K, V> { _k: core::marker::PhantomData<(K, V)> }
#[verifier::external_body]
#[verifier::accept_recursive_types(T)]
pub struct RefCell<T> { _t: core::marker::PhantomData<T> }

// ---------- the world (R12) ----------
// fs: path text -> file content.  stdout: bytes written to the process' standard output.
// io_err: some I/O call has reported an error (outside the property; fs is then unconstrained).
pub struct World {
    pub fs: Ghost<Map<Seq<char>, Seq<u8>>>,
    pub stdout: Ghost<Seq<u8>>,
    pub io_err: Ghost<bool>,
}

#[verifier::external_body]
pub struct IoError { _p: u8 }

// an open file is a handle on a path of the world
pub struct File { pub path: Ghost<Seq<char>> }

impl File {
    // std::fs::File::create: creates the file or truncates an existing one. An error leaves the file
    // system unconstrained.
    #[verifier::external_body]
    pub fn create<Q: VAsRefPath>(path: Q, world: &mut World) -> (r: Result<File, IoError>)
        ensures
            final(world).stdout@ == old(world).stdout@,
            match r {
                Ok(f) => f.path@ == path.pview()
                    && final(world).fs@ == old(world).fs@.insert(path.pview(), Seq::<u8>::empty())
                    && final(world).io_err@ == old(world).io_err@,
                Err(_) => final(world).io_err@,
            },
    { unimplemented!() }
}

// The process' stdout handle (`O: Write + Clone` of Environment, R7): writes go to world.stdout.
pub struct Stdout { pub _p: u8 }
pub struct Stderr { pub _p: u8 }
impl Clone for Stdout {
    #[verifier::external_body]
    fn clone(&self) -> (r: Self) ensures r == *self { unimplemented!() }
}
impl Clone for Stderr {
    #[verifier::external_body]
    fn clone(&self) -> (r: Self) ensures r == *self { unimplemented!() }
}

// `Box<dyn std::io::Write>`: the writers the hook boxes (closed sum instead of a vtable).
pub enum VBoxDynWrite { ToFile(File), ToStdout(Stdout) }
pub trait VWrite: Sized {
    spec fn boxed_spec(self) -> VBoxDynWrite;
    fn boxed(self) -> (r: VBoxDynWrite) ensures r == self.boxed_spec();
}
impl VWrite for File {
    open spec fn boxed_spec(self) -> VBoxDynWrite { VBoxDynWrite::ToFile(self) }
    fn boxed(self) -> (r: VBoxDynWrite) { VBoxDynWrite::ToFile(self) }
}
impl VWrite for Stdout {
    open spec fn boxed_spec(self) -> VBoxDynWrite { VBoxDynWrite::ToStdout(self) }
    fn boxed(self) -> (r: VBoxDynWrite) { VBoxDynWrite::ToStdout(self) }
}

// what the world looks like after `bytes` were appended through writer `w`
pub open spec fn world_appended(w: VBoxDynWrite, before: World, after: World, bytes: Seq<u8>) -> bool {
    match w {
        VBoxDynWrite::ToFile(f) => after.stdout@ == before.stdout@
            && after.fs@ == before.fs@.insert(f.path@, before.fs@[f.path@] + bytes),
        VBoxDynWrite::ToStdout(_) => after.fs@ == before.fs@ && after.stdout@ == before.stdout@ + bytes,
    }
}

impl VBoxDynWrite {
    // `Box::new(w)` + unsizing coercion to `Box<dyn Write>`
    pub fn new<W: VWrite>(w: W) -> (r: Self) ensures r == w.boxed_spec() { w.boxed() }

    // std::io::Write::write_all: all of `buf` is appended, or an error is reported.
    #[verifier::external_body]
    pub fn write_all(&mut self, buf: &[u8], world: &mut World) -> (r: Result<(), IoError>)
        ensures
            *final(self) == *old(self),
            match r {
                Ok(_) => world_appended(*old(self), *old(world), *final(world), buf@)
                    && final(world).io_err@ == old(world).io_err@,
                // a failed write leaves the target in any state, but touches nothing but the target
                Err(_) => final(world).io_err@
                    && (*old(self) is ToStdout ==> final(world).fs@ == old(world).fs@)
                    && (*old(self) is ToFile ==> final(world).stdout@ == old(world).stdout@),
            },
    { unimplemented!() }
}

// `String::from_utf8_lossy(bytes).into()` as one step; the decoding is an uninterpreted function of the bytes.
pub uninterp spec fn utf8_lossy(b: Seq<u8>) -> Seq<char>;
#[verifier::external_body]
pub fn verif_utf8_lossy_rcstr(b: &[u8]) -> (r: Rc<str>)
    ensures r@ == utf8_lossy(b@)
{ String::from_utf8_lossy(b).into() }

// `String::from(&str)`: content preserved.
#[verifier::external_body]
pub fn verif_string_from(s: &str) -> (r: String)
    ensures r@ == s@
{ String::from(s) }
