// ---- prelude/vm_data_merge.rs: base types and the tuple-merge oracle shared by units vm_data / vm_data_call ----
// ---------- the base types of the language (reference: types.md, "Type test expressions") ----------
pub enum Kind { Int, Float, Str, Bool, Null, List, Tuple, Func, Module, Thunk, Sym, Constraint }
pub open spec fn kind(v: Value) -> Kind {
    match v {
        P(Int(_)) => Kind::Int, P(Float(_)) => Kind::Float, P(Str(_)) => Kind::Str, P(Bool(_)) => Kind::Bool,
        P(Empty) => Kind::Null, C(List(_, _)) => Kind::List, C(Tuple(_, _)) => Kind::Tuple,
        F(_) => Kind::Func, M(_) => Kind::Module, T(_) => Kind::Thunk, S(_) => Kind::Sym, K(_) => Kind::Constraint,
    }
}
pub open spec fn kind_rc(v: Rc<Value>) -> Kind { kind(*v) }
pub open spec fn is_null(v: Value) -> bool { v matches P(p) && p is Empty }
// "any field regardless of type can be assigned the NULL value and any field of NULL value can be assigned any
// type" (types.md); the same rule makes NULL comparable with everything
pub open spec fn same_type_or_null(a: Value, b: Value) -> bool { kind(a) == kind(b) || kind(a) == Kind::Null || kind(b) == Kind::Null }

// ---------- tuples: literals `{n = v, ..}` and copies `base{n = v, ..}` (reference: "Copy Expressions") ----------
// "Copied expressions can change base fields in the copied tuple or add new fields.  If you are changing the value of
// a base field in the copy then the new value must be of the same type as the base field's value" - NULL excepted
// (types.md).  A changed field keeps its place (and its name position), a new field is appended; the fields of a
// tuple literal are merged one by one in the same way.
pub open spec fn find_field(flds: Seq<(Rc<str>, Rc<Value>)>, name: Seq<char>, from: int) -> int
    decreases flds.len() - from
{
    if from < 0 || from >= flds.len() { -1 } else if flds[from].0@ == name { from } else { find_field(flds, name, from + 1) }
}
pub type Fields = (Seq<(Rc<str>, Rc<Value>)>, Seq<(Position, Position)>);
// None = the build fails (type of an existing field changed)
pub open spec fn merge_spec(t: Fields, name: Rc<str>, name_pos: Position, value: Rc<Value>, val_pos: Position) -> Option<Fields> {
    let k = find_field(t.0, name@, 0);
    if k < 0 {
        Some((t.0.push((name, value)), t.1.push((name_pos, val_pos))))
    } else if same_type_or_null(*t.0[k].1, *value) {
        Some((t.0.update(k, (t.0[k].0, value)), t.1.update(k, (t.1[k].0, val_pos))))
    } else {
        None
    }
}
pub proof fn lemma_find_field(flds: Seq<(Rc<str>, Rc<Value>)>, name: Seq<char>, from: int)
    requires 0 <= from <= flds.len()
    ensures ({
        let k = find_field(flds, name, from);
        &&& (k == -1 || from <= k < flds.len())
        &&& (k >= 0 ==> flds[k].0@ == name)
        &&& forall|j: int| from <= j < (if k < 0 { flds.len() as int } else { k }) ==> (#[trigger] flds[j]).0@ != name
    })
    decreases flds.len() - from
{
    if from < flds.len() && flds[from].0@ != name { lemma_find_field(flds, name, from + 1); }
}

// value invariant of a tuple: one position pair per field
pub open spec fn tuple_wf(v: Value) -> bool { v matches C(Tuple(f, p)) && f@.len() == p@.len() }
pub open spec fn tuple_parts(v: Value) -> Fields { (v->C_0->Tuple_0@, v->C_0->Tuple_1@) }
pub open spec fn is_tuple_of(v: Value, t: Fields) -> bool { v matches C(Tuple(f, p)) && f@ == t.0 && p@ == t.1 }

// all overrides of a copy, merged left to right; None = one of them changes a field's type
pub open spec fn merge_all(t: Fields, ov: Fields, n: int) -> Option<Fields>
    decreases n
{
    if n <= 0 { Some(t) } else {
        match merge_all(t, ov, n - 1) {
            Some(u) => merge_spec(u, ov.0[n - 1].0, ov.1[n - 1].0, ov.0[n - 1].1, ov.1[n - 1].1),
            None => None,
        }
    }
}
pub proof fn lemma_merge_len(t: Fields, name: Rc<str>, name_pos: Position, value: Rc<Value>, val_pos: Position)
    requires t.0.len() == t.1.len()
    ensures merge_spec(t, name, name_pos, value, val_pos) matches Some(u) ==> u.0.len() == u.1.len()
{
    lemma_find_field(t.0, name@, 0);
}

// once an override fails, the whole copy fails
pub proof fn lemma_merge_all_none(t: Fields, ov: Fields, i: int, n: int)
    requires 0 <= i <= n
    ensures merge_all(t, ov, i) is None ==> merge_all(t, ov, n) is None
    decreases n - i
{
    if i < n { lemma_merge_all_none(t, ov, i + 1, n); }
}

