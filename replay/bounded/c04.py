"""C04 bounded stand-ins: "No input makes the compiler crash or hang".

Oracle (from the property statement): every stage -- tokenizing, parsing, type checking, translating, evaluating, converting,
formatting -- ends with a result or a diagnostic.  Through the replay driver that means the status of every case is OK or ERR,
never PANIC (a Rust panic caught by catch_unwind), CRASH (the process died: abort, stack overflow, signal) or TIMEOUT (no answer
within a few seconds); through the real `ucg` binary it means exit status 0 or 1 (never 101, 134 or a signal) within a few
seconds.  Nothing else is checked here (what the result is belongs to other properties).

The driver runs all cases of a batch in one process.  `run_cases` below feeds a batch, reads the answers line by line and, when
the process dies or stays silent for PER_CASE seconds, blames the first case without an answer, records CRASH / TIMEOUT for it
and restarts the driver on the remaining cases -- so every offending input is named individually.
"""
import os
import random
import re
import select
import shutil
import subprocess
import tempfile
import time

import realcode as R

REPO = R.REPO
PER_CASE = 6.0          # seconds without an answer before a case counts as a hang
I64_MAX = 2 ** 63 - 1
SEP = '\n%%%%\n'


# ------------------------------------------------------------------ robust batch runner
def _unesc(b):
    out, i, n = bytearray(), 0, len(b)
    while i < n:
        c = b[i]
        if c == 0x5c and i + 1 < n:
            d = b[i + 1]
            out.append({0x6e: 0x0a, 0x74: 0x09}.get(d, d))
            i += 2
        else:
            out.append(c)
            i += 1
    return out.decode('utf-8', 'replace')


def run_cases(mode, cases, per_case=PER_CASE):
    """[(status, payload)] with status in OK / ERR / PANIC / CRASH / TIMEOUT; one entry per case, offending cases named individually."""
    exe = R.driver_binary()
    res = [None] * len(cases)
    start = 0
    cwd = tempfile.mkdtemp(prefix='verif_c04_cwd_')
    try:
        while start < len(cases):
            chunk = cases[start:]
            data = SEP.join(chunk).encode('utf-8')
            errf = tempfile.TemporaryFile()
            p = subprocess.Popen([exe, mode], stdin=subprocess.PIPE, stdout=subprocess.PIPE, stderr=errf, cwd=cwd)
            try:
                p.stdin.write(data)
                p.stdin.close()
            except BrokenPipeError:
                pass
            fd = p.stdout.fileno()
            buf = b''
            got = 0
            last = time.time()
            verdict = None
            while got < len(chunk):
                r, _, _ = select.select([fd], [], [], 0.5)
                if r:
                    d = os.read(fd, 1 << 16)
                    if not d:
                        verdict = 'CRASH'
                        break
                    buf += d
                    while True:
                        k = buf.find(b'\n')
                        if k < 0:
                            break
                        line, buf = buf[:k], buf[k + 1:]
                        st, _, pl = line.partition(b'\t')
                        res[start + got] = (st.decode('utf-8', 'replace'), _unesc(pl))
                        got += 1
                        last = time.time()
                        if got >= len(chunk):
                            break
                elif time.time() - last > per_case * (3 if got == 0 else 1):   # the first answer includes start-up
                    verdict = 'TIMEOUT'
                    break
            if verdict == 'TIMEOUT':
                p.kill()
            try:
                p.wait(timeout=10)
            except subprocess.TimeoutExpired:
                p.kill()
                p.wait()
            p.stdout.close()
            if got < len(chunk):
                errf.seek(0)
                tail = errf.read()[-300:].decode('utf-8', 'replace').strip().replace('\n', ' | ')
                if verdict == 'TIMEOUT':
                    res[start + got] = ('TIMEOUT', 'no answer within %.0f s' % per_case)
                else:
                    res[start + got] = ('CRASH', 'driver exited with %s: %s' % (p.returncode, tail))
                got += 1
            errf.close()
            start += got
    finally:
        shutil.rmtree(cwd, ignore_errors=True)
    return res
