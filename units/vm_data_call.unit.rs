//@ unit vm_data_call
//@ serves C01 C04
//@ must_verify VM::push VM::pop OpPointer::new OpPointer::pos OpPointer::jump OpsMap::new OpsMap::with_ops OpsMap::len VM::op_thunk VM::op_fcall VM::op_module Stack::symbol_list Stack::get VM::symbols_to_tuple Stack::new VM::clean_copy VM::to_new_pointer VM::with_import_stack lemma_merge_effect VM::op_copy
// C01/C04 - the call plumbing of the opcode VM: `VM::op_thunk`, `VM::op_fcall`, `VM::op_module`,
// `VM::symbols_to_tuple` and the whole of `VM::op_copy` (tuple copy and module call) (src/build/opcode/vm.rs), verbatim,
// with `clean_copy`, `to_new_pointer`, `with_import_stack`, `Stack::{new, get, symbol_list}`, `OpPointer::{new, pos, jump}`,
// `OpsMap::{new, with_ops, len}`, `decorate_call!`.
// Oracle: docsite/site/content/reference/expressions.md, "Functions" and "Modules".
// ASSUMED (R8): `VM::fcall_impl` exactly as in unit rt_funcs (verified against its body in unit scope);
//   `VM::op_jump` with the contract proved in unit vm_ctrl; `VM::run` (the interpreter loop) as a deterministic function
//   of the child VM's state.
//@ include prelude/head.rs
use std::rc::Rc;

verus! {
//@ include prelude/core.rs
//@ include prelude/vm_data_types.rs
//@ include prelude/vmap.rs
//@ include prelude/vm_data_merge.rs

impl Position {
    #[verifier::external_body]
    pub fn new(line: usize, column: usize, offset: usize) -> Self { unimplemented!() }
}
impl VShapeMap { #[verifier::external_body] pub fn new() -> Self { unimplemented!() } }
impl VLinks { #[verifier::external_body] pub fn new() -> Self { unimplemented!() } }

// runtime::Builtins: only `strict` is read here (R5)
pub struct Builtins { pub strict: bool }

// The environment cell is only handed on to the calls (R5): `RefCell<Environment<O, E>>` stays in the
// signatures, both types are opaque stand-ins; `std::io::Write` is declared to Verus as an external trait.
#[verifier::external_body]
#[verifier::accept_recursive_types(T)]
pub struct RefCell<T> { _p: core::marker::PhantomData<T> }
#[verifier::external_body]
#[verifier::accept_recursive_types(O)]
#[verifier::accept_recursive_types(E)]
pub struct Environment<O, E> { _p: core::marker::PhantomData<(O, E)> }
#[verifier::external_trait_specification]
pub trait ExIoWrite {
    type ExternalTraitSpecificationFor: std::io::Write;
}

// ---------- the symbol table ----------
//@ extract src/build/opcode/scope.rs :: struct Stack
//@   rule R0 RV
//@   subst "curr: BTreeMap<Rc<str>, (Rc<Value>, Position)>" => "curr: VMap"
//@ end

// ---------- programs and the instruction pointer ----------
//@ extract src/build/opcode/translate.rs :: impl OpsMap :: fn new
//@   subst "shape_map: BTreeMap::new()," => "shape_map: VShapeMap::new(),"
//@   subst "links: BTreeMap::new()," => "links: VLinks::new(),"
//@   ret r
//@   sig <<<
        ensures r.ops@.len() == 0, r.pos@.len() == 0
//@   >>>
//@ end
//@ extract src/build/opcode/translate.rs :: impl OpsMap :: fn with_ops
//@   rule R4
//@   ret r
//@   sig <<<
        ensures r.ops == ops, r.pos == pos
//@   >>>
//@ end
//@ extract src/build/opcode/translate.rs :: impl OpsMap :: fn len
//@   ret r
//@   sig <<<
        ensures r == self.ops@.len()
//@   >>>
//@ end
pub open spec fn nops(p: OpPointer) -> int { p.pos_map.ops@.len() as int }
//@ extract src/build/opcode/pointer.rs :: impl OpPointer :: fn new
//@   ret r
//@   sig <<<
        ensures r.pos_map == ops, r.ptr is None, r.path is None
//@   >>>
//@ end
//@ extract src/build/opcode/pointer.rs :: impl OpPointer :: fn pos
//@   ret r
//@   sig <<<
        ensures
            (self.ptr matches Some(i) && i < self.pos_map.pos@.len()) ==> r == Some(&self.pos_map.pos@[self.ptr->0 as int]),
            (self.ptr is None || self.ptr->0 >= self.pos_map.pos@.len()) ==> r is None,
//@   >>>
//@ end
//@ extract src/build/opcode/pointer.rs :: impl OpPointer :: fn jump
//@   ret r
//@   subst "\"FAULT!!! Invalid Jump!\".into()" => "verif_msg()"
//@   sig <<<
        ensures
            final(self).pos_map == old(self).pos_map, final(self).path == old(self).path,
            ptr < nops(*old(self)) ==> r is Ok && final(self).ptr == Some(ptr),
            ptr >= nops(*old(self)) ==> r is Err && final(self).ptr == old(self).ptr,
//@   >>>
//@ end

//@ extract src/build/opcode/vm.rs :: struct VM
//@   rule R0 RV
//@   subst "working_dir: PathBuf" => "working_dir: VPathBuf"
//@   subst "runtime: runtime::Builtins" => "runtime: Builtins"
//@   subst "reserved_words: &'static BTreeSet<&'static str>" => "reserved_words: ReservedWords"
//@ end

// ---------- stack vocabulary (as in unit vm_data) ----------
// nothing but the value stack, the `last` debugging slot and the instruction pointer may change
pub open spec fn frame(a: VM, b: VM) -> bool {
    a.symbols == b.symbols && a.self_stack == b.self_stack && a.import_stack == b.import_stack
    && a.working_dir == b.working_dir && a.runtime == b.runtime && a.reserved_words == b.reserved_words
    && a.ops.pos_map == b.ops.pos_map && a.ops.path == b.ops.path
}
pub open spec fn opnd(vm: VM, k: int) -> Value { *vm.stack@[vm.stack@.len() - k].0 }
pub open spec fn opnd_pos(vm: VM, k: int) -> Position { vm.stack@[vm.stack@.len() - k].1 }
pub open spec fn below(vm: VM, k: int) -> Seq<(Rc<Value>, Position)> { vm.stack@.subrange(0, vm.stack@.len() - k) }

//@ extract src/build/opcode/vm.rs :: impl VM :: fn push
//@   ret r
//@   sig <<<
        ensures r is Ok, final(self).stack@ == old(self).stack@.push((val, pos)),
            frame(*old(self), *final(self)), final(self).ops == old(self).ops,
//@   >>>
//@ end
//@ extract src/build/opcode/vm.rs :: impl VM :: fn pop
//@   subst "Some(v.clone())" => "Some((v.0.clone(), v.1.clone()))"
//@   ret r
//@   sig <<<
        requires old(self).stack@.len() > 0
        ensures r is Ok, r->Ok_0 == old(self).stack@.last(), final(self).stack@ == old(self).stack@.drop_last(),
            frame(*old(self), *final(self)), final(self).ops == old(self).ops,
//@   >>>
//@ end

// ---------- relative jumps: contract text of unit vm_ctrl (proved there against the body of VM::op_jump) ----------
pub open spec fn jump_target(p: OpPointer, jp: i32) -> int {
    match p.ptr { Some(v) => v + jp, None => jp as int }
}
pub open spec fn jump_pre(p: OpPointer, jp: i32) -> bool {
    &&& 0 <= jump_target(p, jp) <= i32::MAX
    &&& (p.ptr matches Some(v) ==> v <= i32::MAX)
}
pub open spec fn jumped(a: VM, b: VM, jp: i32, r: Result<(), Error>) -> bool {
    let t = jump_target(a.ops, jp);
    &&& (0 <= t < nops(a.ops) ==> r is Ok && b.ops.ptr == Some(t as usize))
    &&& (!(0 <= t < nops(a.ops)) ==> r is Err && b.ops.ptr == a.ops.ptr)
}
//@ extract src/build/opcode/vm.rs :: impl VM :: fn op_jump
//@   opaque_body
//@   ret r
//@   sig <<<
        requires jump_pre(old(self).ops, jp)
        ensures frame(*old(self), *final(self)), final(self).stack == old(self).stack,
            jumped(*old(self), *final(self), jp, r),
//@   >>>
//@ end

// ---------- thunks: the position of a module's out-expression ----------
//@ extract src/build/opcode/vm.rs :: impl VM :: fn op_thunk
//@   ret r
//@   sig <<<
        requires jump_pre(old(self).ops, jp)
        ensures frame(*old(self), *final(self)),
            // the op index of the pending expression is pushed, then control skips over it
            final(self).stack@ == old(self).stack@.push(final(self).stack@.last()),
            *final(self).stack@.last().0 == T(idx) && final(self).stack@.last().1 == pos,
            jumped(*old(self), *final(self), jp, r),
//@   >>>
//@   mutant thunk_wrong_index "Rc::new(T(idx))" => "Rc::new(T(idx + 1))" expect op_thunk
//@   mutant thunk_no_jump "self.op_jump(jp)" => "Ok(())" expect op_thunk
//@ end

// ---------- function calls (reference: "Functions") ----------
// ASSUMED: the meaning of calling a function value (as in unit rt_funcs): UCG functions are pure, the outcome of a
// call depends only on the function value and its arguments; None = the call fails the build.
pub uninterp spec fn call_result(f: Func, args: Seq<Value>) -> Option<Value>;
// the k values on top of a value stack, deepest first = arguments in parameter order
pub open spec fn top_args(st: Seq<(Rc<Value>, Position)>, k: int) -> Seq<Value> {
    Seq::new(k as nat, |j: int| *st[st.len() - k + j].0)
}
pub open spec fn call_on_stack(f: Func, st: Seq<(Rc<Value>, Position)>) -> Option<Value> {
    call_result(f, top_args(st, f.bindings@.len() as int))
}
pub open spec fn arity(f: Func) -> int { f.bindings@.len() as int }
//@ extract src/build/opcode/error.rs :: macro decorate_call
//@ end
// VM::fcall_impl: signature from the source, body ASSUMED (verified against its real body in unit `scope`).
//@ extract src/build/opcode/vm.rs :: impl VM :: fn fcall_impl
//@   opaque_body
//@   ret r
//@   sig <<<
        requires
            // one value per parameter is on the stack (`stack.pop().unwrap()` per parameter)
            old(stack)@.len() >= f.bindings@.len(),
        ensures
            r is Ok <==> call_on_stack(*f, old(stack)@) is Some,
            r matches Ok(v) ==> Some(*v.0) == call_on_stack(*f, old(stack)@)
                && final(stack)@ == old(stack)@.subrange(0, old(stack)@.len() - f.bindings@.len()),
//@   >>>
//@ end

// Translator invariant (caller obligation, translate.rs Call arm): the arguments' code, then `Val(Int(count))` with
// count = the number of arguments written at the call site, then the callee's code, then FCall.
pub open spec fn fcall_pre(vm: VM) -> bool {
    vm.stack@.len() >= 2 && (opnd(vm, 2) matches P(Int(c)) && 0 <= c <= vm.stack@.len() - 2)
}
//@ extract src/build/opcode/vm.rs :: impl VM :: fn op_fcall
//@   rule R1 R3(arg_length)
//@   ret r
//@   sig <<<
        requires fcall_pre(*old(self))
        ensures ({
            let a = *old(self); let b = *final(self); let n = a.stack@.len() as int;
            let c = opnd(a, 2)->P_0->Int_0 as int;
            &&& frame(a, b) && b.ops == a.ops
            // calling something that is not a function fails the build
            &&& (!(opnd(a, 1) is F) ==> r is Err)
            &&& (opnd(a, 1) matches F(f) ==> {
                    // "too many" / "too few" arguments fail the build - the callee never runs
                    &&& (c != arity(f) ==> r is Err)
                    // otherwise the call's value replaces callee, count and arguments; everything below is untouched
                    &&& (c == arity(f) ==> (r is Ok <==> call_on_stack(f, below(a, 2)) is Some))
                    &&& (c == arity(f) && r is Ok ==> b.stack@.len() == n - 2 - c + 1
                            && b.stack@.drop_last() =~= below(a, 2 + c)
                            && Some(*b.stack@.last().0) == call_on_stack(f, below(a, 2)) && b.stack@.last().1 == pos)
                })
        })
//@   >>>
//@   before "let arity =" <<<
                proof { axiom_vec_len_isize(&f.bindings); }
//@   >>>
//@   before "let (val, _) =" <<<
            assert(self.stack@ =~= below(*old(self), 2));
            assert(below(*old(self), 2).subrange(0, below(*old(self), 2).len() - f.bindings@.len()) =~= below(*old(self), 2 + f.bindings@.len() as int));
//@   >>>
//@   mutant fcall_too_many_off_by_one "if arg_length > arity {" => "if arg_length > arity + 1 {" expect op_fcall
//@   mutant fcall_too_few_accepted "if arg_length < arity {" => "if arg_length + 1 < arity {" expect op_fcall
//@   mutant fcall_result_dropped "self.push(val, pos.clone())?;" => "" expect op_fcall
//@   mutant fcall_not_a_function_ok "return Err(Error::new(verif_msg(), pos));" => "return Ok(());" expect op_fcall
//@ end


// ---------- module definitions (reference: "Modules") ----------
// `module {params} => (out) {body}` compiles to  params ; [InitThunk out] ; Module(jptr) ; body.  The handler
// captures: the parameter tuple with its defaults, the op index of the out-expression (if there is one), the place
// of the body (idx), and - only for a module declared in a file - the `pkg` function importing that file.
// the text of a path (std `Path::to_string_lossy`; uninterpreted)
pub uninterp spec fn path_text(p: VPathBuf) -> Seq<char>;
#[verifier::external_body]
pub fn verif_path_text(p: &VPathBuf) -> (r: Rc<str>) ensures r@ == path_text(*p) { unimplemented!() }

// what the operands say: (index of the out-expression, parameter tuple, number of operands consumed)
pub open spec fn module_operands(vm: VM) -> Option<(Option<usize>, Value, int)> {
    match opnd(vm, 1) {
        C(Tuple(_, _)) => Some((None, opnd(vm, 1), 1)),
        T(ptr) => if opnd(vm, 2) is C && opnd(vm, 2)->C_0 is Tuple { Some((Some(ptr), opnd(vm, 2), 2)) } else { None },
        _ => None,
    }
}
// the `mod.pkg` function: a parameterless function whose body imports the file the module was declared in
pub open spec fn is_pkg_program(p: OpPointer, path: VPathBuf, at: Position) -> bool {
    &&& p.ptr is None && p.path is None
    &&& p.pos_map.ops@.len() == 5 && p.pos_map.pos@ =~= seq![at, at, at, at, at]
    &&& p.pos_map.ops@[0] is InitList
    &&& p.pos_map.ops@[1] == Op::Func(3)
    &&& (p.pos_map.ops@[2] matches Op::Val(Str(t)) && t@ == path_text(path))
    &&& p.pos_map.ops@[3] == Op::Runtime(Hook::Import)
    &&& p.pos_map.ops@[4] is Return
}
pub open spec fn module_value(a: VM, m: Module, idx: usize) -> bool {
    let (out, params, k) = module_operands(a)->0;
    &&& m.ptr.pos_map == a.ops.pos_map && m.ptr.path == a.ops.path && m.ptr.ptr == Some(idx)
    &&& m.result_ptr == out
    &&& m.flds@ == params->C_0->Tuple_0@ && m.flds_pos_list@ == params->C_0->Tuple_1@
    &&& match a.ops.path {
            Some(path) => m.pkg_ptr matches Some(p) && is_pkg_program(p, path, a.ops.pos_map.pos@[a.ops.ptr->0 as int]),
            None => m.pkg_ptr is None,
        }
}
//@ extract src/build/opcode/vm.rs :: impl VM :: fn op_module
//@   rule R1 R3
//@   subst "match *mod_val.as_ref() {" => "match mod_val.as_ref() {"
//@   arm_rebind "T(ptr) =>" ptr
//@   subst "if let Some(path) = self.ops.path {" => "if let Some(path) = &self.ops.path {"
//@   subst "path.to_string_lossy().into()" => "verif_path_text(path)"
//@   ret r
//@   sig <<<
        requires
            // translator invariant (caller obligation): the parameter tuple, and above it the thunk of the out-expression
            // if the module has one
            old(self).stack@.len() >= 1, (opnd(*old(self), 1) is T ==> old(self).stack@.len() >= 2),
            // interpreter-loop invariant: a handler runs at an op that has a position
            old(self).ops.ptr matches Some(i) && i < old(self).ops.pos_map.pos@.len(),
            jump_pre(old(self).ops, jptr),
        ensures ({
            let a = *old(self); let b = *final(self);
            &&& frame(a, b)
            // anything but a tuple of parameters (under an optional thunk) fails the build
            &&& (module_operands(a) is None ==> r is Err)
            &&& (module_operands(a) matches Some(o) ==> {
                    // idx (the body's first op) must lie inside the program ...
                    &&& (idx >= nops(a.ops) ==> r is Err)
                    // ... then the module value replaces its operands and control skips over the body
                    &&& (idx < nops(a.ops) ==> b.stack@.len() == a.stack@.len() - o.2 + 1 && b.stack@.drop_last() =~= below(a, o.2)
                            && b.stack@.last().1 == pos
                            && (*b.stack@.last().0 matches M(m) && module_value(a, m, idx))
                            && jumped(a, b, jptr, r))
                })
        })
//@   >>>
//@   body_start <<<
        broadcast use clax::group_clone_axioms;
//@   >>>
//@   mutant module_out_expr_lost "(Some(ptr), flds.clone(), pos_list.clone())" => "(None, flds.clone(), pos_list.clone())" expect op_module
//@   mutant module_body_at_wrong_op "ops.jump(idx)?;" => "ops.jump(idx + 1)?;" expect op_module
//@   mutant module_pkg_always "let pkg_ptr = if let Some(path) = &self.ops.path {" => "let pkg_ptr = if let Some(path) = &Some(self.working_dir.clone()) {" expect op_module
//@   mutant module_pkg_func_arity "Op::Func(3)," => "Op::Func(2)," expect op_module
//@   mutant module_non_tuple_params_ok "_ => { return Err(Error::new( verif_msg(), mod_val_pos, )); }" => "_ => (None, Vec::new(), Vec::new())," expect op_module
//@ end


// ---------- what a module call exports (reference: "By default if there is no out expression then the module will
// export all of the named bindings in the statements") ----------
// std BTreeMap::keys(): every key exactly once (in ascending order; the order itself stays uninterpreted)
pub uninterp spec fn sorted_keys(m: Map<Seq<char>, (Rc<Value>, Position)>) -> Seq<Seq<char>>;
pub mod keyax {
    use super::*;
    pub broadcast axiom fn axiom_sorted_keys(m: Map<Seq<char>, (Rc<Value>, Position)>, i: int)
        requires 0 <= i < sorted_keys(m).len()
        ensures m.contains_key(#[trigger] sorted_keys(m)[i]);
}
impl VMap {
    // `self.curr.keys().cloned().collect()`
    #[verifier::external_body]
    pub fn keys_cloned(&self) -> (r: Vec<Rc<str>>)
        ensures r@.len() == sorted_keys(self@).len(), forall|i: int| 0 <= i < r@.len() ==> (#[trigger] r@[i])@ == sorted_keys(self@)[i]
    { unimplemented!() }
}
//@ extract src/build/opcode/scope.rs :: impl Stack :: fn symbol_list
//@   subst "self.curr.keys().cloned().collect()" => "self.curr.keys_cloned()"
//@   ret r
//@   sig <<<
        ensures r@.len() == sorted_keys(self.curr@).len(), forall|i: int| 0 <= i < r@.len() ==> (#[trigger] r@[i])@ == sorted_keys(self.curr@)[i]
//@   >>>
//@ end
//@ extract src/build/opcode/scope.rs :: impl Stack :: fn get
//@   subst "self.curr.get(name).cloned()" => "self.curr.get_cloned(name)"
//@   ret r
//@   sig <<<
        ensures
            self.curr@.contains_key(name@) ==> r == Some(self.curr@[name@]),
            !self.curr@.contains_key(name@) ==> r is None,
//@   >>>
//@ end
// the names exported among the first k symbols: all of them, except the parameter binding `mod` unless asked for
pub open spec fn exported(keys: Seq<Seq<char>>, include_mod: bool, k: int) -> Seq<Seq<char>>
    decreases k
{
    if k <= 0 { Seq::<Seq<char>>::empty() }
    else if include_mod || keys[k - 1] != "mod"@ { exported(keys, include_mod, k - 1).push(keys[k - 1]) }
    else { exported(keys, include_mod, k - 1) }
}
pub open spec fn exports(m: Map<Seq<char>, (Rc<Value>, Position)>, names: Seq<Seq<char>>, flds: Seq<(Rc<str>, Rc<Value>)>, pos: Seq<(Position, Position)>) -> bool {
    &&& flds.len() == names.len() && pos.len() == names.len()
    &&& forall|i: int| 0 <= i < names.len() ==> (#[trigger] flds[i]).0@ == names[i] && m.contains_key(names[i])
            && flds[i].1 == m[names[i]].0 && pos[i] == (m[names[i]].1, m[names[i]].1)
}
//@ extract src/build/opcode/vm.rs :: impl VM :: fn symbols_to_tuple
// a consuming `for` over the Vec has no Verus model: the same elements in the same order by reference
//@   subst "for sym in self.symbols.symbol_list() {" => "let syms__ = self.symbols.symbol_list(); for sym in syms__.iter() {"
// (`get` already returns an owned pair)
//@   subst "self.symbols.get(sym.as_ref()).unwrap().clone()" => "self.symbols.get(sym.as_ref()).unwrap()"
//@   subst "let mut flds = Vec::new();" => "let mut flds: Vec<(Rc<str>, Rc<Value>)> = Vec::new();"
//@   subst "let mut pos_list = Vec::new();" => "let mut pos_list: Vec<(Position, Position)> = Vec::new();"
//@   ret r
//@   sig <<<
        ensures
            r matches C(Tuple(flds, pos)) && exports(self.symbols.curr@,
                exported(sorted_keys(self.symbols.curr@), include_mod, sorted_keys(self.symbols.curr@).len() as int), flds@, pos@),
//@   >>>
//@   body_start <<<
        broadcast use keyax::axiom_sorted_keys;
//@   >>>
//@   loop 1 indexed <<<
            invariant
                i__1 <= it__1@.len(), it__1@ == syms__@,
                syms__@.len() == sorted_keys(self.symbols.curr@).len(),
                forall|i: int| 0 <= i < syms__@.len() ==> (#[trigger] syms__@[i])@ == sorted_keys(self.symbols.curr@)[i],
                exports(self.symbols.curr@, exported(sorted_keys(self.symbols.curr@), include_mod, i__1 as int), flds@, pos_list@),
            decreases it__1@.len() - i__1
//@   >>>
//@   before "if include_mod" <<<
            proof { keyax::axiom_sorted_keys(self.symbols.curr@, i__1 as int - 1); }
            assert(sym@ == sorted_keys(self.symbols.curr@)[i__1 as int - 1]);
            let ghost names0 = exported(sorted_keys(self.symbols.curr@), include_mod, i__1 as int - 1);
//@   >>>
//@   loop_body_end 1 <<<
            assert(exported(sorted_keys(self.symbols.curr@), include_mod, i__1 as int)
                == if include_mod || sym@ != "mod"@ { names0.push(sym@) } else { names0 });
//@   >>>
//@   mutant exports_mod_binding "sym.as_ref() != \"mod\" {" => "sym.as_ref() != \"mod\" || true {" expect symbols_to_tuple
//@   mutant exports_only_mod "sym.as_ref() != \"mod\"" => "sym.as_ref() == \"mod\"" expect symbols_to_tuple
//@   mutant exports_first_value_everywhere "flds.push((sym.clone(), val));" => "flds.push((sym.clone(), flds.first().map(|f| f.1.clone()).unwrap_or(val)));" expect symbols_to_tuple
//@ end


// ---------- copy expressions `base{n = v, ..}`: VM::op_copy, both arms; calling a module ----------
// Reference, "Modules": "Modules do not close over their environment"; the call's fields override the parameter
// defaults (same rule as a tuple copy: a changed parameter keeps its type); the body sees them as the tuple `mod`,
// with `mod.this` (the module itself) and - for a module declared in a file - `mod.pkg`; the call yields the
// out-expression's value, or, without one, all the bindings of the body.
impl Clone for ReservedWords {
    #[verifier::external_body]
    fn clone(&self) -> (r: Self) ensures r == *self { unimplemented!() }
}
impl Copy for ReservedWords {}
impl Clone for Builtins {
    #[verifier::external_body]
    fn clone(&self) -> (r: Self) ensures r == *self { unimplemented!() }
}
//@ extract src/build/opcode/scope.rs :: impl Stack :: fn new
//@   subst "BTreeMap::new()" => "VMap::new()"
//@   ret r
//@   sig <<<
        ensures r.curr@ == Map::<Seq<char>, (Rc<Value>, Position)>::empty()
//@   >>>
//@ end
//@ extract src/build/opcode/vm.rs :: impl VM :: fn clean_copy
//@   ret r
//@   sig <<<
        ensures
            // a clean VM sees none of the surrounding bindings and has an empty value stack ...
            r.symbols.curr@ == Map::<Seq<char>, (Rc<Value>, Position)>::empty(), r.stack@.len() == 0, r.import_stack@.len() == 0,
            // ... but keeps the enclosing `self` chain, the program and the settings
            r.self_stack@ == self.self_stack@, r.ops == self.ops, r.runtime == self.runtime, r.working_dir == self.working_dir,
            r.reserved_words == self.reserved_words, r.last is None,
//@   >>>
//@   body_start <<<
        broadcast use clax::group_clone_axioms;
//@   >>>
//@ end
//@ extract src/build/opcode/vm.rs :: impl VM :: fn to_new_pointer
//@   rule R4
//@   ret r
//@   sig <<<
        ensures r.ops == ops, r.symbols == self.symbols, r.stack == self.stack, r.import_stack == self.import_stack,
            r.self_stack == self.self_stack, r.runtime == self.runtime, r.working_dir == self.working_dir,
            r.reserved_words == self.reserved_words, r.last == self.last,
//@   >>>
//@ end
//@ extract src/build/opcode/vm.rs :: impl VM :: fn with_import_stack
//@   rule R4
//@   ret r
//@   sig <<<
        ensures r.import_stack == imports, r.ops == self.ops, r.symbols == self.symbols, r.stack == self.stack,
            r.self_stack == self.self_stack, r.runtime == self.runtime, r.working_dir == self.working_dir,
            r.reserved_words == self.reserved_words, r.last == self.last,
//@   >>>
//@ end
// VM::run (R8: the whole interpreter loop) - ASSUMED: on success the evaluated program left its result on the value
// stack (translator invariant).  Nothing else is assumed about what it does to the VM it runs in.
//@ extract src/build/opcode/vm.rs :: impl VM :: fn run
//@   opaque_body
//@   ret r
//@   sig <<<
        ensures r is Ok ==> final(self).stack@.len() > 0
//@   >>>
//@ end
// VM::merge_field_into_tuple: contract proved in unit vm_data (same text), assumed here (R8)
//@ extract src/build/opcode/vm.rs :: impl VM :: fn merge_field_into_tuple
//@   opaque_body
//@   ret r
//@   sig <<<
        requires
            old(src_fields)@.len() == old(pos_fields)@.len(),
        ensures
            match merge_spec((old(src_fields)@, old(pos_fields)@), name, *name_pos, value, *val_pos) {
                Some(t) => r is Ok && final(src_fields)@ == t.0 && final(pos_fields)@ == t.1,
                None => r is Err && final(src_fields)@ == old(src_fields)@ && final(pos_fields)@ == old(pos_fields)@,
            },
            final(src_fields)@.len() == final(pos_fields)@.len(),
//@   >>>
//@ end

// what one merge does to the OTHER fields, and where it leaves the merged one
pub open spec fn merge_effect(t: Fields, v: Fields, name: Seq<char>, value: Rc<Value>, other: Seq<char>) -> bool {
    let k = find_field(v.0, name, 0);
    &&& v.0.len() >= t.0.len() && v.0.len() == v.1.len()
    // fields of other names stay where they are, untouched
    &&& forall|i: int| 0 <= i < t.0.len() && (#[trigger] t.0[i]).0@ != name ==> v.0[i] == t.0[i]
    // the merged field is found under its name and holds the new value
    &&& 0 <= k < v.0.len() && v.0[k].1 == value
    // a field of another name that was there is still the first of its name, with the same value
    &&& (other != name && find_field(t.0, other, 0) >= 0 ==> find_field(v.0, other, 0) == find_field(t.0, other, 0)
            && v.0[find_field(t.0, other, 0)].1 == t.0[find_field(t.0, other, 0)].1)
}
pub proof fn lemma_merge_effect(t: Fields, name: Rc<str>, name_pos: Position, value: Rc<Value>, val_pos: Position, other: Seq<char>)
    requires t.0.len() == t.1.len(), merge_spec(t, name, name_pos, value, val_pos) is Some
    ensures merge_effect(t, merge_spec(t, name, name_pos, value, val_pos)->0, name@, value, other)
{
    let v = merge_spec(t, name, name_pos, value, val_pos)->0;
    lemma_find_field(t.0, name@, 0);
    lemma_find_field(v.0, name@, 0);
    lemma_find_field(t.0, other, 0);
    lemma_find_field(v.0, other, 0);
    let k0 = find_field(t.0, name@, 0);
    // every old field keeps its name and place
    assert forall|j: int| 0 <= j < t.0.len() implies (#[trigger] v.0[j]).0@ == t.0[j].0@ && (t.0[j].0@ != name@ ==> v.0[j] == t.0[j]) by { }
    let k = find_field(v.0, name@, 0);
    if k0 < 0 {
        assert(v.0[t.0.len() as int].0@ == name@);
        assert(k == t.0.len()) by { if k < t.0.len() { assert(t.0[k].0@ == v.0[k].0@); } }
    } else {
        assert(v.0[k0].0@ == name@);
        assert(k == k0) by { if k < k0 { assert(t.0[k].0@ == v.0[k].0@); } }
    }
    let ko = find_field(t.0, other, 0);
    if other != name@ && ko >= 0 {
        let kv = find_field(v.0, other, 0);
        assert(v.0[ko].0@ == other);
        assert(kv == ko) by { if 0 <= kv < ko { assert(t.0[kv].0@ == v.0[kv].0@); } }
    }
}

// the tuple the module body sees as `mod`
pub open spec fn mod_binding(f: Seq<(Rc<str>, Rc<Value>)>, base: Fields, ov: Fields, ptr: OpPointer, result_ptr: Option<usize>, pkg_ptr: Option<OpPointer>) -> bool {
    // the parameters: the module's defaults overridden by the call's fields, in place
    &&& merge_all(base, ov, ov.0.len() as int) matches Some(u) && f.len() >= u.0.len()
        && forall|i: int| 0 <= i < u.0.len() && (#[trigger] u.0[i]).0@ != "this"@ && u.0[i].0@ != "pkg"@ ==> f[i] == u.0[i]
    // mod.this: the module being called
    &&& ({ let k = find_field(f, "this"@, 0);
           0 <= k < f.len() && (*f[k].1 matches M(m) && m.ptr == ptr && m.result_ptr == result_ptr && m.flds@ == base.0
               && m.flds_pos_list@ == base.1 && m.pkg_ptr == pkg_ptr) })
    // mod.pkg: present for a module declared in a file
    &&& (pkg_ptr is Some ==> find_field(f, "pkg"@, 0) >= 0)
}
// the state the module body starts in
pub open spec fn module_body_start(parent: VM, vm: VM, base: Fields, ov: Fields, ptr: OpPointer, result_ptr: Option<usize>, pkg_ptr: Option<OpPointer>) -> bool {
    // "Modules do not close over their environment": no binding of the caller is visible
    &&& vm.symbols.curr@ == Map::<Seq<char>, (Rc<Value>, Position)>::empty()
    // the module's code, the caller's import chain and settings
    &&& vm.ops == ptr && vm.import_stack@ == parent.import_stack@ && vm.self_stack@ == parent.self_stack@
        && vm.runtime == parent.runtime && vm.working_dir == parent.working_dir
    // on the value stack: the symbol `mod` and the parameter tuple (the body's first op binds one to the other)
    &&& vm.stack@.len() == 2 && (*vm.stack@[0].0 matches S(n) && n@ == "mod"@)
    &&& (*vm.stack@[1].0 matches C(Tuple(f, p)) && f@.len() == p@.len() && mod_binding(f@, base, ov, ptr, result_ptr, pkg_ptr))
}
// frame of a module call: it cannot touch anything of the caller but the value stack
pub open spec fn call_frame(a: VM, b: VM) -> bool { frame(a, b) && a.ops == b.ops }

//@ extract src/build/opcode/vm.rs :: impl VM :: fn op_copy
//@   rule R1 R3
//@   subst "fn op_copy<O, E>(" => "#[verifier::loop_isolation(false)] fn op_copy<O, E>("
//@   subst "match *tgt.as_ref() {" => "match tgt.as_ref() {"
// `into_iter().enumerate()` (consuming) has no Verus model: the same elements in the same order by reference + clone
// (the first loop consumes `overrides`, the second one is in the other arm: a borrow serves both)
//@   subst all "for (counter, (name, val)) in overrides.into_iter().enumerate() {" => "for (counter, (name__r, val__r)) in overrides.iter().enumerate() { let name = name__r.clone(); let val = val__r.clone();"
//@   subst all ".into()" => ".v_into()"
//@   ret r
//@   sig <<<
        requires
            // translator invariant (caller obligation, translate_copy): the base's code, then PushSelf, InitTuple and one
            // Field per override - a tuple - then PopSelf, Cp
            old(self).stack@.len() >= 2, tuple_wf(opnd(*old(self), 1)),
            // value invariants of the base
            opnd(*old(self), 2) is C ==> tuple_wf(opnd(*old(self), 2)) || opnd(*old(self), 2)->C_0 is List,
            opnd(*old(self), 2) matches M(m) ==> m.flds@.len() == m.flds_pos_list@.len(),
        ensures ({
            let a = *old(self); let b = *final(self);
            let ov = tuple_parts(opnd(a, 1));
            &&& call_frame(a, b)
            &&& match opnd(a, 2) {
                    // a tuple: the overrides merged into a copy of it, in place / appended; a type change fails the build
                    C(Tuple(f, p)) => match merge_all((f@, p@), ov, ov.0.len() as int) {
                        Some(t) => r is Ok && b.stack@.len() == a.stack@.len() - 1 && b.stack@.drop_last() =~= below(a, 2)
                            && is_tuple_of(opnd(b, 1), t) && tuple_wf(opnd(b, 1)) && opnd_pos(b, 1) == opnd_pos(a, 2)
                            && b.last == Some(a.stack@[a.stack@.len() - 2]),
                        None => r is Err,
                    },
                    // a module: an override that changes a parameter's type fails the build (before anything runs);
                    // the call leaves exactly its value on the caller's stack
                    M(m) => (merge_all((m.flds@, m.flds_pos_list@), ov, ov.0.len() as int) is None ==> r is Err)
                        && (r is Ok ==> b.stack@.len() == a.stack@.len() - 1 && b.stack@.drop_last() =~= below(a, 2)),
                    // anything else cannot be copied
                    _ => r is Err,
                }
        })
//@   >>>
//@   body_start <<<
        broadcast use clax::group_clone_axioms;
        proof { reveal_strlit("this"); reveal_strlit("pkg"); assert("this"@.len() == 4 && "pkg"@.len() == 3); }
//@   >>>
//@   before "match tgt.as_ref() {" <<<
        let ghost ov: Fields = (overrides@, override_pos_list@);
        assert(ov == tuple_parts(opnd(*old(self), 1)));
        assert(self.stack@ =~= below(*old(self), 2));
//@   >>>
// --- the Tuple arm ---
//@   after "C(Tuple(flds, pos_list)) => {" <<<
                // (the arm shadows `flds` / `pos_list` with its working copies)
                let ghost base: Fields = (flds@, pos_list@);
//@   >>>
//@   loop 1 indexed <<<
                    invariant
                        i__1 <= it__1@.len(), it__1@ == overrides@,
                        flds@.len() == pos_list@.len(),
                        call_frame(*old(self), *self), self.stack@ =~= below(*old(self), 2),
                        merge_all(base, ov, i__1 as int) == Some((flds@, pos_list@)),
                    decreases it__1@.len() - i__1
//@   >>>
//@   before "self.merge_field_into_tuple(" nth 1 <<<
                    proof { lemma_merge_all_none(base, ov, counter as int + 1, overrides@.len() as int); }
//@   >>>
// --- the Module arm ---
//@   after "pkg_ptr, }) => {" <<<
                // (the arm shadows `flds` / `flds_pos_list` with its working copies)
                let ghost base: Fields = (flds@, flds_pos_list@);
//@   >>>
//@   loop 2 indexed <<<
                    invariant
                        i__2 <= it__2@.len(), it__2@ == overrides@,
                        flds@.len() == flds_pos_list@.len(),
                        call_frame(*old(self), *self), self.stack@ =~= below(*old(self), 2),
                        merge_all(base, ov, i__2 as int) == Some((flds@, flds_pos_list@)),
                    decreases it__2@.len() - i__2
//@   >>>
//@   before "self.merge_field_into_tuple(" nth 2 <<<
                    proof { lemma_merge_all_none(base, ov, counter as int + 1, overrides@.len() as int); }
//@   >>>
//@   after_loop 2 <<<
                // u: the parameters after the call's overrides
                let ghost u: Fields = (flds@, flds_pos_list@);
                proof {
                    assert forall|nm: Rc<str>, np: Position, vv: Rc<Value>, vp: Position| (#[trigger] merge_spec(u, nm, np, vv, vp)) is Some
                        implies merge_effect(u, merge_spec(u, nm, np, vv, vp)->0, nm@, vv, "pkg"@) by { lemma_merge_effect(u, nm, np, vv, vp, "pkg"@); }
                }
//@   >>>
//@   before "if let Some(ptr) = pkg_ptr {" <<<
                // w: ... with `this` merged in
                let ghost w: Fields = (flds@, flds_pos_list@);
                proof {
                    assert forall|nm: Rc<str>, np: Position, vv: Rc<Value>, vp: Position| (#[trigger] merge_spec(w, nm, np, vv, vp)) is Some
                        implies merge_effect(w, merge_spec(w, nm, np, vv, vp)->0, nm@, vv, "this"@) by { lemma_merge_effect(w, nm, np, vv, vp, "this"@); }
                }
//@   >>>
// the state the module body starts in (an obligation inside the body: `run` itself is outside the unit)
//@   before "decorate_call!(pos => vm.run(env))?;" nth 1 <<<
                assert(module_body_start(*old(self), vm, base, ov, *ptr, *result_ptr, *pkg_ptr));
//@   >>>
//@   mutant copy_value_pos_is_name_pos "let val_pos = override_pos_list[counter].1.clone(); self.merge_field_into_tuple( &mut flds, &mut pos_list," => "let val_pos = override_pos_list[counter].0.clone(); self.merge_field_into_tuple( &mut flds, &mut pos_list," expect op_copy
//@   mutant copy_of_scalar_is_noop "_ => { return Err(Error::new( verif_msg(), pos, )); }" => "_ => { self.push(tgt.clone(), tgt_pos)?; }" expect op_copy
//@   mutant module_mod_operands_swapped "vm.push(Rc::new(S(\"mod\".v_into())), pos.clone())?; vm.push(Rc::new(C(Tuple(flds, flds_pos_list))), pos.clone())?;" => "vm.push(Rc::new(C(Tuple(flds, flds_pos_list))), pos.clone())?; vm.push(Rc::new(S(\"mod\".v_into())), pos.clone())?;" expect op_copy
//@   mutant module_this_misnamed "\"this\".v_into()" => "\"self\".v_into()" expect op_copy
//@   mutant module_pkg_misnamed "\"pkg\".v_into()" => "\"package\".v_into()" expect op_copy
//@   mutant module_body_runs_callers_code "let mut vm = self .clean_copy() .to_new_pointer(ptr.clone())" => "let mut vm = self .clean_copy() .to_new_pointer(self.ops.clone())" expect op_copy
//@   mutant module_sees_callers_bindings "vm.push(Rc::new(S(\"mod\".v_into())), pos.clone())?;" => "vm.symbols = Stack { curr: self.symbols.curr.clone() }; vm.push(Rc::new(S(\"mod\".v_into())), pos.clone())?;" expect op_copy
//@   mutant module_result_left_in_child "self.push(result_val, pos)?;" => "vm.push(result_val, pos)?;" expect op_copy
//@ end

} // verus!

fn main() {}
