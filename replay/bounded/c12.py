"""C12 bounded stand-ins: XML output is well-formed and mirrors the document the program described.

Every case is a UCG program `out xml {...};` generated from a python model of the document-tuple DSL of
reference/converters.md (top level: version / encoding / standalone / root; element: name, attrs, ns, children; text node: a
bare string or {text = "..."}), written to a temp dir and built with the REAL `ucg build`.  The artifact x.xml is read by an
INDEPENDENT parser (python's xml.etree.ElementTree on expat; expat's XmlDeclHandler for the declaration) and compared with the
tree the generator described:

  * well-formed          = ElementTree parses the artifact without error;
  * names                = every element / attribute name resolved to {uri}local with the namespaces in scope;
  * nesting              = the sequence text, child, text, child, ..., text of every element (adjacent text nodes concatenated);
  * attributes           = exactly the non-NULL fields of `attrs`, values equal after XML attribute-value normalisation of
                           \\t and \\n (a parser may hand them back as blanks);
  * namespaces           = the prefix -> uri bindings in scope at every element are the ones the `ns` fields declare;
  * text                 = character for character; where the document describes NO text between two pieces of markup the
                           artifact may hold blanks/newlines only (the reference's own example output is indented this way);
  * declaration          = an explicit version / encoding is the one written; standalone = true is standalone="yes",
                           false/absent is "no" or no pseudo-attribute;
  * NULL attrs / children / attribute values are omitted;
  * a document the DSL cannot express (no root, root not an element, node neither tuple nor string, both name and text,
    neither name nor text, attrs / children / ns / name / text of the wrong type, non-string attribute value) exits non-zero;
  * nothing ever crashes (exit 101 / 134 / 139 / death by signal).

Only characters legal in XML 1.0 are generated (no control characters except \\t \\n, no \\r, no C1 controls, no U+FFFE/U+FFFF
or other noncharacters; U+2028 is kept out of version 1.1 documents where it is an end-of-line character).
Bounded: exactly the documents named in each stand-in's `bound`; never counted as proved."""
import io
import os
import random
import re
import shutil
import tempfile
import xml.etree.ElementTree as ET
import xml.parsers.expat as EXPAT
from concurrent.futures import ThreadPoolExecutor

import realcode as R

# Inputs of the families below on which the real code violates the property today (excluded from generation, reported).
KNOWN = [
    # (ns-uri-not-escaped was repaired in ucg, 26eb7a5: namespace uris containing & < " are generated again.)
    # The `encoding` field only changes the LABEL of the declaration, the bytes are always UTF-8:
    #   out xml {encoding = "ISO-8859-1", root = {name = "a", children = ["é"]}};  ->  <?xml version="1.0" encoding="ISO-8859-1"?><a>\xc3\xa9</a>
    #       an independent parser reads the text `Ã©`;   encoding = "US-ASCII" with the same text and encoding = "UTF-16" with any text are not well-formed.
    # Clause broken: "an independent XML parser reads back ... the same text content" / "well-formed".
    # The families use the spellings of UTF-8 only (UTF-8, utf-8, Utf-8); other labels are in the no-crash-only list.
    dict(id='encoding-label-not-honoured', excluded='encoding values other than spellings of UTF-8',
         input='out xml {encoding = "ISO-8859-1", root = {name = "a", children = ["é"]}};', observed='exit 0, bytes are UTF-8 under an ISO-8859-1 label: parsed text is "Ã©"',
         clause='parser reads back the same text content'),
    # A namespace declaration is dropped when ANY ancestor (not only the nearest one) bound the same prefix to the same uri, even though an
    # element in between re-bound the prefix to something else:
    #   out xml {root = {name = "a", ns = "urn:A", children = [{name = "b", ns = "urn:B", children = [{name = "c", ns = "urn:A"}]}]}};
    #       ->  <a xmlns="urn:A"><b xmlns="urn:B"><c></c></b></a>         c is read back as {urn:B}c, described as {urn:A}c   (exit 0)
    #   the same with ns = {prefix = "p", uri = ...} and names p:a / p:b / p:c:  p:c is read back as {urn:B}c.
    # Clauses broken: "same element names" (namespace-resolved) / "same ... namespace declarations".
    # Documents with such an A - B - A chain of bindings of one prefix along a path are kept out of the random family (see known_shadow).
    dict(id='ns-rebinding-dropped-after-shadowing', excluded='an element binding prefix P (or the default namespace) to uri A below an ancestor binding P to B != A below an ancestor binding P to A',
         input='out xml {root = {name = "a", ns = "urn:A", children = [{name = "b", ns = "urn:B", children = [{name = "c", ns = "urn:A"}]}]}};',
         observed='exit 0, <c> has no xmlns and is read back as {urn:B}c', clause='same element names and nesting / same namespace declarations'),
]


def known_uri(u):
    return any(c in u for c in '&<"')


def known_shadow(e, eff=None, declared=frozenset()):
    """True if the element tree contains the A - B - A rebinding chain of KNOWN ns-rebinding-dropped-after-shadowing."""
    eff = dict(eff or {})
    if isinstance(e.ns, tuple) or (isinstance(e.ns, str) and e.ns != ''):
        pu = e.ns if isinstance(e.ns, tuple) else ('', e.ns)
        if pu in declared and eff.get(pu[0]) != pu[1]:
            return True
        eff[pu[0]] = pu[1]
        declared = declared | {pu}
    kids = e.children if e.children is not MISSING and e.children is not None else []
    return any(isinstance(c, El) and known_shadow(c, eff, declared) for c in kids)


MISSING = object()      # the field is not written at all (None = the field is written as NULL)
CRASH_RCS = (101, 134, 139)
HOW = 'write the source to x.ucg in an empty directory, run the real `ucg build x.ucg`, parse x.xml with python xml.etree.ElementTree'


# ---------------------------------------------------------------------------------------------------------------------
# the document model
class El(object):
    def __init__(self, name, attrs=MISSING, children=MISSING, ns=MISSING, order=None):
        self.name = name            # "local" or "prefix:local"
        self.attrs = attrs          # MISSING | None | [(name, value or None), ...]
        self.children = children    # MISSING | None | [El | Tx | Raw, ...]
        self.ns = ns                # MISSING | None | "uri" | (prefix, uri) | Raw
        self.order = order or ['name', 'ns', 'attrs', 'children']
        self.extra = []             # [(field, ucg source)] extra fields (malformed documents only)

    def copy(self):
        e = El(self.name, self.attrs if self.attrs in (MISSING, None) else list(self.attrs),
               self.children if self.children in (MISSING, None) or isinstance(self.children, Raw) else [c.copy() for c in self.children],
               self.ns, list(self.order))
        e.extra = list(self.extra)
        return e


class Tx(object):
    def __init__(self, text, form='bare'):
        self.text = text
        self.form = form            # 'bare' -> "text"     'tuple' -> {text = "text"}

    def copy(self):
        return Tx(self.text, self.form)


class Raw(object):
    """UCG source put in verbatim (malformed documents only)."""
    def __init__(self, src):
        self.src = src

    def copy(self):
        return self


class Doc(object):
    def __init__(self, root, version=MISSING, encoding=MISSING, standalone=MISSING, order=None, via='tuple'):
        self.root = root
        self.version = version
        self.encoding = encoding
        self.standalone = standalone
        self.order = order or ['version', 'encoding', 'standalone', 'root']
        self.via = via              # 'tuple' | 'let' (doc bound with let first) | 'std' (std/xml.ucg constructors)

    def copy(self):
        return Doc(self.root.copy() if hasattr(self.root, 'copy') else self.root, self.version, self.encoding, self.standalone, list(self.order), self.via)


# ---------------------------------------------------------------------------------------------------------------------
# UCG source
BARE = re.compile(r'^[a-z][a-z0-9_]*$')
RESERVED = set('assert true false let import as select macro module env map filter NULL out in is not fail include func reduce convert'.split())


def lit(s):
    """UCG string literal for s (reference/types.md: `\\"` is a quote, `\\\\` a backslash, `\\n` `\\r` `\\t`)."""
    return '"' + s.replace('\\', '\\\\').replace('"', '\\"').replace('\n', '\\n').replace('\r', '\\r').replace('\t', '\\t') + '"'


def field(name):
    """Field names are barewords or quoted strings (reference/types.md)."""
    return name if BARE.match(name) and name not in RESERVED else lit(name)


def src_ns(ns):
    if isinstance(ns, Raw):
        return ns.src
    if ns is None:
        return 'NULL'
    if isinstance(ns, tuple):
        return '{prefix = %s, uri = %s}' % (lit(ns[0]), lit(ns[1]))
    return lit(ns)


def src_attrs(attrs):
    if isinstance(attrs, Raw):
        return attrs.src
    if attrs is None:
        return 'NULL'
    return '{' + ', '.join('%s = %s' % (field(k), v.src if isinstance(v, Raw) else 'NULL' if v is None else lit(v)) for k, v in attrs) + '}'


def src_node(n, ind=1):
    pad = '  ' * ind
    if isinstance(n, Raw):
        return n.src
    if isinstance(n, Tx):
        t = n.text.src if isinstance(n.text, Raw) else lit(n.text)
        return t if n.form == 'bare' else '{text = %s}' % t
    parts = []
    for f in n.order:
        if f == 'name':
            parts.append('name = %s' % (n.name.src if isinstance(n.name, Raw) else lit(n.name)))
        elif f == 'ns' and n.ns is not MISSING:
            parts.append('ns = %s' % src_ns(n.ns))
        elif f == 'attrs' and n.attrs is not MISSING:
            parts.append('attrs = %s' % src_attrs(n.attrs))
        elif f == 'children' and n.children is not MISSING:
            if isinstance(n.children, Raw):
                parts.append('children = %s' % n.children.src)
            elif n.children is None:
                parts.append('children = NULL')
            elif not n.children:
                parts.append('children = []')
            else:
                parts.append('children = [\n%s%s,\n%s]' % (pad + '  ', (',\n' + pad + '  ').join(src_node(c, ind + 2) for c in n.children), pad))
    for k, v in n.extra:
        parts.append('%s = %s' % (k, v))
    return '{' + ', '.join(parts) + '}'


def src_node_std(n, ind=1):
    """The same node through the constructors of std/xml.ucg (xml.tag{...}, xml.ns(prefix, uri))."""
    pad = '  ' * ind
    if isinstance(n, Tx):
        return lit(n.text) if n.form == 'bare' else '{text = %s}' % lit(n.text)
    parts = ['name = %s' % lit(n.name)]
    if n.ns is not MISSING and n.ns is not None:
        parts.append('ns = %s' % ('xml.ns(%s, %s)' % (lit(n.ns[0]), lit(n.ns[1])) if isinstance(n.ns, tuple) else 'xml.ns(%s, NULL)' % lit(n.ns)))
    if n.attrs is not MISSING and n.attrs is not None:
        parts.append('attrs = %s' % src_attrs(n.attrs))
    if n.children is not MISSING and n.children is not None:
        parts.append('children = [%s]' % ''.join('\n%s  %s,' % (pad, src_node_std(c, ind + 2)) for c in n.children))
    return 'xml.tag{' + ', '.join(parts) + '}'


def std_ok(n):
    """std/xml.ucg's tag module types attrs as a tuple and children as a list: no NULL there."""
    if isinstance(n, Tx):
        return True
    if n.attrs is None or n.children is None or n.ns is None:
        return False
    return all(std_ok(c) for c in (n.children if n.children is not MISSING else []))


def src_doc(d):
    if isinstance(d, Raw):
        return d.src
    if d.via == 'std':
        return 'let xml = import "std/xml.ucg";\nout xml xml.doc(%s);\n' % src_node_std(d.root)
    parts = []
    for f in d.order:
        if f == 'root':
            if d.root is not MISSING:
                parts.append('root = %s' % ('NULL' if d.root is None else src_node(d.root)))
        else:
            v = getattr(d, f)
            if v is MISSING:
                continue
            parts.append('%s = %s' % (f, v.src if isinstance(v, Raw) else 'NULL' if v is None else ('true' if v else 'false') if isinstance(v, bool) else lit(v)))
    body = '{\n  ' + ',\n  '.join(parts) + ',\n}'
    if d.via == 'let':
        return 'let doc = %s;\nout xml doc;\n' % body
    return 'out xml %s;\n' % body


# ---------------------------------------------------------------------------------------------------------------------
# the tree the program describes
class Unresolvable(Exception):
    pass


def resolve(name, scope, is_attr):
    if ':' in name:
        p, local = name.split(':', 1)
        if p == 'xml':
            return '{http://www.w3.org/XML/1998/namespace}' + local
        if p not in scope:
            raise Unresolvable(name)
        return '{%s}%s' % (scope[p], local)
    if not is_attr and scope.get(''):
        return '{%s}%s' % (scope[''], name)
    return name


def norm_attr(v):
    return v.replace('\t', ' ').replace('\n', ' ')


def model(n, scope):
    """-> (tag, {attr: value}, {prefix: uri} in scope, [text, child, text, ..., text])"""
    scope = dict(scope)
    if isinstance(n.ns, tuple):
        scope[n.ns[0]] = n.ns[1]
    elif isinstance(n.ns, str) and n.ns != '':
        scope[''] = n.ns
    tag = resolve(n.name, scope, False)
    attrs = {}
    if n.attrs is not MISSING and n.attrs is not None:
        for k, v in n.attrs:
            if v is not None:
                attrs[resolve(k, scope, True)] = norm_attr(v)
    content = ['']
    if n.children is not MISSING and n.children is not None:
        for c in n.children:
            if isinstance(c, Tx):
                content[-1] += c.text
            else:
                content.append(model(c, scope))
                content.append('')
    return (tag, attrs, scope, content)


# ---------------------------------------------------------------------------------------------------------------------
# the tree an independent parser reads
def parse_artifact(data):
    """-> ((version, encoding, standalone), tree) ; raises on anything that is not a well-formed document."""
    decl = []
    p = EXPAT.ParserCreate()
    p.XmlDeclHandler = lambda v, e, s: decl.append((v, e, s))
    p.Parse(data, True)
    pending, decls, root = [], {}, None
    for ev, x in ET.iterparse(io.BytesIO(data), events=('start', 'start-ns')):
        if ev == 'start-ns':
            pending.append(x)
        else:
            decls[x] = pending
            pending = []
            if root is None:
                root = x

    def walk(e, scope):
        scope = dict(scope)
        for p_, u in decls.get(e, []):
            scope[p_ or ''] = u
        content = [e.text or '']
        for c in e:
            content.append(walk(c, scope))
            content.append(c.tail or '')
        return (e.tag, dict((k, norm_attr(v)) for k, v in e.attrib.items()), dict((k, v) for k, v in scope.items() if k != 'xml' and v != ''), content)
    return (decl[0] if decl else None), walk(root, {})


BLANK = re.compile(r'^[ \t\n]*$')


def diff(exp, obs, path=''):
    """None if the parsed tree is the described tree, else one line saying where they differ."""
    here = '%s/%s' % (path, exp[0])
    if exp[0] != obs[0]:
        return 'at %s: element is %r, described as %r' % (path or '/', obs[0], exp[0])
    if exp[1] != obs[1]:
        return 'at %s: attributes are %r, described as %r' % (here, obs[1], exp[1])
    if exp[2] != obs[2]:
        return 'at %s: namespaces in scope are %r, described as %r' % (here, obs[2], exp[2])
    ec, oc = exp[3], obs[3]
    if len(ec) != len(oc):
        return 'at %s: %d child elements %r, described are %d %r' % (here, len(oc) // 2, [c[0] for c in oc[1::2]], len(ec) // 2, [c[0] for c in ec[1::2]])
    for i in range(0, len(ec), 2):
        if ec[i] != oc[i] and not (ec[i] == '' and BLANK.match(oc[i])):
            return 'at %s: text before child #%d is %r, described as %r' % (here, i // 2, oc[i], ec[i])
    for i in range(1, len(ec), 2):
        r = diff(ec[i], oc[i], here)
        if r:
            return r
    return None


def check_decl(d, decl):
    if decl is None:
        if d.version not in (MISSING, '1.0') or d.standalone is True or (d.encoding is not MISSING and d.encoding.lower() not in ('utf-8',)):
            return 'the artifact has no XML declaration, the document asks for version=%r encoding=%r standalone=%r' % (
                None if d.version is MISSING else d.version, None if d.encoding is MISSING else d.encoding, None if d.standalone is MISSING else d.standalone)
        return None
    v, e, s = decl
    if d.version is not MISSING and v != d.version:
        return 'declared version is %r, the document asks for %r' % (v, d.version)
    if d.version is MISSING and v not in ('1.0', '1.1'):
        return 'declared version is %r' % v
    if d.encoding is not MISSING and (e or '').lower() != d.encoding.lower():
        return 'declared encoding is %r, the document asks for %r' % (e, d.encoding)
    if d.encoding is MISSING and e is not None and e.lower() != 'utf-8':
        return 'declared encoding is %r, the default is UTF-8' % e
    want = 1 if d.standalone is True else 0
    if (1 if s == 1 else 0) != want:
        return 'standalone is %s, the document asks for %s' % ({1: '"yes"', 0: '"no"', -1: 'absent'}[s], 'true' if want else 'false / nothing')
    return None


def verdict(d, rc, data):
    """A document inside the DSL: the build succeeds and the artifact parses back to the described tree."""
    if rc in CRASH_RCS or rc < 0:
        return 'ucg crashed (exit %s)' % rc
    if data is None:
        return 'no artifact (exit %s) for a document the DSL can express' % rc
    try:
        decl, tree = parse_artifact(data)
    except Exception as e:       # ET.ParseError, expat.ExpatError, UnicodeDecodeError ...
        return 'the artifact is not well-formed XML: %s' % e
    r = check_decl(d, decl)
    if r:
        return r
    return diff(model(d.root, {}), tree)


# ---------------------------------------------------------------------------------------------------------------------
# running the real binary
def build_many(work, sources):
    """sources as d<i>.ucg, ONE `ucg build` invocation -> (rc, [artifact bytes or None], log)"""
    names = []
    for i, s in enumerate(sources):
        n = 'd%04d' % i
        with open(os.path.join(work, n + '.ucg'), 'w', encoding='utf-8', newline='') as f:
            f.write(s)
        art = os.path.join(work, n + '.xml')
        if os.path.exists(art):
            os.remove(art)
        names.append(n)
    rc, so, se = R.run_ucg(['build'] + [n + '.ucg' for n in names], work, timeout=600)
    arts = []
    for n in names:
        art = os.path.join(work, n + '.xml')
        arts.append(open(art, 'rb').read() if os.path.exists(art) else None)
    return rc, arts, so + se


def build_one(src):
    """One program alone in a fresh directory (the replay of a report) -> (rc, artifact bytes or None, log)."""
    work = tempfile.mkdtemp(prefix='verif_c12_')
    try:
        with open(os.path.join(work, 'x.ucg'), 'w', encoding='utf-8', newline='') as f:
            f.write(src)
        rc, so, se = R.run_ucg(['build', 'x.ucg'], work)
        art = os.path.join(work, 'x.xml')
        return rc, (open(art, 'rb').read() if os.path.exists(art) else None), so + se
    finally:
        shutil.rmtree(work, ignore_errors=True)


def build_each(sources, threads=8):
    R.ucg_binary()
    with ThreadPoolExecutor(threads) as ex:
        return list(ex.map(build_one, sources))


def smaller(d):
    """Documents smaller than d that are still inside the family."""
    def elements(e, acc):
        acc.append(e)
        for c in (e.children or []) if e.children is not MISSING else []:
            if isinstance(c, El):
                elements(c, acc)
        return acc
    n = len(elements(d.root, []))
    for i in range(n):
        # drop one child / one attribute / the ns of element i, or halve one text
        e0 = elements(d.root, [])[i]
        kids = e0.children if e0.children not in (MISSING, None) else []
        for j in range(len(kids)):
            c = d.copy()
            e = elements(c.root, [])[i]
            del e.children[j]
            yield c
        for j in range(len(e0.attrs if e0.attrs not in (MISSING, None) else [])):
            c = d.copy()
            e = elements(c.root, [])[i]
            del e.attrs[j]
            yield c
        for j, k in enumerate(kids):
            if isinstance(k, Tx) and len(k.text) > 1:
                for part in (k.text[:len(k.text) // 2], k.text[len(k.text) // 2:]):
                    c = d.copy()
                    elements(c.root, [])[i].children[j].text = part
                    yield c
        for j, (k, v) in enumerate(e0.attrs if e0.attrs not in (MISSING, None) else []):
            if v is not None and len(v) > 1:
                for part in (v[:len(v) // 2], v[len(v) // 2:]):
                    c = d.copy()
                    elements(c.root, [])[i].attrs[j] = (k, part)
                    yield c
    for f in ('version', 'encoding', 'standalone'):
        if getattr(d, f) is not MISSING:
            c = d.copy()
            setattr(c, f, MISSING)
            yield c


def shrink(d, why, budget=40):
    """Greedy: a smaller document of the family that still fails (any failure), within a budget of single builds."""
    while budget > 0:
        for c in smaller(d):
            if budget <= 0:
                break
            try:
                model(c.root, {})
            except Unresolvable:
                continue
            budget -= 1
            rc, data, log = build_one(src_doc(c))
            w = verdict(c, rc, data)
            if w:
                d, why = c, w
                break
        else:
            break
    return d, why


def run_positive(name, bound, docs, do_shrink=True):
    """docs: [Doc]; all must build and parse back to the described tree."""
    work = tempfile.mkdtemp(prefix='verif_c12_')
    try:
        srcs = [src_doc(d) for d in docs]
        rc, arts, log = build_many(work, srcs)
        for d, s, data in zip(docs, srcs, arts):
            why = verdict(d, 0 if data is not None else rc, data)
            if why is None:
                continue
            # replay alone (the batch may have died on an earlier file)
            rc1, data1, log1 = build_one(s)
            why = verdict(d, rc1, data1)
            if why is None:
                continue
            if do_shrink and d.via != 'std':
                d, why = shrink(d, why)
                s = src_doc(d)
                rc1, data1, log1 = build_one(s)
            return dict(name=name, bound=bound, cases=len(docs), status='violation', detail=why,
                        input=dict(source=s, expected='well-formed XML that parses back to %r' % (model(d.root, {}),),
                                   observed=('exit %s; x.xml = %r' % (rc1, data1.decode('utf-8', 'replace')) if data1 is not None else 'exit %s, no artifact: %s' % (rc1, log1[-300:])),
                                   how=HOW))
        if rc in CRASH_RCS or rc < 0:
            return dict(name=name, bound=bound, cases=len(docs), status='violation', detail='ucg crashed (exit %s) after writing every artifact' % rc,
                        input=dict(source='\n%%\n'.join(srcs), expected='exit 0', observed='exit %s: %s' % (rc, log[-300:]), how='one `ucg build` over all files'))
    finally:
        shutil.rmtree(work, ignore_errors=True)
    return dict(name=name, bound=bound, cases=len(docs), status='ok', detail='')


# ---------------------------------------------------------------------------------------------------------------------
# generators
MARKUP = ['<', '>', '&', "'", '"', ']]>', ']]', ']>', '<!--', '-->', '--', '&amp;', '&lt;', '&#65;', '&#x41;', '&nosuch;', '<![CDATA[', '<?pi x?>', '</a>', '<a>',
          '<a b="c">', '/>', '%', '\\', '\\n', '\\"', '\\\\', '@', '$', '{', '}', '=', ';', '#', '`']
BLANKS = [' ', '  ', '\n', '\t', '\n  ', ' \n ', '\n\n']
UNI = ['é', 'ü', 'ß', 'Ω', 'ж', '日本語', '한글', 'عربى', 'עברית', '\u00a0', '\u200b', '\u2003', '\u2028', '\u2029', '\ufeff', '😀', '🚀', '\U00010000', '\U0010fffd',
       '\ufffd', '\ue000', '\ud7ff', 'e\u0301', '“q”', '‘q’', '\u00ad', '\u202e', '\u0100', '\u07ff', '\u0800']
WORDS = ['a', 'text', 'Hello', 'x y', '0', 'NULL', 'true', 'name', 'inner text node', 'z']


def legal_char(rnd):
    while True:
        r = rnd.random()
        if r < 0.3:
            cp = rnd.randint(0x20, 0x7e)
        elif r < 0.6:
            cp = rnd.randint(0xa0, 0x2fff)
        elif r < 0.85:
            cp = rnd.randint(0x3000, 0xfffd)
        else:
            cp = rnd.randint(0x10000, 0x10ffff)
        if 0xd800 <= cp <= 0xdfff or 0xfdd0 <= cp <= 0xfdef or (cp & 0xfffe) == 0xfffe:
            continue
        return chr(cp)


def gen_text(rnd, v11=False, attr=False):
    n = rnd.choice([0, 1, 1, 2, 2, 3, 4, 6])
    out = []
    for _ in range(n):
        r = rnd.random()
        if r < 0.35:
            out.append(rnd.choice(MARKUP))
        elif r < 0.5:
            out.append(rnd.choice(BLANKS))
        elif r < 0.65:
            out.append(rnd.choice(UNI))
        elif r < 0.8:
            out.append(rnd.choice(WORDS))
        else:
            out.append(''.join(legal_char(rnd) for _ in range(rnd.randint(1, 5))))
    s = ''.join(out)
    if v11:
        s = s.replace('\u2028', '-').replace('\x85', '-')
    return s


NAMES = ['a', 'b', 'c', 'item', 'Node', 'x1', 'a-b', 'a.b', '_u', 'élément', '日本', 'Ωmega', 'data_set', 'A', 'child1', 'top', 'name', 'text', 'attrs', 'children', 'ns',
         'root', 'version', 'true', 'NULL', 'let', 'é', 'aé1', 'a·b', 'x--y', 'T0.1-2_3']
PREFIXES = ['p', 'q', 'myns', 'ns1', 'a-b', 'π', 'P']
URIS_ALL = ['http://example.com', 'http://example.org/', 'urn:x:y', 'http://example.com/a?b=1&c=2', 'http://example.com/<q>', "urn:it's", 'urn:"q"', 'u', 'http://例え.jp/ü',
            'urn:a b', 'http://www.w3.org/1999/xhtml', 'urn:a>b', 'urn:%41;#x', 'a&amp;b']
URIS = list(URIS_ALL)


def gen_element(rnd, depth, scope, v11):
    """scope: prefixes in scope ('' = a default namespace is in scope)"""
    ns = MISSING
    r = rnd.random()
    scope = list(scope)
    if r < 0.12:
        ns = rnd.choice(URIS)
        if '' not in scope:
            scope.append('')
    elif r < 0.3:
        ns = (rnd.choice(PREFIXES), rnd.choice(URIS))
        if ns[0] not in scope:
            scope.append(ns[0])
    elif r < 0.34:
        ns = None
    name = rnd.choice(NAMES)
    pfx = [p for p in scope if p]
    if pfx and rnd.random() < 0.4:
        name = rnd.choice(pfx) + ':' + name
    r = rnd.random()
    if r < 0.25:
        attrs = MISSING
    elif r < 0.35:
        attrs = None
    else:
        attrs, seen = [], set()
        for _ in range(rnd.choice([0, 1, 1, 2, 3, 4])):
            k = rnd.choice(NAMES)
            if k in seen:
                continue
            seen.add(k)
            if pfx and rnd.random() < 0.15:
                k = rnd.choice(pfx) + ':' + k
            elif rnd.random() < 0.04:
                k = 'xml:' + k
            attrs.append((k, None if rnd.random() < 0.15 else gen_text(rnd, v11, attr=True)))
    r = rnd.random()
    if r < 0.12:
        children = MISSING
    elif r < 0.22:
        children = None
    else:
        children = []
        for _ in range(rnd.randint(0, 4)):
            r = rnd.random()
            if r < 0.3:
                children.append(Tx(gen_text(rnd, v11), 'bare'))
            elif r < 0.5:
                children.append(Tx(gen_text(rnd, v11), 'tuple'))
            elif depth < 4:
                children.append(gen_element(rnd, depth + 1, scope, v11))
            else:
                children.append(Tx(gen_text(rnd, v11), rnd.choice(['bare', 'tuple'])))
    order = ['name', 'ns', 'attrs', 'children']
    rnd.shuffle(order)
    return El(name, attrs, children, ns, order)


def gen_doc(rnd):
    version = rnd.choice([MISSING, MISSING, '1.0', '1.1'])
    encoding = rnd.choice([MISSING, MISSING, 'UTF-8', 'utf-8', 'Utf-8'])
    standalone = rnd.choice([MISSING, MISSING, True, False])
    root = gen_element(rnd, 1, [], version == '1.1')
    order = ['version', 'encoding', 'standalone', 'root']
    rnd.shuffle(order)
    d = Doc(root, version, encoding, standalone, order, via=rnd.choice(['tuple', 'tuple', 'let']))
    return d


def T(s, form='bare'):
    return Tx(s, form)


def designed_docs():
    E = El
    docs = []
    add = docs.append
    # the reference's own example
    add(Doc(E('top', [('id', 'foo')], [E('child1', [('attr1', 'value1'), ('attr2', 'value2')],
                                         [T('inner text node'), E('myns:grandchild', MISSING, [T('Another text node', 'tuple')])], 'http://example.org')],
              ('myns', 'http://example.com')), via='let'))
    # minimal documents, every combination of missing / NULL / empty attrs and children
    for a in (MISSING, None, []):
        for c in (MISSING, None, []):
            add(Doc(E('r', a, c)))
    add(Doc(E('r', MISSING, MISSING, None)))
    # declaration
    for v in (MISSING, '1.0', '1.1'):
        for enc in (MISSING, 'UTF-8', 'utf-8'):
            for sa in (MISSING, True, False):
                add(Doc(E('r', [('k', 'v')], [T('t')]), v, enc, sa))
    add(Doc(E('r'), '1.1', 'UTF-8', True, order=['root', 'standalone', 'encoding', 'version']))
    # text: every markup-significant token, alone and in context, in the three text positions and in an attribute
    for tok in MARKUP + BLANKS + UNI:
        add(Doc(E('r', [('k', tok), ('k2', 'a' + tok + 'b')], [T(tok), E('m'), T(tok, 'tuple'), E('m', MISSING, [T('x' + tok + 'y' + tok)]), T('a' + tok)]),
                '1.0' if tok in ('\u2028',) else MISSING))
    add(Doc(E('r', [('all', ''.join(MARKUP + UNI))], [T(''.join(MARKUP + BLANKS + UNI)), T(''.join(reversed(MARKUP + BLANKS + UNI)), 'tuple')]), '1.0'))
    # text nodes: adjacent, empty, blank-only, around and between elements
    add(Doc(E('r', MISSING, [T('a'), T('b', 'tuple'), T(''), T('c')])))
    add(Doc(E('r', MISSING, [T('')])))
    add(Doc(E('r', MISSING, [T('', 'tuple')])))
    add(Doc(E('r', MISSING, [T(' ')])))
    add(Doc(E('r', MISSING, [T('\n')])))
    add(Doc(E('r', MISSING, [T(' a '), E('x'), T(' '), E('y'), T('\n\tb\n')])))
    add(Doc(E('r', MISSING, [E('x'), E('y'), T('tail')])))
    add(Doc(E('r', MISSING, [T('head'), E('x'), E('y')])))
    add(Doc(E('r', MISSING, [E('x', MISSING, [T(' ')]), E('y', MISSING, [T('', 'tuple')]), E('z', MISSING, [])])))
    add(Doc(E('r', MISSING, [E('x'), T(''), E('y'), T('', 'tuple'), E('z')])))
    # attributes: NULL values omitted, order irrelevant, empty value, many
    add(Doc(E('r', [('a', None)])))
    add(Doc(E('r', [('a', None), ('b', 'x'), ('c', None), ('d', '')])))
    add(Doc(E('r', [('k%d' % i, 'v%d' % i) for i in range(12)])))
    add(Doc(E('r', [('a', 'x\ny'), ('b', 'x\ty'), ('c', ' x  y '), ('d', '\n')])))
    add(Doc(E('r', [('xml:lang', 'en'), ('xml:space', 'preserve')], [T('  keep  ')])))
    add(Doc(E('r', [(n, n) for n in NAMES])))
    # names
    add(Doc(E('r', MISSING, [E(n, [(n, 'v')], [T(n)]) for n in NAMES])))
    # nesting to depth 4 with 4 children at every level
    def full(depth):
        if depth == 4:
            return E('leaf%d' % depth, [('d', str(depth))], [T('t1'), T('t2', 'tuple')])
        return E('n%d' % depth, [('d', str(depth))], [full(depth + 1), T('x%d' % depth), full(depth + 1), full(depth + 1)])
    add(Doc(full(1)))
    add(Doc(E('a', MISSING, [E('b', MISSING, [E('c', MISSING, [E('d', MISSING, [T('deep')])])])])))
    add(Doc(E('a', MISSING, [E('b', None, [E('c', MISSING, [E('d', MISSING, None)]), E('c', None, None)]), E('b', MISSING, MISSING), E('b', [('k', None)], [])])))
    # namespaces: default, prefixed, both at different levels, redeclared, used by descendants and attributes, unused, hostile uris
    add(Doc(E('r', MISSING, MISSING, 'http://example.com')))
    add(Doc(E('r', MISSING, MISSING, ('p', 'http://example.com'))))
    add(Doc(E('p:r', MISSING, MISSING, ('p', 'http://example.com'))))
    add(Doc(E('p:r', [('p:a', '1'), ('a', '2')], [E('p:c'), E('c')], ('p', 'http://example.com'))))
    add(Doc(E('r', [('a', '1')], [E('c', [('b', '2')], [E('d')]), E('c', MISSING, [E('d', MISSING, MISSING, 'urn:other')], ('q', 'urn:q'))], 'http://example.com')))
    add(Doc(E('p:r', MISSING, [E('p:c', MISSING, [E('p:d'), E('q:d', MISSING, MISSING, ('q', 'urn:q2'))], ('p', 'urn:inner')), E('p:c')], ('p', 'urn:outer'))))
    add(Doc(E('r', MISSING, [E('c', MISSING, [E('d', MISSING, MISSING, 'urn:default2'), E('e')], ('p', 'urn:p')), E('p:f', MISSING, MISSING, ('p', 'urn:p3'))], 'urn:default1')))
    add(Doc(E('r', MISSING, [E('c', MISSING, MISSING, ('p', 'urn:same')), E('c', MISSING, MISSING, ('q', 'urn:same')), E('c', MISSING, MISSING, 'urn:same')])))
    for u in URIS:
        add(Doc(E('p:r', [('p:k', 'v')], [E('c', MISSING, MISSING, u)], ('p', u))))
    for p in PREFIXES:
        add(Doc(E(p + ':r', [(p + ':k', 'v')], [E(p + ':c')], (p, 'urn:u'))))
    # field order inside element and document tuples
    add(Doc(E('r', [('k', 'v')], [T('t')], 'urn:d', order=['children', 'attrs', 'ns', 'name']), '1.0', 'UTF-8', True, order=['root', 'version', 'standalone', 'encoding']))
    # the constructors of std/xml.ucg build the same tuples
    add(Doc(E('r', [('k', 'a<b>&"\'')], [T('t & <u>'), E('p:c', [('p:x', 'y')], [T('z', 'tuple')]), E('d', MISSING, [E('e')], 'urn:d')], ('p', 'urn:p')), via='std'))
    add(Doc(E('r'), via='std'))
    return docs


# ---------------------------------------------------------------------------------------------------------------------
# stand-ins
def standin_xml_designed(tier, seed):
    docs = designed_docs()
    return run_positive('xml_designed', '%d designed documents: the reference example; missing/NULL/empty attrs and children; every version x encoding x standalone; '
                        '%d markup / blank / Unicode tokens in bare-string, {text=} and attribute position; text-node placement; names; '
                        'depth 4 x 4 children; default / prefixed / nested / redeclared namespaces over %d uris and %d prefixes; field orders; std/xml.ucg constructors'
                        % (len(docs), len(MARKUP + BLANKS + UNI), len(URIS), len(PREFIXES)), docs)


def standin_xml_random(tier, seed):
    rnd = random.Random(seed * 7919 + 12)
    n = 1500 if tier == 'thorough' else 40
    docs = []
    while len(docs) < n:
        d = gen_doc(rnd)
        if known_shadow(d.root):
            continue            # KNOWN ns-rebinding-dropped-after-shadowing
        if rnd.random() < 0.08 and std_ok(d.root):
            d.via = 'std'       # xml.doc(root) has no declaration fields
            d.version = d.encoding = d.standalone = MISSING
        docs.append(d)
    return run_positive('xml_random', '%d random documents (seed %d): element trees to depth 4, 0..4 children mixing elements, bare strings and {text=} nodes, '
                        '0..4 attributes (NULL values, prefixed names), text over legal XML 1.0 Unicode + markup tokens + blanks, optional version/encoding/standalone, '
                        'default and prefixed namespaces, NULL / missing attrs, children, ns, shuffled field order' % (n, seed), docs)


BAD_NODES = ['1', '1.5', 'true', 'NULL', '[]', '["x"]', '[{name = "b"}]', '{}', '{name = "b", text = "t"}', '{text = "t", name = "b"}', '{text = 1}', '{text = NULL}', '{name = 1}',
             '{name = NULL}', '{name = ["b"]}', '{attrs = {a = "1"}}', '{children = []}', '{text = ["t"]}', '{text = {text = "t"}}',
             '{name = "b", attrs = "x"}', '{name = "b", attrs = 1}', '{name = "b", attrs = ["x"]}', '{name = "b", attrs = true}',
             '{name = "b", attrs = {k = 1}}', '{name = "b", attrs = {k = true}}', '{name = "b", attrs = {k = ["x"]}}', '{name = "b", attrs = {k = {v = "x"}}}',
             '{name = "b", attrs = {k = "ok", j = 1.5}}',
             '{name = "b", children = "x"}', '{name = "b", children = 1}', '{name = "b", children = {name = "c"}}', '{name = "b", children = true}',
             '{name = "b", ns = 1}', '{name = "b", ns = true}', '{name = "b", ns = ["u"]}', '{name = "b", ns = {prefix = "p"}}', '{name = "b", ns = {uri = "u"}}',
             '{name = "b", ns = {}}', '{name = "b", ns = {prefix = 1, uri = "u"}}', '{name = "b", ns = {prefix = "p", uri = 1}}', '{name = "b", ns = 1.5}']
# at the root a text node is malformed too: `<?xml ...?>text` is not a document
BAD_ROOTS = ['"text"', '{text = "t"}', '""']
BAD_DOCS = ['out xml {};', 'out xml {version = "1.0"};', 'out xml {version = "1.0", encoding = "UTF-8", standalone = true};', 'out xml {root = NULL};',
            'out xml {name = "a"};', 'out xml {Root = {name = "a"}};',
            'out xml 1;', 'out xml "s";', 'out xml [1];', 'out xml NULL;', 'out xml true;', 'out xml 1.5;', 'out xml [{root = {name = "a"}}];', 'out xml "<a/>";']
# outside the property's premise (invalid names) or not spelled out by the reference: only "no crash"
NO_CRASH_ONLY = ['out xml {version = 1, root = {name = "a"}};', 'out xml {encoding = 1, root = {name = "a"}};', 'out xml {standalone = "yes", root = {name = "a"}};',
                 'out xml {standalone = 1, root = {name = "a"}};', 'out xml {version = "2.0", root = {name = "a"}};', 'out xml {version = "", root = {name = "a"}};',
                 'out xml {version = NULL, encoding = NULL, standalone = NULL, root = {name = "a"}};', 'out xml {encoding = "", root = {name = "a"}};',
                 'out xml {encoding = "no such encoding", root = {name = "a"}};', 'out xml {root = {name = "a", extra = 1}};', 'out xml {extra = 1, root = {name = "a"}};',
                 'out xml {root = {name = "a b"}};', 'out xml {root = {name = ""}};', 'out xml {root = {name = "1a"}};', 'out xml {root = {name = "<"}};',
                 'out xml {root = {name = "a", attrs = {"b c" = "x"}}};', 'out xml {root = {name = "a", attrs = {"" = "x"}}};', 'out xml {root = {name = "p:a"}};',
                 'out xml {root = {name = ":"}};', 'out xml {root = {name = "a:b:c"}};', 'out xml {root = {name = "a", attrs = {"q:b" = "x"}}};',
                 'out xml {root = {name = "a", ns = ""}};', 'out xml {root = {name = "a", ns = {prefix = "p", uri = ""}}};', 'out xml {root = {name = "a", ns = {prefix = "", uri = "u"}}};',
                 'out xml {root = {name = "a", ns = {prefix = "xmlns", uri = "u"}}};', 'out xml {root = {name = "a", ns = {prefix = "xml", uri = "u"}}};',
                 'out xml {root = {name = "a", ns = {prefix = "a b", uri = "u"}}};', 'out xml {root = {name = "a", attrs = {xmlns = "u"}}};',
                 'out xml {root = {name = "a", attrs = {a = "1", a = "2"}}};', 'out xml {root = {name = "a", children = ["\\r"]}};',
                 # KNOWN encoding-label-not-honoured
                 'out xml {encoding = "ISO-8859-1", root = {name = "a", children = ["é"]}};', 'out xml {encoding = "US-ASCII", root = {name = "a", children = ["é"]}};',
                 'out xml {encoding = "UTF-16", root = {name = "a", children = ["e"]}};',
                 # KNOWN ns-rebinding-dropped-after-shadowing
                 'out xml {root = {name = "a", ns = "urn:A", children = [{name = "b", ns = "urn:B", children = [{name = "c", ns = "urn:A"}]}]}};',
                 # KNOWN ns-uri-not-escaped
                 'out xml {root = {name = "a", ns = "http://e/?a=1&b=2"}};', 'out xml {root = {name = "p:a", ns = {prefix = "p", uri = "u\\" x=\\"y"}}};']


def wrap(node, depth):
    """`node` as the only element child at the given depth (1 = the root itself) of an otherwise valid document."""
    s = node
    for i in range(depth - 1, 0, -1):
        s = '{name = "n%d", attrs = {k = "v"}, children = ["before", %s, {name = "after"}]}' % (i, s)
    return 'out xml {root = %s};' % s


def malformed_sources(tier, seed):
    srcs = list(BAD_DOCS)
    for r in BAD_ROOTS:
        srcs.append('out xml {root = %s};' % r)
    depths = (1, 2, 3, 4) if tier == 'thorough' else (1, 2, 4)
    for n in BAD_NODES:
        for dpt in depths:
            srcs.append(wrap(n, dpt))
    return srcs


def inject(rnd, d):
    """One malformation at a random place of a valid random document."""
    els = []

    def coll(e):
        els.append(e)
        for c in (e.children if e.children not in (MISSING, None) else []):
            if isinstance(c, El):
                coll(c)
    coll(d.root)
    e = rnd.choice(els)
    k = rnd.randrange(10)
    if k == 0:
        e.extra.append(('text', lit(gen_text(rnd))))
        return 'both name and text'
    if k == 1:
        e.name = Raw(rnd.choice(['1', 'NULL', 'true', '["a"]']))
        return 'name not a string'
    if k == 2:
        e.attrs = Raw(rnd.choice(['"x"', '1', '["a"]', 'true', '1.5']))
        return 'attrs neither tuple nor NULL'
    if k == 3:
        a = [] if e.attrs in (MISSING, None) else list(e.attrs)
        a.insert(rnd.randint(0, len(a)), ('bad_%d' % rnd.randint(0, 9), Raw(rnd.choice(['1', 'true', '["a"]', '{v = "x"}', '1.5']))))
        e.attrs = a
        return 'attribute value neither string nor NULL'
    if k == 4:
        e.children = Raw(rnd.choice(['"x"', '1', '{name = "c"}', 'true']))
        return 'children neither list nor NULL'
    if k == 5:
        e.ns = Raw(rnd.choice(['1', 'true', '["u"]', '{prefix = "p"}', '{uri = "u"}', '{}', '{prefix = 1, uri = "u"}', '{prefix = "p", uri = 1}']))
        return 'ns neither string nor {prefix, uri}'
    c = [] if e.children in (MISSING, None) else list(e.children)
    bad = rnd.choice(['1', '1.5', 'true', 'NULL', '[]', '["x"]', '{}', '{name = "b", text = "t"}', '{text = 1}', '{text = NULL}', '{name = 1}', '{attrs = {a = "1"}}'])
    c.insert(rnd.randint(0, len(c)), Raw(bad))
    e.children = c
    return 'child node %s' % bad


def standin_xml_malformed(tier, seed):
    srcs = malformed_sources(tier, seed)
    kinds = ['designed'] * len(srcs)
    rnd = random.Random(seed * 104729 + 12)
    for _ in range(150 if tier == 'thorough' else 12):
        d = gen_doc(rnd)
        kinds.append(inject(rnd, d))
        srcs.append(src_doc(d))
    n_must = len(srcs)
    srcs += NO_CRASH_ONLY
    bound = ('%d documents outside the DSL (all in ONE `ucg build`: none may leave an artifact; then built ALONE for the exit status: %s): '
             '%d document-level (no root, root NULL, not a tuple), %d text roots, %d malformed nodes '
             '(neither tuple nor string; both name and text; neither; name/text/attrs/children/ns of a wrong type; non-string attribute value) at depths %s, '
             '%d random valid documents (seed %d) with one such malformation injected at a random element; + %d odd documents (invalid names, wrong-typed '
             'declaration fields, non-UTF-8 encodings) checked for "no crash" only'
             % (n_must, 'all of them' if tier == 'thorough' else 'the document-level ones, every third node kind, and any that left an artifact',
                len(BAD_DOCS), len(BAD_ROOTS), len(BAD_NODES), '1,2,3,4' if tier == 'thorough' else '1,2,4',
                n_must - len(malformed_sources(tier, seed)), seed, len(NO_CRASH_ONLY)))
    # 1. everything in ONE `ucg build`: a malformed document that is accepted leaves an artifact; a crash shows in the exit status
    work = tempfile.mkdtemp(prefix='verif_c12_')
    try:
        brc, arts, blog = build_many(work, srcs)
    finally:
        shutil.rmtree(work, ignore_errors=True)
    if brc in CRASH_RCS or brc <= 0:
        alone = list(range(len(srcs)))      # crashed, or "everything is fine" for a batch of malformed documents: look at each one alone
    else:
        alone = [i for i, a in enumerate(arts) if a is not None and i < n_must]
        # 2. the exit status of single builds: all of them (thorough) / the document-level kinds and every third node kind at the root (quick)
        if tier == 'thorough':
            alone = list(range(len(srcs)))
        else:
            pick = set(srcs[:len(BAD_DOCS) + len(BAD_ROOTS)]) | set(wrap(n, 1) for n in BAD_NODES[::3]) | set(NO_CRASH_ONLY[::4])
            alone += [i for i, s in enumerate(srcs) if s in pick and i not in alone]
    res = build_each([srcs[i] for i in alone], threads=12)
    for i, (rc, data, log) in zip(alone, res):
        s = srcs[i]
        crashed = rc in CRASH_RCS or rc < 0
        if crashed or (i < n_must and rc == 0):
            what = 'ucg crashed (exit %s)' % rc if crashed else 'a document the DSL cannot express (%s) built successfully' % kinds[i]
            return dict(name='xml_malformed', bound=bound, cases=len(srcs), status='violation', detail='%s: %s' % (what, ' '.join(s.split())[:200]),
                        input=dict(source=s, expected='a non-zero exit with a diagnostic, no crash' if i < n_must else 'no crash',
                                   observed='exit %s; %s; x.xml = %r' % (rc, log.strip()[-300:], None if data is None else data.decode('utf-8', 'replace')), how=HOW))
    return dict(name='xml_malformed', bound=bound, cases=len(srcs), status='ok', detail='')


STANDINS = [standin_xml_designed, standin_xml_random, standin_xml_malformed]
