// ---- prelude/sh_escape_fns.rs: the two real escaping helpers of src/convert/mod.rs under contract ----
// (needs prelude/sh_escape_models.rs and prelude/sh_escape_posix.rs; verified again in every unit that includes it)
// R9': `X.replace(c, t)` -> `verif_replace_char(X, c, t)`; assumption: std's str::replace::<char> behaves like
// the verified loop model (left to right, every occurrence).

//@ extract src/convert/mod.rs :: fn shell_escape_single_quoted
//@   subst "s.replace(" => "verif_replace_char(s, "
//@   ret r
//@   sig <<<
    ensures
        r@ == sq(s@),
        // a POSIX shell reads '<r>' as exactly the one word s, nothing interpreted, everything consumed
        sh_yields(sh_word(seq!['\''] + r@ + seq!['\'']), s@, Seq::<char>::empty()),
//@   >>>
//@   body_start <<<
    proof {
        reveal_strlit("'\\''");
        assert("'\\''"@ =~= sq_to());
        lemma_squote_one_word(s@, Seq::<char>::empty());
        assert(sh_squote(s@) + Seq::<char>::empty() =~= seq!['\''] + sq(s@) + seq!['\'']);
    }
//@   >>>
//@   mutant sq_no_reopen "\"'\\\\''\"" => "\"'\\\\'\"" expect shell_escape_single_quoted
//@   mutant sq_no_backslash "\"'\\\\''\"" => "\"'''\"" expect shell_escape_single_quoted
//@   mutant sq_wrong_char "'\\''" => "'\"'" expect shell_escape_single_quoted
//@ end

// (mutants of shell_escape_double_quoted are matched against the rewritten call chain)
//@ extract src/convert/mod.rs :: fn shell_escape_double_quoted
//@   subst <<<
s.replace('\\', "\\\\")
        .replace('"', "\\\"")
        .replace('$', "\\$")
        .replace('`', "\\`")
//@ ===
    verif_replace_char(verif_replace_char(verif_replace_char(verif_replace_char(s, '\\', "\\\\").as_str(),
        '"', "\\\"").as_str(),
        '$', "\\$").as_str(),
        '`', "\\`")
//@   >>>
//@   ret r
//@   sig <<<
    ensures
        r@ == dq(s@),
        // a POSIX shell reads "<r>" as exactly the one word s, nothing expanded, everything consumed
        sh_yields(sh_word(seq!['"'] + r@ + seq!['"']), s@, Seq::<char>::empty()),
//@   >>>
//@   body_start <<<
    proof {
        reveal_strlit("\\\\");
        reveal_strlit("\\\"");
        reveal_strlit("\\$");
        reveal_strlit("\\`");
        assert("\\\\"@ =~= seq!['\\', '\\']);
        assert("\\\""@ =~= seq!['\\', '"']);
        assert("\\$"@ =~= seq!['\\', '$']);
        assert("\\`"@ =~= seq!['\\', '`']);
        lemma_dquote_one_word(s@, Seq::<char>::empty());
        assert(sh_dquote(s@) + Seq::<char>::empty() =~= seq!['"'] + dq(s@) + seq!['"']);
    }
//@   >>>
//@   mutant dq_backslash_second "s, '\\\\', \"\\\\\\\\\").as_str(), '\"', \"\\\\\\\"\")" => "s, '\"', \"\\\\\\\"\").as_str(), '\\\\', \"\\\\\\\\\")" expect shell_escape_double_quoted
//@   mutant dq_dollar_unescaped "'$', \"\\\\$\"" => "'$', \"$\"" expect shell_escape_double_quoted
//@   mutant dq_backquote_dropped "'`', \"\\\\`\"" => "'`', \"\"" expect shell_escape_double_quoted
//@   mutant dq_quote_unescaped "'\"', \"\\\\\\\"\"" => "'\"', \"\\\"\"" expect shell_escape_double_quoted
//@ end
