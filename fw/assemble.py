"""Assemble a Verus unit from a unit template and the *current* /repo sources.

Template language (lines starting with `//@`):

  //@ unit NAME
  //@ serves C02 C04
  //@ must_verify f g Type::h            (suffixes of Verus' function names)
  //@ include prelude/NAME.rs            (textual include, relative to /verif)
  //@ hook NAME                          (text produced by units/hooks.py:NAME(ctx))
  //@ extract FILE :: ITEMSPEC
  //@   ret r                            name the return value
  //@   sig <<<                          clauses between signature and body
  ...raw lines...
  //@   >>>
  //@   loop N <<< ... >>>               clauses before the body of the N-th loop
  //@   loop N iter NAME                 `for x in E` -> `for x in NAME: E`
  //@   body_start <<< ... >>>           ghost text right after the body's `{`
  //@   before "tokens" <<< ... >>>      ghost text before a unique token sequence
  //@   after "tokens" <<< ... >>>
  //@   subst "old" => "new"             exact-once token-sequence replacement
  //@   subst all "old" => "new"
  //@   subst <<< old //@ === new >>>
  //@   rule R0|R1|R3|R4                 generic rewrite rules (see DESIGN §3)
  //@   opaque_body                      keep the signature, assume the contract
  //@   mutant NAME "old" => "new" expect fn1,fn2
  //@ end

FILE is relative to /repo, or `dep:CRATE/path` (version pinned by Cargo.lock).
ITEMSPEC: `fn N` | `impl HEADER :: fn N` | `enum N` | `struct N` | `macro N` |
`make_fn N` | `const N` | `type N` | `impl HEADER`.

Every edit is recorded.  Inserts never remove executable tokens; substitutions
and rules are listed in the evidence as extraction drops.
"""
import hashlib
import os
import re
import glob
from rustlex import lex, match_close, find_seq, SourceFile, norm, OPEN

REPO = os.environ.get('VERIF_REPO', '/repo')
VERIF = os.path.dirname(os.path.dirname(os.path.abspath(__file__)))


class Undecided(Exception):
    """Extraction / splice problem: the check is undecided (exit 2), never a violation."""


_src_cache = {}


def cargo_lock_version(crate):
    txt = open(os.path.join(REPO, 'Cargo.lock')).read()
    m = re.search(r'name = "%s"\nversion = "([^"]+)"' % re.escape(crate), txt)
    if not m:
        raise Undecided('crate %s not in Cargo.lock' % crate)
    return m.group(1)


def resolve_file(spec):
    if spec.startswith('dep:'):
        crate, _, rel = spec[4:].partition('/')
        ver = cargo_lock_version(crate)
        cands = glob.glob(os.path.expanduser('~/.cargo/registry/src/*/%s-%s/%s' % (crate, ver, rel)))
        if not cands:
            raise Undecided('dependency source %s-%s/%s not found' % (crate, ver, rel))
        return cands[0]
    return os.path.join(REPO, spec)


def load_source(spec, overlay=None):
    path = resolve_file(spec)
    key = (path, id(overlay) if overlay else None)
    if key in _src_cache:
        return _src_cache[key]
    try:
        text = open(path).read()
    except OSError as e:
        raise Undecided('cannot read %s: %s' % (path, e))
    sf = SourceFile(path, text)
    _src_cache[key] = sf
    return sf


def unquote(s):
    s = s.strip()
    assert s[0] == '"' and s[-1] == '"', s
    return bytes(s[1:-1], 'utf-8').decode('unicode_escape') if '\\' in s else s[1:-1]


def split_arrow(s):
    """'"a" => "b"' -> (a, b), honouring quotes."""
    m = re.match(r'\s*("(?:[^"\\]|\\.)*")\s*=>\s*("(?:[^"\\]|\\.)*")\s*(.*)$', s)
    if not m:
        raise Undecided('bad subst syntax: ' + s)
    return unquote(m.group(1)), unquote(m.group(2)), m.group(3)


class Edit:
    def __init__(self, start, end, text, kind, note):
        self.start, self.end, self.text, self.kind, self.note = start, end, text, kind, note


def apply_edits(text, edits):
    edits = sorted(edits, key=lambda e: (e.start, e.end))
    out, pos = [], 0
    for e in edits:
        if e.start < pos:
            raise Undecided('overlapping edits near: %r / %s' % (text[e.start:e.end][:60], e.note))
        out.append(text[pos:e.start])
        out.append(e.text)
        pos = e.end
    out.append(text[pos:])
    return ''.join(out)


def tok_replace(text, old, new, all_=False, what='subst'):
    """Token-sequence replacement on `text`; returns (newtext, count)."""
    toks = lex(text)
    pat = [t.text for t in lex(old)]
    hits = find_seq(toks, pat)
    # drop overlapping hits
    sel, last_end = [], -1
    for h in hits:
        if h > last_end:
            sel.append(h)
            last_end = h + len(pat) - 1
    if not sel:
        raise Undecided('%s: anchor not found: %r' % (what, old))
    if len(sel) > 1 and not all_:
        raise Undecided('%s: anchor not unique (%d): %r' % (what, len(sel), old))
    edits = [Edit(toks[h].start, toks[h + len(pat) - 1].end, new, what, '') for h in sel]
    return apply_edits(text, edits), len(sel)


LOOPKW = ('while', 'for', 'loop')


def fn_parts(toks):
    """For the token list of a fn item: indices (fn_kw, params_open, params_close, body_open, body_close)."""
    k = next(i for i, t in enumerate(toks) if t.kind == 'ident' and t.text == 'fn')
    j = k + 2
    if toks[j].text == '<':
        depth = 0
        while True:
            if toks[j].text == '<':
                depth += 1
            elif toks[j].text == '>':
                depth -= 1
                if depth == 0:
                    break
            elif toks[j].text == '>>':
                depth -= 2
                if depth <= 0:
                    break
            j += 1
        j += 1
    assert toks[j].text == '(', toks[j].text
    pc = match_close(toks, j)
    b = pc + 1
    while toks[b].text not in ('{', ';'):
        if toks[b].text in ('(', '['):
            b = match_close(toks, b)
        b += 1
    if toks[b].text == ';':
        return k, j, pc, None, None
    return k, j, pc, b, match_close(toks, b)


def loops_in(toks, lo, hi):
    """Indices of loop keywords in toks[lo:hi] (excluding closures' nothing special), with header `{`."""
    res = []
    k = lo
    while k < hi:
        t = toks[k]
        if t.kind == 'ident' and t.text in LOOPKW:
            # `for<'a>` HRTB is not a loop
            if t.text == 'for' and toks[k + 1].text == '<':
                k += 1
                continue
            # labelled loops / method named `loop` do not occur; skip field access
            if k > 0 and toks[k - 1].text in ('.', '::'):
                k += 1
                continue
            j = k + 1
            while toks[j].text != '{':
                if toks[j].text in ('(', '['):
                    j = match_close(toks, j)
                j += 1
            res.append((k, j))
        k += 1
    return res


# ---------------------------------------------------------------- generic rules

def rule_R1T(text, log, taint=()):
    """R1 with information-flow labels: a format!(..) whose arguments mention one of the `taint`
    identifiers (other than as `NAME.type_name()`) becomes verif_msg_tainted(), every other one verif_msg()."""
    return rule_R1(text, log, taint=set(taint))


def rule_R1(text, log, taint=None):
    """format!(..)/eprintln!/println! -> opaque stubs (message text dropped)."""
    toks = lex(text)
    edits = []
    k = 0
    while k < len(toks) - 2:
        t = toks[k]
        if t.kind == 'ident' and toks[k + 1].text == '!' and toks[k + 2].text in ('(', '[', '{'):
            if t.text == 'format':
                e = match_close(toks, k + 2)
                if e + 4 < len(toks) and [x.text for x in toks[e + 1:e + 5]] == ['.', 'into', '(', ')']:
                    e += 4
                stub = 'verif_msg()' if taint is None else 'verif_msg_clean()'
                if taint:
                    inner = toks[k + 3:e]
                    for q, tt in enumerate(inner):
                        if tt.kind == 'ident' and tt.text in taint:
                            nxt = [x.text for x in inner[q + 1:q + 5]]
                            if nxt[:4] == ['.', 'type_name', '(', ')']:
                                continue
                            stub = 'verif_msg_tainted()'
                edits.append(Edit(t.start, toks[e].end, stub, 'R1', ''))
                log.append(('R1', text[t.start:toks[e].end], stub))
                k = e + 1
                continue
            if t.text in ('eprintln', 'println', 'eprint', 'print'):
                e = match_close(toks, k + 2)
                edits.append(Edit(t.start, toks[e].end, 'verif_print()', 'R1', ''))
                log.append(('R1', text[t.start:toks[e].end], 'verif_print()'))
                k = e + 1
                continue
        k += 1
    return apply_edits(text, edits)


def rule_R3(text, log, copy=()):
    """Reference patterns in match-arm heads / if-let / while-let patterns: drop the `&`.

    Only `&` directly followed by a path starting with an upper-case identifier, and
    `ref ` binders, inside the pattern part (up to `=>` or the `=` of a let).
    Dropping `&` turns by-value (Copy) binders into references; binders named in `copy`
    are re-bound by value (`let x = *x;`) as first statement of the arm / block, which
    restores the original binding mode.
    """
    toks = lex(text)
    edits = []
    copy = set(copy)

    def strip_range(a, b):
        changed = False
        for k in range(a, b):
            t = toks[k]
            if t.text == '&' and k + 1 < b and toks[k + 1].kind == 'ident' and toks[k + 1].text[0].isupper():
                prev = toks[k - 1].text if k > 0 else ''
                if prev in ('{', ',', '|', '(', 'let', '=>', '}', ';') or k == a:
                    edits.append(Edit(t.start, t.end, '', 'R3', ''))
                    log.append(('R3', '&' + toks[k + 1].text, toks[k + 1].text))
                    changed = True
            if t.kind == 'ident' and t.text == 'ref' and k + 1 < b and toks[k + 1].kind == 'ident':
                edits.append(Edit(t.start, toks[k + 1].start, '', 'R3', ''))
                log.append(('R3', 'ref ' + toks[k + 1].text, toks[k + 1].text))
        names = []
        if changed and copy:
            for k in range(a, b):
                t = toks[k]
                if t.kind == 'ident' and t.text in copy and t.text not in names and toks[k + 1].text != '(' and toks[k - 1].text != '::':
                    names.append(t.text)
        return names

    def rebind(block_open, names):
        if names:
            if toks[block_open].text != '{':
                raise Undecided('R3 copy binders %s need a block body' % names)
            txt = ' ' + ' '.join('let %s = *%s;' % (n, n) for n in names)
            edits.append(Edit(toks[block_open].end, toks[block_open].end, txt, 'R3copy', ''))
            log.append(('R3', 'by-value binders ' + ','.join(names), txt.strip()))

    depth = 0
    depths = []
    for t in toks:
        if t.text in OPEN:
            depth += 1
        depths.append(depth)
        if t.text in (')', ']', '}'):
            depth -= 1
    for k, t in enumerate(toks):
        if t.text == '=>':
            d = depths[k]
            a = k - 1
            while a >= 0:
                ta = toks[a]
                if depths[a] == d and ta.text in (',', '{'):
                    break
                if depths[a] == d + 1 and ta.text == '}' and depths[a] - 1 == d:
                    break
                if depths[a] < d:
                    break
                a -= 1
            names = strip_range(a + 1, k)
            rebind(k + 1, names)
        if t.kind == 'ident' and t.text == 'let' and k > 0 and toks[k - 1].text in ('if', 'while'):
            b = k + 1
            while toks[b].text != '=':
                if toks[b].text in OPEN:
                    b = match_close(toks, b)
                b += 1
            names = strip_range(k + 1, b)
            q = b + 1
            while toks[q].text != '{':
                if toks[q].text in ('(', '['):
                    q = match_close(toks, q)
                q += 1
            rebind(q, names)
    seen, uniq = set(), []
    for e in edits:
        key = (e.start, e.end, e.text)
        if key not in seen:
            seen.add(key)
            uniq.append(e)
    return apply_edits(text, uniq)


def rule_R4(text, log):
    """By-value `mut p: T` parameters -> `p__in: T` + `let mut p = p__in;`."""
    toks = lex(text)
    k, po, pc, bo, bc = fn_parts(toks)
    edits, lets = [], []
    j = po + 1
    while j < pc:
        if toks[j].text == 'mut' and toks[j + 1].kind == 'ident' and toks[j + 2].text == ':' and toks[j - 1].text in ('(', ','):
            name = toks[j + 1].text
            edits.append(Edit(toks[j].start, toks[j + 1].end, name + '__in', 'R4', ''))
            lets.append('let mut %s = %s__in;' % (name, name))
            log.append(('R4', 'mut %s' % name, '%s__in + let mut' % name))
        if toks[j].text in OPEN:
            j = match_close(toks, j)
        j += 1
    # `mut self` by value: Verus rejects it; rename the receiver inside the body
    if toks[po + 1].text == 'mut' and toks[po + 2].text == 'self' and toks[po + 3].text in (',', ')'):
        edits.append(Edit(toks[po + 1].start, toks[po + 2].start, '', 'R4', ''))
        lets.insert(0, 'let mut self__m = self;')
        for q in range(bo + 1, bc):
            if toks[q].kind == 'ident' and toks[q].text == 'self':
                edits.append(Edit(toks[q].start, toks[q].end, 'self__m', 'R4', ''))
        log.append(('R4', 'mut self', 'self + let mut self__m = self; (receiver renamed in the body)'))
    if lets:
        edits.append(Edit(toks[bo].end, toks[bo].end, '\n    ' + ' '.join(lets), 'R4', ''))
    return apply_edits(text, edits)


def rule_R0(text, log):
    """Drop outer attributes and doc comments inside/before a type or fn item."""
    toks = lex(text, keep_comments=True)
    edits = []
    k = 0
    while k < len(toks):
        t = toks[k]
        if t.kind == 'comment' and (t.text.startswith('///') or t.text.startswith('//!') or t.text.startswith('/**')):
            edits.append(Edit(t.start, t.end, '', 'R0', ''))
        if t.text == '#' and k + 1 < len(toks) and toks[k + 1].text == '[':
            # find the matching bracket among non-comment tokens
            depth, j = 0, k + 1
            while True:
                if toks[j].text == '[':
                    depth += 1
                elif toks[j].text == ']':
                    depth -= 1
                    if depth == 0:
                        break
                j += 1
            edits.append(Edit(t.start, toks[j].end, '', 'R0', ''))
            log.append(('R0', text[t.start:toks[j].end], ''))
            k = j
        k += 1
    return apply_edits(text, edits)


def rule_RV(text, log):
    """Visibility normalisation: private struct fields become `pub` (the unit is one flat crate)."""
    toks = lex(text)
    edits = []
    try:
        o = next(i for i, t in enumerate(toks) if t.text == '{')
    except StopIteration:
        return text
    c = match_close(toks, o)
    k = o + 1
    while k < c:
        t = toks[k]
        if t.text in OPEN:
            k = match_close(toks, k) + 1
            continue
        if t.kind == 'ident' and toks[k + 1].text == ':' and toks[k - 1].text in ('{', ',', ']'):
            edits.append(Edit(t.start, t.start, 'pub ', 'RV', ''))
        if t.text == '<':
            # skip generic args so that commas inside do not confuse us
            depth = 0
            while k < c:
                if toks[k].text == '<':
                    depth += 1
                elif toks[k].text == '>':
                    depth -= 1
                elif toks[k].text == '>>':
                    depth -= 2
                if depth <= 0:
                    break
                k += 1
        k += 1
    if edits:
        log.append(('RV', 'private fields', 'pub fields'))
    return apply_edits(text, edits)


F64_OPS = {'+': 'add', '-': 'sub', '*': 'mul', '/': 'div', '%': 'rem', '<': 'lt', '>': 'gt', '<=': 'le', '>=': 'ge', '==': 'eq', '!=': 'ne'}


def rule_R6(text, log, names=()):
    """Float arithmetic/comparison `x OP y` between the named float variables -> `verif_f64_<op>(x, y)` (uninterpreted
    models; the operator actually present in the source picks the model, so a changed operator is a changed contract
    term, not a lost anchor).  A name given as `*f` is emitted dereferenced."""
    emit = {}
    for n in names:
        emit[n.lstrip('*')] = n
    toks = lex(text)
    edits = []
    for k in range(len(toks) - 2):
        a, o, b = toks[k], toks[k + 1], toks[k + 2]
        if a.kind == 'ident' and b.kind == 'ident' and a.text in emit and b.text in emit and o.text in F64_OPS:
            if k > 0 and toks[k - 1].text in ('.', '::'):
                continue
            if k + 3 < len(toks) and toks[k + 3].text in ('.', '(', '::'):
                continue
            new = 'verif_f64_%s(%s, %s)' % (F64_OPS[o.text], emit[a.text], emit[b.text])
            edits.append(Edit(a.start, b.end, new, 'R6', ''))
            log.append(('R6', text[a.start:b.end], new))
    return apply_edits(text, edits)


RULES = {'R6': rule_R6, 'R1T': rule_R1T, 'RV': rule_RV, 'R0': rule_R0, 'R1': rule_R1, 'R3': rule_R3, 'R4': rule_R4}


def expand_make_fn(text):
    """R10: make_fn!(name<I, O>, RULE!(ARGS)); -> fn name(i: I) -> Result<I, O> { RULE!(i, ARGS) }
    and make_fn!(name<I,O>, f) -> fn name(i: I) -> Result<I,O> { f(i) }  (abortable_parser's definition)."""
    toks = lex(text)
    assert toks[0].text == 'make_fn'
    o = 2
    c = match_close(toks, o)
    j = o + 1
    pub = ''
    if toks[j].text == 'pub':
        pub = 'pub '
        j += 1
    name = toks[j].text
    assert toks[j + 1].text == '<'
    # I, O types: split at top-level comma inside <...>
    depth, a = 0, j + 1
    parts, cur = [], a + 1
    k = a
    while True:
        tt = toks[k].text
        if tt == '<':
            depth += 1
        elif tt == '>':
            depth -= 1
        elif tt == '>>':
            depth -= 2
        if tt in OPEN:
            k = match_close(toks, k)
        if depth == 1 and tt == ',':
            parts.append(text[toks[cur].start:toks[k].start].strip())
            cur = k + 1
        if depth <= 0:
            endtxt = text[toks[cur].start:toks[k].start] if depth == 0 else text[toks[cur].start:toks[k].start + 1]
            parts.append(endtxt.strip())
            break
        k += 1
    assert len(parts) == 2, parts
    assert toks[k + 1].text == ','
    rule_start = k + 2
    # RULE ! ( ARGS )  or plain ident
    if toks[rule_start + 1].text == '!':
        ro = rule_start + 2
        rc = match_close(toks, ro)
        args = text[toks[ro].end:toks[rc].start]
        body = '%s!(i, %s)' % (toks[rule_start].text, args.strip())
    else:
        body = '%s(i)' % toks[rule_start].text
    return '%sfn %s(i: %s) -> Result<%s, %s> {\n    %s\n}' % (pub, name, parts[0], parts[0], parts[1], body)


# ---------------------------------------------------------------- extraction

class Extracted:
    def __init__(self):
        self.out_text = ''
        self.records = []       # per item: dict(file, item, line, end_line, sha256, drops, inserts)
        self.mutants = []       # dict(name, block, old, new, expect)
        self.must_verify = []
        self.serves = []
        self.name = None
        self.fn_ranges = []     # (first_line, last_line, label) in the assembled file
        self.contracted = []    # function labels with a requires clause (vacuity canaries)


def split_arm(spec):
    m = re.match(r'(.*?)\s::\sarm\s+("(?:[^"\\]|\\.)*")\s*$', spec)
    if m:
        return m.group(1).strip(), unquote(m.group(2))
    return spec, None


def parse_itemspec(spec):
    parts = [p.strip() for p in spec.split('::')]
    # re-join: the impl header may contain '::' itself, so split on ' :: ' only
    parts = [p.strip() for p in re.split(r'\s::\s', spec)]
    container = None
    if len(parts) == 2:
        container, leaf = parts
    else:
        leaf = parts[0]
    kind, _, name = leaf.partition(' ')
    if kind == 'impl':
        return 'impl', leaf, None
    return kind, name.strip(), container


def process_extract(header, directives, ctx):
    """Return (text, record)."""
    m = re.match(r'(\S+)\s+::\s+(.*)$', header)
    if not m:
        raise Undecided('bad extract header: ' + header)
    fspec, ispec = m.group(1), m.group(2).strip()
    ispec_full = ispec
    ispec, arm = split_arm(ispec)
    kind, name, container = parse_itemspec(ispec)
    sf = load_source(fspec)
    found = sf.find(kind, name, container)
    if len(found) != 1:
        raise Undecided('extract %s :: %s: %d matches' % (fspec, ispec, len(found)))
    it = found[0]
    raw = it.text
    rec = dict(file=fspec, item=ispec, line=it.line(), end_line=it.end_line(),
               sha256=hashlib.sha256(raw.encode()).hexdigest(), drops=[], inserts=0, opaque=False)
    text = raw
    label = name if container is None else name
    if arm is not None:
        # a match arm of the function, wrapped into a function of its free variables (`wrap` directive)
        toks0 = lex(text)
        pat = [t.text for t in lex(arm)]
        hits = find_seq(toks0, pat)
        if len(hits) != 1:
            raise Undecided('arm %r of %s matches %d times' % (arm, name, len(hits)))
        a = hits[0] + len(pat)
        if toks0[a - 1].text != '=>':
            raise Undecided('arm anchor must end with =>')
        if toks0[a].text == '{':
            e = match_close(toks0, a)
        else:
            e = a
            while toks0[e + 1].text != ',' or False:
                if toks0[e].text in OPEN:
                    e = match_close(toks0, e)
                if toks0[e + 1].text == '}':
                    break
                e += 1
        body = text[toks0[a].start:toks0[e].end]
        wraps = [d[1] for d in directives if d[0] == 'wrap']
        if len(wraps) != 1 or '$BODY' not in wraps[0]:
            raise Undecided('arm extraction needs exactly one `wrap` directive containing $BODY')
        text = wraps[0].replace('$BODY', body)
        raw = body
        rec['sha256'] = hashlib.sha256(body.encode()).hexdigest()
        rec['item'] = ispec_full
        rec['drops'].append(('arm', 'match arm `%s` of %s' % (arm, name), 'wrapped as a function of its free variables'))
        wm = re.search(r'fn\s+(\w+)', wraps[0])
        label = wm.group(1) if wm else name
        kind = 'fn'
        if not any(d[0] == 'impl_header' for d in directives):
            container = None
    # 1. mutant (if this run applies one)
    for d in directives:
        if d[0] == 'mutant':
            mname, old, new, expect = d[1]
            ctx['mutants'].append(dict(name=mname, old=old, new=new, expect=expect, item=ispec, file=fspec))
            if ctx.get('apply_mutant') == mname and not ctx.get('mutant_post'):
                text, _ = tok_replace(text, old, new, what='mutant ' + mname)
                ctx['mutant_applied'] = True
    if kind == 'make_fn':
        new = expand_make_fn(text)
        rec['drops'].append(('R10', norm(text)[:200], norm(new)[:200]))
        text = new
        kind = 'fn'
    # 2. rules and substitutions, in the order written
    log = []
    degrade = ctx.get('apply_mutant') is None and not ctx.get('strict')
    for d in directives:
      try:
        if d[0] == 'rule':
            rm = re.match(r'(\w+)(?:\(([^)]*)\))?$', d[1])
            if not rm or rm.group(1) not in RULES:
                raise Undecided('unknown rule ' + d[1])
            if rm.group(2) is not None:
                text = RULES[rm.group(1)](text, log, [x.strip() for x in rm.group(2).split(',') if x.strip()])
            else:
                text = RULES[rm.group(1)](text, log)
        elif d[0] == 'arm_rebind':
            head, names = d[1]
            tk = lex(text)
            pat = [t.text for t in lex(head)]
            hits = find_seq(tk, pat)
            if len(hits) != 1 or tk[hits[0] + len(pat)].text != '{':
                raise Undecided('arm_rebind: arm %r not found exactly once with a block body' % head)
            b = tk[hits[0] + len(pat)]
            ins = ' ' + ' '.join('let %s = *%s;' % (n, n) for n in names)
            text = text[:b.end] + ins + text[b.end:]
            log.append(('R3', 'by-value binders %s of arm %s' % (','.join(names), head), ins.strip()))
        elif d[0] == 'subst':
            old, new, all_, optional = d[1]
            try:
                text, n = tok_replace(text, old, new, all_)
            except Undecided:
                if optional:
                    continue
                raise
            kindlbl = 'insert-only' if is_insert_only(old, new) else 'rewrite'
            log.append(('subst/' + kindlbl, old, new))
      except Undecided as e:
        # degraded mode: a directive whose anchor vanished is skipped; the unit is still assembled from the real
        # code with its `sig` contracts. A passing proof is sound; a failing one is then only UNDECIDED.
        if not degrade or d[0] == 'rule':
            raise
        ctx.setdefault('lost', []).append('%s: %s' % (name, e))
    for d in directives:
        if d[0] == 'mutant' and ctx.get('apply_mutant') == d[1][0] and ctx.get('mutant_post'):
            text, _ = tok_replace(text, d[1][1], d[1][2], what='mutant ' + d[1][0])
            ctx['mutant_applied'] = True
    rec['drops'] = rec['drops'] + [(a, b[:300], c[:300]) for (a, b, c) in log]
    # 3. inserts (contracts, ghost text) on the rewritten text
    if kind == 'fn':
        toks = lex(text)
        k, po, pc, bo, bc = fn_parts(toks)
        edits = []
        has_requires = False
        for d in directives:
          try:
            if d[0] == 'ret':
                # find `->` after params close, before body
                a = pc + 1
                if toks[a].text != '->':
                    raise Undecided('ret: %s has no return type' % name)
                e = a + 1
                endt = bo
                for q in range(a + 1, bo):
                    if toks[q].kind == 'ident' and toks[q].text == 'where':
                        endt = q
                        break
                ty = text[toks[a + 1].start:toks[endt - 1].end]
                edits.append(Edit(toks[a + 1].start, toks[endt - 1].end, '(%s: %s)' % (d[1], ty), 'ret', ''))
            elif d[0] == 'sig':
                edits.append(Edit(toks[bo].start, toks[bo].start, '\n' + d[1] + '\n', 'sig', ''))
                rec['inserts'] += 1
                if re.search(r'\brequires\b', d[1]):
                    has_requires = True
            elif d[0] == 'body_start':
                edits.append(Edit(toks[bo].end, toks[bo].end, '\n' + d[1] + '\n', 'ghost', ''))
                rec['inserts'] += 1
            elif d[0] == 'loop':
                n, payload, itername = d[1]
                lps = loops_in(toks, bo + 1, bc)
                if n < 1 or n > len(lps):
                    raise Undecided('%s: loop %d not found (%d loops)' % (name, n, len(lps)))
                kw, hb = lps[n - 1]
                if itername == 'indexed':
                    # R13: `for PAT in X.iter() {` / `for PAT in X.chars() {`  ->  indexed while loop
                    # (Verus' for-loops reject `continue`; the element order and count are those of the iterator)
                    if toks[kw].text != 'for':
                        raise Undecided('%s: loop %d is not a for loop' % (name, n))
                    q = kw + 1
                    while not (toks[q].kind == 'ident' and toks[q].text == 'in'):
                        if toks[q].text in OPEN:
                            q = match_close(toks, q)
                        q += 1
                    pat = text[toks[kw + 1].start:toks[q - 1].end]
                    ex = text[toks[q + 1].start:toks[hb - 1].end]
                    tail = [x.text for x in toks[hb - 4:hb]]
                    tail8 = [x.text for x in toks[hb - 8:hb]]
                    if tail8 == ['.', 'iter', '(', ')', '.', 'enumerate', '(', ')']:
                        # `for (counter, PAT) in X.iter().enumerate()`: counter is the index
                        base = text[toks[q + 1].start:toks[hb - 9].end]
                        init = 'let it__%d = (%s).as_slice();' % (n, base)
                        elem = '(i__%d, &it__%d[i__%d])' % (n, n, n)
                    elif tail == ['.', 'iter', '(', ')']:
                        base = text[toks[q + 1].start:toks[hb - 5].end]
                        init = 'let it__%d = (%s).as_slice();' % (n, base)
                        elem = '&it__%d[i__%d]' % (n, n)
                    elif tail == ['.', 'chars', '(', ')']:
                        base = text[toks[q + 1].start:toks[hb - 5].end]
                        init = 'let it__%d = verif_chars_vec(%s);' % (n, base)
                        elem = 'it__%d[i__%d]' % (n, n)
                    else:
                        raise Undecided('%s: loop %d: indexed form supports X.iter() / X.chars() only' % (name, n))
                    head = '%s let mut i__%d: usize = 0; while i__%d < it__%d.len()' % (init, n, n, n)
                    edits.append(Edit(toks[kw].start, toks[hb].start, head + ('\n' + payload + '\n' if payload else ' '), 'R13', ''))
                    edits.append(Edit(toks[hb].end, toks[hb].end, ' let %s = %s; i__%d += 1;' % (pat, elem, n), 'R13', ''))
                    rec['drops'].append(('R13', 'for %s in %s' % (pat, ex), 'indexed while over the same sequence'))
                    rec['inserts'] += 1
                    continue
                if itername:
                    if toks[kw].text != 'for':
                        raise Undecided('%s: loop %d is not a for loop' % (name, n))
                    q = kw + 1
                    while not (toks[q].kind == 'ident' and toks[q].text == 'in'):
                        if toks[q].text in OPEN:
                            q = match_close(toks, q)
                        q += 1
                    edits.append(Edit(toks[q].end, toks[q].end, ' %s:' % itername, 'iter', ''))
                if payload:
                    edits.append(Edit(toks[hb].start, toks[hb].start, '\n' + payload + '\n', 'loop', ''))
                    rec['inserts'] += 1
            elif d[0] == 'loop_body_end':
                n, payload = d[1]
                lps = loops_in(toks, bo + 1, bc)
                if n < 1 or n > len(lps):
                    raise Undecided('%s: loop %d not found (%d loops)' % (name, n, len(lps)))
                kw, hb = lps[n - 1]
                e = match_close(toks, hb)
                edits.append(Edit(toks[e].start, toks[e].start, '\n' + payload + '\n', 'ghost', ''))
                rec['inserts'] += 1
            elif d[0] == 'after_loop':
                n, payload = d[1]
                lps = loops_in(toks, bo + 1, bc)
                if n < 1 or n > len(lps):
                    raise Undecided('%s: loop %d not found (%d loops)' % (name, n, len(lps)))
                kw, hb = lps[n - 1]
                e = match_close(toks, hb)
                edits.append(Edit(toks[e].end, toks[e].end, '\n' + payload + '\n', 'ghost', ''))
                rec['inserts'] += 1
            elif d[0] in ('before', 'after'):
                anchor, payload, nth = d[1]
                pat = [t.text for t in lex(anchor)]
                hits = find_seq(toks, pat, bo, bc)
                if nth:
                    if len(hits) < nth:
                        raise Undecided('%s: anchor %r occurrence %d not found' % (name, anchor, nth))
                    h = hits[nth - 1]
                elif len(hits) != 1:
                    raise Undecided('%s: anchor %r matches %d times' % (name, anchor, len(hits)))
                else:
                    h = hits[0]
                pos = toks[h].start if d[0] == 'before' else toks[h + len(pat) - 1].end
                edits.append(Edit(pos, pos, '\n' + payload + '\n', 'ghost', ''))
                rec['inserts'] += 1
          except Undecided as e:
            if not degrade or d[0] in ('ret', 'sig'):
                raise
            ctx.setdefault('lost', []).append('%s: %s' % (name, e))
        opaque = any(d[0] == 'opaque_body' for d in directives)
        if opaque:
            edits.append(Edit(toks[bo].start, toks[bc].end, '{ unimplemented!() }', 'opaque', ''))
            edits.append(Edit(toks[0].start, toks[0].start, '#[verifier::external_body]\n', 'opaque', ''))
            rec['opaque'] = True
            rec['drops'].append(('opaque_body', 'body of %s' % name, 'assumed contract'))
        if ctx.get('vacuity') and has_requires and not opaque:
            edits.append(Edit(toks[bo].end, toks[bo].end, ' assert(false); ', 'canary', ''))
        if has_requires and not opaque:
            ctx['contracted'].append(label)
        text = apply_edits(text, edits)
    else:
        for d in directives:
            if d[0] in ('ret', 'sig', 'loop', 'before', 'after', 'body_start', 'opaque_body', 'after_loop', 'loop_body_end'):
                raise Undecided('directive %s on non-fn item %s' % (d[0], ispec))
    if container is not None and kind == 'fn' and not any(d[0] == 'no_impl' for d in directives):
        hdr = None
        for imp in sf.items:
            if imp.kind == 'impl' and imp.first <= it.first and imp.last >= it.last:
                hdr = sf.src[sf.toks[imp.first].start:sf.toks[imp.body_open].start].strip()
        for d in directives:
            if d[0] == 'impl_header':
                hdr = d[1]
        text = '%s {\n%s\n}' % (hdr, text)
    return text, rec, label


def is_insert_only(old, new):
    a = [t.text for t in lex(old)]
    b = [t.text for t in lex(new)]
    i = 0
    for x in b:
        if i < len(a) and a[i] == x:
            i += 1
    return i == len(a)


def assemble(unit_path, apply_mutant=None, vacuity=False, hooks=None):
    if apply_mutant:
        # a mutant is applied to the raw source text; if that makes a later substitution lose its
        # anchor, apply it after the substitutions instead (the mutant text must then match the rewritten form)
        try:
            return _assemble(unit_path, apply_mutant, vacuity, hooks, False)
        except Undecided:
            return _assemble(unit_path, apply_mutant, vacuity, hooks, True)
    return _assemble(unit_path, apply_mutant, vacuity, hooks, False)


def _assemble(unit_path, apply_mutant, vacuity, hooks, mutant_post):
    lines = open(unit_path).read().split('\n')
    ex = Extracted()
    ctx = dict(mutants=[], apply_mutant=apply_mutant, vacuity=vacuity, contracted=[], mutant_post=mutant_post, strict=bool(os.environ.get('VERIF_STRICT_ANCHORS')))
    out = []
    i = 0

    def cur_line():
        return sum(s.count('\n') + 1 for s in out) + 1

    while i < len(lines):
        ln = lines[i]
        s = ln.strip()
        if not s.startswith('//@'):
            out.append(ln)
            i += 1
            continue
        body = s[3:].strip()
        cmd, _, rest = body.partition(' ')
        rest = rest.strip()
        if cmd == 'unit':
            ex.name = rest
        elif cmd == 'serves':
            ex.serves = rest.split()
        elif cmd == 'must_verify':
            ex.must_verify += rest.split()
        elif cmd == 'include':
            inc = open(os.path.join(VERIF, rest)).read().split('\n')
            lines[i + 1:i + 1] = inc
        elif cmd == 'opaque':
            # R5: types the extracted code only moves around
            for ty in rest.split():
                out.append('#[verifier::external_body]\npub struct %s { _p: u8 }' % ty)
        elif cmd == 'clone_spec':
            # R0: derived Clone is assumed structural
            for ty in rest.split():
                out.append('impl Clone for %s {\n    #[verifier::external_body]\n    fn clone(&self) -> (r: Self)\n        ensures r == *self\n    { unimplemented!() }\n}' % ty)
        elif cmd == 'hook':
            if hooks is None or not hasattr(hooks, rest):
                raise Undecided('hook %s missing' % rest)
            out.append(getattr(hooks, rest)(ctx))
        elif cmd == 'extract':
            directives = []
            i += 1
            while True:
                if i >= len(lines):
                    raise Undecided('unterminated extract block: ' + rest)
                s2 = lines[i].strip()
                if not s2.startswith('//@'):
                    if s2 == '' or s2.startswith('//'):
                        i += 1
                        continue
                    raise Undecided('stray line in extract block: ' + s2)
                b2 = s2[3:].strip()
                if b2 == 'end':
                    break
                heredoc = None
                if b2.endswith('<<<'):
                    b2 = b2[:-3].strip()
                    payload = []
                    i += 1
                    while re.sub(r'\s+', '', lines[i]) != '//@>>>':
                        payload.append(lines[i])
                        i += 1
                    heredoc = '\n'.join(payload)
                c2, _, r2 = b2.partition(' ')
                r2 = r2.strip()
                if c2 == 'ret':
                    directives.append(('ret', r2))
                elif c2 == 'sig':
                    directives.append(('sig', heredoc if heredoc is not None else r2))
                elif c2 == 'body_start':
                    directives.append(('body_start', heredoc if heredoc is not None else r2))
                elif c2 == 'loop':
                    mm = re.match(r'(\d+)(?:\s+iter\s+(\w+)|\s+(indexed))?\s*(.*)$', r2)
                    directives.append(('loop', (int(mm.group(1)), heredoc if heredoc is not None else (mm.group(4) or None), mm.group(2) or mm.group(3))))
                elif c2 == 'loop_body_end':
                    directives.append(('loop_body_end', (int(r2.split()[0]), heredoc if heredoc is not None else '')))
                elif c2 == 'after_loop':
                    directives.append(('after_loop', (int(r2.split()[0]), heredoc if heredoc is not None else '')))
                elif c2 in ('before', 'after'):
                    mm = re.match(r'("(?:[^"\\]|\\.)*")(?:\s+nth\s+(\d+))?\s*(.*)$', r2)
                    directives.append((c2, (unquote(mm.group(1)), heredoc if heredoc is not None else mm.group(3), int(mm.group(2)) if mm.group(2) else None)))
                elif c2 in ('subst', 'subst?'):
                    optional = c2.endswith('?')
                    all_ = False
                    if r2.startswith('all'):
                        all_ = True
                        r2 = r2[3:].strip()
                    if heredoc is not None:
                        old, _, new = heredoc.partition('//@ ===')
                        directives.append(('subst', (old.strip(), new.strip('\n'), all_, optional)))
                    else:
                        old, new, _ = split_arrow(r2)
                        directives.append(('subst', (old, new, all_, optional)))
                elif c2 == 'rule':
                    for r in r2.split():
                        directives.append(('rule', r))
                elif c2 == 'arm_rebind':
                    mm = re.match(r'("(?:[^"\\]|\\.)*")\s+(.*)$', r2)
                    directives.append(('arm_rebind', (unquote(mm.group(1)), mm.group(2).replace(',', ' ').split())))
                elif c2 == 'no_impl':
                    directives.append(('no_impl', None))
                elif c2 == 'wrap':
                    directives.append(('wrap', heredoc if heredoc is not None else r2))
                elif c2 == 'opaque_body':
                    directives.append(('opaque_body', None))
                elif c2 == 'impl_header':
                    directives.append(('impl_header', r2))
                elif c2 == 'mutant':
                    mm = re.match(r'(\w+)\s+(.*)$', r2)
                    old, new, tail = split_arrow(mm.group(2))
                    em = re.match(r'expect\s+(\S+)', tail.strip())
                    directives.append(('mutant', (mm.group(1), old, new, em.group(1).split(',') if em else [])))
                else:
                    raise Undecided('unknown directive: ' + b2)
                i += 1
            text, rec, label = process_extract(rest, directives, ctx)
            first = cur_line() + 1
            out.append('// ---- extracted: %s :: %s (lines %d-%d) ----' % (rec['file'], rec['item'], rec['line'], rec['end_line']))
            out.append(text)
            rec['out_lines'] = (first, first + text.count('\n'))
            rec['label'] = label
            ex.records.append(rec)
        elif cmd in ('end', '>>>'):
            raise Undecided('stray //@ %s' % cmd)
        else:
            raise Undecided('unknown top-level directive: ' + body)
        i += 1
    if apply_mutant and not ctx.get('mutant_applied'):
        raise Undecided('mutant %s not found in unit' % apply_mutant)
    ex.out_text = '\n'.join(out) + '\n'
    ex.mutants = ctx['mutants']
    ex.contracted = ctx['contracted']
    ex.lost = ctx.get('lost', [])
    return ex
