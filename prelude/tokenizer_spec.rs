// ---- prelude/tokenizer_spec.rs: the oracle and the shared lemmas of units tokenizer / tokenizer_alt / tokenizer_loop (inside verus!) ----
// What a token's text, extent and position must be (from the property statement C11 and reference/grammar.md), the loop
// clauses spliced into abortable_parser's macros (prelude/tokenizer_macros.rs), UTF-8 boundary facts (proved from
// vstd::utf8, nothing axiomatised).  Needs prelude/core.rs and prelude/stepper_iter.rs before it.
//@ extract src/ast/mod.rs :: struct Position
//@   rule R0
//@ end
//@ extract src/ast/mod.rs :: enum TokenType
//@   rule R0
//@ end
//@ extract src/ast/mod.rs :: struct Token
//@   rule R0
//@ end

// ---------- vocabulary ----------
pub open spec fn bytes_of(i: OffsetStrIter) -> Seq<u8> { src_bytes(i.contained) }
pub open spec fn off_of(i: OffsetStrIter) -> int { i.contained.offset as int }
pub open spec fn same_frame(a: OffsetStrIter, b: OffsetStrIter) -> bool {
    a.contained.source == b.contained.source && a.source_file == b.source_file
    && a.line_offset == b.line_offset && a.col_offset == b.col_offset
}
// r is i's stepper moved to byte offset k, still reporting the true line/column of k
pub open spec fn moved(i: OffsetStrIter, r: OffsetStrIter, k: int) -> bool {
    same_frame(r, i) && wf_osi(r) && off_of(r) == k
}
// the position a token starting where `i` stands must report: the true line (1 + LFs before), the true column
// (bytes since the last LF, 1-based), the byte offset (prelude/stepper_iter.rs)
pub open spec fn pos_is(p: Position, i: OffsetStrIter) -> bool {
    &&& p.file == i.source_file
    &&& p.offset == off_of(i)
    &&& p.line == true_line(bytes_of(i), off_of(i)) + i.line_offset
    &&& p.column == true_column(bytes_of(i), off_of(i)) + i.col_offset
}

//@ include prelude/tokenizer_ap.rs

//@ extract src/iter.rs :: impl * From<&'a OffsetStrIter<'a>> for Position :: fn from
//@   impl_header impl<'a> Position
//@   ret r
//@   sig <<<
        requires wf_osi(*s)
        ensures pos_is(r, *s)
//@   >>>
//@ end

// ---------- Token construction ----------
// R7: `Token::new<S: Into<Rc<str>>, P: Into<Position>>` is used by the comment recogniser at S = String,
// P = &OffsetStrIter; `p.into()` is then `<Position as From<&OffsetStrIter>>::from(p)` (src/iter.rs, extracted above).
//@ extract src/ast/mod.rs :: impl Token :: fn new
//@   rule R0
//@   subst "new<S: Into<Rc<str>>, P: Into<Position>>(f: S, typ: TokenType, p: P)" => "new<'a>(f: String, typ: TokenType, p: &'a OffsetStrIter<'a>)"
//@   subst "p.into()" => "Position::from(p)"
//@   ret r
//@   sig <<<
        requires wf_osi(*p)
        ensures r.fragment@ == f@, r.typ == typ, pos_is(r.pos, *p)
//@   >>>
//@ end
//@ extract src/ast/mod.rs :: impl Token :: fn new_with_pos
//@   subst "new_with_pos<S: Into<Rc<str>>>(f: S," => "new_with_pos(f: String,"
//@   ret r
//@   sig <<<
        ensures r.fragment@ == f@, r.typ == typ, r.pos == pos
//@   >>>
//@ end
//@ extract src/ast/mod.rs :: macro make_tok
//@   rule R0
//@ end

// =====================================================================================================
// UTF-8: "the stepper stands on a character boundary"
// =====================================================================================================
// on_boundary(bs, k): the rest of the text from k on is well-formed UTF-8 (vstd::utf8::valid_utf8).  For the bytes of a
// &str this is `str::is_char_boundary(k)` (lemma_boundary_is_char_boundary), and it holds at every ASCII byte and at the
// end (lemma_ascii_on_boundary): nothing here is a caller obligation.
#[verifier::opaque]
pub open spec fn suffix_valid(bs: Seq<u8>, k: int) -> bool { valid_utf8(bs.skip(k)) }
pub open spec fn on_boundary(bs: Seq<u8>, k: int) -> bool { 0 <= k <= bs.len() && suffix_valid(bs, k) }

// a byte on a boundary is not a continuation byte (10xxxxxx); an ASCII byte is a whole character
pub proof fn lemma_boundary_step(bs: Seq<u8>, k: int)
    requires on_boundary(bs, k), k < bs.len()
    ensures !is_continuation_byte(bs[k]), bs[k] != 0x85, bs[k] != 0xA0, bs[k] < 0x80 ==> on_boundary(bs, k + 1),
{
    reveal(suffix_valid);
    reveal_with_fuel(valid_utf8, 2);
    assert(bs.skip(k)[0] == bs[k]);
    assert(bs.skip(k).skip(1) =~= bs.skip(k + 1));
    assert(0x85u8 & 0xC0 == 0x80 && 0xA0u8 & 0xC0 == 0x80) by (bit_vector);
}
pub proof fn lemma_ascii_steps(bs: Seq<u8>, o: int, n: int)
    requires on_boundary(bs, o), 0 <= n, o + n <= bs.len(), forall|j: int| o <= j < o + n ==> #[trigger] bs[j] < 0x80
    ensures on_boundary(bs, o + n)
    decreases n
{
    if n > 0 { lemma_ascii_steps(bs, o, n - 1); lemma_boundary_step(bs, o + n - 1); }
}
// a byte of well-formed UTF-8 that is not a continuation byte starts a character
pub proof fn lemma_suffix_valid(bs: Seq<u8>, k: int)
    requires valid_utf8(bs), 0 <= k < bs.len(), !is_continuation_byte(bs[k])
    ensures valid_utf8(bs.skip(k))
    decreases bs.len()
{
    if k == 0 {
        assert(bs.skip(0) =~= bs);
    } else {
        let w = length_of_first_scalar(bs);
        assert(valid_first_scalar(bs));
        assert(pop_first_scalar(bs) =~= bs.skip(w));
        assert(forall|j: int| 1 <= j < w ==> is_continuation_byte(#[trigger] bs[j]));
        assert(w <= k);
        lemma_suffix_valid(pop_first_scalar(bs), k - w);
        assert(bs.skip(w).skip(k - w) =~= bs.skip(k));
    }
}
// on_boundary is str::is_char_boundary (vstd's model of it) on the bytes of a &str
pub proof fn lemma_boundary_is_char_boundary(s: &str, k: int)
    requires on_boundary(encode_utf8(s@), k)
    ensures is_char_boundary(encode_utf8(s@), k)
{
    let bs = encode_utf8(s@);
    encode_utf8_valid_utf8(s@);
    if k < bs.len() {
        lemma_boundary_step(bs, k);
        is_char_boundary_iff_not_is_continuation_byte(bs, k);
    } else {
        is_char_boundary_start_end_of_seq(bs);
    }
}
// in the bytes of a &str every ASCII byte, and the end, is a character boundary
pub proof fn lemma_ascii_on_boundary(s: &str, k: int)
    requires 0 <= k <= encode_utf8(s@).len(), k < encode_utf8(s@).len() ==> encode_utf8(s@)[k] < 0x80
    ensures on_boundary(encode_utf8(s@), k)
{
    reveal(suffix_valid);
    let bs = encode_utf8(s@);
    encode_utf8_valid_utf8(s@);
    if k < bs.len() {
        let b = bs[k];
        assert(b < 0x80 ==> b & 0xC0 != 0x80) by (bit_vector);
        lemma_suffix_valid(bs, k);
    } else {
        assert(bs.skip(k) =~= Seq::<u8>::empty());
    }
}

// =====================================================================================================
// text_token!: "the input starts with this text"
// =====================================================================================================
pub open spec fn lit(s: &str) -> Seq<u8> { encode_utf8(s@) }
pub open spec fn prefix_matches(bs: Seq<u8>, o: int, e: Seq<u8>, k: int) -> bool {
    forall|j: int| 0 <= j < k ==> bs[o + j] == #[trigger] e[j]
}
pub open spec fn starts_with_at(bs: Seq<u8>, o: int, e: Seq<u8>) -> bool {
    0 <= o && o + e.len() <= bs.len() && prefix_matches(bs, o, e, e.len() as int)
}
// clauses of the loop of text_token!(start, e): k bytes of e have been compared, `count` of them were equal
pub open spec fn text_token_inv(start: OffsetStrIter, cur: OffsetStrIter, it: Seq<u8>, e: &str, k: int, count: int) -> bool {
    &&& it == lit(e) && 0 <= k <= it.len() && 0 <= count <= k
    &&& moved(start, cur, off_of(start) + k)
    &&& (count == k) == prefix_matches(bytes_of(start), off_of(start), it, k)
}
pub open spec fn text_token_done(start: OffsetStrIter, cur: OffsetStrIter, e: &str, count: int) -> bool {
    &&& wf_osi(cur) && same_frame(cur, start) && 0 <= count <= lit(e).len()
    &&& (count == lit(e).len()) == starts_with_at(bytes_of(start), off_of(start), lit(e))
    &&& count == lit(e).len() ==> off_of(cur) == off_of(start) + lit(e).len()
}

// ASCII text is its own UTF-8 (vstd::utf8::is_ascii_chars_encode_utf8)
pub proof fn lemma_ascii_text(t: Seq<char>)
    requires is_ascii_chars(t)
    ensures encode_utf8(t).len() == t.len(),
        forall|j: int| 0 <= j < t.len() ==> #[trigger] encode_utf8(t)[j] == t[j] as u8 && encode_utf8(t)[j] < 0x80,
{
    is_ascii_chars_encode_utf8(t);
}
// after a fixed ASCII text the stepper is on a character boundary again
pub proof fn lemma_fixed_text(bs: Seq<u8>, o: int, t: Seq<char>)
    requires is_ascii_chars(t)
    ensures encode_utf8(t).len() == t.len(),
        (on_boundary(bs, o) && starts_with_at(bs, o, encode_utf8(t))) ==> on_boundary(bs, o + t.len()),
{
    lemma_ascii_text(t);
    let e = encode_utf8(t);
    if on_boundary(bs, o) && starts_with_at(bs, o, e) {
        assert forall|j: int| o <= j < o + t.len() implies #[trigger] bs[j] < 0x80 by {
            assert(bs[o + (j - o)] == e[j - o]);
        }
        lemma_ascii_steps(bs, o, t.len() as int);
    }
}
pub proof fn lemma_starts_1(bs: Seq<u8>, o: int, a: u8)
    ensures starts_with_at(bs, o, seq![a]) == (0 <= o < bs.len() && bs[o] == a)
{
    let e = seq![a];
    if starts_with_at(bs, o, e) { assert(bs[o + 0] == e[0]); }
}
pub proof fn lemma_starts_2(bs: Seq<u8>, o: int, a: u8, b: u8)
    ensures starts_with_at(bs, o, seq![a, b]) == (0 <= o && o + 2 <= bs.len() && bs[o] == a && bs[o + 1] == b)
{
    let e = seq![a, b];
    if starts_with_at(bs, o, e) { assert(bs[o + 0] == e[0]); assert(bs[o + 1] == e[1]); }
}
pub proof fn lemma_starts_first(bs: Seq<u8>, o: int, e: Seq<u8>)
    requires e.len() > 0, starts_with_at(bs, o, e)
    ensures 0 <= o < bs.len(), bs[o] == e[0]
{
    assert(bs[o + 0] == e[0]);
}

// =====================================================================================================
// the token oracle
// =====================================================================================================
// the token's text is the text at its position
pub open spec fn token_text(bs: Seq<u8>, o: int, e: int, tok: Token) -> bool {
    let f = encode_utf8(tok.fragment@);
    match tok.typ {
        // operators, punctuation, numbers, true/false, NULL: the token is exactly the source text it covers
        TokenType::PUNCT | TokenType::BOOLEAN | TokenType::EMPTY | TokenType::DIGIT =>
            f.len() > 0 && starts_with_at(bs, o, f) && e == o + f.len(),
        // words: exactly the source text; a keyword also covers the separator that must follow it
        TokenType::BAREWORD => f.len() > 0 && starts_with_at(bs, o, f) && o + f.len() <= e,
        TokenType::COMMENT => starts_comment(bs, o) && f == bs.subrange(o + 2, cmt_end(bs, o + 2)) && e == cmt_next(bs, cmt_end(bs, o + 2)),
        TokenType::WS => tok.fragment@.len() == 0 && e == ws_end(bs, o) && e > o,
        TokenType::END => tok.fragment@.len() == 0 && e == o && o >= bs.len(),
        // strings: from the opening to the closing quote (the VALUE is unit lit_roundtrip's contract)
        TokenType::QUOTED => o + 2 <= e && bs[o] == 0x22 && bs[e - 1] == 0x22,
        TokenType::PIPEQUOTE => false,
    }
}
// what every token satisfies, whichever recogniser made it
pub open spec fn token_shape<'a>(i: OffsetStrIter<'a>, rest: OffsetStrIter<'a>, tok: Token) -> bool {
    let bs = bytes_of(i); let o = off_of(i); let e = off_of(rest);
    // the rest is the same stepper further on, still reporting true positions
    &&& moved(i, rest, e) && o <= e <= bs.len()
    // the token reports the line, column and byte offset at which it really starts
    &&& pos_is(tok.pos, i)
    // progress: only the END token, at the end of the input, is empty
    &&& (e == o ==> tok.typ is END)
    // tokens end on character boundaries
    &&& (on_boundary(bs, o) ==> on_boundary(bs, e))
    &&& token_text(bs, o, e, tok)
}
// =====================================================================================================
// whitespace
// =====================================================================================================
// the oracle: ASCII whitespace = u8::is_ascii_whitespace (space, \t, \n, form feed, \r) plus vertical tab.  The reference
// grammar only says "WS is any non-visible utf-8 whitespace"; `ascii_ws` of the pinned abortable_parser 0.2.3 asks
// `(byte as char).is_whitespace()`, i.e. exactly these six bytes plus 0x85 and 0xA0 (lemma_ws_dep_set), which in the
// bytes of a &str only occur inside multi-byte characters (lemma_ws_run_is_ascii).
pub open spec fn ws_ascii(b: u8) -> bool { b == 0x20 || b == 0x09 || b == 0x0A || b == 0x0B || b == 0x0C || b == 0x0D }
pub proof fn lemma_ws_dep_set(b: u8)
    ensures ws_dep(b) == (ws_ascii(b) || b == 0x85 || b == 0xA0)
{
}
// end of the maximal run of bytes `ascii_ws` accepts that starts at k
pub open spec fn ws_end(bs: Seq<u8>, k: int) -> int
    decreases bs.len() - k
{
    if 0 <= k < bs.len() && ws_dep(bs[k]) { ws_end(bs, k + 1) } else { k }
}
// ... and of the maximal run of ASCII whitespace (the oracle)
pub open spec fn ws_ascii_end(bs: Seq<u8>, k: int) -> int
    decreases bs.len() - k
{
    if 0 <= k < bs.len() && ws_ascii(bs[k]) { ws_ascii_end(bs, k + 1) } else { k }
}
pub proof fn lemma_ws_end_bounds(bs: Seq<u8>, k: int)
    requires 0 <= k <= bs.len()
    ensures k <= ws_end(bs, k) <= bs.len(), k <= ws_ascii_end(bs, k) <= bs.len(),
    decreases bs.len() - k
{
    if k < bs.len() { lemma_ws_end_bounds(bs, k + 1); }
}
// On a character boundary of well-formed UTF-8 the two extra bytes never occur: the run `ascii_ws` consumes is the run
// of ASCII whitespace, and it ends on a character boundary again.
pub proof fn lemma_ws_run_is_ascii(bs: Seq<u8>, k: int)
    requires on_boundary(bs, k)
    ensures ws_end(bs, k) == ws_ascii_end(bs, k), on_boundary(bs, ws_end(bs, k)),
    decreases bs.len() - k
{
    if k < bs.len() {
        lemma_boundary_step(bs, k);
        lemma_ws_dep_set(bs[k]);
        if ws_dep(bs[k]) { lemma_ws_run_is_ascii(bs, k + 1); }
    }
}
// clauses of the loop in repeat!(ascii_ws): `cur` is `start` moved forward inside the run that begins at `start`
pub open spec fn repeat_inv(start: OffsetStrIter, cur: OffsetStrIter) -> bool {
    &&& wf_osi(start) && moved(start, cur, off_of(cur))
    &&& off_of(start) <= off_of(cur) <= bytes_of(start).len()
    &&& ws_end(bytes_of(start), off_of(cur)) == ws_end(bytes_of(start), off_of(start))
}
pub open spec fn repeat_done(start: OffsetStrIter, cur: OffsetStrIter) -> bool {
    &&& wf_osi(start) && moved(start, cur, off_of(cur))
    &&& off_of(cur) == ws_end(bytes_of(start), off_of(start))
}
pub open spec fn repeat_left(cur: OffsetStrIter) -> int { bytes_of(cur).len() - off_of(cur) }

pub open spec fn whitespace_tok<'a>(i: OffsetStrIter<'a>, r: Result<OffsetStrIter<'a>, Token>) -> bool {
    let bs = bytes_of(i); let o = off_of(i);
    &&& if ws_end(bs, o) == o {
            // empty run: no token
            r is Fail
        } else {
            // exactly the maximal run is consumed; one WS token with empty text at the true start position
            r matches Result::Complete(rest, tok) && off_of(rest) == ws_end(bs, o)
            && tok.typ is WS && tok.fragment@ =~= Seq::<char>::empty() && token_shape(i, rest, tok)
        }
    // the run is the run of ASCII whitespace (space, \t, \n, VT, FF, \r) whenever the stepper stands on a character
    // boundary (it always does: `tokenize` keeps it there)
    &&& on_boundary(bs, o) ==> ws_end(bs, o) == ws_ascii_end(bs, o)
}

// =====================================================================================================
// comment
// =====================================================================================================
pub open spec fn is_lf(bs: Seq<u8>, j: int) -> bool { 0 <= j < bs.len() && bs[j] == 0x0A }
pub open spec fn is_crlf(bs: Seq<u8>, j: int) -> bool { 0 <= j && j + 1 < bs.len() && bs[j] == 0x0D && bs[j + 1] == 0x0A }
// the comment text ends at j: end of input, LF, or CR LF.  A CR that is not followed by LF is comment text.
pub open spec fn cmt_ends_at(bs: Seq<u8>, j: int) -> bool { j >= bs.len() || is_lf(bs, j) || is_crlf(bs, j) }
// the first such position at or after s
pub open spec fn cmt_end(bs: Seq<u8>, s: int) -> int
    decreases bs.len() - s
{
    if s >= bs.len() || cmt_ends_at(bs, s) { s } else { cmt_end(bs, s + 1) }
}
// where the next token starts: after the line terminator, which belongs to the comment token but not to its text
pub open spec fn cmt_next(bs: Seq<u8>, e: int) -> int { if is_crlf(bs, e) { e + 2 } else if is_lf(bs, e) { e + 1 } else { e } }
pub open spec fn starts_comment(bs: Seq<u8>, o: int) -> bool { 0 <= o && o + 2 <= bs.len() && bs[o] == 0x2F && bs[o + 1] == 0x2F }

pub proof fn lemma_cmt_lits()
    ensures lit("//") =~= seq![0x2Fu8, 0x2Fu8], lit("\r\n") =~= seq![0x0Du8, 0x0Au8], lit("\n") =~= seq![0x0Au8],
{
    reveal_strlit("//"); lemma_ascii_text("//"@);
    reveal_strlit("\r\n"); lemma_ascii_text("\r\n"@);
    reveal_strlit("\n"); lemma_ascii_text("\n"@);
}
pub proof fn lemma_cmt_end_bounds(bs: Seq<u8>, s: int)
    requires 0 <= s <= bs.len()
    ensures s <= cmt_end(bs, s) <= bs.len(), s <= cmt_next(bs, cmt_end(bs, s)) <= bs.len()
    decreases bs.len() - s
{
    if s < bs.len() && !cmt_ends_at(bs, s) { lemma_cmt_end_bounds(bs, s + 1); }
}

// the rule until! is used with, as the combinators see it: either!(eoi, text_token!("\r\n"), text_token!("\n"))
pub open spec fn cmt_stop(bs: Seq<u8>, j: int) -> bool {
    j >= bs.len() || starts_with_at(bs, j, lit("\r\n")) || starts_with_at(bs, j, lit("\n"))
}
pub proof fn lemma_cmt_stop(bs: Seq<u8>, j: int)
    requires 0 <= j
    ensures cmt_stop(bs, j) == cmt_ends_at(bs, j),
        starts_with_at(bs, j, lit("\r\n")) == is_crlf(bs, j), starts_with_at(bs, j, lit("\n")) == is_lf(bs, j),
{
    lemma_cmt_lits();
    lemma_starts_2(bs, j, 0x0D, 0x0A); lemma_starts_1(bs, j, 0x0A);
}
pub proof fn lemma_cmt_end_least(bs: Seq<u8>, s: int, e: int)
    requires 0 <= s <= e <= bs.len(), cmt_ends_at(bs, e), forall|j: int| s <= j < e ==> !cmt_ends_at(bs, j)
    ensures cmt_end(bs, s) == e
    decreases e - s
{
    if s < e { lemma_cmt_end_least(bs, s + 1, e); }
}
// clauses of the loop of until!(start, <the rule above>): no terminator between `start` and `cur`
pub open spec fn until_inv(start: OffsetStrIter, cur: OffsetStrIter) -> bool {
    &&& wf_osi(start) && on_boundary(bytes_of(start), off_of(start))
    &&& moved(start, cur, off_of(cur)) && off_of(start) <= off_of(cur) <= bytes_of(start).len()
    &&& forall|j: int| off_of(start) <= j < off_of(cur) ==> !cmt_stop(bytes_of(start), j)
}
pub open spec fn until_post<'a>(start: OffsetStrIter<'a>, r: Result<OffsetStrIter<'a>, &'a str>) -> bool {
    r matches Result::Complete(rest, sp) && (until_inv(start, rest) && cmt_stop(bytes_of(start), off_of(rest))
    && encode_utf8(sp@) == bytes_of(start).subrange(off_of(start), off_of(rest)))
}
// the span until! cuts out lies on character boundaries
pub proof fn lemma_until_span(start: OffsetStrIter, cur: OffsetStrIter)
    requires until_inv(start, cur), cmt_stop(bytes_of(start), off_of(cur))
    ensures span_ok(bytes_of(start), off_of(start), off_of(cur))
{
    let bs = bytes_of(start);
    lemma_boundary_is_char_boundary(start.contained.source, off_of(start));
    lemma_cmt_stop(bs, off_of(cur));
    lemma_ascii_on_boundary(start.contained.source, off_of(cur));
    lemma_boundary_is_char_boundary(start.contained.source, off_of(cur));
}

pub open spec fn comment_tok<'a>(input: OffsetStrIter<'a>, r: Result<OffsetStrIter<'a>, Token>) -> bool {
    let bs = bytes_of(input); let o = off_of(input);
    if !starts_comment(bs, o) {
        // does not start with `//`: not a comment
        r is Fail
    } else {
        let s = o + 2; let e = cmt_end(bs, s);
        // one COMMENT token: its text is exactly the bytes between `//` and the terminator, its position is the
        // true position of the first `/`; the next token starts after the terminator, on a character boundary
        r matches Result::Complete(rest, tok) && off_of(rest) == cmt_next(bs, e)
        && tok.typ is COMMENT && encode_utf8(tok.fragment@) == bs.subrange(s, e)
        && on_boundary(bs, cmt_next(bs, e)) && token_shape(input, rest, tok)
    }
}

