//@ unit prec_tokens
//@ serves C02
//@ must_verify dot_op_type
//@ include prelude/head.rs
use std::rc::Rc;

// The ucg macros `use` these paths; in the one-file crate they name the items extracted below.
mod tokenizer { pub use crate::token_clone; }
mod abortable_parser { pub use crate::{Error, Result}; }

//@ extract dep:abortable_parser/src/combinators.rs :: macro run
//@ end
//@ extract dep:abortable_parser/src/combinators.rs :: macro either
//@ end
//@ extract dep:abortable_parser/src/combinators.rs :: macro do_each
//@ end
//@ extract src/tokenizer/mod.rs :: macro match_token
//@   rule R1
//@ end
//@ extract src/tokenizer/mod.rs :: macro punct
//@ end
//@ extract src/tokenizer/mod.rs :: macro word
//@ end

verus! {
//@ include prelude/core.rs
//@ include prelude/ap_slice.rs

//@ opaque Expression Position

//@ extract src/ast/mod.rs :: enum BinaryExprType
//@   rule R0
//@ end
//@ extract src/parse/precedence.rs :: enum Element
//@   rule R0
//@ end
//@ extract src/ast/mod.rs :: enum TokenType
//@   rule R0
//@ end
//@ extract src/ast/mod.rs :: struct Token
//@   rule R0
//@ end
//@ clone_spec Token

//@ extract src/tokenizer/mod.rs :: fn token_clone
//@   ret r
//@   sig <<<
    ensures r == std::result::Result::<Token, Error<SliceIter<'a, Token>>>::Ok(*t)
//@   >>>
//@ end

//@ extract src/parse/precedence.rs :: make_fn dot_op_type
//@   ret r
//@ end

} // verus!

fn main() {}
