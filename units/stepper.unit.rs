//@ unit stepper
//@ serves C11 C04
//@ must_verify StrIter::new StrIter::next StrIter::clone StrIter::get_offset StrIter::line StrIter::column OffsetStrIter::new OffsetStrIter::new_with_offsets OffsetStrIter::next OffsetStrIter::clone OffsetStrIter::get_offset OffsetStrIter::line OffsetStrIter::column Position::from lemma_step_positioned lemma_run lemma_run_position lemma_line_start_is
//@ include prelude/head.rs
use vstd::utf8::*;

verus! {
//@ include prelude/core.rs
//@ include prelude/stepper_iter.rs

//@ extract src/ast/mod.rs :: struct Position
//@   rule R0
//@ end

// NOT covered: `Seekable::seek` (StrIter and the wrapper) moves `offset` without touching line/column, so it
// breaks `positioned`; nothing in ucg or abortable_parser 0.2.3 calls it.  Every other method of the two
// steppers either does not mutate (`clone`, `peek_next`, `line`, `column`, `get_offset`, `span`) or is `next`.

// ---------- "after k next() calls from new(src)" ----------
pub open spec fn run<'a>(src: &'a str, k: nat) -> StrIter<'a>
    decreases k
{
    if k == 0 { spec_new(src) } else { step(run(src, (k - 1) as nat)) }
}

// Induction on k: k steps from new(src) leave the stepper at byte offset k (or at the end), reporting the
// true line (1 + number of LF before k) and the true column (bytes since the last LF, 1-based).
pub proof fn lemma_run(src: &str, k: nat)
    ensures
        positioned(run(src, k)),
        run(src, k).source == src,
        run(src, k).offset == (if k <= encode_utf8(src@).len() { k } else { encode_utf8(src@).len() }),
    decreases k
{
    axiom_str_len_bound(src);
    if k == 0 {
        assert(encode_utf8(src@).take(0) =~= Seq::<u8>::empty());
    } else {
        lemma_run(src, (k - 1) as nat);
        let it = run(src, (k - 1) as nat);
        if it.offset < src_bytes(it).len() { lemma_step_positioned(it); }
    }
}

pub proof fn lemma_run_position(src: &str, k: nat)
    requires k <= encode_utf8(src@).len()
    ensures ({
        let bs = encode_utf8(src@); let it = run(src, k);
        &&& it.offset == k
        &&& it.line == 1 + count_nl(bs.take(k as int))
        &&& it.column == k - line_start(bs.take(k as int)) + 1
        &&& it.line <= k + 1 && it.column <= k + 1
    })
{
    lemma_run(src, k);
    lemma_positioned_bounds(run(src, k));
}

// line_start really is "the index after the last LF": no LF at or after it, and an LF right before it (or 0)
pub proof fn lemma_line_start_is(bs: Seq<u8>)
    ensures
        forall|j: int| line_start(bs) <= j < bs.len() ==> bs[j] != 0x0Au8,
        line_start(bs) > 0 ==> bs[line_start(bs) - 1] == 0x0Au8,
    decreases bs.len()
{
    if bs.len() > 0 {
        let d = bs.drop_last();
        lemma_line_start_is(d);
        lemma_line_start_bounds(d);
        assert forall|j: int| line_start(bs) <= j < bs.len() implies bs[j] != 0x0Au8 by {
            if j < d.len() { assert(d[j] == bs[j]); }
        }
        if bs.last() != 0x0Au8 && line_start(bs) > 0 { assert(d[line_start(d) - 1] == bs[line_start(d) - 1]); }
    }
}

//@ extract src/iter.rs :: impl * From<&'a OffsetStrIter<'a>> for Position :: fn from
//@   impl_header impl<'a> Position
//@   ret r
//@   sig <<<
        requires wf_osi(*s)
        ensures
            r.file == s.source_file,
            r.offset == s.contained.offset,
            r.line == true_line(src_bytes(s.contained), s.contained.offset as int) + s.line_offset,
            r.column == true_column(src_bytes(s.contained), s.contained.offset as int) + s.col_offset,
//@   >>>
//@ end

} // verus!

fn main() {}
