"""Text generated at assembly time from non-Rust sources of /repo (documentation tables, word lists)."""
import os
import re
import html

REPO = os.environ.get('VERIF_REPO', '/repo')

# operator spelling in the published table -> variant of BinaryExprType.
# (`=~` in the table is the row of the `~` token.)
DOC_OP = {'==': 'Equal', '!=': 'NotEqual', '>=': 'GTEqual', '<=': 'LTEqual', '<': 'LT', '>': 'GT',
          '=~': 'REMatch', '!~': 'NotREMatch', 'in': 'IN', 'is': 'IS', '+': 'Add', '-': 'Sub',
          '*': 'Mul', '/': 'Div', '%%': 'Mod', '&&': 'AND', '||': 'OR', '.': 'DOT'}


def doc_level(ctx):
    """spec fn doc_level generated from the precedence table of the language reference."""
    from assemble import Undecided
    p = os.path.join(REPO, 'docsite/site/content/reference/expressions.md')
    try:
        txt = open(p).read()
    except OSError as e:
        raise Undecided('reference table unreadable: %s' % e)
    rows = re.findall(r'<tr><td>(.*?)</td><td>(\d+)</td>', txt)
    levels = {}
    for op, lvl in rows:
        op = html.unescape(op).strip()
        if op not in DOC_OP:
            raise Undecided('unknown operator %r in the published table' % op)
        levels[DOC_OP[op]] = int(lvl)
    if set(levels) != set(DOC_OP.values()):
        raise Undecided('published precedence table incomplete: %s' % sorted(set(DOC_OP.values()) - set(levels)))
    arms = '\n'.join('        BinaryExprType::%s => %d,' % (v, levels[v]) for v in sorted(levels))
    return ('// generated from docsite/site/content/reference/expressions.md (the published table)\n'
            'pub open spec fn doc_level(op: BinaryExprType) -> u32 {\n    match op {\n%s\n    }\n}\n' % arms)
