"""Access to the REAL code for replays and bounded stand-ins: the `ucg` binary and the replay driver,
both (re)built offline from /repo's current working tree."""
import os
import shutil
import subprocess

VERIF = os.path.dirname(os.path.dirname(os.path.abspath(__file__)))
REPO = os.environ.get('VERIF_REPO', '/repo')
import hashlib
_ROOT = os.path.join(VERIF, '.cache')
# one build cache per repository tree (VERIF_REPO), so that concurrent runs against different trees never share binaries
CACHE = _ROOT if os.path.realpath(REPO) == '/repo' else os.path.join(_ROOT, 'tree_' + hashlib.sha1(os.path.realpath(REPO).encode()).hexdigest()[:10])
ENV = dict(os.environ, CARGO_NET_OFFLINE='true')


def _housekeeping():
    """Disk is limited: build caches of OTHER trees (seeded-change / development runs) and scratch dirs of aborted runs are
    dropped once they have not been touched for 3 hours.  The cache of /repo itself is never dropped."""
    import time
    now = time.time()
    try:
        for d in os.listdir(_ROOT):
            p = os.path.join(_ROOT, d)
            if (d.startswith('tree_') or d.startswith('run_')) and p != CACHE and os.path.isdir(p):
                try:
                    if now - os.path.getmtime(p) > 3 * 3600:
                        shutil.rmtree(p, ignore_errors=True)
                except OSError:
                    pass
        if CACHE != _ROOT and os.path.isdir(CACHE):
            os.utime(CACHE, None)
    except OSError:
        pass


_housekeeping()

_built = {}


class BuildFailed(Exception):
    pass


def ucg_binary():
    """The real `ucg` CLI, built from the repo inside the driver's workspace (one shared target dir)."""
    if 'ucg' in _built:
        return _built['ucg']
    driver_binary()
    work = os.path.join(CACHE, 'driver')
    env = dict(ENV, CARGO_TARGET_DIR=os.path.join(CACHE, 'driver_target'))
    p = subprocess.run(['cargo', 'build', '--offline', '-p', 'ucg', '--bin', 'ucg'], cwd=work, env=env, capture_output=True, text=True, timeout=3600)
    if p.returncode != 0:
        raise BuildFailed('cargo build of ucg failed:\n' + p.stderr[-2000:])
    _built['ucg'] = os.path.join(CACHE, 'driver_target', 'debug', 'ucg')
    return _built['ucg']


def driver_binary():
    """Build /verif/replay/driver against the repo (path dependency generated for $VERIF_REPO)."""
    if 'driver' in _built:
        return _built['driver']
    src = os.path.join(VERIF, 'replay', 'driver')
    work = os.path.join(CACHE, 'driver')
    os.makedirs(os.path.join(work, 'src'), exist_ok=True)
    shutil.copy(os.path.join(src, 'src', 'main.rs'), os.path.join(work, 'src', 'main.rs'))
    shutil.copy(os.path.join(REPO, 'Cargo.lock'), os.path.join(work, 'Cargo.lock'))
    open(os.path.join(work, 'Cargo.toml'), 'w').write(
        '[package]\nname = "verif_driver"\nversion = "0.0.0"\nedition = "2021"\n\n[dependencies]\nucg = { path = "%s" }\n\n[workspace]\n' % REPO)
    env = dict(ENV, CARGO_TARGET_DIR=os.path.join(CACHE, 'driver_target'))
    p = subprocess.run(['cargo', 'build', '--offline'], cwd=work, env=env, capture_output=True, text=True, timeout=3600)
    if p.returncode != 0:
        raise BuildFailed('cargo build of the replay driver failed:\n' + p.stderr[-3000:])
    _built['driver'] = os.path.join(CACHE, 'driver_target', 'debug', 'verif_driver')
    return _built['driver']


def unesc(s):
    out, i = [], 0
    while i < len(s):
        if s[i] == '\\' and i + 1 < len(s):
            out.append({'n': '\n', 't': '\t', '\\': '\\'}.get(s[i + 1], s[i + 1]))
            i += 2
        else:
            out.append(s[i])
            i += 1
    return ''.join(out)


def driver(mode, cases, timeout=600):
    """Run cases through the driver; returns a list of (status, payload)."""
    if not cases:
        return []
    p = subprocess.run([driver_binary(), mode], input='\n%%%%\n'.join(cases), capture_output=True, text=True, timeout=timeout)
    lines = p.stdout.split('\n')
    res = []
    for ln in lines[:len(cases)]:
        st, _, pl = ln.partition('\t')
        res.append((st, unesc(pl)))
    while len(res) < len(cases):
        res.append(('CRASH', 'driver exited with %s: %s' % (p.returncode, p.stderr[-300:])))
    return res


def run_ucg(args, cwd, env=None, timeout=120):
    e = dict(os.environ)
    if env is not None:
        e = dict(env)
    p = subprocess.run([ucg_binary()] + args, cwd=cwd, env=e, capture_output=True, text=True, timeout=timeout)
    return p.returncode, p.stdout, p.stderr
