//@ unit scope
//@ serves C10
//@ must_verify Stack::new Stack::get Stack::is_bound Stack::add Stack::snapshot Stack::remove_symbol VM::binding_push VM::op_bind VM::clean_copy VM::to_scoped VM::pop
//@ include prelude/head.rs
use std::rc::Rc;

verus! {
//@ include prelude/core.rs
//@ opaque Position VPathBuf OpPointer Builtins Func Module ConstraintVal
//@ clone_spec Position VPathBuf OpPointer Builtins

#[verifier::external_body]
pub struct Error { _p: u8 }
impl Error {
    #[verifier::external_body]
    pub fn new(msg: String, pos: Position) -> Self { unimplemented!() }
}
//@ extract src/build/opcode/mod.rs :: enum Primitive
//@   rule R0
//@ end
//@ extract src/build/opcode/mod.rs :: enum Composite
//@   rule R0
//@ end
//@ extract src/build/opcode/mod.rs :: enum Value
//@   rule R0
//@ end
use Primitive::{Bool, Empty, Float, Int, Str};
use Composite::{List, Tuple};
use Value::{C, F, K, M, P, S, T};

//@ include prelude/vmap.rs

// ---------- the symbol table ----------
//@ extract src/build/opcode/scope.rs :: struct Stack
//@   rule R0 RV
//@   subst "curr: BTreeMap<Rc<str>, (Rc<Value>, Position)>" => "curr: VMap"
//@ end

//@ extract src/build/opcode/scope.rs :: impl Stack :: fn new
//@   subst "BTreeMap::new()" => "VMap::new()"
//@   ret r
//@   sig <<<
        ensures r.curr@ == Map::<Seq<char>, (Rc<Value>, Position)>::empty()
//@   >>>
//@ end
//@ extract src/build/opcode/scope.rs :: impl Stack :: fn get
//@   subst "self.curr.get(name).cloned()" => "self.curr.get_cloned(name)"
//@   ret r
//@   sig <<<
        ensures
            self.curr@.contains_key(name@) ==> r == Some(self.curr@[name@]),
            !self.curr@.contains_key(name@) ==> r is None,
//@   >>>
//@ end
//@ extract src/build/opcode/scope.rs :: impl Stack :: fn is_bound
//@   ret r
//@   sig <<<
        ensures r == self.curr@.contains_key(name@)
//@   >>>
//@   mutant is_bound_never "self.curr.contains_key(name)" => "false && self.curr.contains_key(name)" expect is_bound
//@ end
//@ extract src/build/opcode/scope.rs :: impl Stack :: fn add
//@   sig <<<
        ensures final(self).curr@ == old(self).curr@.insert(name@, (val, pos))
//@   >>>
//@ end
//@ extract src/build/opcode/scope.rs :: impl Stack :: fn remove_symbol
//@   ret r
//@   sig <<<
        ensures final(self).curr@ == old(self).curr@.remove(name@)
//@   >>>
//@ end
//@ extract src/build/opcode/scope.rs :: impl Stack :: fn snapshot
//@   ret r
//@   sig <<<
        // a copy: later changes of `self` cannot reach it (it owns its own map)
        ensures r.curr@ == self.curr@
//@   >>>
//@ end

// ---------- reserved words ----------
//@ hook reserved_words

// `true`, `false` and `env` never reach the evaluator as a binding name: the first two are boolean
// literals for the tokenizer, `env` is refused by the parser (src/parse/mod.rs). Checked on the real
// binary by the bounded stand-in `reserved_let` (thorough tier). Every other published reserved word
// must be refused by the evaluator.
pub open spec fn must_refuse(s: Seq<char>) -> bool {
    doc_reserved(s) && s != "true"@ && s != "false"@ && s != "env"@
}

// the &'static BTreeSet built by reserved_words(): contains exactly the literal list (generated above)
#[verifier::external_body]
pub struct ReservedWords { _p: u8 }
impl ReservedWords {
    #[verifier::external_body]
    pub fn contains(&self, s: &str) -> (r: bool)
        ensures r == src_reserved(s@)
    { unimplemented!() }
}
impl Clone for ReservedWords {
    #[verifier::external_body]
    fn clone(&self) -> (r: Self) ensures r == *self { unimplemented!() }
}
impl Copy for ReservedWords {}

//@ extract src/build/opcode/vm.rs :: struct VM
//@   rule R0 RV
//@   subst "working_dir: PathBuf" => "working_dir: VPathBuf"
//@   subst "runtime: runtime::Builtins" => "runtime: Builtins"
//@   subst "reserved_words: &'static BTreeSet<&'static str>" => "reserved_words: ReservedWords"
//@ end

pub open spec fn bindings(vm: VM) -> Map<Seq<char>, (Rc<Value>, Position)> { vm.symbols.curr@ }

pub open spec fn others_unchanged(a: VM, b: VM) -> bool {
    a.stack == b.stack && a.self_stack == b.self_stack && a.ops == b.ops && a.import_stack == b.import_stack
    && a.working_dir == b.working_dir && a.runtime == b.runtime && a.reserved_words == b.reserved_words && a.last == b.last
}

//@ extract src/build/opcode/vm.rs :: impl VM :: fn binding_push
//@   rule R1
//@   ret r
//@   sig <<<
        ensures
            others_unchanged(*old(self), *final(self)),
            // a reserved word can never be bound
            must_refuse(name@) ==> r is Err,
            // an existing binding is never changed by a strict bind (immutability)
            (strict && bindings(*old(self)).contains_key(name@)) ==> r is Err,
            r is Err ==> bindings(*final(self)) == bindings(*old(self)),
            // otherwise exactly this one name is (re)bound; every other binding is untouched
            r is Ok ==> bindings(*final(self)) == bindings(*old(self)).insert(name@, (val, *pos)),
            r is Ok <==> !src_reserved(name@) && !(strict && bindings(*old(self)).contains_key(name@)),
//@   >>>
//@   mutant bind_nonstrict "self.symbols.is_bound(&name) && strict" => "self.symbols.is_bound(&name) && !strict" expect binding_push
//@   mutant bind_no_reserved "if self.reserved_words.contains(name.as_ref()) {" => "if false && self.reserved_words.contains(name.as_ref()) {" expect binding_push
//@ end

//@ extract src/build/opcode/vm.rs :: impl VM :: fn pop
//@   subst "Some(v.clone())" => "Some((v.0.clone(), v.1.clone()))"
//@   ret r
//@   sig <<<
        requires old(self).stack@.len() > 0
        ensures r is Ok, r->Ok_0 == old(self).stack@.last(), final(self).stack@ == old(self).stack@.drop_last(),
            final(self).symbols == old(self).symbols, final(self).reserved_words == old(self).reserved_words,
//@   >>>
//@ end

//@ extract src/build/opcode/vm.rs :: impl VM :: fn op_bind
//@   ret r
//@   sig <<<
        // translator invariant (caller obligation): a symbol and a value were pushed
        requires old(self).stack@.len() >= 2, *old(self).stack@[old(self).stack@.len() - 2].0 is S
        ensures ({
            let n = old(self).stack@.len() as int;
            let name = (*old(self).stack@[n - 2].0)->S_0@; let val = old(self).stack@[n - 1];
            &&& (must_refuse(name) ==> r is Err)
            &&& ((strict && bindings(*old(self)).contains_key(name)) ==> r is Err)
            &&& (r is Err ==> bindings(*final(self)) == bindings(*old(self)))
            &&& (r is Ok ==> bindings(*final(self)) == bindings(*old(self)).insert(name, (val.0, val.1)))
        })
//@   >>>
//@   mutant op_bind_swapped "self.binding_push(name.clone(), val, strict, &val_pos, &name_pos)" => "self.binding_push(name.clone(), val, !strict, &val_pos, &name_pos)" expect op_bind
//@ end

//@ extract src/build/opcode/vm.rs :: impl VM :: fn clean_copy
//@   ret r
//@   sig <<<
        // module isolation: a clean VM sees none of the surrounding bindings
        ensures bindings(r) == Map::<Seq<char>, (Rc<Value>, Position)>::empty(), r.stack@.len() == 0,
//@   >>>
//@   mutant clean_copy_leaks "symbols: Stack::new()," => "symbols: self.symbols.snapshot()," expect clean_copy
//@ end
//@ extract src/build/opcode/vm.rs :: impl VM :: fn to_scoped
//@   rule R4
//@   ret r
//@   sig <<<
        ensures bindings(r) == symbols.curr@, r.stack == self.stack,
//@   >>>
//@ end

} // verus!

fn main() {}
