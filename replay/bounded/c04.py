"""C04 bounded stand-ins: "No input makes the compiler crash or hang".

Oracle (from the property statement): every stage -- tokenizing, parsing, type checking, translating, evaluating, converting,
formatting -- ends with a result or a diagnostic.  Through the replay driver that means the status of every case is OK or ERR,
never PANIC (a Rust panic caught by catch_unwind), CRASH (the process died: abort, stack overflow, signal) or TIMEOUT (no answer
within a few seconds); through the real `ucg` binary it means exit status 0 or 1 (never 101, 134 or a signal) within a few
seconds.  Nothing else is checked here (what the result is belongs to other properties).

The driver runs all cases of a batch in one process.  `run_cases` below feeds a batch, reads the answers line by line and, when
the process dies or stays silent for PER_CASE seconds, blames the first case without an answer, records CRASH / TIMEOUT for it
and restarts the driver on the remaining cases -- so every offending input is named individually.
"""
import os
import random
import re
import select
import shutil
import subprocess
import tempfile
import time

import realcode as R

REPO = R.REPO
PER_CASE = 6.0          # seconds without an answer before a case counts as a hang
I64_MAX = 2 ** 63 - 1
SEP = '\n%%%%\n'


# ------------------------------------------------------------------ robust batch runner
def _unesc(b):
    out, i, n = bytearray(), 0, len(b)
    while i < n:
        c = b[i]
        if c == 0x5c and i + 1 < n:
            d = b[i + 1]
            out.append({0x6e: 0x0a, 0x74: 0x09}.get(d, d))
            i += 2
        else:
            out.append(c)
            i += 1
    return out.decode('utf-8', 'replace')


def run_cases(mode, cases, per_case=PER_CASE):
    """[(status, payload)] with status in OK / ERR / PANIC / CRASH / TIMEOUT; one entry per case, offending cases named individually."""
    exe = R.driver_binary()
    res = [None] * len(cases)
    start = 0
    cwd = tempfile.mkdtemp(prefix='verif_c04_cwd_')
    try:
        while start < len(cases):
            chunk = cases[start:]
            data = SEP.join(chunk).encode('utf-8')
            errf = tempfile.TemporaryFile()
            p = subprocess.Popen([exe, mode], stdin=subprocess.PIPE, stdout=subprocess.PIPE, stderr=errf, cwd=cwd)
            try:
                p.stdin.write(data)
                p.stdin.close()
            except BrokenPipeError:
                pass
            fd = p.stdout.fileno()
            buf = b''
            got = 0
            last = time.time()
            verdict = None
            while got < len(chunk):
                r, _, _ = select.select([fd], [], [], 0.5)
                if r:
                    d = os.read(fd, 1 << 16)
                    if not d:
                        verdict = 'CRASH'
                        break
                    buf += d
                    while True:
                        k = buf.find(b'\n')
                        if k < 0:
                            break
                        line, buf = buf[:k], buf[k + 1:]
                        st, _, pl = line.partition(b'\t')
                        res[start + got] = (st.decode('utf-8', 'replace'), _unesc(pl))
                        got += 1
                        last = time.time()
                        if got >= len(chunk):
                            break
                elif time.time() - last > per_case * (3 if got == 0 else 1):   # the first answer includes start-up
                    verdict = 'TIMEOUT'
                    break
            if verdict == 'TIMEOUT':
                p.kill()
            try:
                p.wait(timeout=10)
            except subprocess.TimeoutExpired:
                p.kill()
                p.wait()
            p.stdout.close()
            if got < len(chunk):
                errf.seek(0)
                tail = errf.read()[-300:].decode('utf-8', 'replace').strip().replace('\n', ' | ')
                if verdict == 'TIMEOUT':
                    res[start + got] = ('TIMEOUT', 'no answer within %.0f s' % per_case)
                else:
                    res[start + got] = ('CRASH', 'driver exited with %s: %s' % (p.returncode, tail))
                got += 1
            errf.close()
            start += got
    finally:
        shutil.rmtree(cwd, ignore_errors=True)
    return res


def run_ucg_batch(sub, files, cwd, per_file=PER_CASE, pre=()):
    """`ucg <pre> <sub> f1 f2 ...` on the real binary, one process for many files.  ucg prints a line naming each file before it
    works on it; when the process dies (exit status other than 0/1) or stays silent, the last file named is blamed and the run
    resumes after it.  Returns {file: (status, detail)} with status OK (process went past it) / CRASH / TIMEOUT."""
    exe = R.ucg_binary()
    out = {}
    todo = list(files)
    while todo:
        errf = tempfile.TemporaryFile()
        p = subprocess.Popen([exe] + list(pre) + [sub] + todo, stdout=subprocess.PIPE, stderr=errf, stdin=subprocess.DEVNULL, cwd=cwd)
        fd = p.stdout.fileno()
        buf = b''
        last = time.time()
        timed_out = False
        while True:
            r, _, _ = select.select([fd], [], [], 0.5)
            if r:
                d = os.read(fd, 1 << 16)
                if not d:
                    break
                buf += d
                last = time.time()
            elif time.time() - last > per_file:
                timed_out = True
                p.kill()
                break
        try:
            p.wait(timeout=10)
        except subprocess.TimeoutExpired:
            p.kill()
            p.wait()
        p.stdout.close()
        rc = p.returncode
        text = buf.decode('utf-8', 'replace')
        if not timed_out and rc in (0, 1):
            for f in todo:
                out[f] = ('OK', '')
            errf.close()
            break
        # which file was it working on?  the last one announced on stdout
        idx = -1
        for i, f in enumerate(todo):
            if re.search(r'(^|[\s/])%s(\s|$)' % re.escape(f), text):
                idx = i
        idx = max(idx, 0)
        errf.seek(0)
        tail = errf.read()[-400:].decode('utf-8', 'replace').strip().replace('\n', ' | ')
        errf.close()
        for f in todo[:idx]:
            out[f] = ('OK', '')
        out[todo[idx]] = ('TIMEOUT', 'no output for %.0f s' % per_file) if timed_out else ('CRASH', 'exit status %s: %s' % (rc, tail))
        todo = todo[idx + 1:]
    return out


# ------------------------------------------------------------------ corpus, tokens, mutations
TOKEN_RE = re.compile(r'"(?:\\.|[^"\\])*"|//[^\n]*|[A-Za-z_][A-Za-z0-9_-]*|\d+|\s+|==|=>|>=|<=|\.\.|::|&&|\|\||%%|!=|!~|.', re.S)


def lex(src):
    """(separator-before, token) pairs + trailing separator; separators are whitespace and comments.  Independent of ucg's tokenizer."""
    toks, sep = [], ''
    for m in TOKEN_RE.finditer(src):
        t = m.group(0)
        if t.isspace() or t.startswith('//'):
            sep += t
        else:
            toks.append((sep, t))
            sep = ''
    return toks, sep


def unlex(toks, tail):
    return ''.join(s + t for s, t in toks) + tail


KEYWORDS = {'let', 'import', 'include', 'as', 'func', 'select', 'map', 'filter', 'reduce', 'module', 'out', 'constraint', 'convert',
            'assert', 'fail', 'TRACE', 'not'}
BINOPS = {'+', '-', '*', '/', '%%', '==', '!=', '>=', '<=', '<', '>', '&&', '||', '~', '!~', 'in', 'is'}


def tok_class(t):
    """Coarse classes used by the class-preserving replacement (so that a good share of the mutants still parses)."""
    if t[0] == '"':
        return 'str'
    if t[0].isdigit():
        return 'num'
    if t in BINOPS:
        return 'binop'
    if t in KEYWORDS:
        return 'kw:' + t
    if t[0].isalpha() or t[0] == '_':
        return 'word'
    return 'punct:' + t


MUTATIONS = ['delete', 'duplicate', 'swap', 'replace', 'replace_same_class', 'replace_same_class', 'replace_atom', 'replace_atom']


def is_atom(t):
    return tok_class(t) in ('str', 'num', 'word')


def mutate(rnd, toks):
    """One token-level mutation: delete / duplicate / swap adjacent / replace by another token of the same file (any token, a token
    of the same lexical class, or -- for names and literals -- any other name or literal; the last two keep most mutants parseable
    so that the later stages are reached)."""
    toks = list(toks)
    n = len(toks)
    if n == 0:
        return toks, 'none'
    kind = rnd.choice(MUTATIONS)
    i = rnd.randrange(n)
    if kind == 'delete':
        del toks[i]
    elif kind == 'duplicate':
        toks.insert(i, (' ', toks[i][1]))
    elif kind == 'swap':
        if n > 1:
            i = rnd.randrange(n - 1)
            (s1, t1), (s2, t2) = toks[i], toks[i + 1]
            toks[i], toks[i + 1] = (s1, t2), (s2 or ' ', t1)
    elif kind == 'replace':
        toks[i] = (toks[i][0] or ' ', toks[rnd.randrange(n)][1])
    elif kind == 'replace_same_class':
        cls = tok_class(toks[i][1])
        pool = sorted(set(t for _, t in toks if tok_class(t) == cls and t != toks[i][1]))
        if pool:
            toks[i] = (toks[i][0] or ' ', rnd.choice(pool))
    else:
        idx = [j for j in range(n) if is_atom(toks[j][1])]
        if idx:
            i = rnd.choice(idx)
            pool = sorted(set(toks[j][1] for j in idx if toks[j][1] != toks[i][1]))
            if pool:
                toks[i] = (toks[i][0] or ' ', rnd.choice(pool))
    return toks, kind


def shipped_files():
    """Every .ucg file shipped in the repository (integration_tests, std, examples, example_errors, docsite, src fixtures), as (relative path, text)."""
    out = []
    for top in ['integration_tests', 'std', 'examples', 'example_errors', 'docsite', 'src']:
        for dp, dn, fn in os.walk(os.path.join(REPO, top)):
            dn.sort()
            for f in sorted(fn):
                if f.endswith('.ucg'):
                    p = os.path.join(dp, f)
                    try:
                        out.append((os.path.relpath(p, REPO), open(p, encoding='utf-8').read()))
                    except UnicodeDecodeError:
                        pass
    return out


def fuzz_corpus():
    """UTF-8 decodable files of /repo/fuzz/corpus (if present), as (relative path, text)."""
    out = []
    base = os.path.join(REPO, 'fuzz', 'corpus')
    for dp, dn, fn in os.walk(base):
        dn.sort()
        for f in sorted(fn):
            p = os.path.join(dp, f)
            try:
                t = open(p, 'rb').read().decode('utf-8')
            except (UnicodeDecodeError, OSError):
                continue
            if SEP not in t and '\n%%%%' not in t:
                out.append((os.path.relpath(p, REPO), t))
    return out
