"""Aggregator: bounded stand-ins per property (replay/bounded/*.py) and the obligation-directed replay search.

Each stand-in enumerates a stated finite family of inputs, runs them on the REAL code (rebuilt from the repo's
current tree) and compares with an executable oracle written from the property statement.  Results are labelled
bounded; they are never counted as proved.  A stand-in returns
dict(name, bound, cases, status in {'ok','violation','error'}, detail, input)."""
import importlib
import os
import sys

sys.path.insert(0, os.path.dirname(os.path.abspath(__file__)))
from bounded.base import *  # noqa: F401,F403
from bounded import base as B

STANDINS = {
    'C01': [B.standin_arith_edges, B.standin_range_edges],
    'C02': [B.standin_prec_chains, B.standin_prec_operand_kinds],
    'C04': [B.standin_arith_edges, B.standin_range_edges, B.standin_fmt_edges],
    'C05': [B.standin_literals],
    'C08': [],   # covered (faster, broader) by bounded/c08.py
    'C10': [B.standin_reserved_let],
    'C11': [B.standin_literals, B.standin_token_positions, B.standin_longest_operator],
    'C13': [B.standin_verdict_order],
    'C14': [],   # covered by bounded/c14.py
    'C18': [],   # covered by bounded/c18.py
}
# per-property modules add their generators: replay/bounded/cNN.py defines STANDINS = [fn, ...]
for pid in ['C%02d' % i for i in range(1, 21)]:
    try:
        mod = importlib.import_module("bounded." + pid.lower())
    except ModuleNotFoundError:
        continue
    except Exception as e:      # a broken module must not take the other properties' stand-ins down with it
        def _broken(tier, seed, _pid=pid, _e=repr(e)):
            return dict(name='module_' + _pid.lower(), bound='-', cases=0, status='error', detail='replay/bounded/%s.py cannot be imported: %s' % (_pid.lower(), _e))
        _broken.__name__ = 'standin_module_' + pid.lower()
        STANDINS.setdefault(pid, [])
        STANDINS[pid] = STANDINS[pid] + [_broken]
        continue
    STANDINS.setdefault(pid, [])
    STANDINS[pid] = STANDINS[pid] + list(getattr(mod, 'STANDINS', []))

# which generators can produce a concrete failing input for a failed obligation of a unit
BY_UNIT = {
    'prec': [B.standin_prec_chains], 'vm_arith': [B.standin_arith_edges], 'rt_range': [B.standin_range_edges],
    'fmt_arms': [B.standin_fmt_edges], 'scope': [B.standin_reserved_let], 'lit_roundtrip': [B.standin_literals],
    'stepper': [B.standin_token_positions], 'conv_env': [B.standin_env_fields], 'env_lookup': [B.standin_env_leak],
    'out_hook': [B.standin_out_all_or_nothing], 'verdict': [B.standin_verdict_order], 'test_cmd': [B.standin_verdict_order],
    'collector': [B.standin_verdict_order], 'assert_hook': [B.standin_verdict_order],
}


def find_input(pid, unit, fail):
    """Concrete failing input on the real code for a failed obligation of `unit`, or None.
    Tries the unit's own generators first, then every stand-in of the property."""
    gens = list(BY_UNIT.get(unit, []))
    for g in STANDINS.get(pid, []):
        if g not in gens:
            gens.append(g)
    for gen in gens:
        try:
            r = gen('quick', 0)
        except Exception:
            continue
        if r and r.get('status') == 'violation':
            d = dict(r['input'])
            d['found_by'] = '%s (%s)' % (r['name'], r['bound'])
            d['what'] = r['detail']
            return d
    return None
