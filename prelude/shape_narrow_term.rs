// ---- prelude/shape_narrow_term.rs: the termination measure of narrowing in the presence of named constraints (inside verus!) ----
// Every expansion of a named constraint records the pair (constraint name, other shape) in the memo cache first, and a pair
// that is in the cache is never expanded again. All shapes that can ever be paired with a name are sub-shapes of the two
// arguments or of an entry of the symbol table: a FINITE set. So the number of pairs of that universe which are not yet in
// the cache goes down with every expansion; between expansions the combined size of the two shapes goes down.
// (vstd's Set is finite by construction, so cardinalities need no finiteness side conditions.)

pub open spec fn seen_extends(s0: Seen, s1: Seen) -> bool {
    s0.len() <= s1.len() && forall|i: int| 0 <= i < s0.len() ==> #[trigger] s1[i] == s0[i]
}
pub open spec fn entry_matches(e: (Rc<str>, Shape, Shape), n: Seq<char>, o: Shape) -> bool {
    e.0@ == n && shape_same(e.1, o)
}
pub open spec fn no_hit(seen: Seen, n: Seq<char>, o: Shape) -> bool {
    forall|m: int| 0 <= m < seen.len() ==> !entry_matches(#[trigger] seen[m], n, o)
}

// all sub-shapes of a shape (itself included)
pub open spec fn subs_list(v: Vec<Shape>, n: nat) -> Set<Shape>
    decreases v, n
{
    if n == 0 || n > v@.len() { Set::empty() } else { subs(v@[n - 1]).union(subs_list(v, (n - 1) as nat)) }
}
pub open spec fn subs_fields(v: TupleShape, n: nat) -> Set<Shape>
    decreases v, n
{
    if n == 0 || n > v@.len() { Set::empty() } else { subs(v@[n - 1].1).union(subs_fields(v, (n - 1) as nat)) }
}
pub open spec fn subs_ns(ns: NarrowedShape) -> Set<Shape>
    decreases ns
{
    match ns.types {
        NarrowingShape::Narrowed(v) => subs_list(v, v@.len()),
        NarrowingShape::Any => Set::empty(),
    }
}
pub open spec fn subs(s: Shape) -> Set<Shape>
    decreases s
{
    match s {
        Shape::List(ns) => subs_ns(ns).insert(s),
        Shape::Narrowed(ns) => subs_ns(ns).insert(s),
        Shape::Tuple(pi) => subs_fields(pi.val, pi.val@.len()).insert(s),
        _ => Set::empty().insert(s),
    }
}
pub proof fn lemma_subs_self(s: Shape)
    ensures subs(s).contains(s)
{ }
pub proof fn lemma_subs_list_elem(v: Vec<Shape>, n: nat, i: int)
    requires 0 <= i < n <= v@.len()
    ensures subs(v@[i]).subset_of(subs_list(v, n))
    decreases n
{
    if i < n - 1 { lemma_subs_list_elem(v, (n - 1) as nat, i); }
}
pub proof fn lemma_subs_fields_elem(v: TupleShape, n: nat, i: int)
    requires 0 <= i < n <= v@.len()
    ensures subs(v@[i].1).subset_of(subs_fields(v, n))
    decreases n
{
    if i < n - 1 { lemma_subs_fields_elem(v, (n - 1) as nat, i); }
}

pub open spec fn seq_subs(s: Seq<Shape>) -> Set<Shape>
    decreases s.len()
{
    if s.len() == 0 { Set::empty() } else { subs(s.last()).union(seq_subs(s.drop_last())) }
}
pub open spec fn fields_subs(s: Fields) -> Set<Shape>
    decreases s.len()
{
    if s.len() == 0 { Set::empty() } else { subs(s.last().1).union(fields_subs(s.drop_last())) }
}
pub proof fn lemma_seq_subs_elem(s: Seq<Shape>, i: int)
    requires 0 <= i < s.len()
    ensures subs(s[i]).subset_of(seq_subs(s))
    decreases s.len()
{
    if i < s.len() - 1 { lemma_seq_subs_elem(s.drop_last(), i); }
}
pub proof fn lemma_fields_subs_elem(s: Fields, i: int)
    requires 0 <= i < s.len()
    ensures subs(s[i].1).subset_of(fields_subs(s))
    decreases s.len()
{
    if i < s.len() - 1 { lemma_fields_subs_elem(s.drop_last(), i); }
}
pub proof fn lemma_subs_list_seq(v: Vec<Shape>, n: nat)
    requires n <= v@.len()
    ensures subs_list(v, n) == seq_subs(v@.take(n as int))
    decreases n
{
    if n > 0 {
        lemma_subs_list_seq(v, (n - 1) as nat);
        assert(v@.take(n as int).drop_last() =~= v@.take(n - 1));
    }
}
pub proof fn lemma_subs_fields_seq(v: TupleShape, n: nat)
    requires n <= v@.len()
    ensures subs_fields(v, n) == fields_subs(v@.take(n as int))
    decreases n
{
    if n > 0 {
        lemma_subs_fields_seq(v, (n - 1) as nat);
        assert(v@.take(n as int).drop_last() =~= v@.take(n - 1));
    }
}
// sub-shapes of the parts of a container are sub-shapes of the container
pub proof fn lemma_subs_parts(s: Shape)
    ensures
        subs(s).contains(s),
        s matches Shape::Narrowed(ns) ==> (forall|j: int| 0 <= j < cands(s).len() ==> subs(#[trigger] cands(s)[j]).subset_of(subs(s))),
        s matches Shape::List(ns) ==> subs_ns(ns).subset_of(subs(s)) && (elems(ns) matches Some(xs) ==> subs_ns(ns) == seq_subs(xs)),
        s matches Shape::Tuple(pi) ==> subs_fields(pi.val, pi.val@.len()).subset_of(subs(s)) && subs_fields(pi.val, pi.val@.len()) == fields_subs(pi.val@),
{
    match s {
        Shape::Narrowed(ns) => {
            if let NarrowingShape::Narrowed(v) = ns.types {
                assert forall|j: int| 0 <= j < v@.len() implies subs(#[trigger] v@[j]).subset_of(subs(s)) by { lemma_subs_list_elem(v, v@.len(), j); }
            }
        },
        Shape::List(ns) => {
            if let NarrowingShape::Narrowed(v) = ns.types { lemma_subs_list_seq(v, v@.len()); assert(v@.take(v@.len() as int) =~= v@); }
        },
        Shape::Tuple(pi) => { lemma_subs_fields_seq(pi.val, pi.val@.len()); assert(pi.val@.take(pi.val@.len() as int) =~= pi.val@); },
        _ => { },
    }
}

// the universe of a call: the sub-shapes of its arguments (`roots`) and of every entry of the symbol table
pub open spec fn table_subs(st: SymMap) -> Set<Shape> {
    st.dom().map(|k: Rc<str>| subs(st[k])).flatten()
}
pub open spec fn univ(st: SymMap, roots: Set<Shape>) -> Set<Shape> {
    roots.union(table_subs(st))
}
pub open spec fn roots2(a: Shape, b: Shape) -> Set<Shape> { subs(a).union(subs(b)) }
pub open spec fn names(st: SymMap) -> Set<Seq<char>> {
    st.dom().map(|k: Rc<str>| k@)
}
pub open spec fn pairs(st: SymMap, roots: Set<Shape>) -> Set<(Seq<char>, Shape)> {
    names(st).map(|n: Seq<char>| univ(st, roots).map(|s: Shape| (n, s))).flatten()
}
pub open spec fn matched(seen: Seen, p: (Seq<char>, Shape)) -> bool {
    exists|m: int| 0 <= m < seen.len() && entry_matches(#[trigger] seen[m], p.0, p.1)
}
pub open spec fn todo_set(seen: Seen, st: SymMap, roots: Set<Shape>) -> Set<(Seq<char>, Shape)> {
    pairs(st, roots).filter(|p: (Seq<char>, Shape)| !matched(seen, p))
}
// the number of (constraint, shape) pairs that can still be expanded
pub open spec fn todo(seen: Seen, st: SymMap, roots: Set<Shape>) -> nat {
    todo_set(seen, st, roots).len()
}

pub proof fn lemma_table_subs(st: SymMap, k: Rc<str>)
    requires st.contains_key(k)
    ensures subs(st[k]).subset_of(table_subs(st))
{
    assert(st.dom().map(|k: Rc<str>| subs(st[k])).contains(subs(st[k])));
}
pub proof fn lemma_pairs_contains(st: SymMap, roots: Set<Shape>, k: Rc<str>, s: Shape)
    requires st.contains_key(k), univ(st, roots).contains(s)
    ensures pairs(st, roots).contains((k@, s))
{
    let n = k@;
    assert(names(st).contains(n));
    let inner = univ(st, roots).map(|s: Shape| (n, s));
    assert(inner.contains((n, s)));
    assert(names(st).map(|n: Seq<char>| univ(st, roots).map(|s: Shape| (n, s))).contains(inner));
}
pub proof fn lemma_pairs_mono(st: SymMap, roots: Set<Shape>, r2: Set<Shape>)
    requires r2.subset_of(univ(st, roots))
    ensures pairs(st, r2).subset_of(pairs(st, roots))
{
    assert(univ(st, r2).subset_of(univ(st, roots)));
    assert forall|p: (Seq<char>, Shape)| pairs(st, r2).contains(p) implies pairs(st, roots).contains(p) by {
        let n = p.0;
        assert(names(st).contains(n));
        assert(univ(st, r2).contains(p.1));
        let inner = univ(st, roots).map(|s: Shape| (n, s));
        assert(inner.contains((n, p.1)));
        assert(names(st).map(|n: Seq<char>| univ(st, roots).map(|s: Shape| (n, s))).contains(inner));
    }
}

// The cache only grows and the universe only shrinks: the measure never goes up ...
pub proof fn lemma_todo_mono(seen0: Seen, seen1: Seen, st: SymMap, roots: Set<Shape>, r2: Set<Shape>)
    requires seen_extends(seen0, seen1), r2.subset_of(univ(st, roots))
    ensures todo(seen1, st, r2) <= todo(seen0, st, roots)
{
    lemma_pairs_mono(st, roots, r2);
    assert forall|p: (Seq<char>, Shape)| todo_set(seen1, st, r2).contains(p) implies todo_set(seen0, st, roots).contains(p) by {
        if matched(seen0, p) {
            let m = choose|m: int| 0 <= m < seen0.len() && entry_matches(#[trigger] seen0[m], p.0, p.1);
            assert(entry_matches(seen1[m], p.0, p.1));
        }
    }
    vstd::set_lib::lemma_len_subset(todo_set(seen1, st, r2), todo_set(seen0, st, roots));
}
// ... and it goes down when a pair of the universe that was not in the cache is put there.
pub proof fn lemma_todo_strict(seen0: Seen, seen1: Seen, st: SymMap, roots: Set<Shape>, r2: Set<Shape>, p: (Seq<char>, Shape))
    requires seen_extends(seen0, seen1), r2.subset_of(univ(st, roots)),
        pairs(st, roots).contains(p), !matched(seen0, p), matched(seen1, p),
    ensures todo(seen1, st, r2) < todo(seen0, st, roots)
{
    lemma_pairs_mono(st, roots, r2);
    let t0 = todo_set(seen0, st, roots);
    assert(t0.contains(p));
    assert forall|q: (Seq<char>, Shape)| todo_set(seen1, st, r2).contains(q) implies t0.remove(p).contains(q) by {
        if matched(seen0, q) {
            let m = choose|m: int| 0 <= m < seen0.len() && entry_matches(#[trigger] seen0[m], q.0, q.1);
            assert(entry_matches(seen1[m], q.0, q.1));
        }
    }
    vstd::set_lib::lemma_len_subset(todo_set(seen1, st, r2), t0.remove(p));
}
// the same, as a fact the solver may use wherever two measures are compared
pub broadcast proof fn bc_todo_mono(seen0: Seen, seen1: Seen, st: SymMap, roots: Set<Shape>, r2: Set<Shape>)
    requires seen_extends(seen0, seen1), r2.subset_of(univ(st, roots))
    ensures #![trigger todo(seen1, st, r2), todo(seen0, st, roots)] todo(seen1, st, r2) <= todo(seen0, st, roots)
{
    lemma_todo_mono(seen0, seen1, st, roots, r2);
}

// R0: the derived `==` on shapes is reflexive (structural comparison of values without floats) - what makes the in-progress
// marker found again. ASSUMED (shape_same is otherwise uninterpreted).
#[verifier::external_body]
pub proof fn axiom_shape_same_refl(s: Shape)
    ensures shape_same(s, s)
{ }

// No type hole of the universe is a name of the symbol table (then narrowing never writes the table; holes that ARE bound,
// i.e. parameters under inference, are outside this unit).
pub open spec fn holes_unbound(st: SymMap, roots: Set<Shape>) -> bool {
    forall|s: Shape| #[trigger] univ(st, roots).contains(s) && s is Hole ==> !st.contains_key(s->Hole_0.val)
}
pub broadcast proof fn bc_holes_mono(st: SymMap, roots: Set<Shape>, r2: Set<Shape>)
    requires holes_unbound(st, roots), r2.subset_of(univ(st, roots))
    ensures #![trigger holes_unbound(st, r2), holes_unbound(st, roots)] holes_unbound(st, r2)
{
    assert forall|s: Shape| #[trigger] univ(st, r2).contains(s) && s is Hole implies !st.contains_key(s->Hole_0.val) by {
        assert(univ(st, roots).contains(s));
    }
}
