"""Claims registered in MANIFEST.json.  A property is listed under CLAIMS only when its core unit
verifies on the current tree with canaries rejected (DESIGN §7 fall-back rule)."""

HOOK_COMMITS = []

NOTES = ('Technique family: contract-based deductive verification of the real code (Verus on functions '
         'extracted mechanically from /repo on every run; see DESIGN.md). Exit 0 = every obligation discharged, '
         '1 = an obligation that is generated from the current source fails (VIOLATION), 2 = undecided '
         '(lost anchor, unsupported construct, resource limit) - never reported as a violation.')

CLAIMS = {
    'C02': dict(
        text=('For all token slices, the real op_expression pipeline: parse_operand_list (proved in unit prec_tokens: alternating '
              'Expr (Op Expr)* list whose k-th operator is the variant the reference assigns to the operator TOKEN that stood there, for all '
              '18 operators; progress; termination) feeds parse_precedence / parse_op (proved in unit prec, with loop invariants on the '
              'verbatim bodies, for operand lists of EVERY length): the tree returned equals the unique grouping defined by the published '
              'precedence table (levels generated from the documentation on every run): higher level binds tighter, equal levels group left '
              'to right; operands (incl. parenthesised ones) are opaque leaves, so grouping depends on operators only; the '
              'panic!("premature abort") in op_expression is proved unreachable.'),
        design_ref='DESIGN.md §5 C02',
        note=('Trusted: Verus/Z3; the mechanical extraction (rules R0,R1,R3,R4,R10 listed in evidence; either!/run!/do_each!/match_token! extracted verbatim); '
              'non_op_expression as an opaque stub (consumes >= 1 token, nothing assumed about which expression); Expression::pos as a deterministic '
              'function; derived Clone/PartialEq structural; the link between the two units is by identical contract text (opaque_body in prec).'),
        technique='Verus contracts + loop invariants on extracted parse_operand_list, operator token recognisers, parse_op, precedence_level, op_expression',
    ),
}

CLAIMS['C01'] = dict(
    text=('PARTIAL: both sides of the compile/execute pipeline are under contract function by function, not as one simulation theorem. '
          'VM side (real handlers, whole-stack postconditions + frames, for all operands): + - * / %% on Int (exact mathematical result or a '
          'build error, never a wrapped value), Float (operand order and operator pinned), string/list concatenation, ordering '
          'comparisons, equality (deep, ordered tuples, NULL comparable with anything, type mismatch = error), short-circuit && / ||, '
          'conditional / select jumps, not, relative jumps, range = the inclusive arithmetic progression, map / filter / reduce over lists, '
          'tuples and strings against the reference (incl. arity errors), selector lookup, field / element / copy-with-override (replace in '
          'place, append new, type change = error except NULL), in, is (published type names), casts, fail, function call arity, module '
          'value construction, and the dispatch loop (every opcode reaches its documented handler with the right arguments and strictness). '
          'Translator side: for nearly every arm of translate_expr / translate_stmt the structure of the emitted opcode sequence (operand '
          'order, the opcode, jump offsets landing exactly past the skipped fragment, Bind vs BindOver) against an opaque recursive call '
          'that only appends; the `@` template parser SimpleTemplate::parse against the reference reading of a template (literal pieces '
          'character for character, escapes, placeholder numbering, for every input string), the `@{..}` template parser ExpressionTemplate::parse against the '
          'same reading with the expression reader abstract, and the reader\'s brace-group scan (consume_expr: exactly the group up to the matching brace is taken, '
          'the expression is read from the text between the outer braces, an `@` without a group is refused) with tokenizer + parser as one assumed function of that text. NOT covered: the composition of the two into a '
          'whole-program theorem, VM::run termination, regex, imports; the bounded stand-ins (a table of 134 reference programs, closure / self / cast / select / format families) sample those.'),
    design_ref='DESIGN.md §5 C01',
    note=('Trusted: Verus/Z3; extraction rules listed in evidence; f64 arithmetic/comparison values uninterpreted (R6); Rc/Vec/String models of vstd; '
          'VM::fcall_impl as a pure function of (function, arguments); translate_expr only appends; caller obligations (translator invariants: '
          'stack depth at each handler, one position per list element, programs shorter than 2^31 ops, format templates shorter than 2^31 characters) are stated as requires and not discharged.'),
    technique='Verus contracts on extracted VM handlers, runtime hooks and translator arms against spec-level reference semantics',
)
CLAIMS['C04'] = dict(
    text=('PARTIAL: every extracted function under contract is proved free of arithmetic overflow, division by zero, '
          'out-of-range index/cast, unwrap on None/Err, reachable panic!/unreachable! and non-termination, for all inputs '
          'satisfying its stated precondition - in particular integer arithmetic on user values (VM add/sub/mul/div/modulus) '
          'the range builtin, format placeholder/argument pairing (both Format arms and both template parsers), casts, map/filter/reduce arity, '
          'selector indices, the string scanner, and the precedence parser (parse_op terminates). The parser-combinator layer, type '
          'checker, converters\' dependencies, stack depth and VM::run termination are not covered deductively; bounded stand-ins fuzz them '
          '(token mutations of every shipped .ucg file, garbage input, nesting up to the property\'s bound).'),
    design_ref='DESIGN.md §5 C04',
    note=('Trusted: Verus/Z3; extraction rules listed in evidence; preconditions that are translator invariants (stack depth) are '
          'listed as caller obligations, not discharged.'),
    technique='Verus panic-freedom/termination obligations on every extracted function',
)

CLAIMS['C10'] = dict(
    text=('PARTIAL (symbol-table layer): for all names, values and prior states, the evaluator\'s bind operation refuses every '
          'published reserved word (list generated from the reference on every run), refuses to rebind an existing name in strict '
          'mode (immutability), leaves the table unchanged on refusal, and otherwise changes exactly that one binding (whole-map '
          'postcondition); a scope snapshot is a copy; a clean (module) VM starts with no bindings. That the translator emits Bind '
          'for let and the parser refuses env is not covered. '
          'Static side (unit typecheck_scope): in FuncDef::derive_shape the body is typed in outer-bindings-overridden-by-parameters, inference happens in a local copy (the caller\'s table only sees what typing the parameter constraint expressions did), and no type hole named after a parameter survives in the exported function shape (close_param_holes); the Symbol arm leaves the table unchanged.'),
    design_ref='DESIGN.md §5 C10',
    note=('Trusted: Verus/Z3; BTreeMap modelled by prelude/vmap.rs (documented std behaviour over an abstract map); the reserved-word '
          'BTreeSet contains exactly the literal list in vm.rs (read from the source on every run); extraction rules in evidence.'),
    technique='Verus contracts on extracted scope::Stack and VM::binding_push/op_bind/clean_copy over an abstract map view',
)

CLAIMS['C14'] = dict(
    text=('DECIDED at hook level: for every converter outcome, the real out hook against a ghost file system: a second out for the '
          'same source is an error with the world unchanged; on success exactly one file changes, fs\' == fs.insert(source.with_extension('
          'ext(format)), conv(format, value)) (whole-map equality), with ext proved equal to each real file_ext; if the value cannot be '
          'converted or the format is unknown the result is an error and the file system is unchanged (no new, empty or truncated '
          'artifact); `convert` pushes the lossy-UTF-8 string of the same bytes. I/O errors of create/write are outside the property. '
          'Command level (unit build_cmd): `ucg build` attempts every listed file and every .ucg entry of listed directories (any depth with -r), in command-line order, each starting from an empty import value cache, never stops at a failure, and exits non-zero iff some file failed.'),
    design_ref='DESIGN.md §5 C14',
    note=('Trusted: Verus/Z3; Converter::convert as a deterministic function of (converter, value) writing only to its writer; '
          'File::create / write_all / PathBuf::with_extension / BTreeSet / HashMap models in prelude/out_hook_world.rs; RefCell borrows '
          'never conflict (R11); dyn Converter as the closed sum of the 8 implementors; one Hook::Out per out statement (translator) not covered.'),
    technique='Verus contracts on extracted Builtins::out/convert with the file system as ghost state',
)
CLAIMS['C18'] = dict(
    text=('PARTIAL: for every environment, name and VM state: `env` resolves to the local binding if one exists, else to a tuple with '
          'exactly one field per captured variable holding its value unchanged as a string; selector lookup returns the first matching '
          'field / in-range element, NULL on a miss when not strict, and in strict mode a build error whose message is proved (by an '
          'information-flow label on every format! call site) not to contain the target value - so `env.NOPE` cannot disclose other '
          'variables. Capture of the environment in main, --no-strict plumbing and the parser\'s refusal of `let env` are not covered.'),
    design_ref='DESIGN.md §5 C18',
    note=('Trusted: Verus/Z3; BTreeMap iteration yields each entry once in key order (model); Rc<str> equality compares contents; '
          'format! call sites reduced to tainted/clean stubs by rule R1T (the label is computed from the macro arguments).'),
    technique='Verus contracts on extracted get_binding/get_env_vars_tuple/op_index with information-flow labels on messages',
)

CLAIMS['C05'] = dict(
    text=('PARTIAL, narrow (literal layer): for ALL strings s, the printer\'s real escape_quotes followed by the tokenizer\'s real '
          'string scanner returns s (full UTF-8 round-trip lemma over the two contracts, using vstd\'s proved UTF-8 encoder); a field '
          'name is printed bare only if it has the tokenizer\'s bareword shape. Every render arm, comment placement and the fixed-point '
          'clause are NOT covered - a defect there is not seen by this check.'),
    design_ref='DESIGN.md §5 C05',
    note=('Trusted: Verus/Z3 and vstd::utf8; String::from_utf8 / char::is_ascii_alphabetic specs; the callers of escapequoted position '
          'the iterator on a char boundary (just after the ASCII opening quote) - stated as a requires, not discharged; extraction rules in evidence.'),
    technique='Verus contracts on extracted escape_quotes/is_bareword/escapequoted + round-trip lemma',
)
CLAIMS['C08'] = dict(
    text=('DECIDED modulo std models: against a spec-level POSIX word reader written from the standard (validated against /bin/sh and bash '
          'on all strings <= 5 over the property\'s alphabet by the agent\'s one-off script), for ALL strings the real single- and '
          'double-quote escapers yield text the shell reads back as exactly one word equal to the original with nothing interpreted; the '
          'real env, flags and exec converters emit, for every value tree, exactly the in-order concatenation of the per-field text '
          '(scalars once each, skipped fields contribute the empty string, so nothing is swallowed or merged).'),
    design_ref='DESIGN.md §5 C08',
    note=('Trusted: Verus/Z3; std str::replace(char,&str) behaves like the verified loop model; Display of i64/f64/bool yields one plain word '
          '(uninterpreted); write!/writeln! call sites replaced by per-call-site stubs that carry the literal pieces of the format string (R2); '
          'for-loops with continue rewritten to indexed while-loops (R13); exec: the converse (valid tuple => Ok) is not proved.'),
    technique='Verus contracts on extracted escapers and converters against a POSIX word-reader oracle',
)
CLAIMS['C11'] = dict(
    text=('PARTIAL: (a) position stepping: the real StrIter/OffsetStrIter next() advances offset by one, a line feed increments line and '
          'resets column to 1, anything else increments column, and by induction after k steps the reported line/column/offset are the '
          'true ones (columns count bytes); Position::from reports them. (b) string literals: the real scanner decodes exactly the '
          'documented escapes and preserves every other byte, including bytes >= 0x80, and stops at the first unescaped quote; terminates. '
          '(c) the real tokenizer, function by function with the abortable_parser macros taken verbatim from the pinned dependency: '
          'whitespace consumes exactly the maximal run of space / tab / LF / VT / FF / CR; comment is `//` up to the first LF, CRLF or end of '
          'input (a lone CR is comment text); each of the 31 operator / punctuation recognisers succeeds iff the input starts with its text, the 19 '
          'keyword recognisers additionally need a following separator; digits / barewords take the maximal run; every token carries its exact text '
          'and its TRUE position (captured before consuming); token() never aborts, makes progress, recognises WS / COMMENT / END wherever they '
          'start, and wherever the input starts with a two-character operator (== => >= <= .. :: && || %% != !~) the token is that operator; '
          'tokenize() terminates and its output is the non-WS non-COMMENT subsequence of a token tiling of the whole input, in order, followed by '
          'exactly one END token at the final position; with a comment map, consecutive comment lines are grouped in order under the line of '
          'their last comment and nothing is overwritten. NOT covered deductively: the text decoded by strtok beyond shape (b covers the '
          'scanner), layout insensitivity as a statement about PARSE results (bounded stand-ins).'),
    design_ref='DESIGN.md §5 C11',
    note=('Trusted: Verus/Z3, vstd::utf8; a str is at most isize::MAX bytes; String::from_utf8 spec; StrIter::seek (unused by ucg) breaks '
          'the representation invariant and is excluded; StrIter::span models str::index(Range) from the std docs; the four looping '
          'abortable_parser macros (text_token!, until!, consume_all!, repeat!) are rewritten for Verus (indexed loop, closure taking the '
          'iterator by value) - listed as extraction drops; units are linked by shared spec functions (opaque_body of whitespace/comment/token).'),
    technique='Verus contracts + induction lemma on extracted StrIter/OffsetStrIter, escapequoted, every token recogniser, token and tokenize',
)
CLAIMS['C13'] = dict(
    text=('DECIDED at collector + verdict + directory-walk level: the collector\'s success flag is the AND of all recorded entries, its '
          'counter their number, its summary one line per entry; the assert hook records exactly one entry per call - (desc, ok) for a '
          'well-formed tuple and a failing entry for anything else; do_validate returns true iff the build succeeded and every entry '
          'recorded DURING THAT CALL is ok, and prints exactly that call\'s entries; visit_ucg_files returns the AND of all verdicts at any '
          'depth and test_command exits non-zero iff some verdict was false. Assertions evaluated before a build error are not logged (stated).'),
    design_ref='DESIGN.md §5 C13',
    note=('Trusted: Verus/Z3; FileBuilder::build only appends to the collector (assumed); RefCell borrows never conflict (R11); directory '
          'iteration, clap and path operations are stubs; counter < i32::MAX; a directory listing error mid-way is excluded by a stated hypothesis.'),
    technique='Verus contracts on extracted AssertCollector, Builtins::assert, do_validate, visit_ucg_files over a ghost log',
)

CLAIMS['C06'] = dict(
    text=('PARTIAL (run-time half): for all values and constraints, the real ConstraintVal::check returns true iff the constraint has no '
          'arms or some arm admits the value - integer and float ranges with INCLUSIVE bounds, an absent bound unconstrained, a range never '
          'admitting the other numeric type or a non-number, an exact alternative by value equality, and an alternative that is itself a '
          '(named) constraint admitting exactly what that constraint admits; the VM builds arm k from the k-th group of operands in source '
          'order (start below end, NULL = open, mixed Int/Float = error) and op_check_constraint fails the build iff the value is not '
          'admitted, leaving the checked value on the stack. Static half (the exemplar rules): for all shapes without named-constraint '
          'references the real Shape::narrow / narrow_cached / narrow_tuple_shapes_cached / narrow_list_shapes_cached / is_tuple_subset_cached / '
          'is_list_subset_cached return a TypeErr iff the two shapes are NOT compatible per the property statement (same primitive type; '
          'tuples agreeing on shared fields with one field set contained in the other; lists where every element type of one side is '
          'admitted by the other; holes / Any / empty candidate sets unconstrained), otherwise the more specific side (for tuples: every '
          'field of both), symbol-table key set and memo cache framed; with named constraints: memo-cache safety (in-progress marker, no '
          'out-of-range index, results recorded) and TERMINATION on all shapes including self-referential constraints. NOT covered: '
          'correctness of narrowing through named constraints (least fix point), Func/Module shape arms (stubbed), derive_shape of '
          'expressions, the constraint grammar, placement of CheckConstraint by the translator. '
          'Unit typecheck_scope: the Let arm of the checker binds exactly name -> shape (every other key untouched) where the shape is the VALUE\'s unless that is unknown, refuses with exactly one diagnostic and binds nothing when narrowing fails, and for shapes without named constraints accepts iff compat(value shape, constraint shape).'),
    design_ref='DESIGN.md §5 C06',
    note=('Trusted: Verus/Z3; container equality (List/Tuple arms of Val::equal) and the IR conversion of containers are uninterpreted stubs; '
          'f64 comparisons are functions of their operands; Option::is_none_or / Result::unwrap_or specs; .iter().any() through a verified '
          'loop model; stack depth >= operands demanded by the arm types is a caller obligation (translator invariant); static half: derived Clone/== of '
          'Shape structural/reflexive, Rc<str> a lawful BTreeMap key, slice iter().next()/find() through verified models, Func/Module arms assumed.'),
    technique='Verus contracts on extracted ConstraintVal::check, Val::equal (scalars), VM::op_build_constraint/op_check_constraint, Shape::narrow* and the subset functions',
)

CLAIMS['C03'] = dict(
    text=('PARTIAL (the ucg-owned half): for every value tree, the real Val -> serde_json / toml / serde_yaml value mappers return Ok exactly when '
          'the abstract data tree of the value is defined (constraint values are errors; NULL is an error for TOML; a non-finite float is an '
          'error for JSON) and then the format value denotes exactly that tree: integers exactly, strings/bools identical, lists same length '
          'and order element-wise, tuples same key set value-wise; any failing element fails the whole conversion (nothing dropped). The VM '
          'value -> Val lowering preserves the tree. JSON numbers agree NUMERICALLY (an integer may be written as the double that holds it '
          'exactly, e.g. 42.0; one trusted IEEE-754 axiom: doubles hold integers up to 2^53 exactly). The text produced by the serializers and its validity for an independent decoder are NOT covered (dependencies).'),
    design_ref='DESIGN.md §5 C03',
    note=('Trusted: Verus/Z3; serde_json::Number / Map, toml Table, serde_yaml Mapping and to_value are models written from the pinned '
          'sources (serde_json and toml without preserve_order: BTreeMap, key-sorted; first-insert-wins for entry().or_insert, last-wins '
          'keeping position for Mapping::insert); f64 finiteness uninterpreted; TOML/YAML pass non-finite floats through (the formats can '
          'represent them); yamlmulti framing not covered.'),
    technique='Verus contracts on extracted convert_value/convert_list/convert_tuple/convert_env of the three converters against an abstract data tree',
)
CLAIMS['C15'] = dict(
    text=('PARTIAL (the ucg-owned half): for every parsed format value, the real serde_json / toml / serde_yaml value -> Val mappers return '
          'a value denoting the same abstract data tree (integers that fit i64 as Int, other numbers as Float, integers above i64::MAX an '
          'error, strings/bools identical, null as NULL, arrays order-preserving, objects key- and value-preserving; YAML under the '
          'property\'s hypothesis: unique string keys, no merge keys or tags); the real include hook pops both operands, returns the file\'s '
          'text unchanged for `str` (UTF-8 decoding specified by vstd), is an error for an unknown type or an importer error, and otherwise '
          'pushes exactly the importer\'s value for exactly the file\'s bytes; b64/b64urlsafe select the matching alphabet. The parsers '
          '(text -> format value) are dependencies and are assumed.'),
    design_ref='DESIGN.md §5 C15',
    note=('Trusted: Verus/Z3; from_slice of each dependency as an uninterpreted parse function; Map/Table/Mapping models (JSON and TOML objects '
          'arrive in ascending key order: preserve_order is off); u64/i64 as f64 uninterpreted; file system as a ghost World; base64 Engine::encode; '
          'the cross-unit link from include_hook to the three importers is by contract text, not mechanised.'),
    technique='Verus contracts on extracted convert_json_val/convert_toml_val/convert_yaml_val, Builtins::include and the importer registry',
)

CLAIMS['C12'] = dict(
    text=('PARTIAL, narrow (the ucg-owned half): for all document tuples of any depth and any strings, the sequence of xml-rs events the real '
          'XmlConverter::write / write_node hand to the writer is exactly the document the tuple DSL describes (oracle: recursive spec '
          'functions written from the reference): StartDocument with the given version/encoding/standalone, per element Start{name, '
          'attributes in field order with NULL omitted, namespace declarations}, children in order, End (also for childless elements), '
          'bare strings and {text=..} as Characters unchanged; every document the DSL cannot express (not a tuple, no root, root not an '
          'element, a node that is neither tuple nor string, both name and text, neither name nor text, mistyped ns / version / attribute) '
          'is an error and nothing of the offending node is emitted; Start/End are balanced. How events become bytes - well-formedness '
          'checks, escaping, indentation - is xml-rs and is NOT covered.'),
    design_ref='DESIGN.md §5 C12',
    note=('Trusted: Verus/Z3; the xml-rs model in prelude/xml_events_model.rs (a successful EventWriter::write appends exactly the event; '
          'builders attr/ns/default_ns push in call order); BuildError opaque; R13 indexed loops; dyn Write as a stand-in.'),
    technique='Verus contracts on extracted XmlConverter::write/write_node against a ghost event log',
)

CLAIMS['C20'] = dict(
    text=('PARTIAL, narrow (the position kernel only): for every token list the tokenizer can produce and EVERY (line, character) in u32 a '
          'client can send, the real cursor -> token lookups (token_index_at, token_at, token_prefix_at, cursor_in_string, '
          'collect_dot_path) and the 1-based/0-based conversions (ucg_pos_to_range, the delta encoding of encode_semantic_tokens) never '
          'panic or overflow, terminate, and return exactly the specified token / prefix / dot path; ranges derived from the token under '
          'the cursor lie on the requested line with start <= end; semantic-token deltas decode to real token positions. NOT covered: '
          'the JSON-RPC loop, the diagnostics-equal-fresh-server and parser-agreement clauses, the workspace index: those are sampled '
          'by the bounded stand-ins (a Python LSP client driving the real server: positions on every shipped file, seeded sessions, '
          'malformed requests), with the deviations found listed as known findings. '
          'Unit lsp_loop (the real main_loop / handle_request / handle_notification / publish_diagnostics plus the pinned lsp-server handle_shutdown / extract / Response constructors, verified, over a ghost-logged channel): every request of the five kinds gets exactly one response with its id (ok iff its params are readable), in arrival order; an unreadable request or notification never ends the session; the loop ends only at exit, shutdown+exit, exhausted input or a closed channel; didOpen / didChange (LAST content change) / didClose publish exactly one diagnostics notification for that uri; a request of an unknown method gets no reply (stated as the code behaves).'),
    design_ref='DESIGN.md §5 C20',
    note=('Trusted: Verus/Z3; lsp_types Position/Range/SemanticToken extracted from the pinned dependency; verified loop models for '
          'position/find/rfind/chars().take(); tokens in document order and documents below 4 GiB per dimension (requires); '
          'LSP character = UTF-16 units vs ucg byte columns is a precision limit of the real code, not a totality issue.'),
    technique='Verus totality + functional contracts on extracted LSP position functions',
)

CLAIMS['C09'] = dict(
    text=('PARTIAL, function level (no induction over the import graph): (1) the real pre-translation Rewriter + the whole real AST Walker '
          '(every default method, all 34 AST types extracted) reach every Import / Include node at EVERY syntactic position of a file '
          '(top level, function body, map/filter/reduce callback, fail message, module body / out expression, let / field / parameter '
          'constraints, ...) exactly once, join a relative path to the containing file\'s directory, and leave absolute paths, std/ paths '
          'and every other field of the tree untouched; (2) the real import hook Builtins::import reads and writes its value cache under ONE '
          'key, the normalised path: a hit pushes the very same Rc with no evaluation and no state change, a miss is exactly one evaluation '
          'of the file the key names, run in the key\'s directory, whose result is what is cached and pushed; (3) a key that is on the '
          'import stack and not cached is an error with no evaluation, and every evaluating VM carries its own file on its import stack. '
          'NOT covered deductively: which spellings normalize / is_relative / join identify (uninterpreted), VM::run re-entering the hook '
          '(so "once per build" end to end is the bounded stand-in\'s), the op cache, the type checker\'s separate static resolution, '
          'FileBuilder seeding of the main file; working directories and file trees are sampled by the bounded stand-in. '
          'Unit link_ops (see C16) proves the linker half: paths are normalized before they are compared or loaded, so an import cycle through `..` terminates.'),
    design_ref='DESIGN.md §5 C09',
    note=('Trusted: Verus/Z3; extraction rules and substs listed in evidence (Visitor/Walker monomorphised to Rewriter; RefCell<Environment> -> &mut '
          'Environment + ghost world; VM::run logs one run record and havocs); path::normalize, Path::parent/join/is_relative, str::replace '
          'uninterpreted functions of the path text; BTreeMap get/insert model; Rc clone = pointer equality; to_string_lossy lossless.'),
    technique='Verus relational contracts on the extracted AST walker / path rewriter and whole-state contract on the extracted import hook',
)

CLAIMS['C16'] = dict(
    text=('PARTIAL, function level (the hyperproperty itself is not a contract): the caches the files of one invocation share are coherent one '
          'step at a time. Opcode cache (cache.rs whole file, Environment::get_ops_for_path / add_ops_for_path_and_content): every lookup returns '
          'exactly the ops a fresh read-parse-check-translate of the SAME path returns; the entry is stored under and served for that path only; '
          'the computation runs only on a miss (the FnOnce closure provably cannot be called on a hit); a failed computation leaves no entry and '
          'no other change; hence lookups of different files commute, a repeated lookup changes nothing, a failed lookup leaves no trace (lemmas '
          'L0-L3). Import value cache and output-lock set: exact map / set semantics with frames. Type checker shape cache '
          '(Checker::resolve_import): looked up and stored under ONE key, the normalized join of the checker\'s directory and the path; a hit yields '
          'exactly the shape a fresh resolution of THAT import expression yields (positioned at it, not at the first importer); failures leave no '
          'entry (S1-S3). NOT covered: the induction over the import graph, VM::run determinism, when output locks are released '
          '(FileBuilder::build), the assertion collector (C13 units); batches / orders / repetitions are sampled by the bounded stand-in where present. '
          'Unit link_ops: FileBuilder::link_ops looks up exactly the set of files reachable through imports, each NORMALIZED and once, terminates when that set is finite, and reports a load error at the import that names the file; FileBuilder::build releases every output lock before loading and evaluates the file once in its own directory. Unit build_cmd: every file of a batch is attempted and starts from an empty value cache (see C14).'),
    design_ref='DESIGN.md §5 C16',
    note=('Trusted: Verus/Z3; extraction rules and substs listed in evidence; parser, checker walk, translator, file reads as uninterpreted functions of '
          'their inputs (file system fixed during the run); a successful type check does not depend on the import stack it started with (explicit '
          'hypothesis of S1); BTreeMap / btree_map::Entry / BTreeSet / PathBuf models; RefCell shape cache cell opaque in env_caches.'),
    technique='Verus whole-map contracts on the extracted op cache, Environment cache accessors and Checker::resolve_import, lemmas for commutation / idempotence',
)

CLAIMS['C17'] = dict(
    text=('PARTIAL, narrow (position plumbing of RUN-TIME faults in the opcode VM; nothing about syntax errors or statement spans): every error '
          'raised by a VM handler or runtime hook under contract (arithmetic, comparison, boolean and jump ops, select, fail, name lookup, binding, '
          'selector, tuple / list / copy, cast, call, module call, regex, range, include, map / filter / reduce) carries the position of the failing '
          'op or of one of that op\'s operands - never none, never a default 0:0, never a position from inside a callee; the real interpreter loop '
          'VM::run hands each handler the position stored with its op and returns handler errors unchanged (same position, same call stack); a '
          'fault inside a called function, a module body or out expression, or a map / filter / reduce callback keeps its own position and gets '
          'the call site appended as VIA, and Display prints the primary position first, then the VIA lines in call order; for binary operators, '
          'not, casts, fail, calls, copies, names and literals the translator pairs the op that can fail with its AST node\'s position. NOT '
          'covered: syntax-error positions (parser combinators), that a node position lies inside the statement\'s source span (the AST carries no '
          'end positions), type-checker diagnostics, invariance under added statements, the import / out / convert / trace hooks, ~100 other '
          'translator push sites.'),
    design_ref='DESIGN.md §5 C17',
    note=('Trusted: Verus/Z3; extraction rules and 96 substs listed in evidence (`?` with a foreign error type rewritten to its From::from desugaring); '
          'nested VM::run opaque in err_pos (its two error clauses are proved in err_pos_run, "Ok leaves a value on the stack" is the translator '
          'invariant); env_ok() excludes current_dir()/artifact I/O failures; regex / File / importer stubs; Value::type_name, Value::eq models.'),
    technique='Verus contracts on the extracted opcode Error type, decorate macros, VM handlers, runtime hooks, VM::run and translator arms: error position = op / operand position',
)

NOT_APPLICABLE = {
    'C07': 'relational completeness between the whole type checker and the whole evaluator; no per-function contract within reach of Verus/Kani states "accepts what runs" (DESIGN §5 C07)',
    'C19': 'the helpers are UCG programs (std/*.ucg), not Rust; neither verifier reads UCG (DESIGN §5 C19)',
}
