// ---- prelude/collector_env.rs: R11 stand-in for `Environment<O, E>` as far as assertions are concerned ----
// `&RefCell<Environment<O,E>>` becomes `&mut VEnv`.  Of the real struct only `assert_results` is kept as a
// field; every other field (caches, registries, stdout/stderr, env vars, out locks) is folded into the opaque
// `rest`, which none of the extracted functions touches.
// `log` is a ghost HISTORY variable: every (msg, ok) ever passed to `record_assert_result` on this environment,
// in order.  It is never reset, so "the entries recorded during a call" is simply the part of `log` appended
// between the call's pre- and post-state.  How the collector relates to the history is `tracks`.
#[verifier::external_body]
pub struct VEnvRest { _p: u8 }

impl VEnvRest {
    // `Environment.val_cache.clear()` (do_validate resets the import value cache per validated file, fix a5bfd6a): the
    // value cache is part of `rest`, about which the C13 contracts say nothing (havoc).
    #[verifier::external_body]
    pub fn clear_val_cache(&mut self) { unimplemented!() }
}

pub struct VEnv {
    pub assert_results: AssertCollector,
    pub rest: VEnvRest,
    pub log: Ghost<Seq<Entry>>,
    // second history variable (used by unit verdict): every `FileBuilder::build` run against this
    // environment, as (path, returned Ok)
    pub builds: Ghost<Seq<(PathId, bool)>>,
}
// identity of a file-system path (opaque)
pub struct PathId { pub id: int }

// R11: `RefCell::borrow_mut` / `RefCell::borrow` on the stand-in are the identity on the `&mut` (so call sites
// `env.borrow_mut().f(..)`, `self.environment.borrow().x` stay verbatim).  ASSUMPTION of R11: the dynamic
// borrows of the real RefCell never conflict (a conflict would be a panic, not a wrong verdict).
impl VEnv {
    pub fn borrow_mut(&mut self) -> (r: &mut VEnv)
        ensures *r == *old(self), *final(r) == *final(self)
    { self }
    pub fn borrow(&self) -> (r: &VEnv)
        ensures *r == *self
    { self }
}

// The entries recorded since history index `m`.
pub open spec fn since(env: VEnv, m: int) -> Seq<Entry> {
    env.log@.subrange(m, env.log@.len() as int)
}

// The collector holds exactly the entries recorded since history index `m`.
pub open spec fn tracks(env: VEnv, m: int) -> bool {
    0 <= m <= env.log@.len() && repr(env.assert_results, since(env, m))
}

// Whatever suffix of the history the collector held before, it holds the same suffix (now longer) afterwards:
// entries are only appended to the collector, none is removed or rewritten.
pub open spec fn keeps_tracking(before: VEnv, after: VEnv) -> bool {
    forall|m: int| #![trigger tracks(before, m)] #![trigger tracks(after, m)] #![trigger since(after, m)]
        tracks(before, m) ==> tracks(after, m)
}

//@ extract src/build/opcode/environment.rs :: impl * Environment<Stdout, Stderr> :: fn record_assert_result
//@   impl_header impl VEnv
//@   sig <<<
        requires
            old(self).assert_results.counter < i32::MAX,
        ensures
            final(self).log@ == old(self).log@.push((desc@, ok)),
            final(self).rest == old(self).rest,
            final(self).builds == old(self).builds,
            keeps_tracking(*old(self), *final(self)),
//@   >>>
//@   after "self.assert_results.record_assert_result(desc, ok);" <<<
        proof {
            // history variable: remember the entry just recorded
            self.log@ = self.log@.push((desc@, ok));
            assert forall|m: int| #[trigger] tracks(*old(self), m) implies tracks(*self, m) by {
                let n = old(self).log@.len() as int;
                assert(self.log@.subrange(m, n + 1) =~= old(self).log@.subrange(m, n).push((desc@, ok)));
            }
        }
//@   >>>
//@ end
