// ---- prelude/typecheck_scope_models.rs: std models used by the type-checker scoping unit (inside verus!) ----

// R9': `v.into_iter().map(f).collect::<Vec<_>>()` applies f to every element, front to back, and keeps the order.
// The model is VERIFIED; the assumption is only that std's into_iter / map / collect chain behaves like it.
pub fn verif_vec_map<T, U, F: Fn(T) -> U>(v: Vec<T>, f: F) -> (r: Vec<U>)
    requires forall|i: int| 0 <= i < v@.len() ==> f.requires((#[trigger] v@[i],)),
    ensures r@.len() == v@.len(), forall|i: int| 0 <= i < v@.len() ==> f.ensures((#[trigger] v@[i],), r@[i]),
{
    let mut v = v;
    let ghost v0 = v@;
    let mut out: Vec<U> = Vec::new();
    while v.len() > 0
        invariant
            out@.len() + v@.len() == v0.len(),
            v@ == v0.subrange(out@.len() as int, v0.len() as int),
            forall|i: int| 0 <= i < v0.len() ==> f.requires((#[trigger] v0[i],)),
            forall|i: int| 0 <= i < out@.len() ==> f.ensures((#[trigger] v0[i],), out@[i]),
        decreases v@.len()
    {
        let x = v.remove(0);
        assert(x == v0[out@.len() as int]);
        let y = f(x);
        out.push(y);
    }
    out
}

// std: `m.into_iter().map(f).collect::<BTreeMap<_, _>>()` for an f that keeps the key: the result has the same keys and
// under each key what f made of the entry. ASSUMED (BTreeMap's owning iterator has no vstd model).
#[verifier::external_body]
pub fn verif_btree_map_entries<V, F: Fn((Rc<str>, V)) -> (Rc<str>, V)>(m: BTreeMap<Rc<str>, V>, f: F) -> (r: BTreeMap<Rc<str>, V>)
    requires
        forall|k: Rc<str>| m@.contains_key(k) ==> f.requires(((k, #[trigger] m@[k]),)),
        forall|e: (Rc<str>, V), o: (Rc<str>, V)| #[trigger] f.ensures((e,), o) ==> o.0 == e.0,
    ensures
        r@.dom() =~= m@.dom(),
        forall|k: Rc<str>| m@.contains_key(k) ==> f.ensures(((k, #[trigger] m@[k]),), (k, r@[k])),
{ m.into_iter().map(f).collect() }

// std: `slice.contains(x)` - some element equals x.
pub assume_specification<T: PartialEq> [<[T]>::contains] (s: &[T], x: &T) -> (r: bool)
    ensures <T as PartialEqSpec<T>>::obeys_eq_spec() ==> r == (exists|i: int| 0 <= i < s@.len() && (#[trigger] s@[i]).eq_spec(x));

// std, BTreeMap::append: "Moves all elements from other into self, leaving other empty. If a key from other is already
// present in self, the respective value from self will be overwritten with the respective value from other."
pub assume_specification<K, V, A: std::alloc::Allocator + Clone> [BTreeMap::<K, V, A>::append] (m: &mut BTreeMap<K, V, A>, other: &mut BTreeMap<K, V, A>)
    where K: Ord, A: Clone
    ensures
        final(m)@ == old(m)@.union_prefer_right(old(other)@),
        final(other)@ == Map::<K, V>::empty();

// std: `impl<T> From<T> for T` (the reflexive conversion is the identity) and `impl<T> From<T> for Box<T>` (boxes the value),
// reached through `.into()`.
pub mod typecheck_scope_axioms {
use super::*;
use vstd::std_specs::convert::IntoSpec;
#[verifier::external_body]
pub broadcast proof fn axiom_position_into_obeys()
    ensures #[trigger] <Position as IntoSpec<Position>>::obeys_into_spec()
{ }
#[verifier::external_body]
pub broadcast proof fn axiom_position_into(p: Position)
    ensures #[trigger] <Position as IntoSpec<Position>>::into_spec(p) == p
{ }
#[verifier::external_body]
pub broadcast proof fn axiom_shape_box_obeys()
    ensures #[trigger] <Shape as IntoSpec<Box<Shape>>>::obeys_into_spec()
{ }
#[verifier::external_body]
pub broadcast proof fn axiom_shape_box(s: Shape)
    ensures #[trigger] <Shape as IntoSpec<Box<Shape>>>::into_spec(s) == Box::new(s)
{ }
pub broadcast group group_typecheck_scope_models {
    axiom_position_into_obeys, axiom_position_into, axiom_shape_box_obeys, axiom_shape_box,
}
}
pub use typecheck_scope_axioms::*;
// (a module may have one module-level `broadcast use` only and prelude/constraint_rt_models.rs has it: the group is
// named in the functions that need it)
