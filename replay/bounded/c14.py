"""C14 bounded stand-ins: `out` on the real `ucg build`, observed on disk.

Oracle (property statement + reference/statements.md "Out Statements", reference/expressions.md "Convert Expressions",
reference/converters.md, `ucg converters` for the extensions):
  * the string S that `convert <fmt> <value>` evaluates to is fetched through a second program (`out json {c = convert <fmt> <value>}`,
    decoded with python's json);
  * if S exists, `out <fmt> <value>` in file NAME.ucg must build (exit 0) and leave exactly one new file, NAME.<ext of fmt> next to the
    source, whose bytes are S (also when a longer artifact was there before: it is replaced, not patched);
  * if `convert` is a build error, the build of the file must fail (exit != 0), create nothing, and leave a pre-existing artifact
    byte-for-byte as it was;
  * values the reference declares inconvertible (NULL for toml, non-tuples for flags/exec/xml, constraint values for json/yaml/toml,
    malformed exec / xml tuples) must be build errors, values it declares convertible must convert;
  * 0 out statements: builds, nothing written; 2 out statements: build error.
Bounded: exactly the listed (converter, value) pairs and file names."""
import json
import os
import random
import shutil
import tempfile

import realcode as R

# converter -> extension (reference: .txt for flags, .env for env, .json in the api_config example; the others as listed by `ucg converters`
# on the pinned tree - checked against the live `ucg converters` output below)
EXT = {'json': 'json', 'yaml': 'yaml', 'yamlmulti': 'yaml', 'toml': 'toml', 'env': 'env', 'flags': 'txt', 'exec': 'sh', 'xml': 'xml'}

PRELUDE = 'constraint c = in 1..3;\n'
STR = r'"q\"uote\nnew line é ✓ $x `y` \\ \'s\'"'
# nested literals are bound piecewise by let first: the parser's running time explodes with the nesting depth of a literal
XML_DOC = ('let gc = {name = "myns:grandchild", children = [{text = "Another text node"}]};\nlet kids1 = ["inner text node", gc];\n'
           'let c1 = {name = "child1", ns = "http://example.org", attrs = {attr1 = "value1", attr2 = "value2"}, children = kids1};\nlet kids = [c1];\n'
           'let rt = {ns = {prefix = "myns", uri = "http://example.com"}, name = "top", attrs = {id = "foo"}, children = kids};\n', '{root = rt}')
XML_3 = ('let ch = {name = "c", attrs = {id = "1", skip = NULL}, children = NULL};\nlet kids = ["text <&> é", {text = "t2"}, ch];\nlet rt = {name = "top", children = kids};\n',
         '{version = "1.0", encoding = "utf-8", standalone = true, root = rt}')
EXEC_2 = ('let e = {K = "v w", S = ' + STR + '};\nlet fl = {f = 1, log = "debug"};\nlet a = ["a b", fl, ' + STR + '];\n', '{env = e, command = "my app", args = a}')

OK, FAIL, ANY = 'ok', 'fail', None
# (converter, value, what the reference says about it)
CASES = []
for _f in ('json', 'yaml'):
    CASES += [(_f, v, OK) for v in ('1', '"str"', STR, '1.5', 'true', 'NULL', '[1, "a", [2, NULL]]', '{a = 1, b = {c = [1, 2], d = "x"}}', '{}', '[]')]
    CASES += [(_f, 'c', FAIL), (_f, '{a = c}', FAIL), (_f, '[1, c]', FAIL)]
CASES += [('yamlmulti', '[{a = 1}, {b = [2, 3]}, "s"]', OK), ('yamlmulti', '{a = 1}', ANY), ('yamlmulti', '[]', ANY), ('yamlmulti', '[' + STR + ']', OK),
          ('yamlmulti', '[c]', FAIL), ('yamlmulti', 'c', ANY)]
CASES += [('toml', '{a = 1, b = "x", c = [1, 2], d = {e = 1.5, f = true}}', OK), ('toml', '{s = ' + STR + '}', OK), ('toml', '{}', ANY), ('toml', '{a = [{b = 1}, {b = 2}]}', ANY),
          ('toml', '{a = NULL}', FAIL), ('toml', 'NULL', FAIL), ('toml', '{a = {b = [1, NULL]}}', FAIL), ('toml', '{a = 1, z = NULL}', FAIL), ('toml', '1', ANY), ('toml', '[1, 2]', ANY),
          ('toml', '{a = c}', FAIL), ('toml', 'c', FAIL)]
CASES += [('env', '{A = "x y", B = 1, C = true, D = 1.5}', OK), ('env', '{A = "it\'s", L = [1], N = NULL, T = {x = 1}, Z = "z"}', OK), ('env', '{S = ' + STR + '}', OK), ('env', '{}', ANY),
          ('env', '1', ANY), ('env', '"s"', ANY), ('env', '[1]', ANY), ('env', 'NULL', ANY), ('env', '{a = c, b = 1}', ANY), ('env', 'c', ANY)]
CASES += [('flags', '{a = 1, bb = "x y", l = ["p", "q"], n = NULL, t = {x = 1}, z = true}', OK), ('flags', '{s = ' + STR + '}', OK), ('flags', '{}', ANY),
          ('flags', '1', FAIL), ('flags', '"s"', FAIL), ('flags', '[1]', FAIL), ('flags', 'NULL', FAIL), ('flags', 'true', FAIL), ('flags', '1.5', FAIL), ('flags', '{a = c, b = 1}', ANY), ('flags', 'c', FAIL)]
CASES += [('exec', '{command = "app"}', OK), ('exec', EXEC_2, OK),
          ('exec', '{command = "app", args = []}', ANY), ('exec', '{command = "app", env = {}}', ANY),
          ('exec', '1', FAIL), ('exec', '"s"', FAIL), ('exec', '[1]', FAIL), ('exec', 'NULL', FAIL), ('exec', '{}', FAIL), ('exec', '{args = ["a"]}', FAIL), ('exec', '{command = 1}', FAIL),
          ('exec', '{command = "a", args = 1}', FAIL), ('exec', '{command = "a", args = "x"}', FAIL), ('exec', '{command = "a", env = 1}', FAIL), ('exec', '{command = "a", env = ["x"]}', FAIL),
          ('exec', '{command = "a", args = [1]}', FAIL), ('exec', '{command = "a", args = ["x", [1]]}', FAIL), ('exec', '{command = "a", env = {K = 1}}', FAIL),
          ('exec', '{command = c}', FAIL), ('exec', 'c', FAIL), ('exec', '{command = "a", bogus = 1}', ANY)]
CASES += [('xml', XML_DOC, OK), ('xml', '{root = {name = "top"}}', OK), ('xml', XML_3, OK),
          ('xml', '1', FAIL), ('xml', '"s"', FAIL), ('xml', '[1]', FAIL), ('xml', 'NULL', FAIL), ('xml', '{}', FAIL), ('xml', '{version = "1.0"}', FAIL), ('xml', '{root = 1}', FAIL), ('xml', '{root = {}}', ANY),
          ('xml', '{root = {name = 1}}', FAIL), ('xml', '{root = {name = "a", children = 1}}', FAIL), ('xml', '{root = {name = "a", attrs = 1}}', FAIL), ('xml', '{root = {name = "a", children = [1]}}', FAIL),
          ('xml', '{root = {name = "a", children = [{nme = "b"}]}}', ANY), ('xml', '{root = {name = "a", ns = 1}}', ANY), ('xml', '{root = c}', FAIL), ('xml', 'c', FAIL)]

# NB three malformed xml tuples are only checked for consistency (ANY): the real converter accepts an element without `name` and a
# non-string/non-tuple `ns` although the reference calls them required/typed - that is the XML DSL's strictness, not what C14 states.
CASES = [(f, v if isinstance(v, tuple) else ('', v), m) for f, v, m in CASES]


def prog(f, v, convert=False):
    return PRELUDE + v[0] + 'let v = %s;\n' % v[1] + ('out json {c = convert %s v};\n' % f if convert else 'out %s v;\n' % f)


# (converter, value) pairs on which the real code violates the property (none on the pinned HEAD)
KNOWN = []

SENTINEL = 'PREVIOUS ARTIFACT - must survive a failed build untouched\n' * 40     # longer than any artifact of the table


def viol(name, bound, n, detail, **inp):
    return dict(name=name, bound=bound, cases=n, status='violation', detail=detail[:600], input=inp)


def tree(d):
    res = set()
    for root, _, files in os.walk(d):
        for f in files:
            res.add(os.path.relpath(os.path.join(root, f), d))
    return res


def rd(p):
    return open(p, 'rb').read() if os.path.exists(p) else None


def standin_out_equals_convert(tier, seed):
    rnd = random.Random(seed)
    cases = [c for c in CASES if (c[0], c[1][1]) not in KNOWN]
    bound = ('%d (converter, value) pairs over all 8 registered converters (%d documented convertible, %d documented inconvertible - NULL for toml, non-tuples for flags/exec/xml, constraint values, '
             'malformed exec/xml tuples -, %d undocumented: only consistency with `convert`), each built without and with a pre-existing (longer) artifact; %s also built on its own (exit status)'
             % (len(cases), sum(1 for c in cases if c[2] == OK), sum(1 for c in cases if c[2] == FAIL), sum(1 for c in cases if c[2] is ANY),
                'every file' if tier == 'thorough' else 'a seeded sample of 4 files'))
    name = 'out_equals_convert'
    work = tempfile.mkdtemp(prefix='verif_c14_')
    n = 0
    try:
        for i, (f, v, must) in enumerate(cases):
            open(os.path.join(work, 'k%d.ucg' % i), 'w', encoding='utf-8').write(prog(f, v))
            open(os.path.join(work, 'conv%d.ucg' % i), 'w', encoding='utf-8').write(prog(f, v, True))
        arts = [os.path.join(work, 'k%d.%s' % (i, EXT[f])) for i, (f, v, must) in enumerate(cases)]
        knames = ['k%d.ucg' % i for i in range(len(cases))]
        S = None
        for pre in (None, SENTINEL):
            for a in arts:
                if os.path.exists(a):
                    os.remove(a)
                if pre:
                    open(a, 'w').write(pre)
            before = tree(work)
            # first round: the `convert` programs are built by the same invocation (saves one start-up of the binary)
            rc, so, se = R.run_ucg(['build'] + (['conv%d.ucg' % i for i in range(len(cases))] if S is None else []) + knames, work, timeout=600)
            after = tree(work)
            if S is None:
                stray = sorted(x for x in after - before if x.startswith('conv') and x not in ['conv%d.json' % i for i in range(len(cases))])
                if stray:
                    return viol(name, bound, 1, '`out json` in conv*.ucg wrote %s instead of conv*.json' % stray[:3], source=prog(cases[0][0], cases[0][1], True), expected='conv0.json',
                                observed=stray[:10], how='`ucg build conv0.ucg ...`; directory listing')
                S = []
                for i in range(len(cases)):
                    p = os.path.join(work, 'conv%d.json' % i)
                    S.append(json.load(open(p, encoding='utf-8'))['c'].encode('utf-8') if os.path.exists(p) else None)
                    after.discard('conv%d.json' % i)
                how0 = 'conv.ucg = the program below; `ucg build conv.ucg`; conv.json decoded with a JSON parser'
                for i, (f, v, must) in enumerate(cases):
                    if must == OK and S[i] is None:
                        return viol(name, bound, i + 1, '`convert %s %s` is a build error, the reference declares the value convertible' % (f, v[1]), source=prog(f, v, True),
                                    expected='a string', observed='build error', how=how0)
                    if must == FAIL and S[i] is not None:
                        return viol(name, bound, i + 1, '`convert %s %s` yields %r, the reference declares the value inconvertible (must be a build error)' % (f, v[1], S[i][:80]),
                                    source=prog(f, v, True), expected='build error', observed=S[i].decode('utf-8', 'replace')[:300], how=how0)
            anybad = any(x is None for x in S)
            for i, (f, v, must) in enumerate(cases):
                n += 1
                got = rd(arts[i])
                how = '`ucg build k%d.ucg` (k%d.ucg = source) in a directory where k%d.%s %s; `convert` value from `%s` via out json' % (
                    i, i, i, EXT[f], 'does not exist' if pre is None else 'holds %d bytes of an earlier build' % len(pre), 'let c = convert %s v;' % f)
                if S[i] is not None and got != S[i]:
                    return viol(name, bound, n, '`out %s %s`: artifact k%d.%s %s, but `convert %s` of the same value is %r' % (
                        f, v[1], i, EXT[f], 'is missing' if got is None else 'holds %r' % got[:120], f, S[i][:120]), source=prog(f, v),
                        expected=S[i].decode('utf-8', 'replace'), observed=None if got is None else got.decode('utf-8', 'replace')[:2000], how=how)
                if S[i] is None and got != (pre.encode() if pre else None):
                    return viol(name, bound, n, '`out %s %s` cannot be converted; artifact k%d.%s before the failed build: %s, after: %s' % (
                        f, v[1], i, EXT[f], 'absent' if pre is None else '%d bytes' % len(pre), 'absent' if got is None else '%d bytes %r' % (len(got), got[:60])), source=prog(f, v),
                        precondition='k%d.%s %s' % (i, EXT[f], 'absent' if pre is None else 'contains %r x 40' % SENTINEL[:58]), expected='build error, artifact as before',
                        observed='absent' if got is None else got.decode('utf-8', 'replace')[:300], how=how)
            exp_new = set(os.path.basename(a) for a, x in zip(arts, S) if x is not None and pre is None)
            if after - before != exp_new:
                odd = sorted((after - before) ^ exp_new)
                k = int(''.join(ch for ch in odd[0].split('.')[0] if ch.isdigit()) or 0) if odd[0].startswith('k') else 0
                return viol(name, bound, n, 'files created by the build differ from the expected artifacts: %s' % odd[:6], source=prog(cases[k][0], cases[k][1]) if k < len(cases) else '', expected=sorted(exp_new),
                            observed=sorted(after - before), how='directory listing before/after `ucg build k0.ucg ... k%d.ucg` (source shown: k%d.ucg)' % (len(cases) - 1, k))
            if before - after:
                return viol(name, bound, n, 'the build deleted %s' % sorted(before - after)[:6], source='(all k*.ucg of the table)', expected='nothing deleted', observed=sorted(before - after), how='directory listing before/after')
            if (rc != 0) != anybad:
                return viol(name, bound, n, 'exit status %d of a build with %s inconvertible values' % (rc, 'some' if anybad else 'no'), source='(all k*.ucg of the table)', expected='non-zero iff a file fails',
                            observed='rc=%d' % rc, how='`ucg build k0.ucg ...`')
        # each file on its own: exit status
        idx = list(range(len(cases)))
        if tier != 'thorough':
            bad = [i for i in idx if S[i] is None]
            good = [i for i in idx if S[i] is not None]
            idx = rnd.sample(bad, min(3, len(bad))) + rnd.sample(good, min(1, len(good)))
        for i in idx:
            f, v, must = cases[i]
            n += 1
            before = tree(work)
            keep = rd(arts[i])
            rc, so, se = R.run_ucg(['build', 'k%d.ucg' % i], work)
            if (rc == 0) != (S[i] is not None) or tree(work) != before or (S[i] is None and rd(arts[i]) != keep):
                return viol(name, bound, n, '`out %s %s` built alone: exit status %d, `convert` of the value %s; files before/after differ: %s' % (
                    f, v[1], rc, 'fails' if S[i] is None else 'succeeds', sorted(tree(work) ^ before)), source=prog(f, v),
                    expected='exit status %s' % ('!= 0' if S[i] is None else '0'), observed='rc=%d %s' % (rc, (so + se)[-300:]), how='`ucg build k%d.ucg`' % i)
    finally:
        shutil.rmtree(work, ignore_errors=True)
    return dict(name=name, bound=bound, cases=n, status='ok')


NAMES = ['plain', 'with.dots', 'sp ace é✓', 'sub/nested', 'UPPER', '.hidden', 'twice.ucg', 'sub/deep er/x.y', '-dash']


def standin_artifact_name(tier, seed):
    """The artifact sits next to the source and is named like it with the converter's extension - for every converter and a few
    shapes of file names, invoked with a relative path, with an absolute path from elsewhere, and from inside the file's directory."""
    name = 'artifact_name'
    good = {'json': '{a = 1}', 'yaml': '{a = 1}', 'yamlmulti': '[{a = 1}, {b = 2}]', 'toml': '{a = 1}', 'env': '{A = "x"}', 'flags': '{a = 1}', 'exec': '{command = "app"}',
            'xml': '{root = {name = "top"}}'}
    names = NAMES if tier == 'thorough' else NAMES[:4]
    bound = ('8 converters x %d source names (%s), built by relative path, by absolute path from another directory, and by bare name from inside the directory of the file; '
             '+ per converter a SYMLINKED source deploy/F_prod.ucg -> ../shared/F_base.ucg (artifact deploy/F_prod.<ext>); artifact = NAME.<ext> next to the file given, bytes = `convert`; '
             '+ every converter: same file built twice, second output shorter; + files with 0 and 2 out statements (also reached through `..`)') % (len(names), ', '.join(repr(x + '.ucg') for x in names))
    work = tempfile.mkdtemp(prefix='verif_c14n_')
    n = 0
    try:
        conv = {}
        for f, v in good.items():
            open(os.path.join(work, 'conv_%s.ucg' % f), 'w').write('out json {c = convert %s %s};\n' % (f, v))
        modes = ['relative path', 'absolute path from another directory', 'bare file name from inside the directory of the file']
        for mi, mname in enumerate(modes):
            d = os.path.join(work, 'm%d' % mi)
            srcs = []
            for f in sorted(good):
                for nm in names:
                    # the converter is part of the file name: yaml and yamlmulti share an extension
                    base = os.path.basename(nm)
                    base = base + '_' + f if base[0] in '.-' else f + '_' + base
                    rel = os.path.join(os.path.dirname(nm), base + '.ucg')
                    os.makedirs(os.path.dirname(os.path.join(d, rel)), exist_ok=True)
                    open(os.path.join(d, rel), 'w').write('out %s %s;\n' % (f, good[f]))
                    srcs.append((f, nm, rel))
                # a source that is a symlink: the artifact is named like the file GIVEN (deploy/..), not like / next to the link target
                os.makedirs(os.path.join(d, 'shared'), exist_ok=True)
                os.makedirs(os.path.join(d, 'deploy'), exist_ok=True)
                open(os.path.join(d, 'shared', f + '_base.ucg'), 'w').write('out %s %s;\n' % (f, good[f]))
                links = [('prod', os.path.join('..', 'shared', f + '_base.ucg'))] + ([('abs', os.path.join(d, 'shared', f + '_base.ucg'))] if tier == 'thorough' else [])
                for ln, target in links:
                    rel = os.path.join('deploy', '%s_%s.ucg' % (f, ln))
                    os.symlink(target, os.path.join(d, rel))
                    srcs.append((f, 'symlink -> ' + target, rel))
            if mi == 2 and tier != 'thorough':
                srcs = [x for x in srcs if os.path.dirname(x[2]) in ('', 'deploy')]      # one invocation per directory: keep the quick tier short
            before = tree(d)
            if mi == 0:
                # (the `convert` programs ride along in the first invocation)
                rcs = [R.run_ucg(['build'] + ['../conv_%s.ucg' % f for f in good] + [('./' + rel if rel.startswith('-') else rel) for _, _, rel in srcs], d, timeout=600)[0]]
                stray = sorted(x for x in tree(work) if 'conv_' in x and x not in ['conv_%s.json' % f for f in good] + ['conv_%s.ucg' % f for f in good])
                if stray:
                    return viol(name, bound, 1, '`out json` in ../conv_*.ucg wrote %s instead of conv_*.json next to the sources' % stray[:3], source='file conv_json.ucg: out json {c = convert json %s};' % good['json'],
                                expected='conv_json.json next to conv_json.ucg', observed=stray[:10], how='`ucg build ../conv_json.ucg ...` from the sub-directory m0; directory listing')
                for f in good:
                    p = os.path.join(work, 'conv_%s.json' % f)
                    if not os.path.exists(p):
                        return viol(name, bound, 1, '`convert %s %s` is a build error' % (f, good[f]), source='out json {c = convert %s %s};' % (f, good[f]), expected='a string', observed='build error', how='`ucg build`')
                    conv[f] = json.load(open(p, encoding='utf-8'))['c'].encode('utf-8')
            elif mi == 1:
                rcs = [R.run_ucg(['build'] + [os.path.join(d, rel) for _, _, rel in srcs], work, timeout=600)[0]]
            else:
                rcs = []
                groups = {}
                for f, nm, rel in srcs:
                    groups.setdefault(os.path.dirname(rel), []).append(os.path.basename(rel))
                for sub, files in sorted(groups.items()):
                    rcs.append(R.run_ucg(['build'] + [('./' + x if x.startswith('-') else x) for x in files], os.path.join(d, sub), timeout=600)[0])
            after = tree(d)
            exp = {}
            for f, nm, rel in srcs:
                exp[rel[:-len('ucg')] + EXT[f]] = (f, nm, rel)
            n += len(srcs)
            if any(rcs) or after - before != set(exp):
                odd = sorted((after - before) ^ set(exp))
                o = ([x for x in odd if x in exp] or [None])[0]
                return viol(name, bound, n, 'built by %s: exit status %s; expected artifacts missing / unexpected files: %s' % (mname, rcs, odd[:4]),
                            source=('file %r: out %s %s;' % (exp[o][2], exp[o][0], good[exp[o][0]])) if o else '(see observed)', expected=sorted(exp)[:80], observed=sorted(after - before)[:80],
                            how='`ucg build <files>` by %s; directory listing before/after' % mname)
            for art, (f, nm, rel) in exp.items():
                got = rd(os.path.join(d, art))
                if got != conv[f]:
                    return viol(name, bound, n, '%s (%s): artifact %s holds %r, `convert %s` of the value is %r' % (rel, mname, art, got[:100], f, conv[f][:100]), source='out %s %s;' % (f, good[f]),
                                expected=conv[f].decode('utf-8', 'replace'), observed=got.decode('utf-8', 'replace')[:1000], how='`ucg build %s` by %s' % (rel, mname))
        # the same file built twice, the second output SHORTER than the first: the artifact is exactly the new bytes (no stale tail)
        d = os.path.join(work, 'rb')
        os.mkdir(d)
        pad = 'p' * 300
        longer = {'json': '{a = 1, pad = "%s"}', 'yaml': '{a = 1, pad = "%s"}', 'yamlmulti': '[{a = 1}, {b = 2}, {pad = "%s"}]', 'toml': '{a = 1, pad = "%s"}', 'env': '{A = "x", PAD = "%s"}',
                  'flags': '{a = 1, pad = "%s"}', 'exec': '{command = "app", args = ["%s"]}', 'xml': '{root = {name = "top", children = ["%s"]}}'}
        for rnd_i, vals in enumerate(({f: longer[f] % pad for f in good}, good)):
            for f in good:
                open(os.path.join(d, 'rb_%s.ucg' % f), 'w').write('out %s %s;\n' % (f, vals[f]))
            rc, so, se = R.run_ucg(['build'] + ['rb_%s.ucg' % f for f in sorted(good)], d, timeout=600)
            for f in sorted(good):
                got = rd(os.path.join(d, 'rb_%s.%s' % (f, EXT[f])))
                n += 1
                if rnd_i == 0 and (rc != 0 or got is None or len(got) <= len(conv[f])):
                    return viol(name, bound, n, 'first build of `out %s <long value>`: exit status %d, artifact %s' % (f, rc, 'missing' if got is None else '%d bytes' % len(got)), source='out %s %s;' % (f, vals[f]),
                                expected='an artifact longer than %d bytes' % len(conv[f]), observed=(so + se)[-300:], how='`ucg build rb_%s.ucg`' % f)
                if rnd_i == 1 and (rc != 0 or got != conv[f]):
                    return viol(name, bound, n, 'rb_%s.ucg rebuilt with a shorter output: artifact holds %d bytes %r..., `convert %s` of the new value is %d bytes %r' % (
                        f, len(got or b''), (got or b'')[:80], f, len(conv[f]), conv[f][:80]), source='first: out %s %s;\nthen: out %s %s;' % (f, longer[f] % pad, f, good[f]),
                        expected=conv[f].decode('utf-8', 'replace'), observed=(got or b'').decode('utf-8', 'replace')[:1500], how='`ucg build rb_%s.ucg` twice, the source edited in between' % f)
        # 0 and 2 out statements
        d = os.path.join(work, 'outs')
        os.mkdir(d)
        zero = ['let x = 1;\n', '', 'let s = convert json {a = 1};\nassert {ok = true, desc = "d"};\n']
        for i, src in enumerate(zero):
            open(os.path.join(d, 'z%d.ucg' % i), 'w').write(src)
        before = tree(d)
        rc, so, se = R.run_ucg(['build'] + ['z%d.ucg' % i for i in range(len(zero))], d)
        n += len(zero)
        if rc != 0 or tree(d) != before:
            return viol(name, bound, n, 'files without an out statement: exit status %d, files created: %s' % (rc, sorted(tree(d) - before)), source=zero, expected='exit 0, nothing written',
                        observed='rc=%d %s %s' % (rc, sorted(tree(d) - before), (so + se)[-200:]), how='`ucg build z0.ucg z1.ucg z2.ucg`')
        two = ['out json {a = 1};\nout json {b = 2};\n', 'out json 1;\nout yaml 2;\n', 'out env {A = 1};\nlet x = 1;\nout flags {a = 1};\n', 'out json 1;\nout json 1;\n',
               'out toml {a = 1};\nout toml {a = NULL};\n']
        for i, src in enumerate(two):
            open(os.path.join(d, 't%d.ucg' % i), 'w').write(src)
            rc, so, se = R.run_ucg(['build', 't%d.ucg' % i], d)
            n += 1
            if rc == 0:
                return viol(name, bound, n, 'a file with two out statements builds: `%s`' % src.replace('\n', ' '), source=src, expected='build error (exit != 0)', observed='rc=0, files: %s' % sorted(tree(d)), how='`ucg build t%d.ucg`' % i)
            if tier != 'thorough' and i >= 1:      # quick: same format twice and two different formats
                break
        # a failed out makes the INVOCATION fail wherever the file stands among the files of one command line, and the good files'
        # artifacts are still exactly what they are alone
        bad_srcs = ['out toml {a = NULL};\n', 'out flags 1;\n', 'out json 1;\nout json 2;\n']
        good_src = 'out json {ok = 1};\n'
        mf = os.path.join(work, 'multi')
        os.mkdir(mf)
        open(os.path.join(mf, 'good1.ucg'), 'w').write(good_src)
        open(os.path.join(mf, 'good2.ucg'), 'w').write('out yaml {ok = 2};\n')
        R.run_ucg(['build', 'good1.ucg'], mf)
        alone = rd(os.path.join(mf, 'good1.json'))
        for bi, bsrc in enumerate(bad_srcs if tier == 'thorough' else bad_srcs[:1]):
            open(os.path.join(mf, 'bad.ucg'), 'w').write(bsrc)
            for order in (['bad.ucg', 'good1.ucg'], ['good1.ucg', 'bad.ucg'], ['good1.ucg', 'bad.ucg', 'good2.ucg'], ['bad.ucg', 'good1.ucg', 'good2.ucg']):
                for a in ('good1.json', 'good2.yaml', 'bad.toml', 'bad.json', 'bad.txt'):
                    if os.path.exists(os.path.join(mf, a)):
                        os.remove(os.path.join(mf, a))
                rc, so, se = R.run_ucg(['build'] + order, mf)
                n += 1
                if rc == 0:
                    return viol(name, bound, n, 'one of the files of the command line cannot be built (`%s`), yet the invocation exits 0' % bsrc.replace('\n', ' ').strip(),
                                source={'bad.ucg': bsrc, 'good1.ucg': good_src, 'good2.ucg': 'out yaml {ok = 2};\n'}, expected='exit status != 0', observed='rc=0 ' + (so + se)[-300:],
                                how='`ucg build %s`' % ' '.join(order))
                got = rd(os.path.join(mf, 'good1.json'))
                if got is not None and got != alone:
                    return viol(name, bound, n, 'good1.json differs when good1.ucg is built next to a failing file', source={'bad.ucg': bsrc, 'good1.ucg': good_src}, expected=repr(alone), observed=repr(got),
                                how='`ucg build %s`' % ' '.join(order))
        # ... also when the file is reached through `..`, `./` or an absolute path
        os.mkdir(os.path.join(d, 'conf'))
        os.mkdir(os.path.join(d, 'sib'))
        open(os.path.join(d, 'conf', 'two.ucg'), 'w').write(two[0])
        routes = [(['../conf/two.ucg'], os.path.join(d, 'sib')), (['./two.ucg'], os.path.join(d, 'conf')), ([os.path.join(d, 'sib', '..', 'conf', 'two.ucg')], d), (['conf/../conf/two.ucg'], d)]
        for args, cwd in routes[:None if tier == 'thorough' else 1]:
            rc, so, se = R.run_ucg(['build'] + args, cwd)
            n += 1
            if rc == 0:
                return viol(name, bound, n, 'a file with two out statements builds when given as %s' % args[0], source=two[0], expected='build error (exit != 0)', observed='rc=0, files: %s' % sorted(tree(d)),
                            how='`ucg build %s` from %s (file conf/two.ucg, sibling directory sib/)' % (args[0], os.path.relpath(cwd, d)))
    finally:
        shutil.rmtree(work, ignore_errors=True)
    return dict(name=name, bound=bound, cases=n, status='ok')


# ------------------------------------------------------------------ "A second out statement in the same file is an error" -- whatever stands between the two
# (the property statement; reference/statements.md "Out Statements": "The Out statement defines the output for a UCG file").  Every kind of statement / expression the
# reference knows is put BETWEEN two out statements of one file.  Helper files: lib.ucg (bindings only), lib2.ucg (imports lib.ucg), libout.ucg (has an out
# statement of its own), data.txt.  The first out writes {w = "FIRST"}, the second {w = "SECOND"}.
# Demanded of a file with two outs: exit status != 0 and no artifact of the SECOND out: NAME.<ext of the second format> does not appear (different extensions) /
# NAME.<ext> does not hold the second value (same extension).  What the refused build leaves of its FIRST out is not demanded either way.
# Demanded of the CONTROL (the same statements followed by ONE out): exit 0, exactly one new file NAME.<ext> in the directory, holding FIRST.
BETWEEN = [
    ('nothing', ''),
    ('a comment and blank lines', '// nothing to see\n\n\n'),
    ('let statements', 'let a = 1;\nlet b = [a, 2];\nlet c = {d = b};\n'),
    ('an import of a file without an out', 'let l = import "./lib.ucg";\n'),
    ('an import whose value is used', 'let v = (import "./lib.ucg").v + 1;\n'),
    ('an import of a file that imports another file', 'let l2 = import "./lib2.ucg";\n'),
    ('two imports of the same file', 'let l = import "./lib.ucg";\nlet m = import "lib.ucg";\n'),
    ('imports of two files', 'let l = import "./lib.ucg";\nlet l2 = import "./lib2.ucg";\n'),
    ('an import from the standard library', 'let lists = import "std/lists.ucg";\nlet n = lists.len([1, 2]);\n'),
    ('an import inside a function that is called', 'let f = func (x) => (import "./lib.ucg").v + x;\nlet y = f(1);\n'),
    ('an import inside a map callback', 'let ys = map(func (x) => (import "./lib.ucg").v + x, [1, 2]);\n'),
    ('an import inside a module that is instantiated', 'let m = module {a = 1} => (r) { let l = import "./lib.ucg"; let r = l.v + mod.a; };\nlet i = m{a = 2};\n'),
    ('an import inside a format expression', 'let s = "@{(import \\"./lib.ucg\\").v + item}" % 1;\n'),
    ('an include', 'let s = include str "data.txt";\n'),
    ('an include of a data format', 'let j = include json "data.json";\n'),
    ('a function definition and call', 'let f = func (x) => x + 1;\nlet y = f(1);\n'),
    ('a module definition and instantiation', 'let m = module {a = 1} => { let r = mod.a + 1; };\nlet i = m{a = 2};\n'),
    ('a format expression', 'let s = "@-@" % (1, "two");\n'),
    ('a convert expression', 'let s = convert json {a = 1};\nlet t = convert yaml [1, 2];\n'),
    ('a select and a range', 'let s = select (true, 0) => { true = 1:3 };\n'),
    ('map, filter and reduce', 'let l = reduce(func (acc, x) => acc + x, 0, filter(func (x) => x > 1, map(func (x) => x * 2, [1, 2, 3])));\n'),
    ('an assert statement', 'assert { ok = 1 == 1, desc = "fine" };\n'),
    ('a trace expression', 'let t = TRACE 1 + 1;\n'),
    ('a copy expression', 'let base = {a = 1};\nlet c = base{a = 2, b = self.a};\n'),
    ('a let with a constraint', 'let n :: 0 = 5;\n'),
    ('fifty let statements', ''.join('let k%d = %d;\n' % (i, i) for i in range(50))),
]
# an import of a file WITH an out statement of its own: what that import does (libout.json is written on the pinned tree) is not C14's statement for the
# importing file; only the two-outs verdict of the importing file is demanded, the control is not.
BETWEEN_NO_CONTROL = [('an import of a file with an out statement of its own', 'let lo = import "./libout.ucg";\n')]
AFTER = [('nothing', ''), ('a let statement', 'let z = 1;\n'), ('a failing constraint', 'let z :: "" = 1;\n'), ('a fail expression', 'let z = fail "stop";\n'), ('an import', 'let la = import "./lib.ucg";\n')]
OUT_VALUE = {'json': '{w = "%s"}', 'yaml': '{w = "%s"}', 'yamlmulti': '[{w = "%s"}]', 'toml': '{w = "%s"}', 'env': '{W = "%s"}', 'flags': '{w = "%s"}', 'exec': '{command = "%s"}',
             'xml': '{root = {name = "%s"}}'}
FORMAT_PAIRS = [('json', 'json'), ('json', 'yaml'), ('yaml', 'json'), ('toml', 'env'), ('flags', 'flags'), ('env', 'json'), ('yaml', 'yamlmulti'), ('exec', 'xml'), ('xml', 'toml'), ('yaml', 'yaml')]


def standin_second_out_refused(tier, seed):
    import concurrent.futures
    name = 'second_out_refused'
    rnd = random.Random(seed + 14)
    between = BETWEEN + BETWEEN_NO_CONTROL
    files = []      # (file name, source, kind 'two' | 'three' | 'control', description, first format, second format)
    for bi, (bwhat, btxt) in enumerate(between):
        pairs = FORMAT_PAIRS if tier == 'thorough' else [FORMAT_PAIRS[(bi + seed) % len(FORMAT_PAIRS)]]
        if tier != 'thorough' and 'import' in bwhat and pairs[0][0] != pairs[0][1]:
            pairs.append(FORMAT_PAIRS[0])          # quick: imports with the same format twice as well
        for pi, (f1, f2) in enumerate(pairs):
            afters = AFTER if tier == 'thorough' and pi < 2 else [AFTER[(bi + pi + seed) % len(AFTER)]]
            for ai, (awhat, atxt) in enumerate(afters):
                pre = 'let before = 1;\n' if (bi + pi + ai) % 2 else ''
                src = pre + 'out %s %s;\n' % (f1, OUT_VALUE[f1] % 'FIRST') + btxt + 'out %s %s;\n' % (f2, OUT_VALUE[f2] % 'SECOND') + atxt
                files.append(('t%d_%d_%d' % (bi, pi, ai), src, 'two', 'between the outs: %s; after them: %s' % (bwhat, awhat), f1, f2))
        if (bwhat, btxt) not in BETWEEN_NO_CONTROL:
            f1 = FORMAT_PAIRS[(bi + seed) % len(FORMAT_PAIRS)][0]
            files.append(('c%d' % bi, btxt + 'out %s %s;\n' % (f1, OUT_VALUE[f1] % 'FIRST') + (btxt.replace('let ', 'let again_') if 'import' in btxt and '@{' not in btxt else ''), 'control',
                          'ONE out statement; before (and, for imports, again after) it: %s' % bwhat, f1, None))
    # three outs, the import between the second and the third
    files.append(('three', 'out json {w = "FIRST"};\nout yaml {w = "SECOND"};\nlet l = import "./lib.ucg";\nout toml {w = "SECOND"};\n', 'two', 'three outs, an import before the third', 'json', 'toml'))
    bound = ('%d files with two out statements: %d kinds of statements between them (nothing, comments, lets, imports -- plain, used, nested, repeated, of two files, from std, inside a called function / map callback / '
             'instantiated module / format expression, of a file with its own out --, includes, function / module use, format, convert, select, range, map / filter / reduce, assert, TRACE, copy, constraint, 50 lets) x '
             '%s format pairs (same and different extensions) x what follows (nothing, a let, a failing constraint, a fail, an import; %s), each built on its own: exit status != 0 and no artifact of the second out; '
             '+ %d control files with ONE out behind the same statements: exit 0, exactly one artifact holding the value (quick: built by one invocation)'
             % (len([f for f in files if f[2] == 'two']), len(between), 'all %d' % len(FORMAT_PAIRS) if tier == 'thorough' else '1..2 of %d' % len(FORMAT_PAIRS), 'all for 2 pairs' if tier == 'thorough' else 'rotating',
                len([f for f in files if f[2] == 'control'])))
    work = tempfile.mkdtemp(prefix='verif_c14s_')
    helpers = {'lib.ucg': 'let v = 7;\nlet name = "lib";\n', 'lib2.ucg': 'let l = import "./lib.ucg";\nlet v = l.v + 1;\n', 'libout.ucg': 'let v = 9;\nout json {lib = v};\n', 'data.txt': 'some text\n',
               'data.json': '{"a": [1, 2]}\n'}

    def run_one(item):
        fn, src, kind, what, f1, f2 = item
        d = os.path.join(work, fn)
        os.mkdir(d)
        for h, txt in helpers.items():
            open(os.path.join(d, h), 'w').write(txt)
        open(os.path.join(d, fn + '.ucg'), 'w').write(src)
        before = tree(d)
        rc, so, se = R.run_ucg(['build', fn + '.ucg'], d)
        new = sorted(tree(d) - before)
        inp = dict(source={fn + '.ucg': src, **{h: t for h, t in helpers.items() if h in src}}, how='the files in a fresh directory; `ucg build %s.ucg` there; exit status and directory listing' % fn)
        if kind == 'control':
            art = '%s.%s' % (fn, EXT[f1])
            got = rd(os.path.join(d, art))
            if rc != 0 or [x for x in new if not x.startswith('lib')] != [art] or got is None or b'FIRST' not in got:
                return dict(detail='a file with ONE out statement (%s): exit status %d, new files %s, %s %s' % (what, rc, new, art, 'missing' if got is None else 'holds %r' % got[:80]),
                            expected='exit 0 and exactly one new file %s holding the value' % art, observed='rc=%d, new files %s, output: %s' % (rc, new, (so + se)[-400:]), **inp)
            return None
        if rc == 0:
            return dict(detail='a file with two out statements builds (%s): `%s`; new files: %s' % (what, src.replace('\n', ' ')[:300], new), expected='a build error (exit status != 0): a second out statement in the same file',
                        observed='rc=0, new files %s %s' % (new, {x: (rd(os.path.join(d, x)) or b'')[:100].decode('utf-8', 'replace') for x in new}), **inp)
        second = [x for x in new if x.startswith(fn + '.') and b'SECOND' in (rd(os.path.join(d, x)) or b'')]
        if second or (EXT[f2] != EXT[f1] and '%s.%s' % (fn, EXT[f2]) in new):
            return dict(detail='the refused second out statement left an artifact (%s): %s' % (what, second or '%s.%s' % (fn, EXT[f2])), expected='exit status != 0 and no artifact of the second out',
                        observed='rc=%d, new files %s' % (rc, {x: (rd(os.path.join(d, x)) or b'')[:100].decode('utf-8', 'replace') for x in new}), **inp)
        return None
    def controls_together(items):
        """all control files in one directory, one invocation: True if everything is as demanded (else they are run one by one for the report)"""
        d = os.path.join(work, 'controls')
        os.mkdir(d)
        for h, txt in helpers.items():
            open(os.path.join(d, h), 'w').write(txt)
        for fn, src, kind, what, f1, f2 in items:
            open(os.path.join(d, fn + '.ucg'), 'w').write(src)
        before = tree(d)
        rc, so, se = R.run_ucg(['build'] + [it[0] + '.ucg' for it in items], d, timeout=600)
        want = set('%s.%s' % (it[0], EXT[it[4]]) for it in items)
        return rc == 0 and tree(d) - before == want and all(b'FIRST' in (rd(os.path.join(d, a)) or b'') for a in want)
    try:
        R.ucg_binary()
        ctl = [f for f in files if f[2] == 'control']
        todo = [f for f in files if f[2] != 'control']
        if tier == 'thorough' or not controls_together(ctl):
            todo += ctl
        with concurrent.futures.ThreadPoolExecutor(max_workers=8) as ex:
            res = list(ex.map(run_one, todo))
    finally:
        shutil.rmtree(work, ignore_errors=True)
    for r in res:
        if r is not None:
            return viol(name, bound, len(files), r.pop('detail'), **r)
    return dict(name=name, bound=bound, cases=len(files), status='ok')


STANDINS = [standin_out_equals_convert, standin_artifact_name, standin_second_out_refused]
