// ---- prelude/translate_ops_fmt.rs: shared by the format-string arms: std models, the template parsers (assumed here,
// proved in unit fmt_arms) and AST::translate_template_part under contract ----
// std models (R9', as in unit fmt_arms): `vec.drain(0..)` yields the elements front to back; `reverse`.
pub struct VDrain<T> { pub rest: Vec<T> }
#[verifier::external_body]
pub fn verif_drain_all<T>(v: &mut Vec<T>) -> (r: VDrain<T>)
    ensures r.rest@ == old(v)@, final(v)@.len() == 0
{ unimplemented!() }
impl<T> VDrain<T> {
    #[verifier::external_body]
    pub fn next(&mut self) -> (r: Option<T>)
        ensures
            old(self).rest@.len() > 0 ==> r == Some(old(self).rest@[0]) && final(self).rest@ == old(self).rest@.drop_first(),
            old(self).rest@.len() == 0 ==> r is None && final(self).rest@ == old(self).rest@,
    { unimplemented!() }
}
pub assume_specification<T> [<[T]>::reverse] (s: &mut [T])
    ensures final(s)@ == old(s)@.reverse();
// `s.into_iter().map(|c| c.to_string()).collect::<String>()` (std): the same characters
#[verifier::external_body]
pub fn verif_chars_to_string(s: Vec<char>) -> (r: String)
    ensures r@ == s@
{ unimplemented!() }

pub open spec fn no_ph_parts(s: Seq<TemplatePart>) -> bool { forall|k: int| 0 <= k < s.len() ==> !(#[trigger] s[k] is PlaceHolder) }
// whether the `@{..}` template parser accepts a template (the parser is a deterministic function of the text)
pub uninterp spec fn expr_template_ok(t: Seq<char>) -> bool;
pub struct ExpressionTemplate();
impl ExpressionTemplate {
    pub fn new() -> Self { ExpressionTemplate() }
    // build/format.rs ExpressionTemplate::parse (R8) - ASSUMED here, PROVED in unit fmt_arms: on success the part list
    // is not empty and holds no `@` placeholders (only literal pieces and `@{expr}` parts).
    #[verifier::external_body]
    pub fn parse(&self, input: &str) -> (r: Result<Vec<TemplatePart>, VBoxError>)
        ensures
            r is Ok == expr_template_ok(input@),
            r matches Ok(parts) ==> parts@.len() >= 1 && no_ph_parts(parts@),
    { unimplemented!() }
}

// `Rewriter::new(root).walk_expression(&mut expr)` (src/ast/rewrite.rs + walk.rs, proved in unit rewrite_paths): here an
// uninterpreted function of (root, expression)
pub uninterp spec fn spec_paths_rewritten(root: VPath, e: Expression) -> Expression;
#[verifier::external_body]
pub fn verif_rewrite_paths(root: &VPath, expr: &mut Expression)
    ensures *final(expr) == spec_paths_rewritten(*root, *old(expr))
{ unimplemented!() }

// One piece of a template: a literal, or an argument / embedded expression followed by `Render`.  Like every
// translate_* function it only appends.
//@ extract src/build/opcode/translate.rs :: impl AST :: fn translate_template_part
//@   no_impl
//@   subst "fn translate_template_part<EI: Iterator<Item = Expression>>(" => "fn translate_template_part("
//@   subst "elems: &mut EI," => "elems: &mut VDrain<Expression>,"
//@   subst "root: &Path," => "root: &VPath,"
//@   subst "let part: String = s.into_iter().map(|c| c.to_string()).collect();" => "let part: String = verif_chars_to_string(s);"
//@   subst all ".into()" => ".vinto()"
//@   subst all "Self::translate_expr" => "translate_expr"
//@   subst? "Rewriter::new(root).walk_expression(&mut expr);" => "verif_rewrite_paths(root, &mut expr);"
//@   sig <<<
        requires
            // the two `unreachable!()`s and the `unwrap()` (discharged for the list form in unit fmt_arms)
            part is PlaceHolder ==> place_holder && old(elems).rest@.len() > 0,
            part is Expression ==> !place_holder,
        ensures
            appended(*old(ops), *final(ops)),
            match part {
                TemplatePart::Str(cs) => final(ops).ops@.len() == old(ops).ops@.len() + 1
                                                && (final(ops).ops@.last() matches Op::Val(Primitive::Str(t)) && t@ == cs@),
                TemplatePart::PlaceHolder(_) => code_at(old(elems).rest@[0], final(ops).ops@, old(ops).ops@.len() as int, final(ops).ops@.len() - 1)
                                                && final(ops).ops@.last() == Op::Render,
                // an embedded expression is parsed out of the template only now: its import / include paths are rewritten relative to
                // the file first (fix a0be907; the rewriter itself is unit rewrite_paths), then it is translated
                TemplatePart::Expression(e) => code_at(spec_paths_rewritten(*root, e), final(ops).ops@, old(ops).ops@.len() as int, final(ops).ops@.len() - 1)
                                                && final(ops).ops@.last() == Op::Render,
            },
            part is PlaceHolder ==> final(elems).rest@ == old(elems).rest@.drop_first(),
            !(part is PlaceHolder) ==> final(elems).rest@ == old(elems).rest@,
//@   >>>
//@   mutant template_expr_paths_not_rewritten "verif_rewrite_paths(root, &mut expr);" => "" expect translate_template_part
//@   mutant template_expr_not_rendered "Self::translate_expr(expr, ops, root); ops.push(Op::Render, pos);" => "Self::translate_expr(expr, ops, root); ops.push(Op::Noop, pos);" expect translate_template_part
//@ end

