// ---- prelude/shape_narrow_models.rs: std models used by the shape-narrowing unit (inside verus!) ----

// R9': `std::slice::Iter<'a, T>` as an index walk over the slice it was made from. The model is VERIFIED code;
// the assumption is only that std's slice iterator yields the elements of the slice in order, once each, then None.
// (vstd's own model of slice::Iter is prophetic: its `remaining()` cannot appear in a `decreases` clause, which the
// mutual recursion narrow_cached <-> is_*_subset_cached needs.)
pub struct VIter<'a, T> { pub s: &'a [T], pub i: usize }

impl<'a, T> VIter<'a, T> {
    pub open spec fn wf(&self) -> bool { self.i <= self.s@.len() }

    pub fn next(&mut self) -> (r: Option<&'a T>)
        requires old(self).wf()
        ensures
            final(self).wf(),
            final(self).s == old(self).s,
            old(self).i < old(self).s@.len() ==> r == Some(&old(self).s@[old(self).i as int]) && final(self).i == old(self).i + 1,
            old(self).i >= old(self).s@.len() ==> r is None && final(self).i == old(self).i,
    {
        if self.i < self.s.len() {
            let x = &self.s[self.i];
            self.i = self.i + 1;
            Some(x)
        } else {
            None
        }
    }
}

// `v.iter()` on a Vec
pub fn verif_slice_iter<'a, T>(v: &'a Vec<T>) -> (r: VIter<'a, T>)
    ensures r.s@ == v@, r.i == 0, r.wf()
{
    VIter { s: v.as_slice(), i: 0 }
}

// std: `Ord for Rc<str>` is the lexicographic order of the string contents, a lawful total order consistent with
// equality of the contents - the condition under which vstd's BTreeMap specifications (contains_key / get / insert over the
// view Map<Rc<str>, V>) apply.
#[verifier::external_body]
pub broadcast proof fn axiom_rc_str_btree_key()
    ensures #[trigger] vstd::std_specs::btree::key_obeys_cmp_spec::<Rc<str>>()
{ }

// R9': std `slice.iter().find(f)` behaves as this loop (first match, left to right). The model is VERIFIED;
// the assumption is only that std's `find` behaves like it.
pub fn verif_find<'a, T, F: Fn(&T) -> bool>(s: &'a [T], f: F) -> (r: Option<&'a T>)
    requires forall|k: int| 0 <= k < s@.len() ==> f.requires((&#[trigger] s@[k],)),
    ensures
        r matches Some(x) ==> exists|k: int| 0 <= k < s@.len() && *x == s@[k] && f.ensures((&#[trigger] s@[k],), true)
            && forall|m: int| 0 <= m < k ==> f.ensures((&#[trigger] s@[m],), false),
        r is None ==> forall|k: int| 0 <= k < s@.len() ==> f.ensures((&#[trigger] s@[k],), false),
{
    let mut i: usize = 0;
    while i < s.len()
        invariant
            i <= s@.len(),
            forall|k: int| 0 <= k < s@.len() ==> f.requires((&#[trigger] s@[k],)),
            forall|k: int| 0 <= k < i ==> f.ensures((&#[trigger] s@[k],), false),
        decreases s@.len() - i
    {
        if f(&s[i]) { return Some(&s[i]); }
        i += 1;
    }
    None
}
