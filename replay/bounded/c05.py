"""C05 bounded stand-ins: "Formatting a file never changes its meaning or loses its comments".

Every stand-in pushes a stated, finite family of programs through the REAL `ucg fmt -w` (CLI, on temp copies) and checks
the three clauses of the property statement on the text it wrote:

  (1) meaning    the output parses (replay driver mode `ast`, the real ucglib parser) to the same AST as the input, after
                 normalising the Debug text for exactly what the statement lets vary: source positions
                 (`Position { .. }` -> P) and whether a field name was quoted (Token typ QUOTED / BAREWORD / BOOLEAN of a
                 name token -> NAME; the fragment, i.e. the name itself, must be identical);
  (2) comments   the comments of the input (`// ...` outside string literals; text compared without the surrounding
                 blanks, which the formatter is free to normalise) occur in the output with the same text in the same
                 order (sub-sequence test: the statement demands "contains every comment", it does not forbid extras);
  (3) fixed pt.  fmt(fmt(x)) == fmt(x) byte for byte -- demanded, as in the statement, when every comment of fmt(x)
                 stands on a line of its own between statements (or there is no comment at all).

The oracle never looks at ucg's printer; the input families come from the quantifier of the property record and from
the language reference (docsite/site/content/reference/{grammar,types,expressions,statements,typechecking}.md).
Inputs the real parser rejects are not this property's business (nothing to format) and are skipped, but counted; if
more than a quarter of a *generated* family is rejected the stand-in reports 'error' (coverage lost), never 'ok'.
"""
import hashlib
import json
import os
import random
import re
import shutil
import tempfile

import realcode as R

HERE = os.path.dirname(os.path.abspath(__file__))
REPO = R.REPO

# ---------------------------------------------------------------------------------------------------------------------
# KNOWN: genuine defects of the real `ucg fmt`, confirmed by hand on the real binary; the named inputs are excluded so that
# the stand-ins pass.  Delete an entry once ucg is fixed: the exclusion disappears with it.
# (Fixed meanwhile and exercised again by every family: range with a step 8709a2c, floats with a zero fraction d1fbb1b,
# blank comment lines 337ec97, quoted field names NULL.. / true.. / false.. e3a1334 + aa25f58, groups of indented comment
# lines 15cd3db.)
# ---------------------------------------------------------------------------------------------------------------------
KNOWN = [
]
KNOWN_IDS = set(k['id'] for k in KNOWN)


def known(kid):
    return kid in KNOWN_IDS


# ---------------------------------------------------------------------------------------------------------------------
# lexical helpers (strings and comments only: enough to find comments and "code" regions without ucg's tokenizer)
# ---------------------------------------------------------------------------------------------------------------------
def regions(src):
    """[(kind, text)] with kind in code / str / com; concatenation of the texts == src."""
    out, i, n, start = [], 0, len(src), 0
    while i < n:
        c = src[i]
        if c == '"':
            if i > start:
                out.append(('code', src[start:i]))
            j = i + 1
            while j < n and src[j] != '"':
                j += 2 if src[j] == '\\' else 1
            j = min(j + 1, n)
            out.append(('str', src[i:j]))
            i = start = j
        elif c == '/' and src.startswith('//', i):
            if i > start:
                out.append(('code', src[start:i]))
            j = src.find('\n', i)
            j = n if j < 0 else j
            out.append(('com', src[i:j]))
            i = start = j
        else:
            i += 1
    if start < n:
        out.append(('code', src[start:]))
    return out


def comments(src):
    return [t[2:].strip() for k, t in regions(src) if k == 'com']


def is_subsequence(need, have):
    it = iter(have)
    return all(any(x == y for y in it) for x in need)


def comments_between_statements(src):
    """True when every comment stands on a line of its own and follows `;` (or the start of the text)."""
    last, line_has_code = None, False
    for k, t in regions(src):
        if k == 'com':
            if line_has_code or last not in (None, ';'):
                return False
            continue
        for ch in (t if k == 'code' else 'x' + ('\n' if '\n' in t else '') + 'x'):
            if ch == '\n':
                line_has_code = False
            elif not ch.isspace():
                line_has_code = True
                last = ch
        if k == 'str' and '\n' in t:
            line_has_code = True
    return True


POS = re.compile(r'Position \{ file: (?:None|Some\("(?:[^"\\]|\\.)*"\)), line: \d+, column: \d+, offset: \d+ \}')
TOK = re.compile(r'Token \{ typ: (?:QUOTED|BAREWORD|BOOLEAN), fragment:')


INDENTED_GROUP = re.compile(r'^[ \t]+//[^\n]*\n[ \t]+//', re.M)      # two consecutive indented comment lines


def norm_ast(a):
    return TOK.sub('Token { typ: NAME, fragment:', POS.sub('P', a))


def first_diff(a, b, ctx=70):
    i = 0
    while i < min(len(a), len(b)) and a[i] == b[i]:
        i += 1
    return a[max(0, i - ctx):i + ctx], b[max(0, i - ctx):i + ctx]


# ---------------------------------------------------------------------------------------------------------------------
# the pipeline shared by all families
# ---------------------------------------------------------------------------------------------------------------------
def fmt_batch(srcs):
    """`ucg fmt -w f0 f1 ...` in a fresh directory (one process: the CLI needs ~0.5 s to start).  -> (rc, stderr, outputs)"""
    d = tempfile.mkdtemp(prefix='verif_c05_')
    try:
        names = []
        for i, s in enumerate(srcs):
            names.append('f%05d.ucg' % i)
            with open(os.path.join(d, names[-1]), 'w', newline='', encoding='utf-8') as fh:
                fh.write(s)
        if not names:
            return 0, '', []
        rc, so, se = R.run_ucg(['fmt', '-w'] + names, d, timeout=900)
        outs = []
        for nm in names:
            with open(os.path.join(d, nm), 'rb') as fh:
                outs.append(fh.read().decode('utf-8', 'replace'))
        return rc, so + se, outs
    finally:
        shutil.rmtree(d, ignore_errors=True)


def fmt_all(srcs):
    """Format every source; an entry is (True, text) or (False, message).  One batch; on failure the batch is split."""
    rc, msg, outs = fmt_batch(srcs)
    if rc == 0:
        return [(True, o) for o in outs]
    if len(srcs) == 1:
        return [(False, 'ucg fmt -w exits %d: %s' % (rc, msg.strip()[:300]))]
    h = len(srcs) // 2
    return fmt_all(srcs[:h]) + fmt_all(srcs[h:])


HOW = ('write `source` to f.ucg, run the real `ucg fmt -w f.ucg` (twice for the fixed point); ASTs from the replay driver mode '
       '`ast` (ucglib::parse::parse), Position blocks and QUOTED/BAREWORD of name tokens normalised')


def check_family(name, bound, cases, generated, collect=None):
    """cases: [dict(source=..., label=...)].  Checks the three clauses; returns the stand-in result (the first violation in
    family order).  `collect` (a list) receives every violation -- used while developing the family."""
    srcs = [c['source'] for c in cases]
    a0 = R.driver('ast', srcs)
    kept = [(c, a) for c, (st, a) in zip(cases, a0) if st == 'OK']
    rejected = len(cases) - len(kept)
    for c, (st, a) in zip(cases, a0):
        if st not in ('OK', 'ERR'):
            return dict(name=name, bound=bound, cases=len(cases), status='error', detail='the parser %s on %s: %s' % (st, c['label'], a[:200]))
    if generated and rejected * 4 > len(cases):
        bad = [c for c, (st, a) in zip(cases, a0) if st != 'OK'][0]
        return dict(name=name, bound=bound, cases=len(cases), status='error',
                    detail='%d of %d generated programs are rejected by the parser (coverage lost), e.g. %r' % (rejected, len(cases), bad['source'][:200]))
    note = '%d checked' % len(kept) + (', %d rejected by the parser and skipped' % rejected if rejected else '')
    found = {}

    def violation(i, c, clause, detail, expected, observed):
        v = dict(name=name, bound=bound, cases=len(cases), status='violation', detail='%s [%s]: %s' % (clause, c['label'], detail),
                 input=dict(source=c['source'], expected=expected, observed=observed, how=HOW, clause=clause, label=c['label']))
        found.setdefault(i, v)
        if collect is not None:
            collect.append(v)

    f1 = fmt_all([c['source'] for c, a in kept])
    live = []
    for i, ((c, a), (ok, out)) in enumerate(zip(kept, f1)):
        if not ok:
            violation(i, c, 'meaning', 'the input parses but formatting it fails: ' + out[:200], 'formatted text', out)
        else:
            live.append((i, c, a, out))
    a1 = R.driver('ast', [out for i, c, a, out in live])
    live2 = []
    for (i, c, a, out), (st, b) in zip(live, a1):
        if st != 'OK':
            violation(i, c, 'meaning', 'the formatted text does not parse: %s' % b.replace('\n', ' ')[:200],
                      'text that parses to the same AST as the input', 'formatted text:\n%s\nparser: %s' % (out, b))
            continue
        live2.append((i, c, out))
        na, nb = norm_ast(a), norm_ast(b)
        if na != nb:
            da, db = first_diff(na, nb)
            violation(i, c, 'meaning', 'the formatted text parses to a different AST: ...%s... became ...%s...' % (da, db),
                      'same AST; input has ...%s...' % da, 'formatted text:\n%s\nits AST has ...%s...' % (out, db))
    elig = []
    for i, c, out in live2:
        ci, co = comments(c['source']), comments(out)
        if not is_subsequence(ci, co):
            missing = [x for x in ci if x not in co]
            violation(i, c, 'comments', 'comments of the input %r; comments of the output %r%s' % (ci, co, (' (lost: %r)' % missing[:3]) if missing else ' (order changed)'),
                      'every input comment, same text, same order: %r' % ci, 'formatted text:\n%s\ncomments: %r' % (out, co))
        if not comments_between_statements(out):
            continue
        if known('indented_comment_group') and INDENTED_GROUP.search(''.join('""' if k == 'str' else t for k, t in regions(out))):
            continue
        elig.append((i, c, out))
    f2 = fmt_all([o for i, c, o in elig])
    for (i, c, out), (ok, out2) in zip(elig, f2):
        if not ok or out2 != out:
            violation(i, c, 'fixed point', 'formatting the formatted text changes it again' if ok else 'formatting the formatted text fails: ' + out2[:200],
                      'fmt(fmt(x)) == fmt(x) == %r' % out, 'fmt(fmt(x)) == %r' % out2)
    if found:
        return found[min(found)]
    return dict(name=name, bound=bound + ' [' + note + '; fixed point on %d]' % len(elig), cases=len(cases), status='ok')


# ---------------------------------------------------------------------------------------------------------------------
# layout: a program is a list of items -- token strings, GLUE (no blank between the neighbours) and comment slots
# ---------------------------------------------------------------------------------------------------------------------
GLUE = ('glue',)


def slot(kind):
    """A place where the quantifier puts comments: S before a statement, F a field, E a list element, O an operand, A an argument."""
    return ('slot', kind)


COMMENT_TEXTS = ['plain words', 'é ✓ 日本語', 'let x = 1;', 'has "quotes" inside', 'x // nested slashes', '{ unbalanced [ (', 'TODO(jw): fix',
                 '   indented text', "it's", 'a = 1,', '@ % \\ \\n', 'ends with backslash \\', '/ / /', '-- 100%']
PUNCT = set('()[]{},;')


def layout(items, rnd, style, pcomment):
    """Render items.  style: compact | spaced | wild.  Every comment gets a serial number so that order is observable."""
    out = []
    serial = [0]
    indent = ['']

    def ws(required):
        if style == 'compact':
            return ' ' if required else ''
        if style == 'spaced':
            return ' '
        r = rnd.random()
        if r < 0.45:
            return ' '
        if r < 0.60:
            return '' if not required else '  '
        if r < 0.85:
            indent[0] = ' ' * rnd.choice([0, 1, 2, 4, 7])
            return rnd.choice(['\n', '\n', '\n\n', ' \n', '\r\n']) + indent[0]
        return rnd.choice(['\t', '   ', ' \t '])

    def comment_block(first):
        lines = []
        for _ in range(rnd.choice([1, 1, 1, 2, 3])):
            serial[0] += 1
            txt = 'c%d %s' % (serial[0], rnd.choice(COMMENT_TEXTS))
            if rnd.random() < 0.12:          # blank comment line
                txt = ''
            lines.append('//' + rnd.choice([' ', ' ', '', '  ', '\t']) + txt + rnd.choice(['', '', ' ', '  ']))
        ind = ' ' * rnd.choice([0, 2, 4])
        own_line = first or rnd.random() < 0.75
        head = ('' if first else '\n' + ind) if own_line else rnd.choice([' ', '  ', '\t'])
        body = ''
        for i, ln in enumerate(lines):
            if i:
                body += '\n' + ('\n' if rnd.random() < 0.2 else '') + ind
            body += ln
        return head + body + '\n' + ('\n' if rnd.random() < 0.15 else '') + (ind if rnd.random() < 0.7 else '')

    prev = None
    glue = False
    pending = None
    for it in items:
        if it is GLUE:
            glue = True
            continue
        if isinstance(it, tuple):
            if rnd.random() < pcomment:
                pending = it
            continue
        if prev is None:
            if pending:
                out.append(comment_block(True))
            elif style == 'wild' and rnd.random() < 0.2:
                out.append(rnd.choice(['\n', '  ', '\n\n ']))
        elif pending and not glue:
            out.append(comment_block(False))
        elif glue:
            pass
        else:
            required = not (prev[-1] in PUNCT or it[0] in PUNCT)
            out.append(ws(required))
        out.append(it)
        prev, glue, pending = it, False, None
    return ''.join(out), serial[0]


# ---------------------------------------------------------------------------------------------------------------------
# program generator (shapes from reference/grammar.md; only has to parse, nothing is evaluated)
# ---------------------------------------------------------------------------------------------------------------------
INTS = ['0', '1', '2', '7', '42', '007', '1000000', '9223372036854775807']
FLOATS = ['1.5', '0.5', '.5', '0.1', '3.14159', '2.50', '00.25', '123456789.125', '0.30000000000000004', '1.7976931348623157',
          '0.000000000000000000001', '0.' + '0' * 60 + '1234', '0.' + '0' * 322 + '5', '4503599627370495.5', '0.1234567890123456789012345']
FLOATS_ZERO = ['1.0', '0.0', '10.00', '.0', '123456789012345678901234567890.0', '100000000000000000000.5', '9007199254740993.5',
               '1' + '0' * 300 + '.0', '0.' + '0' * 330 + '1']      # value has a zero fraction (after rounding to f64)
STRINGS = ['""', '" "', '"plain"', '"a\\nb"', '"tab\\tx"', '"cr\\rx"', '"q\\"q"', '"back\\\\slash"', '"end\\\\"', '"\\\\n"', '"\\\\\\""',
           '"é naïve ✓ 日本語 😀"', '"line1\nline2"', '"tab\tliteral"', '"\\a\\b\\0\\\'"', '"// not a comment"', '"x; y, {z} [w] (v)"',
           '"@ and \\\\@"', '"it\'s"', '"mixé\\n✓\\t\\"end\\""', '"l1\n// still the string\nl3"', '"  padded  "', '"% %% = == => :: : ."', '"NULL"', '"true"']
SYMS = ['x', 'y', 'foo_bar', 'a1', 'kebab-name', 'camelCase', 'letter', 'inner', 'island', 'notable', 'selector', 'mapper', 'imports',
        'failing', 'formatted', 'outer', 'asserted', 'item', 'B', 'x_', 'a-b-c', 'trueish', 'falsey', 'NULLable', 'nullx']
BARE_FIELDS = ['a', 'b', 'foo_bar', 'kebab-name', 'x1', 'ok', 'desc', 'let', 'in', 'is', 'not', 'select', 'func', 'module', 'map', 'filter',
               'reduce', 'self', 'env', 'mod', 'import', 'include', 'fail', 'assert', 'out', 'constraint', 'convert', 'TRACE', 'as', 'true', 'false',
               'trueish', 'falsey', 'NULLx', 'NULL_']
QUOTED_FIELDS = ['"a"', '"plain_name"', '"a b"', '""', '"é"', '"日本"', '"1x"', '"1"', '"x.y"', '"a\\"b"', '"a\\\\b"', '"a\\nb"', '"x-y"', '"_x"', '"_"',
                 '"x_"', '"let"', '"select"', '"true"', '"false"', '"in"', '"is"', '"not"', '"func"', '"module"', '"self"', '"env"', '"mod"', '"null"',
                 '"Null"', '"a=b"', '"a,b"', '"{"', '"// c"', '"@"', '" lead"', '"trail "', '"ALLCAPS"', '"x:y"',
                 '"a\\tb"', '"a\\\\"', '"A1"', '"a1_"', '"-a"', '"a-"', '"a--b"', '"0"', '"a\\rb"', '"a//b"', '"//"', '"xNULL"', '"nullable"', '"True"', '"true1"', '"\\""',
                 '"\\\\"', '"a;"', '"letx"', '"inx"', '"notx"', '"TRACEx"']
QUOTED_FIELDS_KW = ['"NULL"', '"NULLx"', '"NULL_"', '"trueish"', '"falsey"', '"NULLNULL"', '"truefalse"']      # names starting with a value keyword
BINOPS = ['+', '-', '*', '/', '%%', '==', '!=', '>', '<', '>=', '<=', '&&', '||', 'in', 'is', '~', '!~']
CASTS = ['int', 'float', 'str', 'bool']
CONVERTERS = ['json', 'yaml', 'toml', 'env', 'flags', 'exec', 'xml']


class Gen(object):
    def __init__(self, rnd):
        self.r = rnd

    # -- leaves
    def intlit(self):
        return [self.r.choice(INTS)]

    def floatlit(self):
        return [self.r.choice(FLOATS + FLOATS_ZERO)]

    def strlit(self):
        return [self.r.choice(STRINGS)]

    def sym(self):
        return [self.r.choice(SYMS)]

    def fieldname(self):
        r = self.r.random()
        if r < 0.45:
            return self.r.choice(BARE_FIELDS)
        return self.r.choice(QUOTED_FIELDS + QUOTED_FIELDS_KW * 2)

    def selector(self, d):
        items = [self.r.choice(SYMS + ['env', 'self', 'mod'])]
        for _ in range(self.r.choice([1, 1, 2, 3])):
            k = self.r.random()
            items += [GLUE, '.', GLUE]
            if k < 0.55:
                items.append(self.r.choice(['a', 'b', 'foo_bar', 'kebab-name', 'x1', 'inner']))
            elif k < 0.75:
                items.append(self.r.choice(['"a b"', '"é"', '"x.y"', '"a\\"b"', '"plain"', '"_x"', '"1"', '"NULL"', '"true"', '"let"']))
            elif k < 0.9 or d <= 0:
                items.append(self.r.choice(['0', '1', '12']))
                break
            else:
                items += ['('] + self.expr(d - 1) + [')']
        return items

    def simple(self, d):
        k = self.r.random()
        if k < 0.2:
            return self.intlit()
        if k < 0.35:
            return self.floatlit()
        if k < 0.55:
            return self.strlit()
        if k < 0.62:
            return [self.r.choice(['true', 'false', 'NULL'])]
        if k < 0.8:
            return self.sym()
        return self.selector(d)

    # -- compound, closed on both sides (usable as any operand)
    def listlit(self, d):
        n = self.r.choice([0, 1, 2, 3, 4])
        items = ['[']
        for i in range(n):
            items += [slot('E')] + self.expr(d - 1)
            if i < n - 1 or self.r.random() < 0.4:
                items.append(',')
        return items + [']']

    def fields(self, d, lo=0):
        n = self.r.choice([lo, 1, 2, 3])
        items = ['{']
        for i in range(n):
            items += [slot('F'), self.fieldname()]
            if self.r.random() < 0.2:
                items += ['::'] + self.constraint(d - 1)
            items += ['='] + self.expr(d - 1)
            if i < n - 1 or self.r.random() < 0.4:
                items.append(',')
        return items + ['}']

    def constraint_arm(self, d):
        k = self.r.random()
        if k < 0.3:
            num = self.intlit if self.r.random() < 0.6 else self.floatlit
            form = self.r.choice(['both', 'lo', 'hi'])
            lo = num() if form != 'hi' else []
            hi = num() if form != 'lo' else []
            return ['in'] + lo + ['..'] + hi
        if k < 0.5:
            return self.intlit() if self.r.random() < 0.5 else self.strlit()
        if k < 0.6:
            return self.floatlit()
        if k < 0.7:
            return self.sym()
        if k < 0.8 and d > 0:
            return self.fields(d - 1, lo=1)
        if k < 0.9 and d > 0:
            return ['['] + self.r.choice([self.sym, self.strlit, self.intlit, lambda: self.fields(d - 1, lo=1)])() + [']']
        return [self.r.choice(['true', 'false', 'NULL', '""', '0'])]

    def constraint(self, d):
        items = self.constraint_arm(d)
        for _ in range(self.r.choice([0, 0, 1, 2])):
            items += ['|'] + self.constraint_arm(d)
        return items

    def grouped(self, d):
        return ['('] + self.expr(d - 1) + [')']

    def call(self, d):
        head = self.sym() if self.r.random() < 0.6 else [self.r.choice(SYMS), GLUE, '.', GLUE, self.r.choice(['f', 'inner', 'kebab-name'])]
        n = self.r.choice([0, 1, 2, 3])
        items = head + ['(']
        for i in range(n):
            items += [slot('A')] + self.expr(d - 1)
            if i < n - 1 or self.r.random() < 0.3:
                items.append(',')
        return items + [')']

    def copy(self, d):
        head = self.sym() if self.r.random() < 0.5 else [self.r.choice(SYMS + ['self', 'mod']), GLUE, '.', GLUE, self.r.choice(['a', 'inner', 'this'])]
        return head + self.fields(d)

    def cast(self, d):
        return [self.r.choice(CASTS), '('] + self.expr(d - 1) + [')']

    def format(self, d):
        if self.r.random() < 0.6:
            n = self.r.choice([1, 2, 3])
            tmpl = '"' + self.r.choice(['', 'v=', 'é ', '\\\\@ ']) + ' '.join(['@'] * n) + self.r.choice(['', '\\n', ' end']) + '"'
            items = [tmpl, '%', '(']
            for i in range(n):
                items += [slot('A')] + self.expr(d - 1)
                if i < n - 1:
                    items.append(',')
            return items + [')']
        tmpl = self.r.choice(['"v=@{item.a}"', '"@{item.a + 1} and @{item.b.0}"', '"@{item}"', '"\\"@{item.x}\\" é"'])
        arg = self.r.choice([self.sym, lambda: self.fields(d, lo=1), lambda: self.selector(0), lambda: self.listlit(d)])()
        return [tmpl, '%'] + arg

    def rangeexpr(self, d):
        part = lambda: self.r.choice([self.intlit, self.intlit, self.sym, lambda: self.grouped(d), lambda: self.selector(0)])()
        items = part() + [':']
        if self.r.random() < 0.5:        # with a step
            items += part() + [':']
        return items + part()

    def select(self, d):
        items = ['select', '('] + self.expr(d - 1)
        if self.r.random() < 0.6:
            items += [','] + self.expr(d - 1)
        return items + [')', '=>'] + self.fields(d, lo=1)

    def func(self, d):
        n = self.r.choice([0, 1, 2, 3])
        items = ['func', '(']
        for i in range(n):
            items.append(['arg', 'acc', 'item', 'name', 'val', 'a-b'][i] if self.r.random() < 0.5 else 'p%d' % i)
            if self.r.random() < 0.25:
                items += ['::'] + self.constraint(d - 1)
            if i < n - 1:
                items.append(',')
        return items + [')', '=>'] + self.expr(d - 1)

    def module(self, d):
        items = ['module'] + self.fields(d) + ['=>']
        if self.r.random() < 0.6:
            items += ['('] + self.expr(d - 1)
            if self.r.random() < 0.4:
                items += ['::'] + self.constraint(d - 1)
            items.append(')')
        items.append('{')
        for _ in range(self.r.choice([0, 1, 2, 3])):
            items += self.statement(d - 1)
        return items + ['}']

    def funcop(self, d):
        k = self.r.choice(['map', 'filter', 'reduce'])
        f = self.sym() if self.r.random() < 0.5 else self.func(d - 1)
        items = [k, '('] + f + [',']
        if k == 'reduce':
            items += self.expr(d - 1) + [',']
        return items + self.expr(d - 1) + [')']

    def prefix(self, d):
        """import / include / fail / not / TRACE / convert: open to the right."""
        k = self.r.choice(['import', 'include', 'fail', 'fail', 'not', 'not', 'TRACE', 'convert'])
        if k == 'import':
            return ['import', self.r.choice(['"x.ucg"', '"std/lists.ucg"', '"../a b/é.ucg"', '"a\\"b.ucg"'])]
        if k == 'include':
            return ['include', self.r.choice(['str', 'b64', 'json', 'yaml', 'toml']), self.r.choice(['"f.txt"', '"./dir/é.json"', '"a\\\\b"'])]
        if k == 'fail':
            return ['fail'] + self.r.choice([self.strlit, lambda: self.format(d), lambda: self.grouped(d), self.sym])()
        if k == 'convert':
            return ['convert', self.r.choice(CONVERTERS)] + self.expr(d - 1)
        return [k] + self.expr(d - 1)

    def closed(self, d):
        if d <= 0:
            return self.simple(0)
        k = self.r.choice(['list', 'tuple', 'grouped', 'grouped', 'call', 'copy', 'cast', 'format', 'range', 'select', 'func', 'module', 'funcop', 'prefix', 'prefix'])
        if k == 'list':
            return self.listlit(d)
        if k == 'tuple':
            return self.fields(d)
        if k == 'grouped':
            return self.grouped(d)
        if k == 'call':
            return self.call(d)
        if k == 'copy':
            return self.copy(d)
        if k == 'cast':
            return self.cast(d)
        if k == 'range':
            return self.rangeexpr(d)
        if k == 'funcop':
            return self.funcop(d)
        if k == 'format':
            return self.format(d)
        # the remaining forms extend as far to the right as possible: parenthesise them when used as an operand
        inner = getattr(self, k)(d)
        return ['('] + inner + [')']

    def operand(self, d):
        # redundant parentheses; every bracket level uses up nesting budget (keeps the programs small)
        wraps = min(self.r.choice([0, 0, 0, 0, 1, 1, 2, 3]), max(d, 0))
        d -= wraps
        items = self.simple(d) if (d <= 0 or self.r.random() < 0.55) else self.closed(d)
        for _ in range(wraps):
            items = ['('] + items + [')']
        return items

    def expr(self, d):
        if d > 0 and self.r.random() < 0.12:
            return self.r.choice([self.select, self.func, self.module, self.prefix])(d)
        items = self.operand(d)
        for _ in range(self.r.choice([0, 0, 1, 1, 2, 3]) if d > 0 else self.r.choice([0, 0, 1])):
            items += [self.r.choice(BINOPS), slot('O')] + self.operand(d - 1)
        return items

    def statement(self, d):
        k = self.r.choice(['let', 'let', 'let', 'expr', 'expr', 'constraint', 'assert', 'out'])
        items = [slot('S')]
        if k == 'let':
            items += ['let', self.r.choice(SYMS)]
            if self.r.random() < 0.25:
                items += ['::'] + self.constraint(d)
            items += ['='] + self.expr(d)
        elif k == 'expr':
            items += self.expr(d)
        elif k == 'constraint':
            items += ['constraint', self.r.choice(SYMS), '='] + self.constraint(d)
        elif k == 'assert':
            items += ['assert'] + (['{', slot('F'), 'ok', '='] + self.expr(d - 1) + [',', slot('F'), 'desc', '='] + self.strlit() + [',', '}'] if self.r.random() < 0.7 else self.expr(d - 1))
        else:
            items += ['out', self.r.choice(CONVERTERS)] + self.expr(d)
        return items + [';']

    def program(self, nstmt, d):
        items = []
        for _ in range(nstmt):
            items += self.statement(d)
        return items


def generated_program(rnd, with_comments):
    g = Gen(rnd)
    items = g.program(rnd.choice([1, 1, 2, 3, 4]), rnd.choice([1, 2, 2, 3, 3, 4, 5]))
    style = rnd.choice(['compact', 'spaced', 'wild', 'wild'])
    src, ncom = layout(items, rnd, style, (rnd.choice([0.15, 0.4, 0.8]) if with_comments else 0.0))
    tail = rnd.random()
    if with_comments and tail < 0.25:
        src += '\n// c%d trailing comment at the end of the file' % (ncom + 1) + ('\n' if tail < 0.15 else '')
    elif tail < 0.7:
        src += '\n'
    return src


# ---------------------------------------------------------------------------------------------------------------------
# re-layout of existing text (repository files, C01 table): blanks / line breaks / comments at separator positions
# ---------------------------------------------------------------------------------------------------------------------
def relayout(src, rnd, pcomment):
    """Insert random white space and comments after `,` `;` `{` `[` and before `}` `]` of code regions: the positions before
    statements, fields and list elements.  The token sequence is unchanged."""
    out, serial = [], 0
    for k, t in regions(src):
        if k != 'code':
            out.append(t)
            continue
        for ch in t:
            if ch in '}]' and rnd.random() < 0.3:
                out.append(rnd.choice([' ', '\n', '\n    ']))
            out.append(ch)
            if ch in ',;{[':
                r = rnd.random()
                if r < pcomment:
                    serial += 1
                    out.append(rnd.choice(['\n', '\n  ', ' ']) + '//' + rnd.choice([' ', '']) + ('' if rnd.random() < 0.1 else 'r%d %s' % (serial, rnd.choice(COMMENT_TEXTS))) + '\n' + rnd.choice(['', '  ']))
                elif r < pcomment + 0.3:
                    out.append(rnd.choice([' ', '\n', '\n\n', '\n      ', '\t', '  ']))
    return ''.join(out)


# ---------------------------------------------------------------------------------------------------------------------
# family 1: every .ucg file of the repository + the code blocks of the language reference
# ---------------------------------------------------------------------------------------------------------------------
def repo_sources():
    files = []
    for root, dirs, fs in os.walk(REPO):
        dirs[:] = sorted(x for x in dirs if x not in ('target', '.git', 'node_modules'))
        for f in sorted(fs):
            if f.endswith('.ucg'):
                files.append(os.path.join(root, f))
    files.sort(key=lambda p: ('/fuzz/' in p, p))      # the fuzz corpus repeats integration_tests: keep the canonical path
    seen, out = set(), []
    for p in files:
        try:
            with open(p, encoding='utf-8', newline='') as fh:
                s = fh.read()
        except (OSError, UnicodeDecodeError):
            continue
        h = hashlib.sha1(s.encode('utf-8')).hexdigest()
        if h in seen or '\n%%%%\n' in s:
            continue
        seen.add(h)
        out.append((os.path.relpath(p, REPO), s))
    docs = os.path.join(REPO, 'docsite', 'site', 'content')
    for root, dirs, fs in os.walk(docs):
        dirs.sort()
        for f in sorted(fs):
            if not f.endswith('.md'):
                continue
            with open(os.path.join(root, f), encoding='utf-8') as fh:
                txt = fh.read()
            for i, m in enumerate(re.finditer(r'^```[a-z]*\n(.*?)^```', txt, re.S | re.M)):
                s = m.group(1)
                h = hashlib.sha1(s.encode('utf-8')).hexdigest()
                if h in seen or not s.strip() or '\n%%%%\n' in s:
                    continue
                seen.add(h)
                out.append(('%s#block%d' % (os.path.relpath(os.path.join(root, f), REPO), i + 1), s))
    return out


def standin_fmt_repo_files(tier, seed):
    rnd = random.Random(seed)
    allsrc = repo_sources()
    nfiles = sum(1 for p, s in allsrc if '#block' not in p)
    if tier == 'thorough':
        chosen = allsrc
        bound = 'every distinct .ucg file under the repository (%d) and every code block of docsite/site/content/**/*.md (%d; those the parser rejects are skipped)' % (nfiles, len(allsrc) - nfiles)
    else:
        pool = list(allsrc)
        rnd.shuffle(pool)
        chosen, size = [], 0
        for p, s in pool:
            if size + len(s) <= 4000:
                chosen.append((p, s))
                size += len(s)
        bound = 'a seed-chosen subset (%d sources, %d bytes) of the %d distinct .ucg files and %d doc code blocks of the repository' % (len(chosen), size, nfiles, len(allsrc) - nfiles)
    cases = [dict(source=s, label=p) for p, s in chosen]
    if tier == 'thorough':
        # the small ones once more with random blanks / line breaks / comments at the separators
        extra = 0
        for c in list(cases):
            if len(c['source']) <= 600:
                sub = random.Random(rnd.getrandbits(48))
                cases.append(dict(source=relayout(c['source'], sub, 0.2), label=c['label'] + ' re-laid-out'))
                extra += 1
        bound += '; + %d of them (<= 600 bytes) re-laid-out with random white space and comments after `,` `;` `{` `[`' % extra
    return check_family('fmt_repo_files', bound, cases, generated=False)


# ---------------------------------------------------------------------------------------------------------------------
# family 2: every literal form in every syntactic position (enumerated, no randomness)
# ---------------------------------------------------------------------------------------------------------------------
CONTEXTS = ['%s;', 'let v = %s;', 'let v = [%s, %s];', 'let v = {f = %s};', 'let v = %s + x;', 'let v = x == %s;', 'let v = (%s);', 'f(%s);',
            'let v = func (a) => %s;', 'let v = select (x, %s) => {a = %s};', 'let v = t{f = %s};', 'out json %s;', 'let v = not (x == %s);',
            'let v = "@ @" %% (%s, x);', 'let v = map(f, [%s]);', 'let m = module {p = %s} => (%s) { let q = %s; };', 'let v :: %s = %s;',
            'let v = [1, %s].1;', 'assert {ok = x == %s, desc = "d"};', 'let v = int(%s);', 'let v = convert yaml %s;', 'let v = TRACE %s;']
NUM_CONTEXTS = ['constraint c = in %s..%s;', 'let v :: in %s.. | %s = %s;', 'let v = %s:x;', 'let v = {a :: %s = %s};']
FIELD_CONTEXTS = ['let v = {%s = 1};', 'let v = {%s = 1, %s = 2,};', 'let v = t{%s = 1};', 'let v = select (k, 0) => {%s = 1};', 'let m = module {%s = 1} => { };',
                  'let v = {%s :: 0 = 1};', 'let v = {a = {%s = {%s = []}}};', 'constraint c = {%s = 0};', 'let v :: {%s = ""} = {%s = "s"};',
                  'let v = "@{item.x}" %% {%s = 1};', 'f({%s = 1});']


def standin_fmt_literal_forms(tier, seed):
    lits = list(INTS) + list(FLOATS) + list(STRINGS) + ['NULL', 'true', 'false', 'x', 'kebab-name', 'a.b', 'a."q f"', 'a.0', '[]', '{}', '[1, [2.5, "s"]]']
    lits += ['1:10', 'a:b', '(1 + 1):(2 * 3)', 'x.lo:x.hi']
    lits += FLOATS_ZERO
    lits += ['1:2:10', '0:1:0', 'a:b:c', '(1):(2):(3)', 'x.lo:2:x.hi']
    fields = BARE_FIELDS + QUOTED_FIELDS + QUOTED_FIELDS_KW
    ctxs = CONTEXTS if tier == 'thorough' else CONTEXTS[:4]
    fctxs = FIELD_CONTEXTS if tier == 'thorough' else FIELD_CONTEXTS[:3]
    cases = []
    for l in lits:
        for c in ctxs:
            cases.append(dict(source=c.replace('%%', '\0').replace('%s', l).replace('\0', '%') + '\n', label='literal %s in `%s`' % (l[:40], c)))
    for l in INTS + FLOATS + FLOATS_ZERO:
        for c in NUM_CONTEXTS:
            cases.append(dict(source=c.replace('%s', l) + '\n', label='number %s in `%s`' % (l[:40], c)))
    for f in fields:
        for c in fctxs:
            cases.append(dict(source=c.replace('%%', '\0').replace('%s', f).replace('\0', '%') + '\n', label='field name %s in `%s`' % (f, c)))
    deep = [5, 12, 30, 60] if tier == 'thorough' else [5, 20]
    for n in deep:
        for sh in ['let d = %s1%s;' % ('(' * n, ')' * n), 'let d = %s1.0%s;' % ('[' * n, ']' * n), 'let d = %s1:2:3%s;' % ('{"NULL" = ' * n, '}' * n),
                   'let d = %sx%s;' % ('[(' * n, ')]' * n), 'let d = %sx%s;' % ('f(' * n, ')' * n), 'let d = %s1%s;' % ('(1 + ' * n, ')' * n),
                   'let d = %sx%s;' % ('func (a) => (' * n, ')' * n), 'let d = %sx%s;' % ('not (' * n, ')' * n),
                   'let d = %s1%s;' % ('select (k, 0) => {a = ' * n, '}' * n), 'let d = %sx%s;' % ('module {} => (' * n, ') {}' * n)]:
            cases.append(dict(source=sh + '\n', label='nesting depth %d: `%s...`' % (n, sh[:28])))
    blank = ['//\nlet x = 1;\n', '// a\n//\n// b\nlet x = 1;\n', '//   \nlet x = 1;\n//\n', '//\t\n//\n\n//\nlet x = 1;\n//\n//\n', 'let x = 1; //\nlet y = 2;\n',
             'let x = 1;\n\n//\n\nlet y = [\n  //\n  1,\n];\n']
    for b in blank:
        cases.append(dict(source=b, label='blank comment lines %r' % b))
    # comment groups around and after the last statement (several groups separated by blank lines, comment-only files)
    trailing = ['let x = 1;\n// t1\n', 'let x = 1;\n// t1\n\n// t2\n', 'let x = 1;\n\n// t1\n// t1b\n\n// t2\n\n// t3\n', '// only\n', '// g1\n\n// g2\n',
                '// g1\n\n// g2\n\n// g3\n', '// head\n\nlet x = 1;\n\n// mid\nlet y = 2;\n// t1\n\n// t2\n']
    for b in trailing:
        cases.append(dict(source=b, label='comment groups at the end %r' % b))
    ops = BINOPS + ['.']
    nops = 0
    for o1 in ops:
        shapes = ['a %s b;' % o1, '(a %s b);' % o1, 'not a %s b;' % o1, 'not (a %s b);' % o1]
        if tier == 'thorough':
            for o2 in ops:
                shapes += ['a %s b %s c;' % (o1, o2), '(a %s b) %s c;' % (o1, o2), 'a %s (b %s c);' % (o1, o2)]
        for sh in shapes:
            cases.append(dict(source=sh + '\n', label='operators `%s`' % sh))
            nops += 1
    bound = ('%d literal forms (integers, floats incl. zero fraction / leading-dot / tiny / huge / 17-digit ones, strings with every escape, raw newline / tab and non-ASCII text, '
             'NULL / booleans, symbols, selectors, ranges with and without a step) x %d expression positions + %d numbers x %d constraint / range positions + %d field names '
             '(bare incl. every reserved word, quoted incl. keyword-like, `_x`, empty, non-ASCII, escapes) x %d tuple positions + %d operator shapes '
             '(each of the 18 binary operators alone, under `not`, parenthesised%s) + 10 bracket forms nested to depth %s + %d programs with blank comment lines'
             % (len(lits), len(ctxs), len(INTS + FLOATS + FLOATS_ZERO), len(NUM_CONTEXTS), len(fields), len(fctxs), nops,
                ', and every pair as `a o1 b o2 c`, `(a o1 b) o2 c`, `a o1 (b o2 c)`' if tier == 'thorough' else '', ' / '.join(map(str, deep)), len(blank)))
    return check_family('fmt_literal_forms', bound, cases, generated=True)


# ---------------------------------------------------------------------------------------------------------------------
# family 3: random programs over the whole grammar with random layout and comments; C01's table re-laid-out
# ---------------------------------------------------------------------------------------------------------------------
def standin_fmt_generated(tier, seed):
    rnd = random.Random(seed)
    n = 1200 if tier == 'thorough' else 40
    cases = []
    for i in range(n):
        sub = random.Random(rnd.getrandbits(48))
        with_comments = i % 3 != 0
        cases.append(dict(source=generated_program(sub, with_comments), label='generated #%d (%s)' % (i, 'with comments' if with_comments else 'no comments')))
    try:
        gold = json.load(open(os.path.join(HERE, 'golden_c01.json')))
    except (OSError, ValueError):
        gold = []
    ngold = 0
    for j, g in enumerate(gold):
        if tier != 'thorough' and j % 6 != seed % 6:
            continue
        src = g['program']
        for variant in range(2 if tier == 'thorough' else 1):
            sub = random.Random(rnd.getrandbits(48))
            cases.append(dict(source=relayout(src, sub, 0.25 if variant == 0 else 0.0) + '\n', label='C01 table program #%d re-laid-out' % j))
            ngold += 1
    bound = ('%d random programs (1-4 statements, expression nesting budget 1-5) over let / constraint / assert / out / expression statements and all expression forms of '
             'reference/grammar.md (17 binary operators with redundant parentheses, selectors, lists, tuples with bare and quoted names and shape constraints, '
             'copy, call, cast, both format forms, range, select, func, module, map / filter / reduce, import, include, fail, not, TRACE, convert) in compact / '
             'spaced / wild layout, two thirds with comments before statements, fields, list elements, arguments and operands, + %d re-laid-out programs of the '
             'C01 table' % (n, ngold))
    if KNOWN:
        bound += '; fixed point not demanded for the KNOWN case ' + ', '.join(k['id'] for k in KNOWN)
    return check_family('fmt_generated', bound, cases, generated=True)


STANDINS = [standin_fmt_repo_files, standin_fmt_literal_forms, standin_fmt_generated]
