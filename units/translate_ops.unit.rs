//@ unit translate_ops
//@ serves C01
//@ must_verify OpsMap::push OpsMap::replace OpsMap::len lemma_appended_is_prefix bin_add_arm bin_sub_arm bin_div_arm bin_mul_arm bin_mod_arm bin_equal_arm bin_gt_arm bin_lt_arm bin_gteq_arm bin_lteq_arm bin_noteq_arm bin_rematch_arm bin_notrematch_arm bin_is_arm bin_and_arm bin_or_arm not_arm grouped_arm cast_arm fail_arm range_arm convert_arm map_arm filter_arm reduce_arm func_arm select_arm stmt_let_arm stmt_constraint_arm stmt_expr_arm stmt_assert_arm stmt_out_arm main
//@ include prelude/head.rs
use std::rc::Rc;

// C01, the translator's side: the STRUCTURE of the opcode sequence each arm of AST::translate_expr /
// AST::translate_stmt emits - operand order, the operator's op, and where every relative jump continues.
// The VM's side of each op is under contract in units vm_arith / vm_ctrl (left operand on top of the stack;
// a relative jump `j` at index i moves the pointer to i + j and the run loop then advances by one, i.e.
// execution continues at i + j + 1).
// Every arm is extracted from the real source as a function of its free variables; the recursive call is an
// assumed stub whose contract is the induction hypothesis (appends >= 1 op, never touches what is there) and
// every arm is proved to re-establish it (`appended`).

verus! {
//@ include prelude/core.rs
//@ opaque Position Expression VPath VShapeMap VLinks ConstraintArmType Scope VBoxError Statement
//@ clone_spec Position

//@ extract src/build/opcode/mod.rs :: enum Primitive
//@   rule R0
//@ end
//@ extract src/ast/mod.rs :: enum CastType
//@   rule R0
//@ end
//@ extract src/build/opcode/mod.rs :: enum Hook
//@   rule R0
//@ end
//@ extract src/build/opcode/mod.rs :: enum Op
//@   rule R0
//@ end
//@ extract src/build/opcode/translate.rs :: struct OpsMap
//@   rule R0
//@   subst "shape_map: BTreeMap<Rc<str>, Shape>" => "shape_map: VShapeMap"
//@   subst "links: BTreeMap<Rc<str>, Position>" => "links: VLinks"
//@ end
//@ extract src/build/opcode/translate.rs :: impl OpsMap :: fn push
//@   sig <<<
        ensures final(self).ops@ == old(self).ops@.push(op), final(self).pos@ == old(self).pos@.push(pos),
            final(self).shape_map == old(self).shape_map, final(self).links == old(self).links,
//@   >>>
//@ end
//@ extract src/build/opcode/translate.rs :: impl OpsMap :: fn len
//@   ret r
//@   sig <<<
        ensures r == self.ops@.len()
//@   >>>
//@ end
//@ extract src/build/opcode/translate.rs :: impl OpsMap :: fn replace
//@   sig <<<
        requires idx < old(self).ops@.len()
        ensures final(self).ops@ == old(self).ops@.update(idx as int, op), final(self).pos == old(self).pos,
            final(self).shape_map == old(self).shape_map, final(self).links == old(self).links,
//@   >>>
//@ end

// ---------- the AST pieces the arms take apart (real definitions; Expression itself stays opaque) ----------
//@ extract src/ast/mod.rs :: enum TokenType
//@   rule R0
//@ end
//@ extract src/ast/mod.rs :: struct Token
//@   rule R0
//@ end
//@ extract src/ast/mod.rs :: struct PositionedItem
//@   rule R0
//@ end
//@ extract src/ast/mod.rs :: type FieldList
//@ end
//@ extract src/ast/mod.rs :: enum BinaryExprType
//@   rule R0
//@ end
//@ extract src/ast/mod.rs :: struct BinaryOpDef
//@   rule R0
//@ end
//@ extract src/ast/mod.rs :: struct NotDef
//@   rule R0
//@ end
//@ extract src/ast/mod.rs :: struct CastDef
//@   rule R0
//@ end
//@ extract src/ast/mod.rs :: struct FailDef
//@   rule R0
//@ end
//@ extract src/ast/mod.rs :: struct RangeDef
//@   rule R0
//@ end
//@ extract src/ast/mod.rs :: struct SelectDef
//@   rule R0
//@ end
//@ extract src/ast/mod.rs :: struct FuncDef
//@   rule R0
//@ end
//@ extract src/ast/mod.rs :: struct LetDef
//@   rule R0
//@ end
//@ extract src/ast/mod.rs :: struct ConstraintBindingDef
//@   rule R0
//@ end
//@ extract src/ast/mod.rs :: struct ConvertDef
//@   rule R0
//@ end
//@ extract src/ast/mod.rs :: struct MapFilterOpDef
//@   rule R0
//@ end
//@ extract src/ast/mod.rs :: struct ReduceOpDef
//@   rule R0
//@ end
//@ extract src/ast/mod.rs :: enum FormatArgs
//@   rule R0
//@ end
//@ extract src/ast/mod.rs :: struct FormatDef
//@   rule R0
//@ end
//@ extract src/ast/mod.rs :: enum TemplatePart
//@   rule R0
//@ end

impl Expression {
    // ast::Expression::pos (R8): only feeds the position table
    #[verifier::external_body]
    pub fn pos(&self) -> &Position { unimplemented!() }
}

// `"literal".into()` (&str -> Rc<str>, std): the text is preserved.  (R9': vstd's spec of `Into::into` cannot be
// instantiated for the foreign pair (&str, Rc<str>); call sites become `.vinto()`.)
pub trait VIntoRcStr: Sized {
    spec fn vtext(&self) -> Seq<char>;
    fn vinto(self) -> (r: Rc<str>) ensures r@ == self.vtext();
}
impl VIntoRcStr for &str {
    open spec fn vtext(&self) -> Seq<char> { (**self)@ }
    #[verifier::external_body]
    fn vinto(self) -> (r: Rc<str>) { unimplemented!() }
}
impl VIntoRcStr for String {
    open spec fn vtext(&self) -> Seq<char> { (*self)@ }
    #[verifier::external_body]
    fn vinto(self) -> (r: Rc<str>) { unimplemented!() }
}

// ---------- ghost labels for the opaque fragments ----------
// `frag(e, a, b)`: "a call translate_expr(e, ..) appended exactly the ops at indices [a, b)".
// `op_at(e, a, b, k, op)`: "... and the op it left at index k was `op`".
// Both are UNINTERPRETED and occur only in the assumed contract of the recursive call: they assume nothing about
// WHAT is emitted (under the interpretation `true` both clauses are vacuous); they only let a contract say which
// operand's code sits where and that it is still intact.  A proof has to go through for every interpretation, so
// an arm that emits its operands in another order, or overwrites an op inside an operand's code, is rejected.
pub uninterp spec fn frag(e: Expression, a: int, b: int) -> bool;
pub uninterp spec fn op_at(e: Expression, a: int, b: int, k: int, op: Op) -> bool;

// the ops s[a..b) are the (intact, non-empty) code of e
pub open spec fn code_at(e: Expression, s: Seq<Op>, a: int, b: int) -> bool {
    &&& frag(e, a, b)
    &&& 0 <= a < b <= s.len()
    &&& forall|k: int| a <= k < b ==> op_at(e, a, b, k, #[trigger] s[k])
}

// nothing that was in `a` is modified or removed in `b`; ops and positions grow in step
pub open spec fn extends(a: OpsMap, b: OpsMap) -> bool {
    &&& b.ops@.len() >= a.ops@.len()
    &&& b.pos@.len() - a.pos@.len() == b.ops@.len() - a.ops@.len()
    &&& forall|k: int| 0 <= k < a.ops@.len() ==> (#[trigger] b.ops@[k]) == a.ops@[k]
    &&& forall|k: int| 0 <= k < a.pos@.len() ==> (#[trigger] b.pos@[k]) == a.pos@[k]
}
// ... and at least one op was appended
pub open spec fn appended(a: OpsMap, b: OpsMap) -> bool {
    extends(a, b) && b.ops@.len() > a.ops@.len()
}
// `appended` in the words of the task statement: the old op / position lists are prefixes of the new ones,
// and `pos.len() == ops.len()` is preserved.
proof fn lemma_appended_is_prefix(a: OpsMap, b: OpsMap)
    requires appended(a, b)
    ensures
        b.ops@.len() > a.ops@.len(), b.ops@.subrange(0, a.ops@.len() as int) == a.ops@,
        b.pos@.len() > a.pos@.len(), b.pos@.subrange(0, a.pos@.len() as int) == a.pos@,
        a.pos@.len() == a.ops@.len() ==> b.pos@.len() == b.ops@.len(),
{
    assert(b.ops@.subrange(0, a.ops@.len() as int) =~= a.ops@);
    assert(b.pos@.subrange(0, a.pos@.len() as int) =~= a.pos@);
}

// AST::translate_expr, the recursive call (R8) - ASSUMED, and nothing else: it appends at least one op and never
// modifies or removes ops already present.  (Every arm below is proved to do the same: the induction hypothesis.)
#[verifier::external_body]
fn translate_expr(expr: Expression, ops: &mut OpsMap, root: &VPath)
    ensures
        appended(*old(ops), *final(ops)),
        code_at(expr, final(ops).ops@, old(ops).ops@.len() as int, final(ops).ops@.len() as int),
{ unimplemented!() }

// ---------- oracle ----------
// A relative jump `j` at index i: the VM sets the pointer to i + j (vm_ctrl: `jump_target`) and the run loop
// advances by one (`OpPointer::next`), so execution continues at i + j + 1.
pub open spec fn continues_at(i: int, j: i32, target: int) -> bool { i + j + 1 == target }
// Jump offsets are `i32`s computed with `as i32`: they are only meaningful for programs shorter than 2^31 ops
// (the same caller obligation as vm_ctrl's `jump_pre`).
pub open spec fn small(s: Seq<Op>) -> bool { s.len() <= i32::MAX }

// Binary operators.  VM convention (vm_arith / vm_ctrl): the LEFT operand is on top of the stack, the RIGHT one
// below it.  So: code of the RIGHT operand, code of the LEFT operand, then exactly the operator's op(s) `tail`.
pub open spec fn binary_emits(a: OpsMap, b: OpsMap, l: Expression, r: Expression, tail: Seq<Op>) -> bool {
    let n0 = a.ops@.len() as int;
    let n = b.ops@.len() as int;
    &&& appended(a, b)
    &&& exists|m: int| #[trigger] frag(r, n0, m) && code_at(r, b.ops@, n0, m) && code_at(l, b.ops@, m, n - tail.len())
    &&& b.ops@.subrange(n - tail.len(), n) =~= tail
}

// `&&` / `||` (reference: "Both of them short circuit"): the left operand is evaluated first; `And(j)` / `Or(j)`
// (vm_ctrl `short_circuit`) keeps it as the result and jumps when it is false / true, else drops it and falls
// into the right operand's code.  Layout: code(left), the op at index i, code(right), and the jump continues
// exactly behind the right operand's code, which is the end of the fragment.
pub open spec fn short_circuit_emits(a: OpsMap, b: OpsMap, l: Expression, r: Expression, is_and: bool) -> bool {
    let n0 = a.ops@.len() as int;
    let n = b.ops@.len() as int;
    &&& appended(a, b)
    &&& exists|i: int| #[trigger] frag(l, n0, i) && code_at(l, b.ops@, n0, i) && code_at(r, b.ops@, i + 1, n)
            && (if is_and { b.ops@[i] matches Op::And(j) && (small(b.ops@) ==> continues_at(i, j, n)) }
                else { b.ops@[i] matches Op::Or(j) && (small(b.ops@) ==> continues_at(i, j, n)) })
}

// One operand, then the ops `tail` (not, cast, grouping).
pub open spec fn unary_emits(a: OpsMap, b: OpsMap, e: Expression, tail: Seq<Op>) -> bool {
    let n0 = a.ops@.len() as int;
    let n = b.ops@.len() as int;
    &&& appended(a, b)
    &&& code_at(e, b.ops@, n0, n - tail.len())
    &&& b.ops@.subrange(n - tail.len(), n) =~= tail
}
// One op, one operand, one op (convert, out).
pub open spec fn bracketed_emits(a: OpsMap, b: OpsMap, first: Op, e: Expression, last: Op) -> bool {
    let n0 = a.ops@.len() as int;
    let n = b.ops@.len() as int;
    &&& appended(a, b)
    &&& b.ops@[n0] == first
    &&& code_at(e, b.ops@, n0 + 1, n - 1)
    &&& b.ops@[n - 1] == last
}

//@ extract src/build/opcode/translate.rs :: impl AST :: fn translate_expr :: arm "BinaryExprType::Add =>"
//@   wrap <<<
fn bin_add_arm(def: BinaryOpDef, ops: &mut OpsMap, root: &VPath)
$BODY
//@   >>>
//@   subst all "Self::translate_expr" => "translate_expr"
//@   sig <<<
        ensures binary_emits(*old(ops), *final(ops), *def.left, *def.right, seq![Op::Add])
//@   >>>
//@   mutant bin_add_arm_swapped "Self::translate_expr(*def.right, ops, root); Self::translate_expr(*def.left, ops, root);" => "Self::translate_expr(*def.left, ops, root); Self::translate_expr(*def.right, ops, root);" expect bin_add_arm
//@   mutant bin_add_arm_wrong_op "ops.push(Op::Add, def.pos);" => "ops.push(Op::Sub, def.pos);" expect bin_add_arm
//@ end

//@ extract src/build/opcode/translate.rs :: impl AST :: fn translate_expr :: arm "BinaryExprType::Sub =>"
//@   wrap <<<
fn bin_sub_arm(def: BinaryOpDef, ops: &mut OpsMap, root: &VPath)
$BODY
//@   >>>
//@   subst all "Self::translate_expr" => "translate_expr"
//@   sig <<<
        ensures binary_emits(*old(ops), *final(ops), *def.left, *def.right, seq![Op::Sub])
//@   >>>
//@   mutant bin_sub_arm_swapped "Self::translate_expr(*def.right, ops, root); Self::translate_expr(*def.left, ops, root);" => "Self::translate_expr(*def.left, ops, root); Self::translate_expr(*def.right, ops, root);" expect bin_sub_arm
//@   mutant bin_sub_arm_wrong_op "ops.push(Op::Sub, def.pos);" => "ops.push(Op::Add, def.pos);" expect bin_sub_arm
//@ end

//@ extract src/build/opcode/translate.rs :: impl AST :: fn translate_expr :: arm "BinaryExprType::Div =>"
//@   wrap <<<
fn bin_div_arm(def: BinaryOpDef, ops: &mut OpsMap, root: &VPath)
$BODY
//@   >>>
//@   subst all "Self::translate_expr" => "translate_expr"
//@   sig <<<
        ensures binary_emits(*old(ops), *final(ops), *def.left, *def.right, seq![Op::Div])
//@   >>>
//@   mutant bin_div_arm_swapped "Self::translate_expr(*def.right, ops, root); Self::translate_expr(*def.left, ops, root);" => "Self::translate_expr(*def.left, ops, root); Self::translate_expr(*def.right, ops, root);" expect bin_div_arm
//@   mutant bin_div_arm_wrong_op "ops.push(Op::Div, def.pos);" => "ops.push(Op::Mod, def.pos);" expect bin_div_arm
//@ end

//@ extract src/build/opcode/translate.rs :: impl AST :: fn translate_expr :: arm "BinaryExprType::Mul =>"
//@   wrap <<<
fn bin_mul_arm(def: BinaryOpDef, ops: &mut OpsMap, root: &VPath)
$BODY
//@   >>>
//@   subst all "Self::translate_expr" => "translate_expr"
//@   sig <<<
        ensures binary_emits(*old(ops), *final(ops), *def.left, *def.right, seq![Op::Mul])
//@   >>>
//@   mutant bin_mul_arm_swapped "Self::translate_expr(*def.right, ops, root); Self::translate_expr(*def.left, ops, root);" => "Self::translate_expr(*def.left, ops, root); Self::translate_expr(*def.right, ops, root);" expect bin_mul_arm
//@   mutant bin_mul_arm_wrong_op "ops.push(Op::Mul, def.pos);" => "ops.push(Op::Div, def.pos);" expect bin_mul_arm
//@ end

//@ extract src/build/opcode/translate.rs :: impl AST :: fn translate_expr :: arm "BinaryExprType::Mod =>"
//@   wrap <<<
fn bin_mod_arm(def: BinaryOpDef, ops: &mut OpsMap, root: &VPath)
$BODY
//@   >>>
//@   subst all "Self::translate_expr" => "translate_expr"
//@   sig <<<
        ensures binary_emits(*old(ops), *final(ops), *def.left, *def.right, seq![Op::Mod])
//@   >>>
//@   mutant bin_mod_arm_swapped "Self::translate_expr(*def.right, ops, root); Self::translate_expr(*def.left, ops, root);" => "Self::translate_expr(*def.left, ops, root); Self::translate_expr(*def.right, ops, root);" expect bin_mod_arm
//@   mutant bin_mod_arm_wrong_op "ops.push(Op::Mod, def.pos);" => "ops.push(Op::Div, def.pos);" expect bin_mod_arm
//@ end

//@ extract src/build/opcode/translate.rs :: impl AST :: fn translate_expr :: arm "BinaryExprType::Equal =>"
//@   wrap <<<
fn bin_equal_arm(def: BinaryOpDef, ops: &mut OpsMap, root: &VPath)
$BODY
//@   >>>
//@   subst all "Self::translate_expr" => "translate_expr"
//@   sig <<<
        ensures binary_emits(*old(ops), *final(ops), *def.left, *def.right, seq![Op::Equal])
//@   >>>
//@   mutant bin_equal_arm_swapped "Self::translate_expr(*def.right, ops, root); Self::translate_expr(*def.left, ops, root);" => "Self::translate_expr(*def.left, ops, root); Self::translate_expr(*def.right, ops, root);" expect bin_equal_arm
//@   mutant bin_equal_arm_wrong_op "ops.push(Op::Equal, def.pos);" => "ops.push(Op::Equal, def.pos.clone()); ops.push(Op::Not, def.pos);" expect bin_equal_arm
//@ end

//@ extract src/build/opcode/translate.rs :: impl AST :: fn translate_expr :: arm "BinaryExprType::GT =>"
//@   wrap <<<
fn bin_gt_arm(def: BinaryOpDef, ops: &mut OpsMap, root: &VPath)
$BODY
//@   >>>
//@   subst all "Self::translate_expr" => "translate_expr"
//@   sig <<<
        ensures binary_emits(*old(ops), *final(ops), *def.left, *def.right, seq![Op::Gt])
//@   >>>
//@   mutant bin_gt_arm_swapped "Self::translate_expr(*def.right, ops, root); Self::translate_expr(*def.left, ops, root);" => "Self::translate_expr(*def.left, ops, root); Self::translate_expr(*def.right, ops, root);" expect bin_gt_arm
//@   mutant bin_gt_arm_wrong_op "ops.push(Op::Gt, def.pos);" => "ops.push(Op::GtEq, def.pos);" expect bin_gt_arm
//@ end

//@ extract src/build/opcode/translate.rs :: impl AST :: fn translate_expr :: arm "BinaryExprType::LT =>"
//@   wrap <<<
fn bin_lt_arm(def: BinaryOpDef, ops: &mut OpsMap, root: &VPath)
$BODY
//@   >>>
//@   subst all "Self::translate_expr" => "translate_expr"
//@   sig <<<
        ensures binary_emits(*old(ops), *final(ops), *def.left, *def.right, seq![Op::Lt])
//@   >>>
//@   mutant bin_lt_arm_swapped "Self::translate_expr(*def.right, ops, root); Self::translate_expr(*def.left, ops, root);" => "Self::translate_expr(*def.left, ops, root); Self::translate_expr(*def.right, ops, root);" expect bin_lt_arm
//@   mutant bin_lt_arm_wrong_op "ops.push(Op::Lt, def.pos);" => "ops.push(Op::Gt, def.pos);" expect bin_lt_arm
//@ end

//@ extract src/build/opcode/translate.rs :: impl AST :: fn translate_expr :: arm "BinaryExprType::GTEqual =>"
//@   wrap <<<
fn bin_gteq_arm(def: BinaryOpDef, ops: &mut OpsMap, root: &VPath)
$BODY
//@   >>>
//@   subst all "Self::translate_expr" => "translate_expr"
//@   sig <<<
        ensures binary_emits(*old(ops), *final(ops), *def.left, *def.right, seq![Op::GtEq])
//@   >>>
//@   mutant bin_gteq_arm_swapped "Self::translate_expr(*def.right, ops, root); Self::translate_expr(*def.left, ops, root);" => "Self::translate_expr(*def.left, ops, root); Self::translate_expr(*def.right, ops, root);" expect bin_gteq_arm
//@   mutant bin_gteq_arm_wrong_op "ops.push(Op::GtEq, def.pos);" => "ops.push(Op::Gt, def.pos);" expect bin_gteq_arm
//@ end

//@ extract src/build/opcode/translate.rs :: impl AST :: fn translate_expr :: arm "BinaryExprType::LTEqual =>"
//@   wrap <<<
fn bin_lteq_arm(def: BinaryOpDef, ops: &mut OpsMap, root: &VPath)
$BODY
//@   >>>
//@   subst all "Self::translate_expr" => "translate_expr"
//@   sig <<<
        ensures binary_emits(*old(ops), *final(ops), *def.left, *def.right, seq![Op::LtEq])
//@   >>>
//@   mutant bin_lteq_arm_swapped "Self::translate_expr(*def.right, ops, root); Self::translate_expr(*def.left, ops, root);" => "Self::translate_expr(*def.left, ops, root); Self::translate_expr(*def.right, ops, root);" expect bin_lteq_arm
//@   mutant bin_lteq_arm_wrong_op "ops.push(Op::LtEq, def.pos);" => "ops.push(Op::GtEq, def.pos);" expect bin_lteq_arm
//@ end

//@ extract src/build/opcode/translate.rs :: impl AST :: fn translate_expr :: arm "BinaryExprType::NotEqual =>"
//@   wrap <<<
fn bin_noteq_arm(def: BinaryOpDef, ops: &mut OpsMap, root: &VPath)
$BODY
//@   >>>
//@   subst all "Self::translate_expr" => "translate_expr"
//@   sig <<<
        ensures binary_emits(*old(ops), *final(ops), *def.left, *def.right, seq![Op::Equal, Op::Not])
//@   >>>
//@   mutant bin_noteq_arm_swapped "Self::translate_expr(*def.right, ops, root); Self::translate_expr(*def.left, ops, root);" => "Self::translate_expr(*def.left, ops, root); Self::translate_expr(*def.right, ops, root);" expect bin_noteq_arm
//@   mutant bin_noteq_arm_wrong_op "ops.push(Op::Not, def.pos);" => "ops.push(Op::Noop, def.pos);" expect bin_noteq_arm
//@ end

//@ extract src/build/opcode/translate.rs :: impl AST :: fn translate_expr :: arm "BinaryExprType::REMatch =>"
//@   wrap <<<
fn bin_rematch_arm(def: BinaryOpDef, ops: &mut OpsMap, root: &VPath)
$BODY
//@   >>>
//@   subst all "Self::translate_expr" => "translate_expr"
//@   sig <<<
        ensures binary_emits(*old(ops), *final(ops), *def.left, *def.right, seq![Op::Runtime(Hook::Regex)])
//@   >>>
//@   mutant bin_rematch_arm_swapped "Self::translate_expr(*def.right, ops, root); Self::translate_expr(*def.left, ops, root);" => "Self::translate_expr(*def.left, ops, root); Self::translate_expr(*def.right, ops, root);" expect bin_rematch_arm
//@   mutant bin_rematch_arm_wrong_op "ops.push(Op::Runtime(Hook::Regex), def.pos);" => "ops.push(Op::Equal, def.pos);" expect bin_rematch_arm
//@ end

//@ extract src/build/opcode/translate.rs :: impl AST :: fn translate_expr :: arm "BinaryExprType::NotREMatch =>"
//@   wrap <<<
fn bin_notrematch_arm(def: BinaryOpDef, ops: &mut OpsMap, root: &VPath)
$BODY
//@   >>>
//@   subst all "Self::translate_expr" => "translate_expr"
//@   sig <<<
        ensures binary_emits(*old(ops), *final(ops), *def.left, *def.right, seq![Op::Runtime(Hook::Regex), Op::Not])
//@   >>>
//@   mutant bin_notrematch_arm_swapped "Self::translate_expr(*def.right, ops, root); Self::translate_expr(*def.left, ops, root);" => "Self::translate_expr(*def.left, ops, root); Self::translate_expr(*def.right, ops, root);" expect bin_notrematch_arm
//@   mutant bin_notrematch_arm_wrong_op "ops.push(Op::Not, def.pos);" => "ops.push(Op::Noop, def.pos);" expect bin_notrematch_arm
//@ end

//@ extract src/build/opcode/translate.rs :: impl AST :: fn translate_expr :: arm "BinaryExprType::IS =>"
//@   wrap <<<
fn bin_is_arm(def: BinaryOpDef, ops: &mut OpsMap, root: &VPath)
$BODY
//@   >>>
//@   subst all "Self::translate_expr" => "translate_expr"
//@   sig <<<
        ensures binary_emits(*old(ops), *final(ops), *def.left, *def.right, seq![Op::Typ, Op::Equal])
//@   >>>
//@   mutant bin_is_arm_swapped "Self::translate_expr(*def.right, ops, root); Self::translate_expr(*def.left, ops, root);" => "Self::translate_expr(*def.left, ops, root); Self::translate_expr(*def.right, ops, root);" expect bin_is_arm
//@   mutant bin_is_arm_wrong_op "ops.push(Op::Typ, def.pos.clone()); ops.push(Op::Equal, def.pos);" => "ops.push(Op::Equal, def.pos.clone()); ops.push(Op::Typ, def.pos);" expect bin_is_arm
//@ end
//@ extract src/build/opcode/translate.rs :: impl AST :: fn translate_expr :: arm "BinaryExprType::AND =>"
//@   wrap <<<
fn bin_and_arm(def: BinaryOpDef, ops: &mut OpsMap, root: &VPath)
$BODY
//@   >>>
//@   subst all "Self::translate_expr" => "translate_expr"
//@   sig <<<
        ensures short_circuit_emits(*old(ops), *final(ops), *def.left, *def.right, true)
//@   >>>
//@   mutant and_offset_plus_one "let jptr = (ops.len() - 1 - idx) as i32;" => "let jptr = (ops.len() - idx) as i32;" expect bin_and_arm
//@   mutant and_offset_absolute "let jptr = (ops.len() - 1 - idx) as i32;" => "let jptr = (ops.len() - 1) as i32;" expect bin_and_arm
//@   mutant and_emits_or "ops.replace(idx, Op::And(jptr));" => "ops.replace(idx, Op::Or(jptr));" expect bin_and_arm
//@   mutant and_right_first "Self::translate_expr(*def.left, ops, root); ops.push(Op::Noop, def.pos); let idx = ops.len() - 1; Self::translate_expr(*def.right, ops, root);" => "Self::translate_expr(*def.right, ops, root); ops.push(Op::Noop, def.pos); let idx = ops.len() - 1; Self::translate_expr(*def.left, ops, root);" expect bin_and_arm
//@ end

//@ extract src/build/opcode/translate.rs :: impl AST :: fn translate_expr :: arm "BinaryExprType::OR =>"
//@   wrap <<<
fn bin_or_arm(def: BinaryOpDef, ops: &mut OpsMap, root: &VPath)
$BODY
//@   >>>
//@   subst all "Self::translate_expr" => "translate_expr"
//@   sig <<<
        ensures short_circuit_emits(*old(ops), *final(ops), *def.left, *def.right, false)
//@   >>>
//@   mutant or_offset_minus_one "let jptr = (ops.len() - 1 - idx) as i32;" => "let jptr = (ops.len() - 1 - idx - 1) as i32;" expect bin_or_arm
//@   mutant or_idx_before_push "ops.push(Op::Noop, def.pos); let idx = ops.len() - 1;" => "let idx = ops.len() - 1; ops.push(Op::Noop, def.pos);" expect bin_or_arm
//@   mutant or_emits_and "ops.replace(idx, Op::Or(jptr));" => "ops.replace(idx, Op::And(jptr));" expect bin_or_arm
//@ end

// ---------- not / grouping / cast / fail / range / convert / map-filter-reduce ----------
//@ extract src/build/opcode/translate.rs :: impl AST :: fn translate_expr :: arm "Expression::Not(def) =>"
//@   wrap <<<
fn not_arm(def: NotDef, ops: &mut OpsMap, root: &VPath)
$BODY
//@   >>>
//@   subst all "Self::translate_expr" => "translate_expr"
//@   sig <<<
        ensures unary_emits(*old(ops), *final(ops), *def.expr, seq![Op::Not])
//@   >>>
//@   mutant not_dropped "ops.push(Op::Not, def.pos);" => "ops.push(Op::Noop, def.pos);" expect not_arm
//@   mutant not_before_operand "Self::translate_expr(*def.expr, ops, root); ops.push(Op::Not, def.pos);" => "ops.push(Op::Not, def.pos.clone()); Self::translate_expr(*def.expr, ops, root);" expect not_arm
//@ end

// `( e )` is exactly the code of e
//@ extract src/build/opcode/translate.rs :: impl AST :: fn translate_expr :: arm "Expression::Grouped(expr, _) =>"
//@   wrap <<<
fn grouped_arm(expr: Box<Expression>, ops: &mut OpsMap, root: &VPath)
$BODY
//@   >>>
//@   subst all "Self::translate_expr" => "translate_expr"
//@   sig <<<
        ensures unary_emits(*old(ops), *final(ops), *expr, Seq::<Op>::empty())
//@   >>>
//@   mutant grouped_extra_op "Self::translate_expr(*expr, ops, root);" => "let p = expr.pos().clone(); Self::translate_expr(*expr, ops, root); ops.push(Op::Pop, p);" expect grouped_arm
//@   mutant grouped_twice "Self::translate_expr(*expr, ops, root);" => "Self::translate_expr(*expr.clone(), ops, root); Self::translate_expr(*expr, ops, root);" expect grouped_arm
//@ end

//@ extract src/build/opcode/translate.rs :: impl AST :: fn translate_expr :: arm "Expression::Cast(cast_def) =>"
//@   wrap <<<
fn cast_arm(cast_def: CastDef, ops: &mut OpsMap, root: &VPath)
$BODY
//@   >>>
//@   subst all "Self::translate_expr" => "translate_expr"
//@   sig <<<
        ensures unary_emits(*old(ops), *final(ops), *cast_def.target, seq![Op::Cast(cast_def.cast_type)])
//@   >>>
//@   mutant cast_wrong_type "ops.push(Op::Cast(cast_def.cast_type), cast_def.pos);" => "ops.push(Op::Cast(CastType::Str), cast_def.pos);" expect cast_arm
//@   mutant cast_before_target "Self::translate_expr(*cast_def.target, ops, root); ops.push(Op::Cast(cast_def.cast_type), cast_def.pos);" => "ops.push(Op::Cast(cast_def.cast_type), cast_def.pos); Self::translate_expr(*cast_def.target, ops, root);" expect cast_arm
//@ end

// `fail msg`: the message, then the prefix string ON TOP (so that `Add` yields prefix + message: left operand on
// top), `Add`, `Bang` (raises the string on top of the stack).
pub open spec fn fail_emits(a: OpsMap, b: OpsMap, msg: Expression) -> bool {
    let n0 = a.ops@.len() as int;
    let n = b.ops@.len() as int;
    &&& appended(a, b)
    &&& code_at(msg, b.ops@, n0, n - 3)
    &&& (b.ops@[n - 3] matches Op::Val(Primitive::Str(s)) && s@ == "UserDefined: "@)
    &&& b.ops@[n - 2] == Op::Add
    &&& b.ops@[n - 1] == Op::Bang
}
//@ extract src/build/opcode/translate.rs :: impl AST :: fn translate_expr :: arm "Expression::Fail(def) =>"
//@   wrap <<<
fn fail_arm(def: FailDef, ops: &mut OpsMap, root: &VPath)
$BODY
//@   >>>
//@   subst all "Self::translate_expr" => "translate_expr"
//@   subst all ".into()" => ".vinto()"
//@   sig <<<
        ensures fail_emits(*old(ops), *final(ops), *def.message)
//@   >>>
//@   mutant fail_prefix_below_message "Self::translate_expr(*def.message, ops, root); ops.push(Op::Val(Primitive::Str(\"UserDefined: \".into())), msg_pos);" => "ops.push(Op::Val(Primitive::Str(\"UserDefined: \".into())), msg_pos); Self::translate_expr(*def.message, ops, root);" expect fail_arm
//@   mutant fail_no_bang "ops.push(Op::Bang, def.pos);" => "ops.push(Op::Pop, def.pos);" expect fail_arm
//@   mutant fail_no_add "ops.push(Op::Add, def.pos.clone());" => "" expect fail_arm
//@ end

// `start:step:end`: the range hook (runtime.rs `range`, unit rt_range) pops start, then step, then end; a missing
// step is the Empty value.  So: code(end), code(step) | Val(Empty), code(start), Runtime(Range).
pub open spec fn range_emits(a: OpsMap, b: OpsMap, def: RangeDef) -> bool {
    let n0 = a.ops@.len() as int;
    let n = b.ops@.len() as int;
    &&& appended(a, b)
    &&& exists|m1: int, m2: int, m3: int| #![trigger frag(*def.end, n0, m1), frag(*def.start, m2, m3)]
            m3 == n - 1
            && code_at(*def.end, b.ops@, n0, m1)
            && (match def.step {
                    Some(st) => code_at(*st, b.ops@, m1, m2),
                    None => m2 == m1 + 1 && b.ops@[m1] == Op::Val(Primitive::Empty),
               })
            && code_at(*def.start, b.ops@, m2, m3)
    &&& b.ops@[n - 1] == Op::Runtime(Hook::Range)
}
//@ extract src/build/opcode/translate.rs :: impl AST :: fn translate_expr :: arm "Expression::Range(def) =>"
//@   wrap <<<
fn range_arm(def: RangeDef, ops: &mut OpsMap, root: &VPath)
$BODY
//@   >>>
//@   subst all "Self::translate_expr" => "translate_expr"
//@   sig <<<
        ensures range_emits(*old(ops), *final(ops), def)
//@   >>>
//@   mutant range_start_end_swapped "Self::translate_expr(*def.end, ops, root); if" => "Self::translate_expr(*def.start, ops, root); if" expect range_arm
//@   mutant range_step_last "Self::translate_expr(*def.start, ops, root); ops.push(Op::Runtime(Hook::Range), def.pos);" => "ops.push(Op::Runtime(Hook::Range), def.pos); Self::translate_expr(*def.start, ops, root);" expect range_arm
//@   mutant range_default_step_missing "ops.push(Op::Val(Primitive::Empty), def.pos.clone());" => "" expect range_arm
//@   mutant range_wrong_hook "Op::Runtime(Hook::Range)" => "Op::Runtime(Hook::Map)" expect range_arm
//@ end

// `convert NAME expr`: the converter's name, the target, the hook
//@ extract src/build/opcode/translate.rs :: impl AST :: fn translate_expr :: arm "Expression::Convert(def) =>"
//@   wrap <<<
fn convert_arm(def: ConvertDef, ops: &mut OpsMap, root: &VPath)
$BODY
//@   >>>
//@   subst all "Self::translate_expr" => "translate_expr"
//@   sig <<<
        ensures bracketed_emits(*old(ops), *final(ops), Op::Val(Primitive::Str(def.converter.fragment)), *def.target, Op::Runtime(Hook::Convert))
//@   >>>
//@   mutant convert_wrong_hook "Op::Runtime(Hook::Convert)" => "Op::Runtime(Hook::Out)" expect convert_arm
//@   mutant convert_target_dropped "Self::translate_expr(*def.target, ops, root);" => "" expect convert_arm
//@ end

// map / filter / reduce: function, [accumulator,] target, hook (runtime.rs pops target, [acc,] func)
pub open spec fn funcop2_emits(a: OpsMap, b: OpsMap, f: Expression, target: Expression, hook: Hook) -> bool {
    let n0 = a.ops@.len() as int;
    let n = b.ops@.len() as int;
    &&& appended(a, b)
    &&& exists|m: int| #[trigger] frag(f, n0, m) && code_at(f, b.ops@, n0, m) && code_at(target, b.ops@, m, n - 1)
    &&& b.ops@[n - 1] == Op::Runtime(hook)
}
pub open spec fn funcop3_emits(a: OpsMap, b: OpsMap, f: Expression, acc: Expression, target: Expression, hook: Hook) -> bool {
    let n0 = a.ops@.len() as int;
    let n = b.ops@.len() as int;
    &&& appended(a, b)
    &&& exists|m1: int, m2: int, m3: int| #![trigger frag(f, n0, m1), frag(target, m2, m3)]
            m3 == n - 1 && code_at(f, b.ops@, n0, m1) && code_at(acc, b.ops@, m1, m2) && code_at(target, b.ops@, m2, m3)
    &&& b.ops@[n - 1] == Op::Runtime(hook)
}
//@ extract src/build/opcode/translate.rs :: impl AST :: fn translate_expr :: arm "FuncOpDef::Map(def) =>"
//@   wrap <<<
fn map_arm(def: MapFilterOpDef, ops: &mut OpsMap, root: &VPath)
$BODY
//@   >>>
//@   subst all "Self::translate_expr" => "translate_expr"
//@   sig <<<
        ensures funcop2_emits(*old(ops), *final(ops), *def.func, *def.target, Hook::Map)
//@   >>>
//@   mutant map_is_filter "Op::Runtime(Hook::Map)" => "Op::Runtime(Hook::Filter)" expect map_arm
//@   mutant map_func_dropped "Self::translate_expr(*def.func, ops, root);" => "" expect map_arm
//@ end
//@ extract src/build/opcode/translate.rs :: impl AST :: fn translate_expr :: arm "FuncOpDef::Filter(def) =>"
//@   wrap <<<
fn filter_arm(def: MapFilterOpDef, ops: &mut OpsMap, root: &VPath)
$BODY
//@   >>>
//@   subst all "Self::translate_expr" => "translate_expr"
//@   sig <<<
        ensures funcop2_emits(*old(ops), *final(ops), *def.func, *def.target, Hook::Filter)
//@   >>>
//@   mutant filter_is_map "Op::Runtime(Hook::Filter)" => "Op::Runtime(Hook::Map)" expect filter_arm
//@ end
//@ extract src/build/opcode/translate.rs :: impl AST :: fn translate_expr :: arm "FuncOpDef::Reduce(def) =>"
//@   wrap <<<
fn reduce_arm(def: ReduceOpDef, ops: &mut OpsMap, root: &VPath)
$BODY
//@   >>>
//@   subst all "Self::translate_expr" => "translate_expr"
//@   sig <<<
        ensures funcop3_emits(*old(ops), *final(ops), *def.func, *def.acc, *def.target, Hook::Reduce)
//@   >>>
//@   mutant reduce_acc_target_swapped "Self::translate_expr(*def.acc, ops, root); Self::translate_expr(*def.target, ops, root);" => "Self::translate_expr(*def.target, ops, root); Self::translate_expr(*def.acc, ops, root);" expect reduce_arm
//@   mutant reduce_wrong_hook "Op::Runtime(Hook::Reduce)" => "Op::Runtime(Hook::Map)" expect reduce_arm
//@ end

// ---------- func ----------
// `func (a, b) => body`: an empty list, each parameter name appended to it (`Sym`, `Element`), then `Func(j)` at index i
// (vm.rs `op_func`: pops the name list, remembers i as the function's entry and jumps by j), the body's code,
// `Return`.  The jump must skip the body: i + j is the `Return`, execution continues behind it at the end.
pub open spec fn param_op(argdefs: Seq<(PositionedItem<Rc<str>>, Option<Expression>)>, r: int) -> Op {
    if r % 2 == 0 { Op::Sym(argdefs[r / 2].0.val) } else { Op::Element }
}
pub open spec fn func_emits(a: OpsMap, b: OpsMap, def: FuncDef) -> bool {
    let n0 = a.ops@.len() as int;
    let n = b.ops@.len() as int;
    let i = n0 + 1 + 2 * def.argdefs@.len();
    &&& appended(a, b)
    &&& b.ops@[n0] == Op::InitList
    &&& forall|q: int| n0 + 1 <= q < i ==> (#[trigger] b.ops@[q]) == param_op(def.argdefs@, q - (n0 + 1))
    &&& (b.ops@[i] matches Op::Func(j) && (small(b.ops@) ==> continues_at(i, j, n)))
    &&& code_at(*def.fields, b.ops@, i + 1, n - 1)
    &&& b.ops@[n - 1] == Op::Return
}
//@ extract src/build/opcode/translate.rs :: impl AST :: fn translate_expr :: arm "Expression::Func(def) =>"
//@   wrap <<<
fn func_arm(def: FuncDef, ops: &mut OpsMap, root: &VPath)
$BODY
//@   >>>
//@   subst all "Self::translate_expr" => "translate_expr"
//@   sig <<<
        ensures func_emits(*old(ops), *final(ops), def)
//@   >>>
//@   loop 1 iter it
//@   loop 1 <<<
                    invariant
                        it.seq() == def.argdefs@,
                        extends(*old(ops), *ops),
                        ops.ops@.len() == old(ops).ops@.len() + 1 + 2 * it.index@,
                        ops.ops@[old(ops).ops@.len() as int] == Op::InitList,
                        forall|q: int| old(ops).ops@.len() + 1 <= q < ops.ops@.len() ==>
                            (#[trigger] ops.ops@[q]) == param_op(def.argdefs@, q - (old(ops).ops@.len() + 1)),
//@   >>>
//@   mutant func_offset_plus_one "let jptr = ops.len() - 1 - idx;" => "let jptr = ops.len() - idx;" expect func_arm
//@   mutant func_offset_before_return "ops.push(Op::Return, def.pos); let jptr = ops.len() - 1 - idx;" => "let jptr = ops.len() - 1 - idx; ops.push(Op::Return, def.pos);" expect func_arm
//@   mutant func_no_return "ops.push(Op::Return, def.pos);" => "ops.push(Op::Noop, def.pos);" expect func_arm
//@   mutant func_param_order "ops.push(Op::Sym(b.val), b.pos.clone()); ops.push(Op::Element, b.pos);" => "ops.push(Op::Element, b.pos.clone()); ops.push(Op::Sym(b.val), b.pos);" expect func_arm
//@   mutant func_patches_wrong_slot "ops.replace(idx, Op::Func(jptr as i32));" => "ops.replace(idx - 1, Op::Func(jptr as i32));" expect func_arm
//@ end

// ---------- select ----------
// `select (val, default) => { k1 = e1, .. }` (reference: the field named by val, else the default, else a failure).
// code(val); then per case c, starting at st_c:  Sym(k_c) | SelectJump(j) | code(e_c) | Jump(j')
//   - vm_ctrl `op_select_jump`: on a match both the name and the searched value are popped and the case body runs;
//     otherwise the searched value stays and the jump is taken: it must continue at the NEXT case's `Sym`
//     (st_{c+1}), or behind the last case at the `Pop` that drops the searched value before the default;
//   - the `Jump` behind the body must continue behind the whole select (the end of the fragment);
// then `Pop`, then code(default), or - no default - a string and `Bang`.
// `js[c]` is the index of case c's exit jump (the translator's own `jumps` list).
pub open spec fn case_start(v: int, js: Seq<usize>, c: int) -> int { if c <= 0 { v } else { js[c - 1] + 1 } }
pub open spec fn increasing(js: Seq<usize>) -> bool {
    forall|c1: int, c2: int| 0 <= c1 < c2 < js.len() ==> js[c1] < js[c2]
}
// (always true: only the handle by which the prover picks a case - a trigger on `js[c]` would loop through `case_start`)
pub open spec fn case_no(c: int) -> bool { true }
// case c occupies s[st ..= e]; the first `patched` exit jumps have been filled in, the others are still `Noop`
pub open spec fn case_ok(cases: Seq<(Token, Option<Expression>, Expression)>, s: Seq<Op>, st: int, e: int, c: int, patched: int) -> bool {
    &&& 0 <= st && st + 2 < e < s.len()
    &&& s[st] == Op::Sym(cases[c].0.fragment)
    &&& (s[st + 1] matches Op::SelectJump(j) && (small(s) ==> continues_at(st + 1, j, e + 1)))
    &&& code_at(cases[c].2, s, st + 2, e)
    &&& if c < patched { s[e] matches Op::Jump(j) && (small(s) ==> continues_at(e, j, s.len() as int)) } else { s[e] == Op::Noop }
}
// after `done` cases (first loop)
pub open spec fn select_cases(def: SelectDef, s: Seq<Op>, n0: int, v: int, js: Seq<usize>, done: int) -> bool {
    let cases = def.tuple@;
    &&& js.len() == done && 0 <= done <= cases.len()
    &&& code_at(*def.val, s, n0, v)
    &&& increasing(js)
    &&& forall|c: int| 0 <= c < done && #[trigger] case_no(c) ==> case_ok(cases, s, case_start(v, js, c), js[c] as int, c, 0)
    &&& s.len() == case_start(v, js, done)
}
// the whole select, with the first `patched` exit jumps filled in
pub open spec fn select_layout(def: SelectDef, s: Seq<Op>, n0: int, v: int, js: Seq<usize>, patched: int) -> bool {
    let cases = def.tuple@;
    let p = case_start(v, js, cases.len() as int);
    let n = s.len() as int;
    &&& js.len() == cases.len() && 0 <= patched <= cases.len()
    &&& code_at(*def.val, s, n0, v)
    &&& increasing(js)
    &&& forall|c: int| 0 <= c < cases.len() && #[trigger] case_no(c) ==> case_ok(cases, s, case_start(v, js, c), js[c] as int, c, patched)
    &&& v <= p < n && s[p] == Op::Pop
    &&& match def.default {
            Some(d) => code_at(*d, s, p + 1, n),
            None => n == p + 3 && (s[p + 1] matches Op::Val(Primitive::Str(_))) && s[p + 2] == Op::Bang,
        }
}
pub open spec fn select_emits(a: OpsMap, b: OpsMap, def: SelectDef) -> bool {
    &&& appended(a, b)
    &&& exists|v: int, js: Seq<usize>| #[trigger] select_layout(def, b.ops@, a.ops@.len() as int, v, js, def.tuple@.len() as int)
}
//@ extract src/build/opcode/translate.rs :: impl AST :: fn translate_expr :: arm "Expression::Select(def) =>"
//@   wrap <<<
fn select_arm(def: SelectDef, ops: &mut OpsMap, root: &VPath)
$BODY
//@   >>>
//@   subst all "Self::translate_expr" => "translate_expr"
//@   sig <<<
        ensures select_emits(*old(ops), *final(ops), def)
//@   >>>
//@   loop 1 iter it
//@   loop 1 <<<
                    invariant
                        it.seq() == def.tuple@,
                        appended(*old(ops), *ops),
                        exists|v: int| #[trigger] frag(*def.val, old(ops).ops@.len() as int, v)
                            && select_cases(def, ops.ops@, old(ops).ops@.len() as int, v, jumps@, it.index@),
//@   >>>
//@   loop 2 iter it2
//@   loop 2 <<<
                    invariant
                        it2.seq() == jumps@,
                        appended(*old(ops), *ops),
                        end + 1 == ops.ops@.len(),
                        exists|v: int| #[trigger] frag(*def.val, old(ops).ops@.len() as int, v)
                            && select_layout(def, ops.ops@, old(ops).ops@.len() as int, v, jumps@, it2.index@),
//@   >>>
//@ end

// ---------- statements ----------
// `let name [:: constraint] = value;` (reference: "Any collisions in binding names inside a file are treated as compile
// errors. Bindings are immutable and once bound they can't be modified."):  Sym(name), code(value),
// [code(constraint), CheckConstraint (vm.rs: pops the constraint, leaves the value),] and the STRICT `Bind`
// (vm.rs `op_bind(true)`: an existing binding is an error), never `BindOver`.
pub open spec fn let_emits(a: OpsMap, b: OpsMap, def: LetDef) -> bool {
    let n0 = a.ops@.len() as int;
    let n = b.ops@.len() as int;
    &&& appended(a, b)
    &&& b.ops@[n0] == Op::Sym(def.name.fragment)
    &&& exists|a1: int, m: int| #[trigger] frag(def.value, a1, m) && a1 == n0 + 1 && code_at(def.value, b.ops@, a1, m)
            && (match def.constraint {
                    Some(c) => code_at(c, b.ops@, m, n - 2) && b.ops@[n - 2] == Op::CheckConstraint,
                    None => m == n - 1,
               })
    &&& b.ops@[n - 1] == Op::Bind
}
//@ extract src/build/opcode/translate.rs :: impl AST :: fn translate_stmt :: arm "Statement::Let(def) =>"
//@   wrap <<<
fn stmt_let_arm(def: Box<LetDef>, ops: &mut OpsMap, root: &VPath)
$BODY
//@   >>>
//@   subst all "Self::translate_expr" => "translate_expr"
//@   sig <<<
        ensures let_emits(*old(ops), *final(ops), *def)
//@   >>>
//@   mutant let_bind_over "ops.push(Op::Bind, def.pos);" => "ops.push(Op::BindOver, def.pos);" expect stmt_let_arm
//@   mutant let_value_before_name "ops.push(Op::Sym(binding), def.name.pos); Self::translate_expr(def.value, ops, root);" => "Self::translate_expr(def.value, ops, root); ops.push(Op::Sym(binding), def.name.pos);" expect stmt_let_arm
//@   mutant let_constraint_unchecked "ops.push(Op::CheckConstraint, def.pos.clone());" => "" expect stmt_let_arm
//@   mutant let_check_after_bind "ops.push(Op::CheckConstraint, def.pos.clone()); } ops.push(Op::Bind, def.pos);" => "ops.push(Op::Bind, def.pos.clone()); ops.push(Op::CheckConstraint, def.pos); return; } ops.push(Op::Bind, def.pos);" expect stmt_let_arm
//@ end

// `constraint name = expr;`: the name is first bound STRICTLY (so a collision with an existing binding is an error,
// as for `let`) to an empty constraint, then the value is evaluated (it may refer to the name) and only this
// statement's own pre-binding is overwritten with `BindOver`.
pub open spec fn constraint_stmt_emits(a: OpsMap, b: OpsMap, def: ConstraintBindingDef) -> bool {
    let n0 = a.ops@.len() as int;
    let n = b.ops@.len() as int;
    &&& appended(a, b)
    &&& b.ops@[n0] == Op::Sym(def.name.fragment)
    &&& (b.ops@[n0 + 1] matches Op::BuildConstraint(arms) && arms@.len() == 0)
    &&& b.ops@[n0 + 2] == Op::Bind
    &&& b.ops@[n0 + 3] == Op::Sym(def.name.fragment)
    &&& code_at(def.value, b.ops@, n0 + 4, n - 1)
    &&& b.ops@[n - 1] == Op::BindOver
}
//@ extract src/build/opcode/translate.rs :: impl AST :: fn translate_stmt :: arm "Statement::Constraint(def) =>"
//@   wrap <<<
fn stmt_constraint_arm(def: ConstraintBindingDef, ops: &mut OpsMap, root: &VPath)
$BODY
//@   >>>
//@   subst all "Self::translate_expr" => "translate_expr"
//@   sig <<<
        ensures constraint_stmt_emits(*old(ops), *final(ops), def)
//@   >>>
//@   mutant constraint_prebind_over "ops.push(Op::Bind, def.pos.clone());" => "ops.push(Op::BindOver, def.pos.clone());" expect stmt_constraint_arm
//@   mutant constraint_rebind_strict "ops.push(Op::BindOver, def.pos);" => "ops.push(Op::Bind, def.pos);" expect stmt_constraint_arm
//@ end

// expression statement: the value is computed and dropped
//@ extract src/build/opcode/translate.rs :: impl AST :: fn translate_stmt :: arm "Statement::Expression(expr) =>"
//@   wrap <<<
fn stmt_expr_arm(expr: Expression, ops: &mut OpsMap, root: &VPath)
$BODY
//@   >>>
//@   subst all "Self::translate_expr" => "translate_expr"
//@   sig <<<
        ensures unary_emits(*old(ops), *final(ops), expr, seq![Op::Pop])
//@   >>>
//@   mutant stmt_expr_not_popped "ops.push(Op::Pop, expr_pos);" => "ops.push(Op::Noop, expr_pos);" expect stmt_expr_arm
//@ end
//@ extract src/build/opcode/translate.rs :: impl AST :: fn translate_stmt :: arm "Statement::Assert(pos, expr) =>"
//@   wrap <<<
fn stmt_assert_arm(pos: Position, expr: Expression, ops: &mut OpsMap, root: &VPath)
$BODY
//@   >>>
//@   subst all "Self::translate_expr" => "translate_expr"
//@   sig <<<
        ensures unary_emits(*old(ops), *final(ops), expr, seq![Op::Runtime(Hook::Assert)])
//@   >>>
//@   mutant stmt_assert_wrong_hook "Op::Runtime(Hook::Assert)" => "Op::Runtime(Hook::Out)" expect stmt_assert_arm
//@ end
//@ extract src/build/opcode/translate.rs :: impl AST :: fn translate_stmt :: arm "Statement::Output(pos, tok, expr) =>"
//@   wrap <<<
fn stmt_out_arm(pos: Position, tok: Token, expr: Expression, ops: &mut OpsMap, root: &VPath)
$BODY
//@   >>>
//@   subst all "Self::translate_expr" => "translate_expr"
//@   sig <<<
        ensures bracketed_emits(*old(ops), *final(ops), Op::Val(Primitive::Str(tok.fragment)), expr, Op::Runtime(Hook::Out))
//@   >>>
//@   mutant stmt_out_wrong_hook "Op::Runtime(Hook::Out)" => "Op::Runtime(Hook::Convert)" expect stmt_out_arm
//@ end

} // verus!

fn main() {}
