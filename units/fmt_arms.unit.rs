//@ unit fmt_arms
//@ serves C04
//@ must_verify SimpleTemplate::parse ExpressionTemplate::parse translate_template_part format_list_arm format_single_arm OpsMap::push OpsMap::replace OpsMap::len
//@ include prelude/head.rs
use std::rc::Rc;

verus! {
//@ include prelude/core.rs
//@ opaque Position Expression VPath VBoxError VShapeMap VLinks CastType Hook ConstraintArmType
//@ clone_spec Position

//@ extract src/build/opcode/mod.rs :: enum Primitive
//@   rule R0
//@ end
//@ extract src/build/opcode/mod.rs :: enum Op
//@   rule R0
//@ end
//@ extract src/ast/mod.rs :: enum TemplatePart
//@   rule R0
//@ end
//@ extract src/build/opcode/translate.rs :: struct OpsMap
//@   rule R0
//@   subst "shape_map: BTreeMap<Rc<str>, Shape>" => "shape_map: VShapeMap"
//@   subst "links: BTreeMap<Rc<str>, Position>" => "links: VLinks"
//@ end
//@ extract src/build/opcode/translate.rs :: impl OpsMap :: fn push
//@   sig <<<
        ensures final(self).ops@ == old(self).ops@.push(op), final(self).pos@ == old(self).pos@.push(pos)
//@   >>>
//@ end

//@ extract src/build/opcode/translate.rs :: impl OpsMap :: fn len
//@   ret r
//@   sig <<<
        ensures r == self.ops@.len()
//@   >>>
//@ end
//@ extract src/build/opcode/translate.rs :: impl OpsMap :: fn replace
//@   sig <<<
        requires idx < old(self).ops@.len()
        ensures final(self).ops@ == old(self).ops@.update(idx as int, op), final(self).pos == old(self).pos
//@   >>>
//@ end

// ---------- std models (R9') ----------
// `s.chars()` as an explicit iterator value (it is handed to consume_expr by `&mut`)
pub struct VChars { pub rest: Vec<char> }
#[verifier::external_body]
pub fn verif_chars(s: &str) -> (r: VChars)
    ensures r.rest@ == s@
{ unimplemented!() }
impl VChars {
    #[verifier::external_body]
    pub fn next(&mut self) -> (r: Option<char>)
        ensures
            old(self).rest@.len() > 0 ==> r == Some(old(self).rest@[0]) && final(self).rest@ == old(self).rest@.drop_first(),
            old(self).rest@.len() == 0 ==> r is None && final(self).rest@ == old(self).rest@,
    { unimplemented!() }
}
// `vec.drain(0..)`: an iterator that yields the elements front to back.
pub struct VDrain<T> { pub rest: Vec<T> }
#[verifier::external_body]
pub fn verif_drain_all<T>(v: &mut Vec<T>) -> (r: VDrain<T>)
    ensures r.rest@ == old(v)@, final(v)@.len() == 0
{ unimplemented!() }
impl<T> VDrain<T> {
    #[verifier::external_body]
    pub fn next(&mut self) -> (r: Option<T>)
        ensures
            old(self).rest@.len() > 0 ==> r == Some(old(self).rest@[0]) && final(self).rest@ == old(self).rest@.drop_first(),
            old(self).rest@.len() == 0 ==> r is None && final(self).rest@ == old(self).rest@,
    { unimplemented!() }
}
pub assume_specification<T> [<[T]>::reverse] (s: &mut [T])
    ensures final(s)@ == old(s)@.reverse();
// `s.into_iter().map(|c| c.to_string()).collect::<String>()` - R9: havocked (content of the literal piece is not what this unit is about)
#[verifier::external_body]
pub fn verif_chars_to_string(s: Vec<char>) -> String { unimplemented!() }
#[verifier::external_body]
pub fn verif_string_into_rcstr(s: String) -> Rc<str> { unimplemented!() }

// ---------- oracle ----------
pub open spec fn is_ph(p: TemplatePart) -> bool { p is PlaceHolder }
pub open spec fn count_ph(s: Seq<TemplatePart>) -> nat
    decreases s.len()
{
    if s.len() == 0 { 0 } else { count_ph(s.drop_last()) + (if is_ph(s.last()) { 1nat } else { 0nat }) }
}
pub open spec fn no_expr_parts(s: Seq<TemplatePart>) -> bool { forall|k: int| 0 <= k < s.len() ==> !(#[trigger] s[k] is Expression) }

proof fn lemma_count_ph_push(s: Seq<TemplatePart>, p: TemplatePart)
    ensures count_ph(s.push(p)) == count_ph(s) + (if is_ph(p) { 1nat } else { 0nat })
{
    assert(s.push(p).drop_last() =~= s);
}
proof fn lemma_count_ph_bound(s: Seq<TemplatePart>)
    ensures count_ph(s) <= s.len()
    decreases s.len()
{
    if s.len() > 0 { lemma_count_ph_bound(s.drop_last()); }
}
// counting from the front gives the same number
proof fn lemma_count_ph_drop_first(s: Seq<TemplatePart>)
    requires s.len() > 0
    ensures count_ph(s) == count_ph(s.drop_first()) + (if is_ph(s[0]) { 1nat } else { 0nat })
    decreases s.len()
{
    if s.len() == 1 {
        assert(s.drop_first() =~= Seq::<TemplatePart>::empty());
        assert(s.drop_last() =~= Seq::<TemplatePart>::empty());
    } else {
        lemma_count_ph_drop_first(s.drop_last());
        assert(s.drop_last().drop_first() =~= s.drop_first().drop_last());
    }
}
proof fn lemma_count_ph_drop_first_all()
    ensures forall|s: Seq<TemplatePart>| s.len() > 0 ==> count_ph(s) == #[trigger] count_ph(s.drop_first()) + (if is_ph(s[0]) { 1nat } else { 0nat })
{
    assert forall|s: Seq<TemplatePart>| s.len() > 0 implies count_ph(s) == #[trigger] count_ph(s.drop_first()) + (if is_ph(s[0]) { 1nat } else { 0nat }) by {
        lemma_count_ph_drop_first(s);
    }
}
proof fn lemma_no_ph_reverse(s: Seq<TemplatePart>)
    requires no_ph_parts(s)
    ensures no_ph_parts(s.reverse())
{
    assert forall|k: int| 0 <= k < s.reverse().len() implies !(#[trigger] s.reverse()[k] is PlaceHolder) by {
        assert(s.reverse()[k] == s[s.len() - 1 - k]);
    }
}
proof fn lemma_count_ph_reverse(s: Seq<TemplatePart>)
    ensures count_ph(s.reverse()) == count_ph(s)
    decreases s.len()
{
    if s.len() > 0 {
        lemma_count_ph_reverse(s.drop_last());
        lemma_count_ph_drop_first(s.reverse());
        assert(s.reverse().drop_first() =~= s.drop_last().reverse());
    } else {
        assert(s.reverse() =~= s);
    }
}

pub struct SimpleTemplate();
impl SimpleTemplate {
    pub fn new() -> Self { Self() }
}

// the `@`-placeholder template parser: never an empty part list; only literal pieces and placeholders
//@ extract src/build/format.rs :: impl TemplateParser for SimpleTemplate :: fn parse
//@   impl_header impl SimpleTemplate
//@   subst "-> TemplateResult" => "-> Result<Vec<TemplatePart>, VBoxError>"
//@   subst "let mut result = Vec::new();" => "let mut result: Vec<TemplatePart> = Vec::new();"
//@   subst "let mut count = 0;" => "let mut count: usize = 0;"
//@   ret r
//@   sig <<<
        ensures r matches Ok(parts) && parts@.len() >= 1 && no_expr_parts(parts@)
//@   >>>
//@   loop 1 indexed <<<
            invariant
                it__1@ == input@, i__1 <= it__1@.len(),
                no_expr_parts(result@), count <= result@.len(), result@.len() <= 2 * i__1,
                it__1@.len() <= usize::MAX / 4,
            decreases it__1@.len() - i__1
//@   >>>
//@   before "for c in" <<<
        proof { axiom_str_len_bound(input); }
//@   >>>
//@   mutant parse_empty_template "if !buf.is_empty() || result.is_empty() {" => "if !buf.is_empty() {" expect parse
//@ end

// a str's length in chars is at most its length in bytes, which is at most isize::MAX (Rust guarantee)
#[verifier::external_body]
pub proof fn axiom_str_len_bound(s: &str)
    ensures s@.len() <= usize::MAX / 4
{ }

// AST::translate_expr (R8: the whole translator) - ASSUMED: it only appends ops (it never removes any)
#[verifier::external_body]
fn translate_expr(expr: Expression, ops: &mut OpsMap, root: &VPath)
    ensures final(ops).ops@.len() >= old(ops).ops@.len()
{ unimplemented!() }
impl Expression {
    #[verifier::external_body]
    pub fn pos(&self) -> &Position { unimplemented!() }
}

pub struct ExpressionTemplate();
impl ExpressionTemplate {
    pub fn new() -> Self { ExpressionTemplate() }
    // consume_expr (R8: runs the tokenizer and the expression parser on the `{...}` text) -
    // ASSUMED only: it consumes characters from the iterator, it never adds any
    #[verifier::external_body]
    fn consume_expr(&self, iter: &mut VChars) -> (r: Result<Expression, VBoxError>)
        ensures final(iter).rest@.len() <= old(iter).rest@.len()
    { unimplemented!() }
}
pub open spec fn no_ph_parts(s: Seq<TemplatePart>) -> bool { forall|k: int| 0 <= k < s.len() ==> !(#[trigger] s[k] is PlaceHolder) }

// the `@{expr}` template parser: never an empty part list on success; only literal pieces and expressions
//@ extract src/build/format.rs :: impl TemplateParser for ExpressionTemplate :: fn parse
//@   impl_header impl ExpressionTemplate
//@   subst "-> TemplateResult" => "-> Result<Vec<TemplatePart>, VBoxError>"
//@   subst "let mut parts = Vec::new();" => "let mut parts: Vec<TemplatePart> = Vec::new();"
//@   subst "let mut iter = input.chars();" => "let mut iter = verif_chars(input);"
//@   ret r
//@   sig <<<
        ensures r matches Ok(parts) ==> parts@.len() >= 1 && no_ph_parts(parts@)
//@   >>>
//@   loop 1 <<<
            invariant no_ph_parts(parts@)
            decreases iter.rest@.len()
//@   >>>
//@   mutant expr_parse_empty_template "if !buf.is_empty() || parts.is_empty() {" => "if !buf.is_empty() {" expect parse
//@ end

// the path rewriter applied to an embedded template expression (unit rewrite_paths): total, anything may come out (havoc)
#[verifier::external_body]
pub fn verif_rewrite_paths_havoc(expr: &mut Expression) { unimplemented!() }

//@ extract src/build/opcode/translate.rs :: impl AST :: fn translate_template_part
//@   no_impl
//@   subst "fn translate_template_part<EI: Iterator<Item = Expression>>(" => "fn translate_template_part("
//@   subst "elems: &mut EI," => "elems: &mut VDrain<Expression>,"
//@   subst "root: &Path," => "root: &VPath,"
//@   subst "let part: String = s.into_iter().map(|c| c.to_string()).collect();" => "let part: String = verif_chars_to_string(s);"
//@   subst "part.into()" => "verif_string_into_rcstr(part)"
//@   subst all "Self::translate_expr" => "translate_expr"
//@   subst? "Rewriter::new(root).walk_expression(&mut expr);" => "verif_rewrite_paths_havoc(&mut expr);"
//@   sig <<<
        requires
            // the two `unreachable!()`s and the `unwrap()`
            part is PlaceHolder ==> place_holder && old(elems).rest@.len() > 0,
            part is Expression ==> !place_holder,
        ensures
            final(ops).ops@.len() > old(ops).ops@.len(),
            part is PlaceHolder ==> final(elems).rest@ == old(elems).rest@.drop_first(),
            !(part is PlaceHolder) ==> final(elems).rest@ == old(elems).rest@,
//@   >>>
//@ end

pub struct FormatDefRest { pub template: String, pub pos: Position }

// The `"..." % (a, b, ..)` arm of AST::translate_expr: placeholders are paired with arguments.
//@ extract src/build/opcode/translate.rs :: impl AST :: fn translate_expr :: arm "FormatArgs::List(mut elems) =>"
//@   wrap <<<
fn format_list_arm(def: FormatDefRest, elems__in: Vec<Expression>, ops: &mut OpsMap, root: &VPath)
{ let mut elems = elems__in;
$BODY
}
//@   >>>
//@   rule R1
//@   subst "let mut placeholders = 0;" => "let mut placeholders: usize = 0;"
//@   subst "for p in parts.iter()" => "for p in it: parts.iter()"
//@   subst "let mut elems_iter = elems.drain(0..);" => "let mut elems_iter = verif_drain_all(&mut elems);"
//@   subst "let mut parts_iter = parts.drain(0..);" => "let mut parts_iter = verif_drain_all(&mut parts);"
//@   subst "for p in parts_iter {" => "while let Some(p) = parts_iter.next() {"
//@   subst all "Self::translate_template_part" => "translate_template_part"
//@   subst all "verif_msg()" => "verif_string_into_rcstr(verif_msg())"
//@   before "for p in it: parts.iter()" <<<
                        proof { axiom_vec_len_bound(&parts); }
//@   >>>
//@   loop 1 <<<
                            invariant
                                it.seq().len() == parts@.len(),
                                forall|k: int| 0 <= k < parts@.len() ==> *it.seq()[k] == parts@[k],
                                placeholders == count_ph(parts@.take(it.index@)),
                                placeholders <= it.index@, parts@.len() <= usize::MAX,
//@   >>>
//@   after "for p in it: parts.iter() {" <<<
                            proof {
                                lemma_count_ph_push(parts@.take(it.index@), parts@[it.index@]);
                                assert(parts@.take(it.index@ + 1) =~= parts@.take(it.index@).push(parts@[it.index@]));
                            }
//@   >>>
//@   after_loop 1 <<<
                        proof { assert(parts@.take(parts@.len() as int) =~= parts@); }
                        let ghost parts0 = parts@;
//@   >>>
//@   after "parts.reverse();" <<<
                        proof { lemma_count_ph_reverse(parts0); }
//@   >>>
//@   before "translate_template_part( def.pos.clone(), parts_iter.next().unwrap()," <<<
                        proof { lemma_count_ph_drop_first(parts_iter.rest@); }
//@   >>>
//@   loop 2 <<<
                            invariant
                                no_expr_parts(parts_iter.rest@),
                                count_ph(parts_iter.rest@) <= elems_iter.rest@.len(),
                            decreases parts_iter.rest@.len()
//@   >>>
//@   after "while let Some(p) = parts_iter.next() {" <<<
                            proof { lemma_count_ph_drop_first_all(); assert(count_ph(parts_iter.rest@) >= 0); }
//@   >>>
//@   mutant fmt_no_arity_check "if placeholders != elems.len() {" => "if false && placeholders > elems.len() {" expect format_list_arm
//@ end


// The `"..." % expr` arm (single argument bound to `item` in a new scope).
//@ extract src/build/opcode/translate.rs :: impl AST :: fn translate_expr :: arm "FormatArgs::Single(expr) =>"
//@   wrap <<<
fn format_single_arm(def: FormatDefRest, expr: Box<Expression>, ops: &mut OpsMap, root: &VPath)
$BODY
//@   >>>
//@   rule R1
//@   subst "let mut parts_iter = parts.drain(0..);" => "let mut parts_iter = verif_drain_all(&mut parts);"
//@   subst "let mut elems = Vec::new();" => "let mut elems: Vec<Expression> = Vec::new();"
//@   subst "let mut elems_iter = elems.drain(0..);" => "let mut elems_iter = verif_drain_all(&mut elems);"
//@   subst "for p in parts_iter {" => "while let Some(p) = parts_iter.next() {"
//@   subst all "Self::translate_template_part" => "translate_template_part"
//@   subst "Self::translate_expr" => "translate_expr"
//@   subst all "verif_msg()" => "verif_string_into_rcstr(verif_msg())"
//@   subst "\"item\".into()" => "verif_string_into_rcstr(verif_msg())"
//@   after "parts.reverse();" <<<
                        proof { lemma_no_ph_reverse(parts0); }
//@   >>>
//@   before "parts.reverse();" <<<
                        let ghost parts0 = parts@;
//@   >>>
//@   before "ops.push(Op::Noop, expr.pos().clone());" <<<
                        let ghost len0 = ops.ops@.len();
//@   >>>
//@   loop 1 <<<
                            invariant
                                no_ph_parts(parts_iter.rest@), scope_idx < ops.ops@.len(),
                            decreases parts_iter.rest@.len()
//@   >>>
//@   mutant single_placeholder_mode "ops, false, root, ); for" => "ops, true, root, ); for" expect format_single_arm
//@ end
} // verus!

fn main() {}
