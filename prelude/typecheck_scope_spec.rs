// ---- prelude/typecheck_scope_spec.rs: oracle of the scoping kernel of the static type checker (inside verus!) ----
// From the property statements (C10: "a function sees the bindings that existed where it was defined plus its arguments;
// neither its parameters nor anything else leak into the caller"; C06: "a let binding that carries a constraint builds iff
// the bound value conforms"), not from the code.

// ---------- parameter holes ----------
// A type hole is identified by a NAME; narrowing a hole writes the symbol of that name in whatever table is in use.
// A hole named after a parameter that survives in the shape a function exports is therefore a leak of the parameter
// into the caller's scope.
pub open spec fn in_params(n: Rc<str>, ps: Seq<Rc<str>>) -> bool {
    exists|i: int| 0 <= i < ps.len() && (#[trigger] ps[i])@ == n@
}
pub open spec fn is_param_hole(s: Shape, ps: Seq<Rc<str>>) -> bool {
    s matches Shape::Hole(pi) && in_params(pi.val, ps)
}

// nph(s, ps): NO hole named after one of ps anywhere in s (through tuples, lists, candidate sets, function and module shapes).
pub open spec fn nph(s: Shape, ps: Seq<Rc<str>>) -> bool
    decreases s
{
    match s {
        Shape::Hole(pi) => !in_params(pi.val, ps),
        Shape::Tuple(pi) => nph_fields(pi.val, ps),
        Shape::List(ns) => nph_types(ns.types, ps),
        Shape::Narrowed(ns) => nph_types(ns.types, ps),
        Shape::Func(d) => (forall|k: Rc<str>| d.args@.contains_key(k) ==> nph(#[trigger] d.args@[k], ps)) && nph(*d.ret, ps),
        Shape::Module(d) => nph_fields(d.items, ps) && nph(*d.ret, ps),
        _ => true,
    }
}
pub open spec fn nph_types(t: NarrowingShape, ps: Seq<Rc<str>>) -> bool
    decreases t
{
    match t {
        NarrowingShape::Narrowed(v) => forall|i: int| 0 <= i < v@.len() ==> nph(#[trigger] v@[i], ps),
        NarrowingShape::Any => true,
    }
}
pub open spec fn nph_fields(f: TupleShape, ps: Seq<Rc<str>>) -> bool
    decreases f
{
    forall|i: int| 0 <= i < f@.len() ==> nph((#[trigger] f@[i]).1, ps)
}

// closes(s, r, ps): r is s with every hole named after one of ps replaced by the unconstrained shape (at the hole's
// position) and NOTHING else changed: same constructors, same positions, same names, same order, same number of
// children everywhere.
pub open spec fn closes(s: Shape, r: Shape, ps: Seq<Rc<str>>) -> bool
    decreases s
{
    match s {
        Shape::Hole(pi) =>
            if in_params(pi.val, ps) { r == Shape::Narrowed(NarrowedShape { pos: pi.pos, types: NarrowingShape::Any }) } else { r == s },
        Shape::Tuple(pi) => r matches Shape::Tuple(ri) && ri.pos == pi.pos && closes_fields(pi.val, ri.val, ps),
        Shape::List(ns) => r matches Shape::List(rs) && rs.pos == ns.pos && closes_types(ns.types, rs.types, ps),
        Shape::Narrowed(ns) => r matches Shape::Narrowed(rs) && rs.pos == ns.pos && closes_types(ns.types, rs.types, ps),
        Shape::Func(d) => r matches Shape::Func(e) && e.arg_order == d.arg_order && closes(*d.ret, *e.ret, ps)
            && e.args@.dom() =~= d.args@.dom()
            && (forall|k: Rc<str>| d.args@.contains_key(k) ==> closes(#[trigger] d.args@[k], e.args@[k], ps)),
        Shape::Module(d) => r matches Shape::Module(e) && closes_fields(d.items, e.items, ps) && closes(*d.ret, *e.ret, ps),
        _ => r == s,
    }
}
pub open spec fn closes_types(t: NarrowingShape, r: NarrowingShape, ps: Seq<Rc<str>>) -> bool
    decreases t
{
    match t {
        NarrowingShape::Narrowed(v) => r matches NarrowingShape::Narrowed(w) && w@.len() == v@.len()
            && forall|i: int| 0 <= i < v@.len() ==> closes(#[trigger] v@[i], w@[i], ps),
        NarrowingShape::Any => r is Any,
    }
}
pub open spec fn closes_fields(f: TupleShape, r: TupleShape, ps: Seq<Rc<str>>) -> bool
    decreases f
{
    r@.len() == f@.len() && forall|i: int| 0 <= i < f@.len() ==> (#[trigger] r@[i]).0 == f@[i].0 && closes(f@[i].1, r@[i].1, ps)
}

// What the relation buys: the closed shape has no hole named after a parameter.
pub proof fn lemma_closes_nph(s: Shape, r: Shape, ps: Seq<Rc<str>>)
    requires closes(s, r, ps)
    ensures nph(r, ps)
    decreases s
{
    match s {
        Shape::Tuple(pi) => { lemma_closes_nph_fields(pi.val, r->Tuple_0.val, ps); }
        Shape::List(ns) => { lemma_closes_nph_types(ns.types, r->List_0.types, ps); }
        Shape::Narrowed(ns) => { lemma_closes_nph_types(ns.types, r->Narrowed_0.types, ps); }
        Shape::Func(d) => {
            let e = r->Func_0;
            lemma_closes_nph(*d.ret, *e.ret, ps);
            assert forall|k: Rc<str>| e.args@.contains_key(k) implies nph(#[trigger] e.args@[k], ps) by {
                assert(d.args@.contains_key(k));
                lemma_closes_nph(d.args@[k], e.args@[k], ps);
            }
        }
        Shape::Module(d) => {
            let e = r->Module_0;
            lemma_closes_nph_fields(d.items, e.items, ps);
            lemma_closes_nph(*d.ret, *e.ret, ps);
        }
        Shape::Hole(pi) => { assert(nph_types(NarrowingShape::Any, ps)); }
        _ => { }
    }
}
pub proof fn lemma_closes_nph_types(t: NarrowingShape, r: NarrowingShape, ps: Seq<Rc<str>>)
    requires closes_types(t, r, ps)
    ensures nph_types(r, ps)
    decreases t
{
    if let NarrowingShape::Narrowed(v) = t {
        let w = r->Narrowed_0;
        assert forall|i: int| 0 <= i < w@.len() implies nph(#[trigger] w@[i], ps) by {
            lemma_closes_nph(v@[i], w@[i], ps);
        }
    }
}
pub proof fn lemma_closes_nph_fields(f: TupleShape, r: TupleShape, ps: Seq<Rc<str>>)
    requires closes_fields(f, r, ps)
    ensures nph_fields(r, ps)
    decreases f
{
    assert forall|i: int| 0 <= i < r@.len() implies nph((#[trigger] r@[i]).1, ps) by {
        lemma_closes_nph(f@[i].1, r@[i].1, ps);
    }
}

// "only the position differs": what re-positioning a shape (Shape::with_pos) may change is the position stored in the
// top constructor and nothing below it.
pub open spec fn same_but_top_pos(a: Shape, b: Shape) -> bool {
    match (a, b) {
        (Shape::Boolean(_), Shape::Boolean(_)) | (Shape::Int(_), Shape::Int(_))
        | (Shape::Float(_), Shape::Float(_)) | (Shape::Str(_), Shape::Str(_)) => true,
        (Shape::Tuple(x), Shape::Tuple(y)) => x.val == y.val,
        (Shape::List(x), Shape::List(y)) => x.types == y.types,
        (Shape::Narrowed(x), Shape::Narrowed(y)) => x.types == y.types,
        (Shape::Func(x), Shape::Func(y)) => x == y,
        (Shape::Module(x), Shape::Module(y)) => x == y,
        (Shape::Hole(x), Shape::Hole(y)) => x.val == y.val,
        (Shape::ConstraintRef(x), Shape::ConstraintRef(y)) => x.val == y.val,
        (Shape::Import(ImportShape::Resolved(_, x)), Shape::Import(ImportShape::Resolved(_, y))) => x == y,
        (Shape::Import(ImportShape::Unresolved(x)), Shape::Import(ImportShape::Unresolved(y))) => x.val == y.val,
        (Shape::TypeErr(_, x), Shape::TypeErr(_, y)) => x == y,
        _ => false,
    }
}
pub proof fn lemma_same_but_top_pos_nph(a: Shape, b: Shape, ps: Seq<Rc<str>>)
    requires same_but_top_pos(a, b)
    ensures nph(a, ps) == nph(b, ps)
{ }
