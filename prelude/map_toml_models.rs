// ---- prelude/map_toml_models.rs: the part of the pinned toml crate (0.5.x, see Cargo.lock) that
// src/convert/toml.rs builds values with (inside verus!) ----
// needs: prelude/map_json_data.rs
pub mod toml {
    pub mod value {
        use vstd::prelude::*;
        use super::super::*;

        // toml/src/datetime.rs `pub struct Datetime`: only mentioned by the enum below, never built by ucg (R5).
        #[verifier::external_body]
        pub struct Datetime { _p: u8 }

        // ---------- Map (re-exported as toml::value::Map, `Table = Map<String, Value>`) ----------
        // toml/src/map.rs: `pub struct Map<K, V> { map: MapImpl<K, V> }` with
        // `#[cfg(not(feature = "preserve_order"))] type MapImpl<K, V> = BTreeMap<K, V>;`  ucg does not enable
        // `preserve_order` (Cargo.lock: toml depends on serde only - no indexmap), so a Table is a
        // BTreeMap<String, Value>: a finite map from key text to value, iterated in key order.
        // (Transparent only so that values inside a Map count as structurally smaller than the Map.)
        pub struct Map<K, V> { pub g: Ghost<vstd::map::Map<Seq<char>, V>>, pub k: Ghost<Option<K>> }

        impl<K, V> Map<K, V> {
            pub open spec fn view(&self) -> vstd::map::Map<Seq<char>, V> { self.g@ }
        }

        // map.rs `pub enum Entry<'a> { Vacant(VacantEntry<'a>), Occupied(OccupiedEntry<'a>) }`
        pub struct Entry<'a> { pub map: &'a mut Map<String, Value>, pub key: Ghost<Seq<char>> }

        impl Map<String, Value> {
            // map.rs `pub fn new() -> Self { Map { map: MapImpl::new() } }`
            #[verifier::external_body]
            pub fn new() -> (r: Self)
                ensures r@ == vstd::map::Map::<Seq<char>, Value>::empty()
            { unimplemented!() }

            // map.rs `pub fn entry<S: Into<String>>(&mut self, key: S) -> Entry<'_>`: `self.map.entry(key.into())`;
            // the map is not changed.  (R7: S is `String` at toml.rs's call sites.)
            #[verifier::external_body]
            pub fn entry<'a>(&'a mut self, key: String) -> (e: Entry<'a>)
                ensures *e.map == *old(self), e.key@ == key@, *final(e.map) == *final(self)
            { unimplemented!() }
        }

        impl<'a> Entry<'a> {
            // map.rs `pub fn or_insert(self, default: Value) -> &'a mut Value`:
            //   `match self { Entry::Vacant(entry) => entry.insert(default), Entry::Occupied(entry) => entry.into_mut() }`
            // FIRST INSERT WINS: a key that is already present keeps its value and `default` is dropped.
            // The returned `&mut Value` is not used by toml.rs and is not modelled.
            #[verifier::external_body]
            pub fn or_insert(self, default: Value)
                ensures final(self.map)@ == (if old(self.map)@.dom().contains(self.key@) { old(self.map)@ } else { old(self.map)@.insert(self.key@, default) })
            { unimplemented!() }
        }

        // ---------- Value: the dependency's public enum and its payload aliases, verbatim ----------
        //@ extract dep:toml/src/value.rs :: enum Value
        //@   rule R0
        //@ end
        //@ extract dep:toml/src/value.rs :: type Array
        //@   rule R0
        //@ end
        //@ extract dep:toml/src/value.rs :: type Table
        //@   rule R0
        //@ end
    }
    // toml/src/lib.rs: `pub use crate::value::Value;`
    pub use self::value::Value;
}

// simple_error::SimpleError: only constructed from a message and boxed (R5).
#[verifier::external_body]
pub struct SimpleError { _p: u8 }
impl SimpleError {
    #[verifier::external_body]
    pub fn new(msg: &str) -> SimpleError { unimplemented!() }
}

// `Box<dyn std::error::Error>` (Verus has no `dyn Error`): an opaque error value, only propagated (R5).
#[verifier::external_body]
pub struct VBoxDynError { _p: u8 }
// `Box::new(err)` coerced to `Box<dyn Error>`
#[verifier::external_body]
pub fn verif_box_dyn_error(e: SimpleError) -> VBoxDynError { unimplemented!() }

// toml.rs: `type Result = std::result::Result<toml::Value, Box<dyn error::Error>>;`
pub type TomlResult = std::result::Result<toml::Value, VBoxDynError>;

// ---------- what a decoder sees in a toml::Value ----------
// ASSUMPTION (DESIGN §5 C03): `toml::ser::to_string_pretty` prints this view faithfully and independent
// decoders agree on it.
pub open spec fn tview(j: toml::Value) -> D
    decreases j, 0int
{
    match j {
        toml::Value::String(s) => D::Str(s@),
        toml::Value::Integer(i) => D::Int(i),
        toml::Value::Float(f) => D::Float(f),
        toml::Value::Boolean(b) => D::Bool(b),
        toml::Value::Datetime(_) => D::Other,
        toml::Value::Array(a) => D::List(tlist(a@)),
        toml::Value::Table(m) => D::Obj(tobj(m@)),
    }
}

// an array: element-wise, same order
pub open spec fn tlist(a: Seq<toml::Value>) -> Seq<D>
    decreases a, 1int
{
    Seq::new(a.len(), |i: int| if 0 <= i < a.len() { tview(a[i]) } else { D::Null })
}

// a table: same keys, value-wise
pub open spec fn tobj(m: vstd::map::Map<Seq<char>, toml::Value>) -> Map<Seq<char>, D>
    decreases m, 1int
{
    Map::new(m.dom(), |k: Seq<char>| if m.dom().contains(k) { tview(m[k]) } else { D::Null })
}

// the shape of every contract below: Ok(j) exactly when the oracle has a tree, and then j's view IS that
// tree; Err exactly when the oracle says "must be an error"
pub open spec fn toml_agrees(want: Option<D>, r: TomlResult) -> bool {
    match r {
        Ok(j) => want == Some(tview(j)),
        Err(_) => want is None,
    }
}
